(* C13 model (definitions only): the pieces that connect the component models into the batch pipeline of two nodes,
   and the canonical "missing batch" schedule as an executable script.

   - Processor (mempool/src/processor.rs): for each serialized batch it receives it hashes the bytes, WRITES them to
     the store under that hash, and THEN announces the hash on the channel to the consensus: [processor].
   - A node as seen by the pipeline: the consensus state of Node.v (whose `s_batches` is the set of batch digests
     present in the store and whose EvBatch/EvDigest events are the two Processor actions), the mempool
     synchronizer state of MempoolSyncDefs.v and the byte contents of the store: [PNode].
   - [sync_script]: P (the proposer) has stored batch bytes `bs`; R receives P's block b; every message produced by a
     stage is handed to the model function of the task that receives it in the real wiring:
       consensus Core/MempoolDriver (Node.step EvPropose)  --OMemSync-->  mempool Synchronizer (msstep MSync)
         --BatchRequest-->  P's mempool Helper (mempool_helper_answer on P's store)
         --bytes-->  R's mempool receiver (mempool_dispatch)  -->  R's Processor ([processor])
         --store write-->  R's PayloadWaiter (Node.step EvBatch) and R's Synchronizer waiter (msstep MArrived)
         --digest-->  R's proposer buffer (Node.step EvDigest). *)
From Coq Require Import List NArith Bool.
From HS Require Import GTac Node MempoolSyncDefs Codec Base64Defs WireDefs ReceiveDefs.
Import ListNotations.
Open Scope N_scope.

(* byte contents of a store restricted to batch keys: digest -> bytes, newest write first *)
Definition bstore := list (N * bytes).
Fixpoint bget (d : N) (st : bstore) : option bytes :=
  match st with [] => None | (k, v) :: r => if d =? k then Some v else bget d r end.

(* processor.rs: `store.write(digest, batch).await; tx_digest.send(digest).await` *)
Inductive pact := PWrite (d : N) (v : bytes) | PAnnounce (d : N).
Definition processor (hash : bytes -> N) (batch : bytes) : list pact :=
  [PWrite (hash batch) batch; PAnnounce (hash batch)].

Record PNode := mkPN { pn_cons : State; pn_sync : MS; pn_store : bstore }.

Definition is_processor (r : route) : bool := match r with RProcessor => true | _ => false end.
Definition memsyncs (o : list Out) : list (list N * N) :=
  flat_map (fun x => match x with OMemSync m t => [(m, t)] | _ => [] end) o.

Section Script.
  Variable c : Committee.
  Variable hash : bytes -> N.          (* SHA-512/256 of the serialized batch, interned *)
  Variables P R : N.                   (* the two authorities *)
  Variables gc_depth delay : N.        (* R's mempool parameters *)
  Variable known : N -> bool.          (* membership in the mempool committee *)
  Variable hint : list N.              (* proposer payload-order hint of Node.step (irrelevant here) *)

  (* one Processor action at a node: the store write wakes the payload waiter (EvBatch) and the synchronizer's waiter
     (MArrived); the announcement reaches the proposer (EvDigest) *)
  Definition apply_pact (me : N) (n : PNode) (a : pact) : PNode :=
    match a with
    | PWrite d v => mkPN (fst (fst (step c me src_dq hint (EvBatch d) (pn_cons n))))
                         (fst (msstep me gc_depth delay known (pn_sync n) (MArrived d)))
                         ((d, v) :: pn_store n)
    | PAnnounce d => mkPN (fst (fst (step c me src_dq hint (EvDigest d) (pn_cons n)))) (pn_sync n) (pn_store n)
    end.
  Definition run_processor (me : N) (n : PNode) (batch : bytes) : PNode :=
    fold_left (apply_pact me) (processor hash batch) n.

  (* stage 1: P's Processor handles the batch bytes (P's own consensus side plays no role in the schedule: only its
     store contents do) *)
  Definition stage_P_store (storeP : bstore) (bs : bytes) : bstore :=
    fold_left (fun st a => match a with PWrite d v => (d, v) :: st | PAnnounce _ => st end) (processor hash bs) storeP.

  (* stage 2: R's core receives the proposal *)
  Definition stage_R_propose (n : PNode) (b : Block) : PNode * list Out * Node.res unit :=
    match step c R src_dq hint (EvPropose b) (pn_cons n) with
    | (s1, o1, r1) => (mkPN s1 (pn_sync n) (pn_store n), o1, r1)
    end.

  (* stage 3: R's mempool synchronizer handles the Synchronize commands, in order *)
  Fixpoint stage_R_sync (now : N) (n : PNode) (cmds : list (list N * N)) : PNode * list mreq :=
    match cmds with
    | [] => (n, [])
    | (m, t) :: r =>
        let '(ms1, q) := msstep R gc_depth delay known (pn_sync n) (MSync m t now) in
        let '(n2, q2) := stage_R_sync now (mkPN (pn_cons n) ms1 (pn_store n)) r in (n2, q ++ q2)
    end.

  (* stage 4: P's mempool helper answers the requests addressed to P: (recipient, bytes) *)
  Definition stage_P_helper (storeP : bstore) (reqs : list mreq) : list (N * bytes) :=
    flat_map (fun q => if rq_dest q =? P
                       then map (fun v => (rq_origin q, v))
                                (mempool_helper_answer (known (rq_origin q)) (map (fun d => bget d storeP) (rq_digests q)))
                       else []) reqs.

  (* stage 5: R's mempool receiver dispatches what is addressed to R; batches go to R's Processor *)
  Definition stage_R_receive (n : PNode) (msgs : list (N * bytes)) : PNode :=
    fold_left (fun n m => if (fst m =? R) && is_processor (mempool_dispatch (snd m)) then run_processor R n (snd m) else n) msgs n.

  Record script_result := mkSR {
    sr_storeP : bstore;            (* P's store after stage 1 *)
    sr_after_propose : PNode;      (* R after stage 2 *)
    sr_core_out : list Out;        (* what R's core emitted in stage 2 *)
    sr_requests : list mreq;       (* what R's synchronizer sent in stage 3 *)
    sr_answers : list (N * bytes); (* what P's helper sent in stage 4 *)
    sr_final : PNode }.            (* R after stage 5 *)

  Definition sync_script (storeP : bstore) (nR : PNode) (bs : bytes) (b : Block) (now : N) : script_result :=
    let sp := stage_P_store storeP bs in
    let '(n1, o1, _) := stage_R_propose nR b in
    let '(n2, reqs) := stage_R_sync now n1 (memsyncs o1) in
    let ans := stage_P_helper sp reqs in
    mkSR sp n1 o1 reqs ans (stage_R_receive n2 ans).
End Script.
