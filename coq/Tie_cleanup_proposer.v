(* Tie lemma for `cleanup_proposer`: the statement skeleton REGENERATED from the Rust source (GenCore.v, tools/skel.py) computes, for every
   argument and every state, exactly what the hand-written model function does (same state, same outputs, same result). *)
From Coq Require Import List NArith Bool Lia ZArith.
From Coq Require Import ZifyN ZifyBool.
From HS Require Import TieTac GenCore.
Import ListNotations.
Open Scope N_scope.

Lemma tie_cleanup_proposer c me dq hint b0 b1 b s :
  gen_cleanup_proposer c me dq hint b0 b1 b s = proposer_cleanup (b_payload b0 ++ b_payload b1 ++ b_payload b) s.
Proof. unfold gen_cleanup_proposer, proposer_cleanup. tie. Qed.
