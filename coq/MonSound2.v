(* Monitor soundness, part 2: the executable monitors of Monitors.v are TRUE on every run of the node model.
   This file: the link between [obs_of_run] and [run]; mon_c04 (from c04_noninterference, no hypothesis at all);
   mon_c15 (from step_np); the generic "keeps a field" calculus and the frame of the batch store. *)
From Coq Require Import List NArith Lia Bool.
From HS Require Import GTac Node Corr Monitors Proto Link NodeInv Global NodePanic NodeWireVotes Exact MonSoundDefs.
Import ListNotations.
Open Scope N_scope.

(* ---------- obs_of_run is the run of the model ---------- *)
Lemma obs_from_run c me evs : forall s,
  map (fun ob => (ob_out ob, ob_res ob)) (obs_from c me evs s) =
  map (fun x => (fst x, rkind_of (snd x))) (snd (run c me src_dq evs s)).
Proof.
  induction evs as [|[h e] r IH]; intros s; simpl; [reflexivity|].
  destruct (step c me src_dq h e s) as [[s1 o] res]. specialize (IH s1).
  destruct (run c me src_dq r s1) as [s2 tr]. simpl in *. rewrite IH. reflexivity.
Qed.
Lemma obs_from_length c me evs : forall s, length (obs_from c me evs s) = length evs.
Proof.
  induction evs as [|[h e] r IH]; intros s; simpl; [reflexivity|].
  destruct (step c me src_dq h e s) as [[s1 o] res]. simpl. rewrite IH. reflexivity.
Qed.
Lemma outs_of_obs_from c me evs s :
  outs_of (obs_from c me evs s) = flat_map fst (snd (run c me src_dq evs s)).
Proof.
  revert s. induction evs as [|[h e] r IH]; intros s; simpl; [reflexivity|].
  destruct (step c me src_dq h e s) as [[s1 o] res]. specialize (IH s1).
  destruct (run c me src_dq r s1) as [s2 tr]. unfold outs_of in *. simpl in *. rewrite IH. reflexivity.
Qed.

(* [along] is monotone in the hypothesis and splits over conjunctions *)
Lemma along_impl (P Q : State -> Event -> Prop) c me evs :
  (forall s e, P s e -> Q s e) -> forall s, along P c me evs s -> along Q c me evs s.
Proof.
  intros H. induction evs as [|[h e] r IH]; intros s; simpl; auto.
  intros [A B]. split; auto.
Qed.
Lemma along_and (P Q : State -> Event -> Prop) c me evs : forall s,
  along (fun s e => P s e /\ Q s e) c me evs s <-> along P c me evs s /\ along Q c me evs s.
Proof.
  induction evs as [|[h e] r IH]; intros s; simpl; [tauto|]. rewrite IH. tauto.
Qed.

(* ---------- C04: no hypothesis ---------- *)
Lemma snap_eqb_refl x : snap_eqb x x = true.
Proof. destruct x as [[[a b] d] e]. simpl. rewrite !N.eqb_refl. reflexivity. Qed.

Lemma ev_invalid_is_msg c e : ev_valid c e = false -> is_msg e = true.
Proof. destruct e; simpl; auto; discriminate. Qed.

Lemma c04_walk_sound c me evs : forall s, c04_walk c (snap s) evs (obs_from c me evs s) = true.
Proof.
  induction evs as [|[h e] r IH]; intros s; cbn [obs_from]; [reflexivity|].
  destruct (ev_valid c e) eqn:Ev.
  - destruct (step c me src_dq h e s) as [[s1 o] res]. cbn [c04_walk ob_state ob_out]. rewrite Ev. apply IH.
  - destruct (c04_noninterference c me h e s (ev_invalid_is_msg c e Ev) Ev) as [res [E _]].
    rewrite E. cbn [c04_walk ob_state ob_out]. rewrite snap_eqb_refl, Ev. apply IH.
Qed.

(* on every run of the node model, from the initial state, whatever the events (valid, forged, Byzantine) *)
Theorem mon_c04_sound c me evs : mon_c04 c evs (obs_of_run c me evs) = true.
Proof. unfold mon_c04, obs_of_run. exact (c04_walk_sound c me evs (init c)). Qed.

(* ---------- the generic "keeps field f, emits only outputs satisfying okO" calculus ---------- *)
Section Keeps.
  Context {X : Type} (f : State -> X) (okO : Out -> bool).
  Definition keeps {A} (m : M A) : Prop :=
    forall s, match m s with (s', o, _) => f s' = f s /\ forallb okO o = true end.

  Lemma keeps_ret {A} (a : A) : keeps (ret a). Proof. intros s. split; reflexivity. Qed.
  Lemma keeps_fail {A} e : keeps (@fail A e). Proof. intros s. split; reflexivity. Qed.
  Lemma keeps_panic {A} k : keeps (@panic A k). Proof. intros s. split; reflexivity. Qed.
  Lemma keeps_get : keeps get. Proof. intros s. split; reflexivity. Qed.
  Lemma keeps_lift {A} (r : res A) : keeps (lift r). Proof. intros s. split; reflexivity. Qed.
  Lemma keeps_emit o : okO o = true -> keeps (emit o).
  Proof. intros H s. unfold emit. simpl. rewrite H. split; reflexivity. Qed.
  Lemma keeps_modify g : (forall s, f (g s) = f s) -> keeps (modify g).
  Proof. intros H s. unfold modify. split; [apply H|reflexivity]. Qed.
  Lemma keeps_bind {A B} (m : M A) (k : A -> M B) : keeps m -> (forall a, keeps (k a)) -> keeps (bind m k).
  Proof.
    intros Hm Hk s. unfold bind. specialize (Hm s). destruct (m s) as [[s1 o1] r1]. destruct Hm as [E1 F1].
    destruct r1 as [a|e|n]; auto.
    specialize (Hk a s1). destruct (k a s1) as [[s2 o2] r2]. destruct Hk as [E2 F2].
    split; [congruence|]. rewrite forallb_app, F1, F2. reflexivity.
  Qed.
End Keeps.

Ltac keeps_step :=
  match goal with
  | |- keeps _ _ (ret _) => apply keeps_ret
  | |- keeps _ _ (fail _) => apply keeps_fail
  | |- keeps _ _ (panic _) => apply keeps_panic
  | |- keeps _ _ get => apply keeps_get
  | |- keeps _ _ (lift _) => apply keeps_lift
  | |- keeps _ _ (emit _) => apply keeps_emit; reflexivity
  | |- keeps _ _ (bind _ _) => apply keeps_bind; [|intros ?]
  end.
Ltac keeps_dm := match goal with |- keeps _ _ (match ?x with _ => _ end) => destruct x end.
Ltac keeps_mod :=
  solve [apply keeps_modify; intros; simpl;
         repeat match goal with |- context [if ?b then _ else _] => destruct b end; reflexivity].

Create HintDb keeps.
Ltac keeps_go := repeat first [ keeps_step | keeps_dm | keeps_mod | solve [auto 2 with keeps] | progress cbv zeta ].

(* ---------- frame of the batch store: only [EvBatch] changes it ---------- *)
Section BatchFrame.
  Variable c : Committee. Variable me : N. Variable dq : DqCfg.
  Notation bk := (keeps s_batches (fun _ => true)).

  Lemma bk_advance_round r : bk (advance_round r).
  Proof. unfold advance_round. keeps_go. Qed.
  Hint Resolve bk_advance_round : keeps.
  Lemma bk_update_high_qc q : bk (update_high_qc q).
  Proof. unfold update_high_qc. keeps_go. Qed.
  Hint Resolve bk_update_high_qc : keeps.
  Lemma bk_process_qc q : bk (process_qc q).
  Proof. unfold process_qc. keeps_go. Qed.
  Hint Resolve bk_process_qc : keeps.
  Lemma bk_generate_proposal hint tc : bk (generate_proposal me hint tc).
  Proof. unfold generate_proposal. keeps_go. Qed.
  Hint Resolve bk_generate_proposal : keeps.
  Lemma bk_proposer_cleanup ds : bk (proposer_cleanup ds).
  Proof. unfold proposer_cleanup. keeps_go. Qed.
  Hint Resolve bk_proposer_cleanup : keeps.
  Lemma bk_sync_park b : bk (sync_park b).
  Proof. unfold sync_park. keeps_go. Qed.
  Hint Resolve bk_sync_park : keeps.
  Lemma bk_get_parent_block b : bk (get_parent_block b).
  Proof. unfold get_parent_block. keeps_go. Qed.
  Hint Resolve bk_get_parent_block : keeps.
  Lemma bk_store_block b : bk (store_block b).
  Proof. unfold store_block. apply keeps_modify. intros s. reflexivity. Qed.
  Hint Resolve bk_store_block : keeps.
  Lemma bk_commit_walk lcr : forall fuel parent acc, bk (commit_walk dq fuel lcr parent acc).
  Proof. induction fuel as [|f IH]; intros parent acc; simpl; keeps_go; apply IH. Qed.
  Hint Resolve bk_commit_walk : keeps.
  Lemma bk_deliver_all l : bk (deliver_all l).
  Proof. induction l as [|b l IH]; simpl; keeps_go. Qed.
  Hint Resolve bk_deliver_all : keeps.
  Lemma bk_commit b : bk (commit dq b).
  Proof. unfold commit. keeps_go. Qed.
  Hint Resolve bk_commit : keeps.
  Lemma bk_make_vote b : bk (make_vote me b).
  Proof. unfold make_vote, increase_last_voted. keeps_go. Qed.
  Hint Resolve bk_make_vote : keeps.
  Lemma bk_handle_vote hint v : bk (handle_vote c me hint v).
  Proof. unfold handle_vote. keeps_go. Qed.
  Hint Resolve bk_handle_vote : keeps.
  Lemma bk_handle_timeout hint t : bk (handle_timeout c me hint t).
  Proof. unfold handle_timeout. keeps_go. Qed.
  Hint Resolve bk_handle_timeout : keeps.
  Lemma bk_local_timeout hint : bk (local_timeout c me hint).
  Proof. unfold local_timeout, increase_last_voted. keeps_go. Qed.
  Lemma bk_handle_tc hint tc : bk (handle_tc c me hint tc).
  Proof. unfold handle_tc. keeps_go. Qed.
  Lemma bk_pw_cleanup r : bk (pw_cleanup r).
  Proof. unfold pw_cleanup. keeps_go. Qed.
  Hint Resolve bk_pw_cleanup : keeps.
  Lemma bk_mempool_verify b : bk (mempool_verify b).
  Proof. unfold mempool_verify. keeps_go. Qed.
  Hint Resolve bk_mempool_verify : keeps.
  Lemma bk_process_block hint b : bk (process_block c me dq hint b).
  Proof. unfold process_block. keeps_go. Qed.
  Hint Resolve bk_process_block : keeps.
  Lemma bk_handle_proposal hint b : bk (handle_proposal c me dq hint b).
  Proof. unfold handle_proposal. keeps_go. Qed.

  (* the batch store after a step: the stored batch in front for [EvBatch], unchanged otherwise *)
  Theorem step_batches hint e s :
    s_batches (fst (fst (step c me dq hint e s))) =
    match e with EvBatch d => d :: s_batches s | _ => s_batches s end.
  Proof.
    assert (K : forall m : M unit, bk m -> s_batches (fst (fst (m s))) = s_batches s).
    { intros m Hm. specialize (Hm s). destruct (m s) as [[s1 o] r]. apply Hm. }
    destruct e as [b|v|t|tc|b| |d|d| ]; cbn [step].
    - apply K, bk_handle_proposal.
    - apply K, bk_handle_vote.
    - apply K, bk_handle_timeout.
    - apply K, bk_handle_tc.
    - apply K. keeps_go.
    - apply K, bk_local_timeout.
    - reflexivity.
    - apply K. keeps_go.
    - apply K. keeps_go.
  Qed.
End BatchFrame.

(* ---------- "vquiet" computations: no vote and no timeout on the wire, last-voted round untouched ---------- *)
Definition okq (o : Out) : bool := match o with OVote _ _ | OTimeout _ => false | _ => true end.
Notation vquiet := (keeps s_last_voted okq).

Lemma okq_votes o : forallb okq o = true -> votes_of o = [].
Proof.
  induction o as [|x r IH]; simpl; [reflexivity|]. intros H. apply andb_true_iff in H. destruct H as [H1 H2].
  destruct x; simpl in *; try discriminate; auto.
Qed.
Lemma okq_timeouts o : forallb okq o = true -> timeouts_of o = [].
Proof.
  induction o as [|x r IH]; simpl; [reflexivity|]. intros H. apply andb_true_iff in H. destruct H as [H1 H2].
  destruct x; simpl in *; try discriminate; auto.
Qed.
Lemma votes_of_app a b : votes_of (a ++ b) = votes_of a ++ votes_of b.
Proof. unfold votes_of. apply flat_map_app. Qed.
Lemma timeouts_of_app a b : timeouts_of (a ++ b) = timeouts_of a ++ timeouts_of b.
Proof. unfold timeouts_of. apply flat_map_app. Qed.
Lemma commits_of_app a b : commits_of (a ++ b) = commits_of a ++ commits_of b.
Proof. unfold commits_of. apply flat_map_app. Qed.

Section Quiet.
  Variable c : Committee. Variable me : N. Variable dq : DqCfg.

  Lemma q_advance_round r : vquiet (advance_round r).
  Proof. unfold advance_round. keeps_go. Qed.
  Hint Resolve q_advance_round : keeps.
  Lemma q_update_high_qc q : vquiet (update_high_qc q).
  Proof. unfold update_high_qc. keeps_go. Qed.
  Hint Resolve q_update_high_qc : keeps.
  Lemma q_process_qc q : vquiet (process_qc q).
  Proof. unfold process_qc. keeps_go. Qed.
  Hint Resolve q_process_qc : keeps.
  Lemma q_generate_proposal hint tc : vquiet (generate_proposal me hint tc).
  Proof. unfold generate_proposal. keeps_go. Qed.
  Hint Resolve q_generate_proposal : keeps.
  Lemma q_proposer_cleanup ds : vquiet (proposer_cleanup ds).
  Proof. unfold proposer_cleanup. keeps_go. Qed.
  Hint Resolve q_proposer_cleanup : keeps.
  Lemma q_sync_park b : vquiet (sync_park b).
  Proof. unfold sync_park. keeps_go. Qed.
  Hint Resolve q_sync_park : keeps.
  Lemma q_get_parent_block b : vquiet (get_parent_block b).
  Proof. unfold get_parent_block. keeps_go. Qed.
  Hint Resolve q_get_parent_block : keeps.
  Lemma q_store_block b : vquiet (store_block b).
  Proof. unfold store_block. apply keeps_modify. intros s. reflexivity. Qed.
  Hint Resolve q_store_block : keeps.
  Lemma q_commit_walk lcr : forall fuel parent acc, vquiet (commit_walk dq fuel lcr parent acc).
  Proof. induction fuel as [|f IH]; intros parent acc; simpl; keeps_go; apply IH. Qed.
  Hint Resolve q_commit_walk : keeps.
  Lemma q_deliver_all l : vquiet (deliver_all l).
  Proof. induction l as [|b l IH]; simpl; keeps_go. Qed.
  Hint Resolve q_deliver_all : keeps.
  Lemma q_commit b : vquiet (commit dq b).
  Proof. unfold commit. keeps_go. Qed.
  Hint Resolve q_commit : keeps.
  Lemma q_handle_vote hint v : vquiet (handle_vote c me hint v).
  Proof. unfold handle_vote. keeps_go. Qed.
  Hint Resolve q_handle_vote : keeps.
  Lemma q_handle_timeout hint t : vquiet (handle_timeout c me hint t).
  Proof. unfold handle_timeout. keeps_go. Qed.
  Hint Resolve q_handle_timeout : keeps.
  Lemma q_handle_tc hint tc : vquiet (handle_tc c me hint tc).
  Proof. unfold handle_tc. keeps_go. Qed.
  Lemma q_pw_cleanup r : vquiet (pw_cleanup r).
  Proof. unfold pw_cleanup. keeps_go. Qed.
  Hint Resolve q_pw_cleanup : keeps.
  Lemma q_mempool_verify b : vquiet (mempool_verify b).
  Proof. unfold mempool_verify. keeps_go. Qed.
  Hint Resolve q_mempool_verify : keeps.
  Lemma q_batch_stored d : vquiet (batch_stored d).
  Proof. unfold batch_stored. keeps_go. Qed.
End Quiet.
Global Hint Resolve q_advance_round q_update_high_qc q_process_qc q_generate_proposal q_proposer_cleanup q_sync_park
  q_get_parent_block q_store_block q_commit_walk q_deliver_all q_commit q_handle_vote q_handle_timeout q_handle_tc
  q_pw_cleanup q_mempool_verify q_batch_stored : keeps.

(* ---------- the one place a vote is cast and sent: what a step that processes block [x] may do ---------- *)
Lemma list_max_le l m : list_max l = Some m -> forall x, In x l -> x <= m.
Proof.
  unfold list_max. destruct l as [|y ys]; [discriminate|]. intros H. inversion H; subst. clear H.
  assert (G : forall l a x, In x (a :: l) -> x <= fold_left N.max l a).
  { induction l as [|z zs IH]; simpl; intros a x Hx.
    - destruct Hx as [<-|[]]. lia.
    - destruct Hx as [<-|[<-|Hx]].
      + specialize (IH (N.max a z) (N.max a z) (or_introl eq_refl)). lia.
      + specialize (IH (N.max a z) (N.max a z) (or_introl eq_refl)). lia.
      + apply IH. right. exact Hx. }
  intros x Hx. apply G. exact Hx.
Qed.

Section Votes.
  Variable c : Committee. Variable me : N. Variable dq : DqCfg.

  (* a vote for [x] was cast between [s] and [s']: the last-voted rule held and moved to the block's round, the vote
     is in the ghost history with the round of the block's QC, the extension rule held, and at most that one vote
     went on the wire (none when this node is the next leader and handles its own vote) *)
  Definition cast_case (x : Block) (s s' : State) (o : list Out) : Prop :=
    s_last_voted s < b_round x /\ s_last_voted s' = b_round x /\
    (exists j, In (HVote (block_digest x) (qc_round (b_qc x)) j) (s_hist s')) /\
    rule_ok x = true /\
    (votes_of o = [] \/ votes_of o = [vote_for me x]).
  Definition vspec (x : Block) {A} (m : M A) : Prop :=
    forall s, match m s with
              | (s', o, _) => timeouts_of o = [] /\
                              ((votes_of o = [] /\ s_last_voted s' = s_last_voted s) \/ cast_case x s s' o)
              end.

  Lemma vspec_of_quiet x {A} (m : M A) : vquiet m -> vspec x m.
  Proof.
    intros Q s. specialize (Q s). destruct (m s) as [[s' o] r]. destruct Q as [E F].
    split; [apply okq_timeouts; exact F|]. left. split; [apply okq_votes; exact F|exact E].
  Qed.
  Lemma vspec_bind_quiet x {A B} (m : M A) (k : A -> M B) : vquiet m -> (forall a, vspec x (k a)) -> vspec x (bind m k).
  Proof.
    intros Q Hk s. unfold bind. specialize (Q s). destruct (m s) as [[s1 o1] r1]. destruct Q as [E F].
    pose proof (okq_votes _ F) as V1. pose proof (okq_timeouts _ F) as T1.
    destruct r1 as [a|e|n]; [|split; [exact T1|left; split; [exact V1|exact E]]..].
    specialize (Hk a s1). destruct (k a s1) as [[s2 o2] r2]. destruct Hk as [T2 C].
    unfold cast_case in *. rewrite votes_of_app, timeouts_of_app, V1, T1. simpl. split; [exact T2|].
    destruct C as [[V2 L2]|[C1 [C2 [C3 [C4 C5]]]]]; [left; split; [exact V2|congruence]|right].
    rewrite <- E. auto.
  Qed.

  Lemma make_vote_spec x s :
    match make_vote me x s with
    | (s', o, r) =>
        o = [] /\
        ((s_last_voted s' = s_last_voted s /\ s_hist s' = s_hist s /\ (forall v, r <> ROk (Some v))) \/
         (r = ROk (Some (vote_for me x)) /\ s_last_voted s < b_round x /\ s_last_voted s' = b_round x /\
          (exists j, s_hist s' = HVote (block_digest x) (qc_round (b_qc x)) j :: s_hist s) /\ rule_ok x = true))
    end.
  Proof.
    unfold make_vote, increase_last_voted, bind, get, modify, ret, panic, rule_ok. cbn [fst snd]. gunf.
    destruct (b_tc x) as [tc|]; cbn [app].
    - destruct (list_max (tc_hqrs tc)) as [m|] eqn:Em; cbn [app].
      2:{ split; [reflexivity|]. left. repeat split; auto; discriminate. }
      destruct (s_last_voted s <? b_round x) eqn:E1; cbn [andb negb].
      2:{ split; [reflexivity|]. left. repeat split; auto; discriminate. }
      destruct (qc_round (b_qc x) + 1 =? b_round x) eqn:E2; cbn [orb negb app].
      + split; [reflexivity|]. right. apply N.ltb_lt in E1. cbn [s_last_voted s_hist set_hist set_last_voted].
        split; [reflexivity|]. split; [exact E1|]. split; [lia|]. split; [eexists; reflexivity|reflexivity].
      + destruct ((tc_round tc + 1 =? b_round x) && (m <=? qc_round (b_qc x))) eqn:E3; cbn [negb app].
        2:{ split; [reflexivity|]. left. repeat split; auto; discriminate. }
        split; [reflexivity|]. right. apply N.ltb_lt in E1. cbn [s_last_voted s_hist set_hist set_last_voted].
        split; [reflexivity|]. split; [exact E1|]. split; [lia|]. split; [eexists; reflexivity|].
        apply andb_true_iff in E3. destruct E3 as [E3 E4]. rewrite E3. cbn [andb].
        apply forallb_forall. intros hq Hq. apply N.leb_le. apply N.leb_le in E4.
        pose proof (list_max_le _ _ Em hq Hq). lia.
    - destruct (s_last_voted s <? b_round x) eqn:E1; cbn [andb negb app].
      2:{ split; [reflexivity|]. left. repeat split; auto; discriminate. }
      destruct (qc_round (b_qc x) + 1 =? b_round x) eqn:E2; cbn [orb negb app].
      2:{ split; [reflexivity|]. left. repeat split; auto; discriminate. }
      split; [reflexivity|]. right. apply N.ltb_lt in E1. cbn [s_last_voted s_hist set_hist set_last_voted].
      split; [reflexivity|]. split; [exact E1|]. split; [lia|]. split; [eexists; reflexivity|reflexivity].
  Qed.

  Lemma vspec_vote_tail hint x nl :
    vspec x (ov <- make_vote me x ;;
             match ov with
             | None => ret tt
             | Some v => if nl =? me then handle_vote c me hint v else emit (OVote nl v)
             end).
  Proof.
    intros s. unfold bind. pose proof (make_vote_spec x s) as V.
    destruct (make_vote me x s) as [[s1 o1] r1].
    destruct V as [-> [[L [H Nn]]|[-> [C1 [C2 [[j Hj] C4]]]]]].
    - destruct r1 as [[v|]|e|n]; [exfalso; eapply Nn; reflexivity| | |]; cbn [app].
      all: try (split; [reflexivity|left; split; [reflexivity|exact L]]).
    - destruct (nl =? me).
      + pose proof (q_handle_vote c me hint (vote_for me x) s1) as Q.
        pose proof (wg_handle_vote c me hint (vote_for me x) s1) as W. unfold wg_at, wst in W.
        destruct (handle_vote c me hint (vote_for me x) s1) as [[s2 o2] r2]. cbn [fst snd app] in *.
        destruct Q as [E F]. destruct W as [[pre Hp] _].
        split; [apply okq_timeouts; exact F|]. right. unfold cast_case.
        split; [exact C1|]. split; [congruence|]. split; [|split; [exact C4|left; apply okq_votes; exact F]].
        exists j. rewrite Hp, Hj. apply in_or_app. right. left. reflexivity.
      + unfold emit. cbn [app]. split; [reflexivity|]. right. unfold cast_case.
        split; [exact C1|]. split; [exact C2|]. split; [exists j; rewrite Hj; left; reflexivity|].
        split; [exact C4|right; reflexivity].
  Qed.

  Lemma vspec_process_block hint x : vspec x (process_block c me dq hint x).
  Proof.
    unfold process_block.
    apply vspec_bind_quiet; [auto with keeps|]. intros [b1|]; [|apply vspec_of_quiet, keeps_ret].
    apply vspec_bind_quiet; [auto with keeps|]. intros [b0|]; [|apply vspec_of_quiet, keeps_panic].
    apply vspec_bind_quiet; [auto with keeps|]. intros _.
    apply vspec_bind_quiet; [auto with keeps|]. intros _.
    apply vspec_bind_quiet; [keeps_go|]. intros _.
    apply vspec_bind_quiet; [apply keeps_get|]. intros s.
    destruct (g_round_gate _ _ _ _ _ _); [apply vspec_of_quiet, keeps_ret|].
    apply vspec_vote_tail.
  Qed.

  (* which block a step processes: the proposal itself, once the leader test and the verification passed, or the
     block the loop-back selector finds in the pool *)
  Definition processed (e : Event) (s : State) (x : Block) : Prop :=
    match e with
    | EvPropose b => x = b /\ b_author b = leader c (b_round b) /\ block_verify c b = ROk tt
    | EvLoopback b => exists l, remove_first b (s_loopback s) = Some (x, l)
    | _ => False
    end.

  Definition own_timeout (s : State) : Timeout :=
    mkTimeout (s_high_qc s) (s_round s) me (SigOf me (CTimeout (s_round s) (qc_round (s_high_qc s)))).

  Theorem step_votes hint e s :
    match step c me dq hint e s with
    | (s', o, _) =>
        timeouts_of o = match e with EvTimer => [own_timeout s] | _ => [] end /\
        (match e with EvTimer => s_last_voted s' = N.max (s_last_voted s) (s_round s) | _ => True end) /\
        ((votes_of o = [] /\ (e <> EvTimer -> s_last_voted s' = s_last_voted s)) \/
         exists x, processed e s x /\ cast_case x s s' o)
    end.
  Proof.
    assert (Q : forall m : M unit, vquiet m -> e <> EvTimer ->
                match m s with
                | (s', o, _) =>
                    timeouts_of o = [] /\ True /\
                    ((votes_of o = [] /\ (e <> EvTimer -> s_last_voted s' = s_last_voted s)) \/
                     exists x, processed e s x /\ cast_case x s s' o)
                end).
    { intros m Hm _. specialize (Hm s). destruct (m s) as [[s1 o] r]. destruct Hm as [E F].
      split; [apply okq_timeouts; exact F|]. split; [exact I|]. left. split; [apply okq_votes; exact F|intros _; exact E]. }
    destruct e as [b|v|t|tc|b| |d|d| ]; cbn [step].
    - (* proposal *)
      unfold handle_proposal. unfold bind at 1.
      destruct (b_author b =? leader c (b_round b)) eqn:El.
      2:{ unfold fail. split; [reflexivity|]. split; [exact I|]. left. split; [reflexivity|reflexivity]. }
      unfold ret at 1. unfold bind at 1. unfold lift at 1.
      destruct (block_verify c b) as [[]|er|k] eqn:Eb.
      2:{ split; [reflexivity|]. split; [exact I|]. left. split; reflexivity. }
      2:{ split; [reflexivity|]. split; [exact I|]. left. split; reflexivity. }
      cbn [app].
      match goal with |- context [bind (process_qc (b_qc b)) ?K s] => set (M := bind (process_qc (b_qc b)) K) end.
      assert (V : vspec b M).
      { apply vspec_bind_quiet; [auto with keeps|]. intros _.
        apply vspec_bind_quiet; [keeps_go|]. intros _.
        apply vspec_bind_quiet; [auto with keeps|]. intros [|]; [apply vspec_process_block|apply vspec_of_quiet, keeps_ret]. }
      specialize (V s). destruct (M s) as [[s1 o] r].
      destruct V as [T [[V L]|C]]; (split; [exact T|]; split; [exact I|]).
      + left. split; [exact V|intros _; exact L].
      + right. exists b. split; [|exact C]. split; [reflexivity|]. split; [apply N.eqb_eq; exact El|exact Eb].
    - apply Q; [auto with keeps|discriminate].
    - apply Q; [auto with keeps|discriminate].
    - apply Q; [auto with keeps|discriminate].
    - (* loop-back *)
      unfold bind at 1. unfold get at 1.
      destruct (remove_first b (s_loopback s)) as [[x l]|] eqn:Er.
      2:{ unfold emit. split; [reflexivity|]. split; [exact I|]. left. split; reflexivity. }
      assert (V : vspec x (modify (fun s0 => set_loopback s0 l) ;;; process_block c me dq hint x)).
      { apply vspec_bind_quiet; [keeps_go|]. intros _. apply vspec_process_block. }
      specialize (V s). cbn [app].
      destruct ((modify (fun s0 => set_loopback s0 l) ;;; process_block c me dq hint x) s) as [[s1 o] r].
      destruct V as [T [[V L]|C]]; (split; [exact T|]; split; [exact I|]).
      + left. split; [exact V|intros _; exact L].
      + right. exists x. split; [exists l; exact Er|exact C].
    - (* timer *)
      unfold local_timeout. unfold bind at 1. unfold get at 1.
      unfold bind at 1. unfold increase_last_voted at 1. unfold modify at 1.
      unfold bind at 1. unfold modify at 1. unfold bind at 1. unfold emit at 1. cbn [app].
      match goal with |- context [handle_timeout c me hint ?T ?S] =>
        pose proof (q_handle_timeout c me hint T S) as H;
        destruct (handle_timeout c me hint T S) as [[s3 o3] r3] end.
      destruct H as [E F]. cbn [timeouts_of flat_map votes_of app] in *.
      fold (timeouts_of o3). fold (votes_of o3). rewrite (okq_timeouts _ F), (okq_votes _ F).
      split; [reflexivity|]. split; [exact E|]. left. split; [reflexivity|]. intros H; congruence.
    - apply Q; [auto with keeps|discriminate].
    - apply Q; [keeps_go|discriminate].
    - apply Q; [keeps_go|discriminate].
  Qed.
End Votes.

Lemma remove_first_eqb b l x r : remove_first b l = Some (x, r) -> block_eqb b x = true.
Proof.
  revert x r. induction l as [|z zs IH]; simpl; intros x r Hr; [discriminate|].
  destruct (block_eqb b z) eqn:E.
  - inversion Hr; subst. exact E.
  - destruct (remove_first b zs) as [[y r']|] eqn:E2; [|discriminate]. inversion Hr; subst. eapply IH; eauto.
Qed.
Lemma remove_first_digest b l x r : remove_first b l = Some (x, r) -> block_digest b = block_digest x.
Proof. intros H. apply remove_first_eqb in H. unfold block_eqb in H. apply digest_eqb_eq in H. exact H. Qed.

(* the block named by the event of a step that processes [x] has the digest of [x] *)
Lemma processed_ev_block c e s x :
  processed c e s x -> exists b, ev_block e = Some b /\ block_digest b = block_digest x.
Proof.
  destruct e as [b|v|t|tc|b| |d|d| ]; simpl; try contradiction.
  - intros [-> _]. exists b. auto.
  - intros [l Hr]. exists b. split; [reflexivity|]. eapply remove_first_digest; eauto.
Qed.

(* ---------- C15 (core part): on admissible runs no step of the model panics ---------- *)
Section C15.
  Variable c : Committee.
  Variable me : N.
  Variable honest : N -> bool.
  Hypothesis members_nodup : NoDup (members c).
  Hypothesis me_honest : honest me = true.
  Variable w0 : world.
  Hypothesis byz_bound : 3 * byz_stake (stk c) (members c) honest < total (stk c) (members c).

  Lemma c15_from evs : forall s,
    Inv c me honest w0 s -> Closed s -> along (ev_adm c me honest w0) c me evs s ->
    mon_c15 (obs_from c me evs s) = true.
  Proof.
    induction evs as [|[h e] r IH]; intros s HI HC HA; cbn [obs_from]; [reflexivity|].
    destruct HA as [Ha HA].
    pose proof (step_inv c me honest members_nodup me_honest w0 byz_bound h e s HI Ha) as SI.
    pose proof (step_np c me honest members_nodup me_honest w0 byz_bound h e s HI HC Ha) as SP.
    destruct (step c me src_dq h e s) as [[s1 o] res]. cbn [fst] in HA.
    destruct SI as [I1 _]. destruct SP as [NP C1].
    unfold mon_c15. cbn [forallb ob_res]. fold (mon_c15 (obs_from c me r s1)). rewrite (IH s1 I1 C1 HA).
    destruct res as [[]|er|k]; try reflexivity. exfalso. eapply NP; reflexivity.
  Qed.

  Lemma Closed_init : Closed (init c).
  Proof. intros d b []. Qed.

  Theorem mon_c15_sound evs :
    along (ev_adm c me honest w0) c me evs (init c) -> mon_c15 (obs_of_run c me evs) = true.
  Proof.
    intros HA. apply c15_from; [|apply Closed_init|exact HA].
    apply (Global.Inv_init c honest byz_bound).
  Qed.
End C15.
