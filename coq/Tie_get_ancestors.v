(* Tie lemma for `get_ancestors`: the statement skeleton REGENERATED from the Rust source (GenCore.v, tools/skel.py) computes, for every
   argument and every state, exactly what the hand-written model function does (same state, same outputs, same result). *)
From Coq Require Import List NArith Bool Lia ZArith.
From Coq Require Import ZifyN ZifyBool.
From HS Require Import TieTac GenCore.
Import ListNotations.
Open Scope N_scope.

Lemma tie_get_ancestors c me dq hint b s : gen_get_ancestors c me dq hint b s = get_ancestors b s.
Proof. unfold gen_get_ancestors, get_ancestors. tie. Qed.
