(* C13, receiving side: "no state in which all batches of a block are present and the block is still parked".

   PwInv: every entry (missing, block) of the payload waiter has a non-empty `missing` list, made of digests of the
   block's payload, none of which is in the store. It holds initially and is preserved by EVERY step of the node model
   on every input (c13_pw_step), hence in every reachable state of the global model (c13_pw_reachable). Consequences:
     c13_no_stall       a parked block always still lacks one of its own batches: the moment its last missing batch
                        is stored it is no longer parked (batch_stored moves it to the loop-back pool);
     c13_parked_exact   together with C08's av_pw: for a parked block, a payload digest is listed as missing iff it is
                        not in the store. *)
From Coq Require Import List NArith Lia Bool.
From HS Require Import GTac Node NodeAvail GlobalAvail.
Import ListNotations.
Open Scope N_scope.

Record PwInv (s : State) : Prop := {
  pw_nonempty : forall m b, In (m, b) (s_pw_pending s) -> m <> [];
  pw_missing : forall m b x, In (m, b) (s_pw_pending s) -> In x m -> ~ In x (s_batches s);
  pw_payload : forall m b, In (m, b) (s_pw_pending s) -> incl m (b_payload b)
}.

Theorem c13_no_stall s m b :
  PwInv s -> In (m, b) (s_pw_pending s) -> exists x, In x (b_payload b) /\ ~ In x (s_batches s).
Proof.
  intros [H1 H2 H3] Hin. destruct m as [|x m']; [exfalso; exact (H1 _ _ Hin eq_refl)|].
  exists x. split; [apply (H3 _ _ Hin); left; reflexivity|apply (H2 _ _ x Hin); left; reflexivity].
Qed.
Corollary c13_all_present_not_parked s m b :
  PwInv s -> incl (b_payload b) (s_batches s) -> ~ In (m, b) (s_pw_pending s).
Proof. intros H Hall Hin. destruct (c13_no_stall s m b H Hin) as [x [Hx Hn]]. apply Hn, Hall, Hx. Qed.
Theorem c13_parked_exact s m b x :
  PwInv s -> AvInv s -> In (m, b) (s_pw_pending s) -> In x (b_payload b) -> (In x m <-> ~ In x (s_batches s)).
Proof.
  intros H A Hin Hx. split.
  - intro Hm. exact (pw_missing s H _ _ x Hin Hm).
  - intro Hn. destruct (av_pw s A _ _ Hin x Hx) as [K|K]; [contradiction|exact K].
Qed.

(* ---------------------------------------------------------------- preservation *)
Definition pwp {A} (m : M A) : Prop := forall s, PwInv s -> PwInv (st (m s)).

Lemma pwp_ret {A} (a : A) : pwp (ret a). Proof. intros s H; exact H. Qed.
Lemma pwp_fail {A} e : pwp (@fail A e). Proof. intros s H; exact H. Qed.
Lemma pwp_panic {A} k : pwp (@panic A k). Proof. intros s H; exact H. Qed.
Lemma pwp_get : pwp get. Proof. intros s H; exact H. Qed.
Lemma pwp_lift {A} (r : res A) : pwp (lift r). Proof. intros s H; exact H. Qed.
Lemma pwp_emit o : pwp (emit o). Proof. intros s H; exact H. Qed.
Lemma pwp_bind {A B} (m : M A) (f : A -> M B) : pwp m -> (forall a, pwp (f a)) -> pwp (bind m f).
Proof.
  intros Hm Hf s H. unfold bind. specialize (Hm s H). destruct (m s) as [[s1 o1] r1]. unfold st in *. simpl in *.
  destruct r1 as [a|e|k]; simpl; auto. specialize (Hf a s1 Hm). destruct (f a s1) as [[s2 o2] r2]. exact Hf.
Qed.
(* an update that touches neither the payload waiter nor the set of stored batches *)
Lemma pwp_modify_frame f :
  (forall s, s_pw_pending (f s) = s_pw_pending s /\ s_batches (f s) = s_batches s) -> pwp (modify f).
Proof.
  intros Hf s [H1 H2 H3]. unfold modify, st. simpl. destruct (Hf s) as [E1 E2]. constructor; rewrite ?E1, ?E2; auto.
Qed.

Ltac pw_frame := apply pwp_modify_frame; intro; split; reflexivity.
Ltac pw_step :=
  first [ apply pwp_ret | apply pwp_fail | apply pwp_panic | apply pwp_get | apply pwp_lift | apply pwp_emit
        | pw_frame
        | apply pwp_bind; [|intro]
        | match goal with
          | |- pwp (if ?c then _ else _) => destruct c
          | |- pwp (match ?x with _ => _ end) => destruct x
          end ].
Ltac pw_auto := repeat (first [ assumption | solve [auto with pw] | pw_step ]).

Section Pw.
  Variable c : Committee. Variable me : N. Variable dq : DqCfg.

  Lemma pwp_advance_round r : pwp (advance_round r).
  Proof. unfold advance_round. pw_auto. Qed.
  Lemma pwp_update_high_qc q : pwp (update_high_qc q).
  Proof. unfold update_high_qc. apply pwp_modify_frame. intro s. destruct (g_update_high_qc _ _ _ _ _); split; reflexivity. Qed.
  Hint Resolve pwp_advance_round pwp_update_high_qc : pw.
  Lemma pwp_process_qc q : pwp (process_qc q).
  Proof. unfold process_qc. pw_auto. Qed.
  Hint Resolve pwp_process_qc : pw.
  Lemma pwp_generate_proposal hint tc : pwp (generate_proposal me hint tc).
  Proof. unfold generate_proposal. pw_auto. Qed.
  Lemma pwp_proposer_cleanup ds : pwp (proposer_cleanup ds).
  Proof. unfold proposer_cleanup. pw_auto. Qed.
  Hint Resolve pwp_generate_proposal pwp_proposer_cleanup : pw.
  Lemma pwp_sync_park b : pwp (sync_park b).
  Proof. unfold sync_park. pw_auto. Qed.
  Hint Resolve pwp_sync_park : pw.
  Lemma pwp_get_parent_block b : pwp (get_parent_block b).
  Proof. unfold get_parent_block. pw_auto. Qed.
  Hint Resolve pwp_get_parent_block : pw.
  Lemma pwp_store_block b : pwp (store_block b).
  Proof. unfold store_block. pw_auto. Qed.
  Hint Resolve pwp_store_block : pw.
  Lemma pwp_commit_walk fuel : forall lcr parent acc, pwp (commit_walk dq fuel lcr parent acc).
  Proof. induction fuel as [|f IH]; intros; cbn [commit_walk]; pw_auto. Qed.
  Lemma pwp_deliver_all l : pwp (deliver_all l).
  Proof. induction l as [|b l IH]; cbn [deliver_all]; pw_auto. Qed.
  Hint Resolve pwp_commit_walk pwp_deliver_all : pw.
  Lemma pwp_commit b : pwp (commit dq b).
  Proof. unfold commit. pw_auto. Qed.
  Hint Resolve pwp_commit : pw.
  Lemma pwp_increase_last_voted r : pwp (increase_last_voted r).
  Proof. unfold increase_last_voted. pw_auto. Qed.
  Hint Resolve pwp_increase_last_voted : pw.
  Lemma pwp_make_vote b : pwp (make_vote me b).
  Proof. unfold make_vote. pw_auto. Qed.
  Hint Resolve pwp_make_vote : pw.
  Lemma pwp_handle_vote hint v : pwp (handle_vote c me hint v).
  Proof. unfold handle_vote. pw_auto. Qed.
  Hint Resolve pwp_handle_vote : pw.
  Lemma pwp_handle_timeout hint t : pwp (handle_timeout c me hint t).
  Proof. unfold handle_timeout. pw_auto. Qed.
  Hint Resolve pwp_handle_timeout : pw.
  Lemma pwp_local_timeout hint : pwp (local_timeout c me hint).
  Proof. unfold local_timeout. pw_auto. Qed.
  Lemma pwp_handle_tc hint tc : pwp (handle_tc c me hint tc).
  Proof. unfold handle_tc. pw_auto. Qed.
  Hint Resolve pwp_local_timeout pwp_handle_tc : pw.

  (* the three functions that do touch the payload waiter or the set of stored batches *)
  Lemma pwp_pw_cleanup r : pwp (pw_cleanup r).
  Proof.
    intros s [H1 H2 H3]. unfold pw_cleanup, modify, st. simpl. constructor; simpl.
    - intros m b Hin. apply filter_In in Hin. eapply H1. apply Hin.
    - intros m b x Hin. apply filter_In in Hin. eapply H2. apply Hin.
    - intros m b Hin. apply filter_In in Hin. eapply H3. apply Hin.
  Qed.
  Hint Resolve pwp_pw_cleanup : pw.
  Lemma pwp_mempool_verify b : pwp (mempool_verify b).
  Proof.
    intros s H. unfold mempool_verify, bind, get, emit, modify, ret, st. simpl.
    destruct (filter (fun x => negb (memN x (s_batches s))) (b_payload b)) as [|x xs] eqn:Ef; simpl; [exact H|].
    destruct (existsb _ (s_pw_pending s)); simpl; [exact H|].
    destruct H as [H1 H2 H3]. constructor; simpl.
    - intros m b' Hin. apply in_app_or in Hin. destruct Hin as [Hin|[Hin|[]]]; [eapply H1; eauto|]. inversion Hin. discriminate.
    - intros m b' y Hin Hy. apply in_app_or in Hin. destruct Hin as [Hin|[Hin|[]]]; [eapply H2; eauto|].
      inversion Hin; subst. rewrite <- Ef in Hy. apply filter_In in Hy. destruct Hy as [_ Hy].
      intro K. apply memN_in in K. rewrite K in Hy. discriminate.
    - intros m b' Hin. apply in_app_or in Hin. destruct Hin as [Hin|[Hin|[]]]; [eapply H3; eauto|].
      inversion Hin; subst. intros y Hy. rewrite <- Ef in Hy. apply filter_In in Hy. tauto.
  Qed.
  Lemma pwp_batch_stored d : pwp (batch_stored d).
  Proof.
    intros s [H1 H2 H3]. unfold batch_stored, modify, st. simpl. constructor; simpl.
    - intros m b Hin. apply filter_In in Hin. destruct Hin as [_ Hm]. simpl in Hm. intros ->. discriminate.
    - intros m b x Hin Hx. apply filter_In in Hin. destruct Hin as [Hin _]. apply in_map_iff in Hin.
      destruct Hin as [[m0 b0] [Heq Hin0]]. simpl in Heq. injection Heq as <- <-.
      apply filter_In in Hx. destruct Hx as [Hx Hne]. apply negb_true_iff, N.eqb_neq in Hne.
      intros [K|K]; [congruence|]. exact (H2 _ _ x Hin0 Hx K).
    - intros m b Hin. apply filter_In in Hin. destruct Hin as [Hin _]. apply in_map_iff in Hin.
      destruct Hin as [[m0 b0] [Heq Hin0]]. simpl in Heq. injection Heq as <- <-.
      intros x Hx. apply filter_In in Hx. apply (H3 _ _ Hin0). tauto.
  Qed.
  Hint Resolve pwp_mempool_verify pwp_batch_stored : pw.

  Lemma pwp_process_block hint b : pwp (process_block c me dq hint b).
  Proof. unfold process_block. pw_auto. Qed.
  Hint Resolve pwp_process_block : pw.
  Lemma pwp_handle_proposal hint b : pwp (handle_proposal c me dq hint b).
  Proof. unfold handle_proposal. pw_auto. Qed.
  Hint Resolve pwp_handle_proposal : pw.

  Theorem c13_pw_step hint e : pwp (step c me dq hint e).
  Proof.
    destruct e; cbn [step]; pw_auto.
    apply pwp_modify_frame. intro s. destruct (memN d (s_buffer s)); split; reflexivity.
  Qed.
End Pw.

Lemma PwInv_init c : PwInv (init c).
Proof. constructor; simpl; intros; contradiction. Qed.

(* in every reachable state of the global model (any inputs whatsoever), at every node *)
Theorem c13_pw_reachable c g a : greachA c g -> PwInv (g a).
Proof.
  induction 1 as [|g b hint e Hr IH Hav]; [apply PwInv_init|].
  unfold gupdA. destruct (N.eqb_spec a b) as [->|Hne]; [|exact IH].
  exact (c13_pw_step c b src_dq hint e (g b) IH).
Qed.
Corollary c13_reachable_no_stall c g a m b :
  greachA c g -> In (m, b) (s_pw_pending (g a)) -> exists x, In x (b_payload b) /\ ~ In x (s_batches (g a)).
Proof. intros Hr. apply c13_no_stall. exact (c13_pw_reachable c g a Hr). Qed.

Print Assumptions c13_pw_step.
Print Assumptions c13_reachable_no_stall.
Print Assumptions c13_parked_exact.
