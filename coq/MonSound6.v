(* Monitor soundness, part 6: mon_c19 is true on every run of the node model, whatever the messages. Certificates put
   out verify (well-formedness invariant, MonSound4.v); at most one TC per round because a TC of round r is assembled
   only from a non-stale timeout (round r >= current round) and the round is above r right after. *)
From Coq Require Import List NArith Lia Bool.
From HS Require Import GTac Node Corr Monitors Proto Link Exact MonSoundDefs MonSound2 MonSound4.
Import ListNotations.
Open Scope N_scope.

(* ---------- "f never decreases, only outputs satisfying okO" ---------- *)
Section Kle.
  Variable f : State -> N. Variable okO : Out -> bool.
  Definition kle {A} (m : M A) : Prop :=
    forall s, match m s with (s', o, _) => f s <= f s' /\ forallb okO o = true end.
  Lemma kle_ret {A} (a : A) : kle (ret a). Proof. intros s. split; [cbn; lia|reflexivity]. Qed.
  Lemma kle_fail {A} e : kle (@fail A e). Proof. intros s. split; [cbn; lia|reflexivity]. Qed.
  Lemma kle_panic {A} k : kle (@panic A k). Proof. intros s. split; [cbn; lia|reflexivity]. Qed.
  Lemma kle_get : kle get. Proof. intros s. split; [cbn; lia|reflexivity]. Qed.
  Lemma kle_lift {A} (r : res A) : kle (lift r). Proof. intros s. split; [cbn; lia|reflexivity]. Qed.
  Lemma kle_emit o : okO o = true -> kle (emit o).
  Proof. intros H s. unfold emit. cbn. rewrite H. split; [lia|reflexivity]. Qed.
  Lemma kle_modify g : (forall s, f s <= f (g s)) -> kle (modify g).
  Proof. intros H s. unfold modify. split; [apply H|reflexivity]. Qed.
  Lemma kle_bind {A B} (m : M A) (k : A -> M B) : kle m -> (forall a, kle (k a)) -> kle (bind m k).
  Proof.
    intros Hm Hk s. unfold bind. specialize (Hm s). destruct (m s) as [[s1 o1] r1]. destruct Hm as [E1 F1].
    destruct r1 as [a|e|n]; auto.
    specialize (Hk a s1). destruct (k a s1) as [[s2 o2] r2]. destruct Hk as [E2 F2].
    split; [lia|]. rewrite forallb_app, F1, F2. reflexivity.
  Qed.
End Kle.

Ltac kle_step :=
  match goal with
  | |- kle _ _ (ret _) => apply kle_ret
  | |- kle _ _ (fail _) => apply kle_fail
  | |- kle _ _ (panic _) => apply kle_panic
  | |- kle _ _ get => apply kle_get
  | |- kle _ _ (lift _) => apply kle_lift
  | |- kle _ _ (emit _) => apply kle_emit; reflexivity
  | |- kle _ _ (bind _ _) => apply kle_bind; [|intros ?]
  end.
Ltac kle_dm := match goal with |- kle _ _ (match ?x with _ => _ end) => destruct x end.
Ltac kle_mod :=
  solve [apply kle_modify; intros; cbn;
         repeat match goal with |- context [if ?b then _ else _] => destruct b eqn:? end; cbn; gunf; lia].
Create HintDb kle.
Ltac kle_go := repeat first [ kle_step | kle_dm | kle_mod | solve [auto 2 with kle] | progress cbv zeta ].

Definition notc (o : Out) : bool := match o with OTC _ => false | _ => true end.
Notation tq := (kle s_round notc).
Lemma notc_tcs o : forallb notc o = true -> tcs_of o = [].
Proof.
  induction o as [|x r IH]; simpl; [reflexivity|]. intros H. apply andb_true_iff in H. destruct H as [H1 H2].
  destruct x; simpl in *; try discriminate; auto.
Qed.
Lemma tcs_of_app a b : tcs_of (a ++ b) = tcs_of a ++ tcs_of b.
Proof. unfold tcs_of. apply flat_map_app. Qed.

Section TcRounds.
  Variable c : Committee. Variable me : N. Variable dq : DqCfg.

  Lemma tq_advance_round r : tq (advance_round r).
  Proof.
    intros s. unfold advance_round, bind, get, modify, ret. cbn [fst snd]. gunf.
    destruct (r <? s_round s) eqn:E; cbn; [split; [lia|reflexivity]|].
    apply N.ltb_ge in E. split; [lia|reflexivity].
  Qed.
  Hint Resolve tq_advance_round : kle.
  Lemma tq_update_high_qc q : tq (update_high_qc q).
  Proof. unfold update_high_qc. kle_go. Qed.
  Hint Resolve tq_update_high_qc : kle.
  Lemma tq_process_qc q : tq (process_qc q).
  Proof. unfold process_qc. kle_go. Qed.
  Hint Resolve tq_process_qc : kle.
  Lemma tq_generate_proposal hint tc : tq (generate_proposal me hint tc).
  Proof. unfold generate_proposal. kle_go. Qed.
  Hint Resolve tq_generate_proposal : kle.
  Lemma tq_proposer_cleanup ds : tq (proposer_cleanup ds).
  Proof. unfold proposer_cleanup. kle_go. Qed.
  Hint Resolve tq_proposer_cleanup : kle.
  Lemma tq_sync_park b : tq (sync_park b).
  Proof. unfold sync_park. kle_go. Qed.
  Hint Resolve tq_sync_park : kle.
  Lemma tq_get_parent_block b : tq (get_parent_block b).
  Proof. unfold get_parent_block. kle_go. Qed.
  Hint Resolve tq_get_parent_block : kle.
  Lemma tq_store_block b : tq (store_block b).
  Proof. unfold store_block. apply kle_modify. intros s. cbn. lia. Qed.
  Hint Resolve tq_store_block : kle.
  Lemma tq_commit_walk lcr : forall fuel parent acc, tq (commit_walk dq fuel lcr parent acc).
  Proof. induction fuel as [|f IH]; intros parent acc; simpl; kle_go; apply IH. Qed.
  Hint Resolve tq_commit_walk : kle.
  Lemma tq_deliver_all l : tq (deliver_all l).
  Proof. induction l as [|b l IH]; simpl; kle_go. Qed.
  Hint Resolve tq_deliver_all : kle.
  Lemma tq_commit b : tq (commit dq b).
  Proof. unfold commit. kle_go. Qed.
  Hint Resolve tq_commit : kle.
  Lemma tq_make_vote b : tq (make_vote me b).
  Proof. unfold make_vote, increase_last_voted. kle_go. Qed.
  Hint Resolve tq_make_vote : kle.
  Lemma tq_handle_vote hint v : tq (handle_vote c me hint v).
  Proof. unfold handle_vote. kle_go. Qed.
  Hint Resolve tq_handle_vote : kle.
  Lemma tq_handle_tc hint tc : tq (handle_tc c me hint tc).
  Proof. unfold handle_tc. kle_go. Qed.
  Lemma tq_pw_cleanup r : tq (pw_cleanup r).
  Proof. unfold pw_cleanup. kle_go. Qed.
  Hint Resolve tq_pw_cleanup : kle.
  Lemma tq_mempool_verify b : tq (mempool_verify b).
  Proof. unfold mempool_verify. kle_go. Qed.
  Hint Resolve tq_mempool_verify : kle.
  Lemma tq_batch_stored d : tq (batch_stored d).
  Proof. unfold batch_stored. kle_go. Qed.
  Lemma tq_process_block hint b : tq (process_block c me dq hint b).
  Proof. unfold process_block. kle_go. Qed.
  Hint Resolve tq_process_block : kle.
  Lemma tq_handle_proposal hint b : tq (handle_proposal c me dq hint b).
  Proof. unfold handle_proposal. kle_go. Qed.

  (* a step puts out at most one TC; its round is at least the round before the step and below the round after *)
  Definition tcspec {A} (m : M A) : Prop :=
    forall s, match m s with
              | (s', o, _) => s_round s <= s_round s' /\
                              (tcs_of o = [] \/
                               exists tc, tcs_of o = [tc] /\ s_round s <= tc_round tc /\ tc_round tc < s_round s')
              end.
  Lemma tcspec_of_tq {A} (m : M A) : tq m -> tcspec m.
  Proof.
    intros Q s. specialize (Q s). destruct (m s) as [[s' o] r]. destruct Q as [E F].
    split; [exact E|left; apply notc_tcs; exact F].
  Qed.
  Lemma tcspec_bind_tq {A B} (m : M A) (k : A -> M B) : tq m -> (forall a, tcspec (k a)) -> tcspec (bind m k).
  Proof.
    intros Q Hk s. unfold bind. specialize (Q s). destruct (m s) as [[s1 o1] r1]. destruct Q as [E F].
    pose proof (notc_tcs _ F) as T1.
    destruct r1 as [a|e|n]; [|split; [exact E|left; exact T1]..].
    specialize (Hk a s1). destruct (k a s1) as [[s2 o2] r2]. destruct Hk as [E2 C].
    rewrite tcs_of_app, T1. cbn [app]. split; [lia|].
    destruct C as [C|[tc [C1 [C2 C3]]]]; [left; exact C|right]. exists tc. split; [exact C1|]. split; lia.
  Qed.

  Lemma tm_append_round m t m' tc : tm_append c m t = (m', ROk (Some tc)) -> tc_round tc = t_round t.
  Proof.
    unfold tm_append. destruct (memN _ _); [discriminate|]. destruct (g_tcm_threshold _ _); [|discriminate].
    intros E. inversion E; subst. reflexivity.
  Qed.

  Lemma tcspec_handle_timeout hint t : tcspec (handle_timeout c me hint t).
  Proof.
    intros s. unfold handle_timeout. unfold bind at 1. unfold get at 1. unfold g_timeout_stale.
    destruct (t_round t <? s_round s) eqn:Est; [cbn; split; [lia|left; reflexivity]|].
    apply N.ltb_ge in Est.
    unfold bind at 1. unfold lift at 1.
    destruct (timeout_verify c t) as [[]|e|k]; [|cbn; split; [lia|left; reflexivity]..].
    unfold bind at 1.
    pose proof (tq_process_qc (t_high_qc t) s) as P.
    destruct (process_qc (t_high_qc t) s) as [[s1 o1] r1]. destruct P as [R1 F1]. apply notc_tcs in F1.
    destruct r1 as [[]|e|k]; [|cbn [app]; split; [exact R1|left; exact F1]..].
    unfold bind at 1. unfold get at 1.
    destruct (tm_append c (tcm_get (t_round t) (s_tcm s1)) t) as [m' r] eqn:Ea.
    unfold bind at 1. unfold modify at 1. unfold bind at 1. unfold lift at 1.
    destruct r as [[tc|]|e|k]; cbn [app].
    2,3,4: (unfold ret; cbn [app]; rewrite ?app_nil_r; split; [exact R1|left; exact F1]).
    pose proof (tm_append_round _ _ _ _ Ea) as Etc.
    set (s2 := set_tcm s1 (tcm_put (t_round t) m' (s_tcm s1))).
    unfold bind at 1.
    assert (A : match advance_round (tc_round tc) s2 with
                | (s3, o3, _) => s_round s2 <= s_round s3 /\ tc_round tc < s_round s3 /\ tcs_of o3 = []
                end).
    { unfold advance_round, bind, get, modify, ret. cbn [fst snd]. gunf.
      destruct (tc_round tc <? s_round s2) eqn:E; subst s2; cbn in *.
      - apply N.ltb_lt in E. repeat split; auto; lia.
      - apply N.ltb_ge in E. repeat split; auto; lia. }
    destruct (advance_round (tc_round tc) s2) as [[s3 o3] r3]. destruct A as [R3 [U3 F3]].
    assert (R2 : s_round s2 = s_round s1) by reflexivity.
    destruct r3 as [[]|e|k].
    2,3: (rewrite tcs_of_app, F1, F3; split; [lia|left; reflexivity]).
    unfold bind at 1. unfold emit at 1. unfold bind at 1. unfold get at 1.
    assert (Q : tq (if me =? leader c (s_round s3) then generate_proposal me hint (Some tc) else ret tt))
      by (destruct (_ =? _); [apply tq_generate_proposal|apply kle_ret]).
    specialize (Q s3).
    destruct ((if me =? leader c (s_round s3) then generate_proposal me hint (Some tc) else ret tt) s3) as [[s4 o4] r4].
    destruct Q as [R4 F4]. apply notc_tcs in F4.
    rewrite !tcs_of_app, F1, F3. cbn [app tcs_of flat_map]. fold (tcs_of o4). rewrite F4. cbn [app].
    split; [lia|]. right. exists tc. split; [reflexivity|]. split; lia.
  Qed.

  Theorem step_tcs hint e : tcspec (step c me dq hint e).
  Proof.
    destruct e as [b|v|t|tc|b| |d|d| ]; cbn [step].
    - apply tcspec_of_tq, tq_handle_proposal.
    - apply tcspec_of_tq, tq_handle_vote.
    - apply tcspec_handle_timeout.
    - apply tcspec_of_tq, tq_handle_tc.
    - apply tcspec_of_tq. kle_go.
    - unfold local_timeout, increase_last_voted.
      apply tcspec_bind_tq; [apply kle_get|]. intros s.
      apply tcspec_bind_tq; [kle_go|]. intros _. cbv zeta.
      apply tcspec_bind_tq; [kle_go|]. intros _.
      apply tcspec_bind_tq; [kle_go|]. intros _. apply tcspec_handle_timeout.
    - apply tcspec_of_tq, tq_batch_stored.
    - apply tcspec_of_tq. kle_go.
    - apply tcspec_of_tq. kle_go.
  Qed.
End TcRounds.

Lemma makes_of_app a b : makes_of (a ++ b) = makes_of a ++ makes_of b.
Proof. unfold makes_of. apply flat_map_app. Qed.
Lemma proposes_of_app a b : proposes_of (a ++ b) = proposes_of a ++ proposes_of b.
Proof. unfold proposes_of. apply flat_map_app. Qed.

Section C19.
  Variable c : Committee. Variable me : N.

  Definition tcokb (t : option TC) : bool := match t with Some t => tc_okb c t | None => true end.
  Lemma tcok_b t : tcok c t -> tcokb t = true.
  Proof. destruct t; simpl; auto. Qed.

  Lemma okout_tcs s' o : Forall (okout c me s') o -> forallb (tc_okb c) (tcs_of o) = true.
  Proof.
    induction 1 as [|x r Hx Hr IH]; [reflexivity|]. destruct x; simpl in *; auto. rewrite Hx. exact IH.
  Qed.
  Lemma okout_makes s' o :
    Forall (okout c me s') o ->
    forallb (fun m => match m with (_, q, t) => qc_okb c q && match t with Some t => tc_okb c t | None => true end end)
            (makes_of o) = true.
  Proof.
    induction 1 as [|x r Hx Hr IH]; [reflexivity|]. destruct x; simpl in *; auto.
    destruct m as [r0 q t|ds]; simpl in *; auto. destruct Hx as [A B]. rewrite A. apply tcok_b in B.
    unfold tcokb in B. rewrite B. exact IH.
  Qed.
  Lemma okout_proposes s' o :
    Forall (okout c me s') o ->
    forallb (fun b => qc_okb c (b_qc b) && match b_tc b with Some t => tc_okb c t | None => true end)
            (proposes_of o) = true.
  Proof.
    induction 1 as [|x r Hx Hr IH]; [reflexivity|]. destruct x; simpl in *; auto.
    destruct Hx as [_ [_ [A [B _]]]]. rewrite A. apply tcok_b in B. unfold tcokb in B. rewrite B. exact IH.
  Qed.

  Definition c19_parts (os : list Out) : Prop :=
    forallb (tc_okb c) (tcs_of os) = true /\
    forallb (fun m => match m with (_, q, t) => qc_okb c q && match t with Some t => tc_okb c t | None => true end end)
            (makes_of os) = true /\
    forallb (fun b => qc_okb c (b_qc b) && match b_tc b with Some t => tc_okb c t | None => true end)
            (proposes_of os) = true /\
    forallb (fun t => qc_okb c (t_high_qc t)) (timeouts_of os) = true.

  Lemma c19_from evs : forall s,
    WfInv c s ->
    c19_parts (outs_of (obs_from c me evs s)) /\
    nodupN (map tc_round (tcs_of (outs_of (obs_from c me evs s)))) = true /\
    (forall r, In r (map tc_round (tcs_of (outs_of (obs_from c me evs s)))) -> s_round s <= r).
  Proof.
    induction evs as [|[h e] r IH]; intros s H; cbn [obs_from].
    { unfold c19_parts. cbn. repeat split; auto. intros x []. }
    pose proof (step_votes c me src_dq h e s) as V.
    pose proof (step_wf c me src_dq h e s H) as W. unfold gat in W.
    pose proof (step_tcs c me src_dq h e s) as T.
    destruct (step c me src_dq h e s) as [[s1 o] res].
    destruct W as [H1 [_ F]]. destruct V as [Vt _]. destruct T as [R1 T].
    destruct (IH s1 H1) as [[P1 [P2 [P3 P4]]] [ND LB]].
    unfold outs_of in *. cbn [flat_map ob_out].
    set (os := flat_map ob_out (obs_from c me r s1)) in *.
    split; [|split].
    - unfold c19_parts. rewrite tcs_of_app, makes_of_app, proposes_of_app, timeouts_of_app, !forallb_app.
      rewrite P1, P2, P3, P4, (okout_tcs _ _ F), (okout_makes _ _ F), (okout_proposes _ _ F), !andb_true_r.
      repeat split; auto. rewrite Vt. destruct e; try reflexivity. cbn. rewrite (wf_hq c s H). reflexivity.
    - rewrite tcs_of_app, map_app.
      destruct T as [T|[tc [T [B1 B2]]]]; rewrite T; cbn [map app]; [exact ND|].
      cbn [nodupN]. rewrite ND, andb_true_r. apply negb_true_iff.
      destruct (memN (tc_round tc) (map tc_round (tcs_of os))) eqn:Em; [|reflexivity].
      apply memN_in in Em. specialize (LB _ Em). lia.
    - intros x Hx. rewrite tcs_of_app, map_app in Hx. apply in_app_or in Hx. destruct Hx as [Hx|Hx].
      + destruct T as [T|[tc [T [B1 B2]]]]; rewrite T in Hx; cbn in Hx; [contradiction|].
        destruct Hx as [<-|[]]. exact B1.
      + specialize (LB _ Hx). lia.
  Qed.

  (* on every run of the node model from the initial state, whatever the events *)
  Theorem mon_c19_sound evs : mon_c19 c (obs_of_run c me evs) = true.
  Proof.
    unfold mon_c19, obs_of_run.
    destruct (c19_from evs (init c) (WfInv_init c)) as [[P1 [P2 [P3 P4]]] [ND _]].
    rewrite P1, ND, P2, P3, P4. reflexivity.
  Qed.
End C19.
Print Assumptions mon_c19_sound.
