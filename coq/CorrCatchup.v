(* Correspondence and monitors for the catch-up scenario (C07). Model-only imports (no proof files): the verdict
   still evaluates when a proof no longer compiles. One case = a valid chain delivered in order to a real node A
   and in a lagging order to a real node B (first j blocks, then the newest, then the sync replies in the order B
   asked for them, the loop-back pool served in between), plus a few requests put to the real Helper over A's store.

   Verdict layout (list N), see [catchup_verdict]:
     0        1 iff every flag below is 1 and both "first differing step" entries are 0
     1..19    step_verdict of node A   (1 all-agree; 2 net; 3 commit; 4 mem; 5 proposer; 6 result; 7 state; 8 hint;
                                        9 first differing step (0 = none); 10..19 C02 C03 C03-ghost C04 C05 C08 C09 C10 C15 C19)
     20..38   step_verdict of node B   (same layout, offset 19)
     39       MON  B's committed sequence = A's (same blocks, same order)
     40       MON  B emitted exactly one SyncRequest per missing ancestor (and no other), each addressed to the author of the child
                   (a block handed to B directly while it lags may or may not be asked for; never twice)
     41       MON  every block B committed was committed by A
     42       MON  A (in-order delivery) emitted no SyncRequest
     43       MON  A committed something (the scenario is not vacuous)          [reported, not part of entry 0]
     44       model: SyncInv (boolean form) holds in every model state of A's and B's runs
     45       model: B's synchronizer is idle at the end (nothing parked, nothing requested)
     46       helper: model helper_answer on the bytes A's store holds = the real Helper's reply bytes (or no reply), all requests
     47       helper (implementation only): reply = bincode(Propose(stored block)) sent to the requester's address / no reply
     48       number of helper requests checked                                  [count, not a flag] *)
From Coq Require Import List NArith Bool.
From HS Require Import GTac Node Corr Monitors SyncDefs Guards Codec Base64Defs WireDefs ReceiveDefs.
Import ListNotations.
Open Scope N_scope.

Fixpoint beqb (a b : list N) : bool :=
  match a, b with [], [] => true | x :: xs, y :: ys => (x =? y) && beqb xs ys | _, _ => false end.

(* ---- observed sync requests and commits ---- *)
Definition reqs_of_obs (obs : list Obs) : list (N * digest) := sync_reqs (outs_of obs).
Definition req_eqb (x y : N * digest) : bool := (fst x =? fst y) && digest_eqb (snd x) (snd y).

(* chain oldest first; the missing ancestors of a node that holds the first j blocks and is given the last one are
   c_{j+1} .. c_{L-1}; the request for c_i goes to the author of c_{i+1}; requests go out newest first *)
Fixpoint adj_reqs (l : list Block) : list (N * digest) :=
  match l with
  | x :: ((y :: _) as r) => (b_author y, block_digest x) :: adj_reqs r
  | _ => []
  end.
Definition expected_reqs (chain : list Block) (j : nat) : list (N * digest) := rev (adj_reqs (skipn j chain)).

Definition mon_same_commits (obsA obsB : list Obs) : bool :=
  list_eqb block_full_eqb (commits_of (outs_of obsA)) (commits_of (outs_of obsB)).
(* order-insensitive (two request chains may interleave): every request B sent is one of the expected (destination,
   digest) pairs and no digest was asked for twice; every missing ancestor was asked for, except possibly the ones
   listed in [optional] (a block B was handed directly while lagging: it is asked for only if the request chain
   from the newest block reaches it before it has been stored) *)
Definition mon_reqs (chain : list Block) (j : nat) (optional : list digest) (obsB : list Obs) : bool :=
  let got := reqs_of_obs obsB in
  let want := expected_reqs chain j in
  forallb (fun g => existsb (req_eqb g) want &&
                    Nat.eqb (length (filter (fun g' => digest_eqb (snd g) (snd g')) got)) 1) got &&
  forallb (fun w => existsb (req_eqb w) got || existsb (digest_eqb (snd w)) optional) want.
Definition mon_commits_subset (obsA obsB : list Obs) : bool :=
  forallb (fun b => existsb (block_full_eqb b) (commits_of (outs_of obsA))) (commits_of (outs_of obsB)).

(* ---- the model's own run: boolean invariant in every state, and the final state ---- *)
Fixpoint inv_run (c : Committee) (me : N) (evs : list (list N * Event)) (s : State) (acc : bool) : bool * State :=
  let acc := acc && sync_invb s in
  match evs with
  | [] => (acc, s)
  | (h, e) :: r => match step c me src_dq h e s with (s1, _, _) => inv_run c me r s1 acc end
  end.

(* ---- helper: one request = (origin known?, what the store holds under the key, what the real helper sent) ---- *)
Definition helper_case (x : bool * option (list N) * option (list N)) : bool :=
  match x with
  | (known, stored, reply) =>
      match helper_answer known stored, reply with
      | HNothing, None => true
      | HReply b, Some r => beqb (w_enc_cmsg (CPropose b)) r
      | _, _ => false
      end
  end.

Definition nth_is (k : nat) (v : N) (l : list N) : bool := nth k l 2 =? v.

Definition catchup_verdict (c : Committee) (meA meB : N)
    (evsA : list (list N * Event)) (obsA : list Obs)
    (evsB : list (list N * Event)) (obsB : list Obs)
    (chain : list Block) (j : nat) (optional : list digest)
    (helper : list (bool * option (list N) * option (list N))) (helper_impl : bool) : list N :=
  let va := step_verdict c meA evsA obsA in
  let vb := step_verdict c meB evsB obsB in
  let ra := inv_run c meA evsA (init c) true in
  let rb := inv_run c meB evsB (init c) true in
  let flags :=
    [ b2n (mon_same_commits obsA obsB);
      b2n (mon_reqs chain j optional obsB);
      b2n (mon_commits_subset obsA obsB);
      b2n (match reqs_of_obs obsA with [] => true | _ => false end) ] in
  let info := [ b2n (match commits_of (outs_of obsA) with [] => false | _ => true end) ] in
  let model :=
    [ b2n (fst ra && fst rb);
      b2n (sync_idle (snd rb)) ] in
  let hl := [ b2n (forallb helper_case helper); b2n helper_impl ] in
  (* entries of a step_verdict that must be 1: all but index 8 (first differing step), which must be 0 *)
  let sv_ok (v : list N) := forallb (N.eqb 1) (firstn 8 v) && nth_is 8 0 v && forallb (N.eqb 1) (skipn 9 v) &&
                            Nat.eqb (length v) 19 in
  let all := sv_ok va && sv_ok vb && forallb (N.eqb 1) (flags ++ model ++ hl) in
  [b2n all] ++ va ++ vb ++ flags ++ info ++ model ++ hl ++ [N.of_nat (length helper)].
