(* Tie lemma for `process_block`: the statement skeleton REGENERATED from the Rust source (GenCore.v, tools/skel.py) computes, for every
   argument and every state, exactly what the hand-written model function does (same state, same outputs, same result). *)
From Coq Require Import List NArith Bool Lia ZArith.
From Coq Require Import ZifyN ZifyBool.
From HS Require Import TieTac GenCore.
Import ListNotations.
Open Scope N_scope.

Lemma tie_process_block c me dq hint b s : gen_process_block c me dq hint b s = process_block c me dq hint b s.
Proof.
  unfold gen_process_block, process_block, get_ancestors, mempool_cleanup.
  intros; munf; gunf; repeat (tie_norm; tie_split1); tie_norm; tie_done; tie_inj;
  repeat match goal with H : make_vote _ _ _ = (_, _, _) |- _ => apply make_vote_keeps_round in H end;
  repeat match goal with H : s_round _ = s_round _ |- _ => rewrite H in * end;
  tie_done.
Qed.
