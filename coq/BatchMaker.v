(* C11 (batching part): model of mempool/src/batch_maker.rs and its exactly-once / in-order theorem. *)
From Coq Require Import List NArith Lia Bool ZifyN ZifyBool.
Import ListNotations.
Open Scope N_scope.

Definition tx := list N.
Record BM := mkBM { cur : list tx; cur_size : N }.
Inductive bev := BTx (t : tx) | BTimer.

Definition bstep (batch_size : N) (s : BM) (e : bev) : BM * list (list tx) :=
  match e with
  | BTx t =>
      let sz := cur_size s + N.of_nat (length t) in
      let c := cur s ++ [t] in
      if batch_size <=? sz then (mkBM [] 0, [c]) else (mkBM c sz, [])
  | BTimer => match cur s with [] => (s, []) | _ => (mkBM [] 0, [cur s]) end
  end.

Fixpoint brun (bs : N) (s : BM) (es : list bev) : BM * list (list tx) :=
  match es with
  | [] => (s, [])
  | e :: r => let '(s1, o1) := bstep bs s e in let '(s2, o2) := brun bs s1 r in (s2, o1 ++ o2)
  end.

Definition txs_of (es : list bev) : list tx := flat_map (fun e => match e with BTx t => [t] | BTimer => [] end) es.
Definition size_of (l : list tx) : N := fold_right (fun t acc => N.of_nat (length t) + acc) 0 l.

Definition BInv (bs : N) (s : BM) : Prop :=
  cur_size s = size_of (cur s) /\ (cur s = [] \/ cur_size s < bs).

Lemma size_of_app a b : size_of (a ++ b) = size_of a + size_of b.
Proof. induction a; simpl; lia. Qed.

Lemma bstep_inv bs s e : BInv bs s ->
  let '(s', o) := bstep bs s e in
  BInv bs s' /\ concat o ++ cur s' = cur s ++ (match e with BTx t => [t] | BTimer => [] end) /\
  (forall b, In b o -> b <> []).
Proof.
  intros [Hs Hb]. destruct e as [t|]; simpl.
  - destruct (bs <=? cur_size s + N.of_nat (length t)) eqn:E; simpl.
    + split; [split; [reflexivity|left; reflexivity]|]. rewrite !app_nil_r. split; [reflexivity|].
      intros b [<-|[]]. destruct (cur s); discriminate.
    + split; [|split; [reflexivity|intros b []]]. apply N.leb_gt in E. split.
      * simpl. rewrite size_of_app, Hs. simpl. lia.
      * right. simpl. exact E.
  - destruct (cur s) as [|x r] eqn:Ec; simpl.
    + split; [split; [rewrite Ec; exact Hs|left; exact Ec]|]. rewrite Ec. split; [reflexivity|intros b []].
    + split; [split; [reflexivity|left; reflexivity]|]. rewrite !app_nil_r. split; [reflexivity|].
      intros b [<-|[]]. discriminate.
Qed.

(* every transaction ends up in exactly one batch, byte for byte and in arrival order *)
Theorem c11_exactly_once_in_order bs es : forall s, BInv bs s ->
  let '(s', o) := brun bs s es in
  BInv bs s' /\ concat o ++ cur s' = cur s ++ txs_of es /\ (forall b, In b o -> b <> []).
Proof.
  induction es as [|e r IH]; intros s HI; simpl.
  - rewrite app_nil_r. auto.
  - pose proof (bstep_inv bs s e HI) as S. destruct (bstep bs s e) as [s1 o1]. destruct S as [I1 [E1 N1]].
    specialize (IH s1 I1). destruct (brun bs s1 r) as [s2 o2]. destruct IH as [I2 [E2 N2]].
    split; [exact I2|]. split.
    + rewrite concat_app, <- app_assoc, E2, app_assoc, E1, <- app_assoc. reflexivity.
    + intros b Hb. apply in_app_or in Hb. destruct Hb; auto.
Qed.

(* sealed as soon as the threshold is reached: the open batch is always below it (or empty) *)
Corollary c11_threshold bs es :
  let '(s', _) := brun bs (mkBM [] 0) es in cur s' = [] \/ size_of (cur s') < bs.
Proof.
  pose proof (c11_exactly_once_in_order bs es (mkBM [] 0)) as H.
  destruct (brun bs (mkBM [] 0) es) as [s' o]. destruct H as [[Hs Hb] _]; [split; [reflexivity|left; reflexivity]|].
  rewrite <- Hs. exact Hb.
Qed.
Print Assumptions c11_exactly_once_in_order.
