(* C11 (batching part): model of mempool/src/batch_maker.rs and its exactly-once / in-order theorem. *)
From Coq Require Import List NArith Lia Bool ZifyN ZifyBool.
From HS Require Import Guards BatchMakerDefs.
Import ListNotations.
Open Scope N_scope.

Definition BInv (bs : N) (s : BM) : Prop :=
  cur_size s = size_of (cur s) /\ (cur s = [] \/ cur_size s < bs).

Lemma size_of_app a b : size_of (a ++ b) = size_of a + size_of b.
Proof. induction a; simpl; lia. Qed.

Lemma bstep_inv bs s e : BInv bs s ->
  let '(s', o) := bstep bs s e in
  BInv bs s' /\ concat o ++ cur s' = cur s ++ (match e with BTx t => [t] | BTimer => [] end) /\
  (forall b, In b o -> b <> []).
Proof.
  intros [Hs Hb]. destruct e as [t|]; simpl; unfold g_batch_full, g_timer_seals.
  - destruct (bs <=? cur_size s + N.of_nat (length t)) eqn:E; simpl.
    + split; [split; [reflexivity|left; reflexivity]|]. rewrite !app_nil_r. split; [reflexivity|].
      intros b [<-|[]]. destruct (cur s); discriminate.
    + split; [|split; [reflexivity|intros b []]]. apply N.leb_gt in E. split.
      * simpl. rewrite size_of_app, Hs. simpl. lia.
      * right. simpl. exact E.
  - destruct (cur s) as [|x r] eqn:Ec; simpl.
    + split; [split; [rewrite Ec; exact Hs|left; exact Ec]|]. rewrite Ec. split; [reflexivity|intros b []].
    + split; [split; [reflexivity|left; reflexivity]|]. rewrite !app_nil_r. split; [reflexivity|].
      intros b [<-|[]]. discriminate.
Qed.

(* every transaction ends up in exactly one batch, byte for byte and in arrival order *)
Theorem c11_exactly_once_in_order bs es : forall s, BInv bs s ->
  let '(s', o) := brun bs s es in
  BInv bs s' /\ concat o ++ cur s' = cur s ++ txs_of es /\ (forall b, In b o -> b <> []).
Proof.
  induction es as [|e r IH]; intros s HI; simpl.
  - rewrite app_nil_r. auto.
  - pose proof (bstep_inv bs s e HI) as S. destruct (bstep bs s e) as [s1 o1]. destruct S as [I1 [E1 N1]].
    specialize (IH s1 I1). destruct (brun bs s1 r) as [s2 o2]. destruct IH as [I2 [E2 N2]].
    split; [exact I2|]. split.
    + rewrite concat_app, <- app_assoc, E2, app_assoc, E1, <- app_assoc. reflexivity.
    + intros b Hb. apply in_app_or in Hb. destruct Hb; auto.
Qed.

(* sealed as soon as the threshold is reached: the open batch is always below it (or empty) *)
Corollary c11_threshold bs es :
  let '(s', _) := brun bs (mkBM [] 0) es in cur s' = [] \/ size_of (cur s') < bs.
Proof.
  pose proof (c11_exactly_once_in_order bs es (mkBM [] 0)) as H.
  destruct (brun bs (mkBM [] 0) es) as [s' o]. destruct H as [[Hs Hb] _]; [split; [reflexivity|left; reflexivity]|].
  rewrite <- Hs. exact Hb.
Qed.
Print Assumptions c11_exactly_once_in_order.

(* the timer seals everything pending *)
Theorem c11_timer_seals_all bs s : let '(s', o) := bstep bs s BTimer in cur s' = [] /\ concat o = cur s.
Proof. simpl. unfold g_timer_seals. destruct (cur s) eqn:E; simpl; [rewrite E; auto|rewrite app_nil_r; auto]. Qed.

(* no panic in any build once the length test guards the index (the repaired seal); in the default build never *)
Theorem c11_no_panic bench bs es s :
  bench = false \/ g_seal_index_guarded = true -> snd (brun_ev bench bs s es) = false.
Proof.
  intros H. revert s. induction es as [|e r IH]; intros s; simpl; [reflexivity|].
  destruct (bstep bs s e) as [s1 o1].
  assert (E : existsb (seal_panics bench) o1 = false).
  { apply not_true_is_false. intro Hx. apply existsb_exists in Hx. destruct Hx as [b [_ Hb]].
    unfold seal_panics in Hb. destruct H as [Hf|Hg]; [subst bench; discriminate|].
    rewrite Hg in Hb. cbn [negb] in Hb. rewrite andb_false_r in Hb. discriminate. }
  rewrite E. specialize (IH s1). destruct (brun_ev bench bs s1 r) as [tr p]. exact IH.
Qed.
(* the per-event run is the plain run whenever there is no panic *)
Theorem brun_ev_concat bench bs es : forall s, snd (brun_ev bench bs s es) = false ->
  concat (fst (brun_ev bench bs s es)) = snd (brun bs s es).
Proof.
  induction es as [|e r IH]; intros s; simpl; [reflexivity|].
  destruct (bstep bs s e) as [s1 o1]. destruct (existsb (seal_panics bench) o1); simpl; [discriminate|].
  specialize (IH s1). destruct (brun_ev bench bs s1 r) as [tr p]. destruct (brun bs s1 r) as [s2 o2]. simpl in *.
  intros Hp. rewrite IH; auto.
Qed.
Print Assumptions c11_no_panic.
