(* C07 (catch-up) over all runs. [greachS]: every state reachable from the initial one by ANY sequence of inputs
   to ANY node -- forged, invalid and Byzantine messages included, any deque discipline [dq] of commit(); there is
   no admissibility hypothesis and no hypothesis on the schedule. The second component is the ghost trace of
   everything each node has emitted so far. The model has no retry timer: [OSyncReq] is the FIRST request for a
   digest; re-sending an unanswered request (synchronizer.rs timer branch) is outside the model and is exercised
   on the real synchronizer by the harness (catchup retry). *)
From Coq Require Import List NArith Lia Bool.
From HS Require Import GTac Node SyncDefs NodeSync.
Import ListNotations.
Open Scope N_scope.

Section GS.
  Variable c : Committee.
  Variable dq : DqCfg.

  Definition gupdS {A} (g : N -> A) (a : N) (x : A) : N -> A := fun y => if y =? a then x else g y.

  Inductive greachS : (N -> State) -> (N -> list Out) -> Prop :=
  | gS_init : greachS (fun _ => init c) (fun _ => [])
  | gS_step g t a hint e : greachS g t ->
      greachS (gupdS g a (fstate (step c a dq hint e (g a))))
              (gupdS t a (t a ++ fouts (step c a dq hint e (g a)))).

  (* (a)-(c): in every reachable state of every node *)
  Theorem c07_sync_invariant g t a : greachS g t -> SyncInv (g a).
  Proof.
    induction 1 as [|g t b hint e Hr IH]; [apply SyncInv_init|].
    unfold gupdS. destruct (N.eqb_spec a b) as [->|Hne]; [|exact IH].
    apply sync_step_inv. exact IH.
  Qed.

  (* the same, spelled out *)
  Corollary c07_parked_waits_for_missing_parent g t a p :
    greachS g t -> In p (s_sync_pending (g a)) ->
    store_get (parent p) (s_store (g a)) = None /\ qc_eqb (b_qc p) qc_genesis = false /\
    In (parent p) (s_sync_requests (g a)).
  Proof.
    intros Hr Hp. pose proof (c07_sync_invariant g t a Hr) as H.
    split; [exact (si_missing _ H p Hp)|]. split; [exact (si_nongen _ H p Hp)|exact (si_req_all _ H p Hp)].
  Qed.
  Corollary c07_parked_once g t a : greachS g t -> NoDup (map block_digest (s_sync_pending (g a))).
  Proof. intros Hr. exact (si_once _ (c07_sync_invariant g t a Hr)). Qed.
  Corollary c07_requests_exact g t a :
    greachS g t ->
    NoDup (s_sync_requests (g a)) /\
    (forall d, In d (s_sync_requests (g a)) <-> exists p, In p (s_sync_pending (g a)) /\ parent p = d) /\
    (forall d, In d (s_sync_requests (g a)) -> store_get d (s_store (g a)) = None).
  Proof.
    intros Hr. pose proof (c07_sync_invariant g t a Hr) as H. split; [exact (si_req_nodup _ H)|]. split.
    - intros d. split; [exact (si_req_src _ H d)|]. intros [p [Hp <-]]. exact (si_req_all _ H p Hp).
    - intros d Hd. exact (si_req_missing _ d H Hd).
  Qed.
  (* the store of every node is closed under parents: what get_ancestors() expects *)
  Corollary c07_store_closed g t a d b :
    greachS g t -> In (d, b) (s_store (g a)) -> d = block_digest b /\ resolv (g a) b.
  Proof.
    intros Hr Hin. pose proof (c07_sync_invariant g t a Hr) as H.
    split; [exact (si_keyed _ H d b Hin)|exact (si_closed _ H d b Hin)].
  Qed.

  (* (d) the release, in every reachable state *)
  Theorem c07_release g t a b :
    greachS g t ->
    let s := g a in
    let s' := fstate (store_block b s) in
    let d := block_digest b in
    s_loopback s' = s_loopback s ++ woken d (s_sync_pending s) /\
    s_sync_pending s' = kept d (s_sync_pending s) /\
    s_sync_requests s' = drop_req d (s_sync_requests s) /\
    s_store s' = (d, b) :: s_store s /\
    fouts (store_block b s) = [] /\ fres (store_block b s) = ROk tt /\
    (forall p, In p (s_sync_pending s) ->
       (parent p = d -> In p (s_loopback s') /\ ~ In p (s_sync_pending s')) /\
       (parent p <> d -> In p (s_sync_pending s'))) /\
    (forall p, In p (s_sync_pending s') -> In p (s_sync_pending s) /\ parent p <> d) /\
    (forall x, In x (s_sync_requests s') <-> In x (s_sync_requests s) /\ x <> d) /\
    ~ In d (s_sync_requests s').
  Proof. intros Hr. apply store_block_release. exact (c07_sync_invariant g t a Hr). Qed.

  (* what any step of any node does to its synchronizer: nothing, or it parks the block of the event (its parent
     is missing), or it writes that block to the store (its parent is at hand) and the blocks parked on it are
     appended to the loop-back pool, contiguously and in parking order *)
  Theorem c07_step_shape g t a hint e :
    greachS g t ->
    match step c a dq hint e (g a) with
    | (s', o, _) =>
        (sync_eq (g a) s' /\ no_req o) \/
        exists b, ev_subject e (g a) = Some b /\
          (parks b (g a) s' o \/
           (stores b (g a) s' o /\
            exists l0 l, s_loopback s' = ev_base e (g a) ++ l0 ++ woken (block_digest b) (s_sync_pending (g a)) ++ l))
    end.
  Proof. intros Hr. apply sync_step. exact (c07_sync_invariant g t a Hr). Qed.

  (* (e) request emission, in every reachable state *)
  Theorem c07_request_once g t a hint e :
    greachS g t ->
    let s := g a in
    match step c a dq hint e s with
    | (s', o, _) =>
        (forall to d, In (to, d) (sync_reqs o) ->
           exists b, ev_subject e s = Some b /\ to = b_author b /\ d = parent b /\
                     ~ In b (s_sync_pending s) /\ In b (s_sync_pending s') /\
                     store_get d (s_store s') = None /\
                     ~ In d (s_sync_requests s) /\ In d (s_sync_requests s')) /\
        (forall b, In b (s_sync_pending s') -> ~ In b (s_sync_pending s) ->
           ev_subject e s = Some b /\ store_get (parent b) (s_store s') = None /\
           (In (parent b) (s_sync_requests s) \/ sync_reqs o = [(b_author b, parent b)])) /\
        (length (sync_reqs o) <= 1)%nat /\
        (forall d, In d (s_sync_requests s') -> In d (s_sync_requests s) \/ In d (map snd (sync_reqs o)))
    end.
  Proof. intros Hr. apply step_request_once. exact (c07_sync_invariant g t a Hr). Qed.

  (* over a whole run a node asks at most once for any digest (first-time requests), and every digest it ever
     asked for is still outstanding or has arrived in its store *)
  Theorem c07_request_once_ever g t a :
    greachS g t ->
    NoDup (map snd (sync_reqs (t a))) /\
    forall d, In d (map snd (sync_reqs (t a))) ->
      In d (s_sync_requests (g a)) \/ store_get d (s_store (g a)) <> None.
  Proof.
    intros Hr. change (ReqHist (g a) (sync_reqs (t a))).
    induction Hr as [|g t b hint e Hr IH]; [split; [constructor|intros d []]|].
    unfold gupdS. destruct (N.eqb_spec a b) as [->|Hne]; [|exact IH].
    pose proof (req_hist_step c b dq hint e (g b) (sync_reqs (t b)) (c07_sync_invariant g t b Hr) IH) as P.
    rewrite sync_reqs_app. destruct (step c b dq hint e (g b)) as [[s' o] r]. exact P.
  Qed.
End GS.

Print Assumptions c07_sync_invariant.
Print Assumptions c07_release.
Print Assumptions c07_step_shape.
Print Assumptions c07_request_once.
Print Assumptions c07_request_once_ever.
