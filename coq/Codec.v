(* C20 / C11: byte-level codecs (bincode layout of the wire types) with round-trip lemmas, and
   injectivity / kind separation of the digest pre-images. *)
From Coq Require Import List NArith ZArith Lia Bool ZifyN ZifyBool Arith.
Import ListNotations.
Open Scope N_scope.

Definition bytes := list N.

(* ---------- little-endian fixed-width integers ---------- *)
Fixpoint le_bytes (n : nat) (x : N) : bytes :=
  match n with O => [] | S k => (x mod 256) :: le_bytes k (x / 256) end.
Fixpoint le_val (l : bytes) : N :=
  match l with [] => 0 | b :: r => b + 256 * le_val r end.

Lemma le_bytes_length n x : length (le_bytes n x) = n.
Proof. revert x. induction n; simpl; auto. Qed.
Lemma le_rt n : forall x, x < 256 ^ N.of_nat n -> le_val (le_bytes n x) = x.
Proof.
  induction n as [|k IH]; intros x Hx.
  - simpl in *. lia.
  - cbn [le_bytes le_val]. rewrite IH.
    + pose proof (N.div_mod x 256 ltac:(lia)). lia.
    + rewrite Nat2N.inj_succ, N.pow_succ_r' in Hx. apply N.div_lt_upper_bound; lia.
Qed.
Lemma le_inj n x y : x < 256 ^ N.of_nat n -> y < 256 ^ N.of_nat n -> le_bytes n x = le_bytes n y -> x = y.
Proof. intros Hx Hy E. rewrite <- (le_rt n x Hx), <- (le_rt n y Hy), E. reflexivity. Qed.

(* ---------- parsers and the round-trip predicate ---------- *)
Definition parser (A : Type) := bytes -> option (A * bytes).
Definition rt {A} (enc : A -> bytes) (p : parser A) (wf : A -> Prop) :=
  forall a rest, wf a -> p (enc a ++ rest) = Some (a, rest).

Definition p_take (n : nat) : parser bytes :=
  fun l => if (n <=? length l)%nat then Some (firstn n l, skipn n l) else None.
Lemma rt_take n : rt (fun b => b) (p_take n) (fun b => length b = n).
Proof.
  intros b rest Hb. unfold p_take. rewrite app_length, Hb.
  destruct (n <=? n + length rest)%nat eqn:E; [|apply Nat.leb_gt in E; lia].
  rewrite <- Hb. rewrite firstn_app, Nat.sub_diag, firstn_all, skipn_app, Nat.sub_diag, skipn_all. simpl.
  rewrite app_nil_r. reflexivity.
Qed.

Definition p_int (n : nat) : parser N :=
  fun l => match p_take n l with Some (b, r) => Some (le_val b, r) | None => None end.
Lemma rt_int n : rt (le_bytes n) (p_int n) (fun x => x < 256 ^ N.of_nat n).
Proof.
  intros x rest Hx. unfold p_int. rewrite (rt_take n (le_bytes n x) rest (le_bytes_length n x)).
  rewrite le_rt; auto.
Qed.

Definition p_map {A B} (f : A -> B) (p : parser A) : parser B :=
  fun l => match p l with Some (a, r) => Some (f a, r) | None => None end.
Definition p_bind {A B} (p : parser A) (f : A -> parser B) : parser B :=
  fun l => match p l with Some (a, r) => f a r | None => None end.
Definition p_ret {A} (a : A) : parser A := fun l => Some (a, l).

Definition p_pair {A B} (pa : parser A) (pb : parser B) : parser (A * B) :=
  p_bind pa (fun a => p_bind pb (fun b => p_ret (a, b))).
Lemma rt_pair {A B} ea eb (pa : parser A) (pb : parser B) wa wb :
  rt ea pa wa -> rt eb pb wb ->
  rt (fun x => ea (fst x) ++ eb (snd x)) (p_pair pa pb) (fun x => wa (fst x) /\ wb (snd x)).
Proof.
  intros Ha Hb [a b] rest [Wa Wb]. unfold p_pair, p_bind, p_ret. simpl in *.
  rewrite <- app_assoc, (Ha a _ Wa), (Hb b _ Wb). reflexivity.
Qed.

(* Vec<T>: u64 length, then the elements *)
Fixpoint p_rep {A} (p : parser A) (n : nat) : parser (list A) :=
  match n with
  | O => p_ret []
  | S k => p_bind p (fun a => p_bind (p_rep p k) (fun r => p_ret (a :: r)))
  end.
Definition enc_list {A} (e : A -> bytes) (l : list A) : bytes :=
  le_bytes 8 (N.of_nat (length l)) ++ concat (map e l).
Definition p_list {A} (p : parser A) : parser (list A) :=
  p_bind (p_int 8) (fun n => p_rep p (N.to_nat n)).
Lemma rt_rep {A} e (p : parser A) w : rt e p w ->
  forall l rest, Forall w l -> p_rep p (length l) (concat (map e l) ++ rest) = Some (l, rest).
Proof.
  intros H. induction l as [|a r IH]; intros rest Hall; simpl; [reflexivity|].
  inversion Hall; subst. unfold p_bind, p_ret. rewrite <- app_assoc, (H a _ H2), (IH rest H3). reflexivity.
Qed.
Lemma rt_list {A} e (p : parser A) w : rt e p w ->
  rt (enc_list e) (p_list p) (fun l => Forall w l /\ N.of_nat (length l) < 256 ^ 8).
Proof.
  intros H l rest [Hall Hlen]. unfold enc_list, p_list, p_bind.
  rewrite <- app_assoc, (rt_int 8 _ _ Hlen), Nat2N.id. apply rt_rep with (w := w); auto.
Qed.

(* Option<T>: one tag byte *)
Definition enc_opt {A} (e : A -> bytes) (o : option A) : bytes :=
  match o with None => [0] | Some a => 1 :: e a end.
Definition p_opt {A} (p : parser A) : parser (option A) :=
  fun l => match l with
           | 0 :: r => Some (None, r)
           | 1 :: r => match p r with Some (a, r') => Some (Some a, r') | None => None end
           | _ => None
           end.
Lemma rt_opt {A} e (p : parser A) w : rt e p w ->
  rt (enc_opt e) (p_opt p) (fun o => match o with Some a => w a | None => True end).
Proof. intros H [a|] rest Hw; simpl; [rewrite (H a rest Hw)|]; reflexivity. Qed.

(* ---------- the wire types of consensus/src/messages.rs, byte level ---------- *)
Section Wire.
  (* PublicKey is serialised as a base64 *string*; the base64 model lives in Base64.v *)
  Variable b64enc : bytes -> bytes.
  Variable b64dec : bytes -> option bytes.
  Hypothesis b64_rt : forall k, length k = 32%nat -> b64dec (b64enc k) = Some k.
  Hypothesis b64_len : forall k, length k = 32%nat -> length (b64enc k) = 44%nat.

  Definition enc_key (k : bytes) : bytes := le_bytes 8 44 ++ b64enc k.
  Definition p_key : parser bytes :=
    p_bind (p_int 8) (fun n => p_bind (p_take (N.to_nat n)) (fun s =>
      fun r => match b64dec s with
               | Some k => if (length k =? 32)%nat then Some (k, r) else None   (* after the fix: exact length *)
               | None => None
               end)).
  Lemma rt_key : rt enc_key p_key (fun k => length k = 32%nat).
  Proof.
    intros k rest Hk. unfold enc_key, p_key, p_bind.
    rewrite <- app_assoc, (rt_int 8 44 _ ltac:(vm_compute; reflexivity)).
    change (N.to_nat 44) with 44%nat.
    rewrite (rt_take 44 (b64enc k) rest (b64_len k Hk)), (b64_rt k Hk), Hk. reflexivity.
  Qed.

  Definition wf_dig (d : bytes) := length d = 32%nat.
  Definition wf_sig (s : bytes) := length s = 64%nat.
  Definition wf_round (r : N) := r < 256 ^ 8.

  Record WQC := mkWQC { w_hash : bytes; w_round : N; w_votes : list (bytes * bytes) }.
  Definition enc_vote_entry (e : bytes * bytes) := enc_key (fst e) ++ snd e.
  Definition enc_qc (q : WQC) : bytes :=
    w_hash q ++ le_bytes 8 (w_round q) ++ enc_list enc_vote_entry (w_votes q).
  Definition p_qc : parser WQC :=
    p_bind (p_take 32) (fun h => p_bind (p_int 8) (fun r =>
      p_bind (p_list (p_pair p_key (p_take 64))) (fun vs => p_ret (mkWQC h r vs)))).
  Definition wf_qc (q : WQC) :=
    wf_dig (w_hash q) /\ wf_round (w_round q) /\
    Forall (fun e => length (fst e) = 32%nat /\ wf_sig (snd e)) (w_votes q) /\
    N.of_nat (length (w_votes q)) < 256 ^ 8.

  Lemma rt_qc : rt enc_qc p_qc wf_qc.
  Proof.
    intros [h r vs] rest [Hh [Hr [Hv Hl]]]. unfold enc_qc, p_qc, p_bind, p_ret. cbn [w_hash w_round w_votes] in *.
    rewrite <- !app_assoc, (rt_take 32 h _ Hh). cbv beta iota. rewrite (rt_int 8 r _ Hr). cbv beta iota.
    pose proof (rt_list enc_vote_entry (p_pair p_key (p_take 64))
                  (fun e => length (fst e) = 32%nat /\ length (snd e) = 64%nat)
                  (rt_pair enc_key (fun b => b) p_key (p_take 64) _ _ rt_key (rt_take 64))) as L.
    rewrite (L vs rest (conj Hv Hl)). reflexivity.
  Qed.

  (* Vote { hash, round, author, signature } *)
  Record WVote := mkWVote { wv_hash : bytes; wv_round : N; wv_author : bytes; wv_sig : bytes }.
  Definition enc_vote (v : WVote) := wv_hash v ++ le_bytes 8 (wv_round v) ++ enc_key (wv_author v) ++ wv_sig v.
  Definition p_vote : parser WVote :=
    p_bind (p_take 32) (fun h => p_bind (p_int 8) (fun r => p_bind p_key (fun a => p_bind (p_take 64) (fun s =>
      p_ret (mkWVote h r a s))))).
  Lemma rt_vote : rt enc_vote p_vote (fun v => wf_dig (wv_hash v) /\ wf_round (wv_round v) /\
                                              length (wv_author v) = 32%nat /\ wf_sig (wv_sig v)).
  Proof.
    intros [h r a s] rest [Hh [Hr [Ha Hs]]]. unfold enc_vote, p_vote, p_bind, p_ret. cbn [wv_hash wv_round wv_author wv_sig] in *.
    rewrite <- !app_assoc, (rt_take 32 h _ Hh). cbv beta iota. rewrite (rt_int 8 r _ Hr). cbv beta iota.
    rewrite (rt_key a _ Ha). cbv beta iota. rewrite (rt_take 64 s _ Hs). reflexivity.
  Qed.
End Wire.

(* ---------- digest pre-images (messages.rs `impl Hash`) ---------- *)
Definition pre_block (author : bytes) (round : N) (payload : list bytes) (parent : bytes) : bytes :=
  author ++ le_bytes 8 round ++ concat payload ++ parent.
Definition pre_vote (hash : bytes) (round : N) : bytes := hash ++ le_bytes 8 round.
Definition pre_timeout (round hqr : N) : bytes := le_bytes 8 round ++ le_bytes 8 hqr.

Lemma concat_length32 (l : list bytes) : Forall (fun d => length d = 32%nat) l -> length (concat l) = (32 * length l)%nat.
Proof. induction 1; simpl; [reflexivity|]. rewrite app_length. lia. Qed.

Lemma app_inj_len {A} (a a' b b' : list A) : length a = length a' -> a ++ b = a' ++ b' -> a = a' /\ b = b'.
Proof.
  revert a'. induction a as [|x r IH]; intros [|y r'] Hl E; simpl in *; try discriminate; auto.
  inversion E; subst. destruct (IH r' ltac:(lia) H1). subst. auto.
Qed.

Lemma concat32_inj (l l' : list bytes) :
  Forall (fun d => length d = 32%nat) l -> Forall (fun d => length d = 32%nat) l' ->
  concat l = concat l' -> l = l'.
Proof.
  intros H. revert l'. induction H as [|d r Hd Hr IH]; intros l' H' E.
  - destruct H' as [|d' r' Hd' _]; [reflexivity|]. simpl in E. destruct d'; [discriminate Hd'|discriminate E].
  - destruct H' as [|d' r' Hd' Hr']; simpl in E.
    + destruct d; [discriminate Hd|discriminate E].
    + cbv beta in *. destruct (app_inj_len d d' _ _ ltac:(lia) E) as [-> E2]. f_equal. apply IH; auto.
Qed.

(* C20: two blocks that differ in author, round, payload or parent have different pre-images *)
Theorem pre_block_inj a r p q a' r' p' q' :
  length a = 32%nat -> length a' = 32%nat -> r < 256 ^ 8 -> r' < 256 ^ 8 ->
  Forall (fun d => length d = 32%nat) p -> Forall (fun d => length d = 32%nat) p' ->
  length q = 32%nat -> length q' = 32%nat ->
  pre_block a r p q = pre_block a' r' p' q' -> a = a' /\ r = r' /\ p = p' /\ q = q'.
Proof.
  intros Ha Ha' Hr Hr' Hp Hp' Hq Hq' E. unfold pre_block in E.
  destruct (app_inj_len a a' _ _ ltac:(lia) E) as [-> E1].
  destruct (app_inj_len (le_bytes 8 r) (le_bytes 8 r') _ _ ltac:(rewrite !le_bytes_length; reflexivity) E1) as [Er E2].
  apply le_inj in Er; auto. subst r'.
  assert (Hlen : length (concat p) = length (concat p')).
  { apply (f_equal (@length N)) in E2. rewrite !app_length in E2. lia. }
  destruct (app_inj_len (concat p) (concat p') _ _ Hlen E2) as [Ec ->].
  apply concat32_inj in Ec; auto.
Qed.

Theorem pre_vote_inj h r h' r' :
  length h = 32%nat -> length h' = 32%nat -> r < 256 ^ 8 -> r' < 256 ^ 8 ->
  pre_vote h r = pre_vote h' r' -> h = h' /\ r = r'.
Proof.
  intros Hh Hh' Hr Hr' E. unfold pre_vote in E.
  destruct (app_inj_len h h' _ _ ltac:(lia) E) as [-> Er]. apply le_inj in Er; auto.
Qed.

Theorem pre_timeout_inj r q r' q' :
  r < 256 ^ 8 -> r' < 256 ^ 8 -> q < 256 ^ 8 -> q' < 256 ^ 8 ->
  pre_timeout r q = pre_timeout r' q' -> r = r' /\ q = q'.
Proof.
  intros Hr Hr' Hq Hq' E. unfold pre_timeout in E.
  destruct (app_inj_len (le_bytes 8 r) (le_bytes 8 r') _ _ ltac:(rewrite !le_bytes_length; reflexivity) E) as [E1 E2].
  apply le_inj in E1; auto. apply le_inj in E2; auto.
Qed.

(* the three kinds can never coincide: their lengths are 72+32k, 40 and 16 *)
Theorem pre_lengths a r p q h hq :
  length a = 32%nat -> Forall (fun d => length d = 32%nat) p -> length q = 32%nat -> length h = 32%nat ->
  length (pre_block a r p q) = (72 + 32 * length p)%nat /\
  length (pre_vote h r) = 40%nat /\ length (pre_timeout r hq) = 16%nat.
Proof.
  intros Ha Hp Hq Hh. unfold pre_block, pre_vote, pre_timeout.
  rewrite !app_length, !le_bytes_length, (concat_length32 p Hp), Ha, Hq, Hh.
  unfold bytes in *. repeat split; try reflexivity. lia.
Qed.
Print Assumptions pre_block_inj.
Print Assumptions rt_qc.
