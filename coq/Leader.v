(* C09 (i),(ii): the round-robin leader of consensus/src/leader.rs over byte-string keys. *)
From Coq Require Import List NArith Lia Bool Permutation Sorted ZifyN ZifyBool Arith.
From HS Require Import Guards LeaderDefs.
Import ListNotations.

Lemma kleb_total a : forall b, kleb a b = true \/ kleb b a = true.
Proof.
  induction a as [|x xs IH]; intros [|y ys]; simpl; auto.
  destruct (N.ltb_spec x y), (N.ltb_spec y x), (N.eqb_spec x y), (N.eqb_spec y x); auto; try lia.
Qed.
Lemma kleb_antisym a : forall b, kleb a b = true -> kleb b a = true -> a = b.
Proof.
  induction a as [|x xs IH]; intros [|y ys]; simpl; auto; try discriminate.
  destruct (N.ltb_spec x y), (N.ltb_spec y x), (N.eqb_spec x y), (N.eqb_spec y x); try lia; try discriminate.
  intros H1 H2. subst. f_equal. auto.
Qed.
Lemma kleb_trans a : forall b c, kleb a b = true -> kleb b c = true -> kleb a c = true.
Proof.
  induction a as [|x xs IH]; intros [|y ys] [|z zs]; simpl; auto; try discriminate.
  destruct (N.ltb_spec x y), (N.ltb_spec y z), (N.ltb_spec x z), (N.eqb_spec x y), (N.eqb_spec y z), (N.eqb_spec x z);
    try lia; try discriminate; auto; subst; eauto.
Qed.

Definition kle a b := kleb a b = true.
Lemma insert_perm k l : Permutation (k :: l) (insert k l).
Proof.
  induction l as [|x r IH]; simpl; auto. destruct (kleb k x); auto.
  eapply perm_trans; [apply perm_swap|]. constructor. exact IH.
Qed.
Lemma sort_perm l : Permutation l (sort l).
Proof. induction l as [|x r IH]; simpl; auto. eapply perm_trans; [|apply insert_perm]. constructor. exact IH. Qed.

Lemma insert_sorted k l : StronglySorted kle l -> StronglySorted kle (insert k l).
Proof.
  induction 1 as [|x r Hs IH Hall]; simpl; [repeat constructor|].
  destruct (kleb k x) eqn:E.
  - constructor; [constructor; auto|]. constructor; [exact E|].
    rewrite Forall_forall in *. intros y Hy. eapply kleb_trans; [exact E|apply Hall; exact Hy].
  - constructor; [exact IH|]. rewrite Forall_forall in *. intros y Hy.
    apply (Permutation_in _ (Permutation_sym (insert_perm k r))) in Hy. destruct Hy as [<-|Hy]; [|apply Hall; exact Hy].
    destruct (kleb_total k x) as [H|H]; [congruence|exact H].
Qed.
Lemma sort_sorted l : StronglySorted kle (sort l).
Proof. induction l; simpl; [constructor|apply insert_sorted; assumption]. Qed.

(* two sorted permutations of each other are equal *)
Lemma sorted_perm_eq l1 : forall l2, StronglySorted kle l1 -> StronglySorted kle l2 -> Permutation l1 l2 -> l1 = l2.
Proof.
  induction l1 as [|x xs IH]; intros l2 S1 S2 P.
  - apply Permutation_nil in P. auto.
  - destruct l2 as [|y ys]; [apply Permutation_sym, Permutation_nil in P; discriminate|].
    inversion S1 as [|? ? S1' A1]; subst. inversion S2 as [|? ? S2' A2]; subst. rewrite Forall_forall in *.
    assert (x = y).
    { apply kleb_antisym.
      - assert (In y (x :: xs)) by (eapply Permutation_in; [apply Permutation_sym; exact P|left; reflexivity]).
        destruct H as [<-|H]; [destruct (kleb_total x x); assumption|apply A1; exact H].
      - assert (In x (y :: ys)) by (eapply Permutation_in; [exact P|left; reflexivity]).
        destruct H as [<-|H]; [destruct (kleb_total y y); assumption|apply A2; exact H]. }
    subst. f_equal. apply IH; auto. eapply Permutation_cons_inv; eauto.
Qed.

(* (i) the committee (as a set) alone decides: insertion order is irrelevant *)
Theorem leader_perm ks ks' r : Permutation ks ks' -> leader ks r = leader ks' r.
Proof.
  intros P. unfold leader, g_leader_index. rewrite (Permutation_length P).
  assert (sort ks = sort ks').
  { apply sorted_perm_eq; try apply sort_sorted.
    eapply perm_trans; [apply Permutation_sym, sort_perm|]. eapply perm_trans; [exact P|apply sort_perm]. }
  rewrite H. reflexivity.
Qed.

Lemma NoDup_map_in {A B} (f : A -> B) l :
  (forall a b, In a l -> In b l -> f a = f b -> a = b) -> NoDup l -> NoDup (map f l).
Proof.
  induction l as [|x r IH]; simpl; intros Hinj Hnd; [constructor|].
  inversion Hnd; subst. constructor.
  - intro Hin. apply in_map_iff in Hin. destruct Hin as [y [E Hy]].
    assert (y = x) by (apply Hinj; auto). subst. contradiction.
  - apply IH; auto.
Qed.

(* (ii) over any n consecutive rounds every authority leads exactly once *)
Lemma rot_perm n r : (0 < n)%nat ->
  Permutation (map (fun k => (r + k) mod n)%nat (seq 0 n)) (seq 0 n).
Proof.
  intros Hn. apply NoDup_Permutation_bis.
  - (* injective on 0..n-1 *)
    apply NoDup_map_in; [|apply seq_NoDup].
    intros a b Ha Hb E. apply in_seq in Ha. apply in_seq in Hb.
    assert (Ea := Nat.div_mod (r + a) n ltac:(lia)). assert (Eb := Nat.div_mod (r + b) n ltac:(lia)).
    assert (Ma := Nat.mod_upper_bound (r + a) n ltac:(lia)).
    rewrite E in Ea.
    assert (Hd : (n * ((r + a) / n) + b = n * ((r + b) / n) + a)%nat) by lia.
    destruct (Nat.lt_trichotomy ((r + a) / n) ((r + b) / n)) as [H|[H|H]]; nia.
  - rewrite map_length. lia.
  - intros x Hx. apply in_map_iff in Hx. destruct Hx as [k [<- Hk]]. apply in_seq.
    assert (M := Nat.mod_upper_bound (r + k) n ltac:(lia)). lia.
Qed.

(* (ii) as a statement about the elector: over any n consecutive rounds starting anywhere, the leaders are
   exactly the committee, each authority once *)
Lemma map_nth_seq {A} (l : list A) d : map (fun i => nth i l d) (seq 0 (length l)) = l.
Proof.
  induction l as [|x l IH]; simpl; [reflexivity|]. f_equal.
  rewrite <- seq_shift, map_map. exact IH.
Qed.

Theorem c09_rotation ks r : ks <> [] ->
  Permutation (map (fun k => leader ks (r + N.of_nat k)) (seq 0 (length ks))) ks.
Proof.
  intros Hne.
  assert (Hn : (0 < length ks)%nat) by (destruct ks; [contradiction|simpl; lia]).
  set (n := length ks) in *.
  assert (Hs : length (sort ks) = n) by (symmetry; apply Permutation_length, sort_perm).
  assert (E : map (fun k => leader ks (r + N.of_nat k)) (seq 0 n) =
              map (fun i => nth i (sort ks) []) (map (fun k => (N.to_nat r + k) mod n)%nat (seq 0 n))).
  { rewrite map_map. apply map_ext. intros k. unfold leader, g_leader_index. fold n. f_equal.
    assert (Hn' : N.of_nat n <> 0%N) by lia.
    pose proof (N.mod_upper_bound (r + N.of_nat k) (N.of_nat n) Hn') as Hu.
    pose proof (N.div_mod (r + N.of_nat k) (N.of_nat n) Hn') as Hd.
    pose proof (Nat.mod_upper_bound (N.to_nat r + k) n ltac:(lia)) as Hu2.
    pose proof (Nat.div_mod (N.to_nat r + k) n ltac:(lia)) as Hd2.
    set (q1 := ((r + N.of_nat k) / N.of_nat n)%N) in *. set (m1 := ((r + N.of_nat k) mod N.of_nat n)%N) in *.
    set (q2 := ((N.to_nat r + k) / n)%nat) in *. set (m2 := ((N.to_nat r + k) mod n)%nat) in *.
    assert (Hq : (N.to_nat q1 = q2)%nat).
    { destruct (Nat.lt_trichotomy (N.to_nat q1) q2) as [H|[H|H]]; [exfalso|exact H|exfalso].
      - assert (n * (N.to_nat q1 + 1) <= n * q2)%nat by (apply Nat.mul_le_mono_l; lia). lia.
      - assert (n * (q2 + 1) <= n * N.to_nat q1)%nat by (apply Nat.mul_le_mono_l; lia). lia. }
    subst q2. lia. }
  rewrite E.
  eapply perm_trans; [apply Permutation_map, rot_perm; exact Hn|].
  rewrite <- Hs, map_nth_seq. apply Permutation_sym, sort_perm.
Qed.
Print Assumptions c09_rotation.
