(* C20 / C15 (decoding half): byte-level model of what `bincode::serialize` / `bincode::deserialize`
   (bincode 1.3.3, default options: fixed-width little-endian integers, u64 lengths, u32 enum tags,
   one-byte Option tags, trailing bytes allowed) do on the wire types of the repository:
     crypto:    Digest = [u8;32] (no prefix), Signature = part1 ++ part2 (64 bytes, no prefix),
                PublicKey = *string* (u64 length, then the base64 text) decoded by `PublicKey::decode_base64`
     consensus: QC, TC, Vote, Timeout, Block, ConsensusMessage (5 variants)
     mempool:   MempoolMessage (2 variants)
   instantiated with the real base64 model of Base64Defs.v.
   MODEL ONLY: no proofs in this file (theorems are in Wire.v).

   Decoders have THREE outcomes (value / error / panic): on the pinned tree `decode_base64` slices
   `bytes[..32]`, which panics when fewer than 32 bytes were decoded and truncates longer decodes. The
   parameter `exact` selects the repaired behaviour (wrong length = error), see Base64Defs.decode_key_n.
   Decoding is sequential, so the first failing field decides between error and panic, as in the code.
   `String` must also be valid UTF-8 for bincode; this needs no separate modelling because a string that is
   not ASCII is rejected by base64 anyway (both are errors, and a panic needs a successful base64 decode). *)
From Coq Require Import List NArith Arith Bool.
From HS Require Import Codec Base64Defs.
Import ListNotations.
Open Scope N_scope.

(* ---------- three-outcome parsers ---------- *)
Inductive res (A : Type) : Type := Ok (a : A) | Err | Panic.
Arguments Ok {A} a. Arguments Err {A}. Arguments Panic {A}.

Definition dparser (A : Type) := bytes -> res (A * bytes).
Definition d_ret {A} (a : A) : dparser A := fun l => Ok (a, l).
Definition d_bind {A B} (p : dparser A) (f : A -> dparser B) : dparser B :=
  fun l => match p l with Ok (a, r) => f a r | Err => Err | Panic => Panic end.
Definition d_lift {A} (p : parser A) : dparser A :=
  fun l => match p l with Some x => Ok x | None => Err end.

Definition d_take (n : nat) : dparser bytes := d_lift (p_take n).   (* [u8; n] *)
Definition d_int (n : nat) : dparser N := d_lift (p_int n).         (* u32 = d_int 4, u64 = d_int 8 *)

(* `len` bytes where `len` was read from the wire: compare in N before converting (a length field can be 2^64-1) *)
Definition d_takeN (n : N) : dparser bytes :=
  fun l => if n <=? N.of_nat (length l) then d_take (N.to_nat n) l else Err.

(* String / Vec<u8>: u64 length then the bytes *)
Definition enc_str (s : bytes) : bytes := le_bytes 8 (N.of_nat (length s)) ++ s.
Definition d_str : dparser bytes := d_bind (d_int 8) d_takeN.

(* Vec<T>: u64 count, then the elements. The count can be huge, so the repetition is driven by the count in N
   with the number of remaining input bytes as fuel: every element type of the repository occupies at least one
   byte, so running out of fuel with elements still due is the end-of-input error of the real decoder. *)
Fixpoint d_rep {A} (p : dparser A) (fuel : nat) (n : N) : dparser (list A) :=
  fun l =>
    if n =? 0 then Ok ([], l) else
    match fuel with
    | O => Err
    | S f => match p l with
             | Ok (a, r) => match d_rep p f (n - 1) r with
                            | Ok (t, r') => Ok (a :: t, r')
                            | Err => Err | Panic => Panic
                            end
             | Err => Err | Panic => Panic
             end
    end.
Definition d_list {A} (p : dparser A) : dparser (list A) :=
  d_bind (d_int 8) (fun n l => d_rep p (length l) n l).

(* Option<T> *)
Definition d_opt {A} (p : dparser A) : dparser (option A) :=
  fun l => match l with
           | 0 :: r => Ok (None, r)
           | 1 :: r => match p r with Ok (a, r') => Ok (Some a, r') | Err => Err | Panic => Panic end
           | _ => Err
           end.

(* ---------- crypto types ---------- *)
Definition w_enc_key (k : bytes) : bytes := enc_str (encode_key k).
Definition d_key (exact : bool) : dparser bytes :=
  d_bind d_str (fun s r => match decode_pubkey exact s with
                           | KOk k => Ok (k, r) | KErr => Err | KPanic => Panic end).
Definition d_digest : dparser bytes := d_take 32.
Definition d_sig : dparser bytes := d_take 64.

(* ---------- consensus/src/messages.rs ---------- *)
(* QC { hash: Digest, round: u64, votes: Vec<(PublicKey, Signature)> }  -- record WQC of Codec.v *)
Definition w_enc_qc_vote (e : bytes * bytes) : bytes := w_enc_key (fst e) ++ snd e.
Definition w_enc_qc (q : WQC) : bytes :=
  w_hash q ++ le_bytes 8 (w_round q) ++ enc_list w_enc_qc_vote (w_votes q).
Definition d_qc_vote (exact : bool) : dparser (bytes * bytes) :=
  d_bind (d_key exact) (fun k => d_bind d_sig (fun s => d_ret (k, s))).
Definition d_qc (exact : bool) : dparser WQC :=
  d_bind d_digest (fun h => d_bind (d_int 8) (fun r => d_bind (d_list (d_qc_vote exact)) (fun vs =>
    d_ret (mkWQC h r vs)))).

(* TC { round: u64, votes: Vec<(PublicKey, Signature, u64)> } *)
Record WTC := mkWTC { wt_round : N; wt_votes : list (bytes * bytes * N) }.
Definition w_enc_tc_vote (e : bytes * bytes * N) : bytes :=
  w_enc_key (fst (fst e)) ++ snd (fst e) ++ le_bytes 8 (snd e).
Definition w_enc_tc (t : WTC) : bytes := le_bytes 8 (wt_round t) ++ enc_list w_enc_tc_vote (wt_votes t).
Definition d_tc_vote (exact : bool) : dparser (bytes * bytes * N) :=
  d_bind (d_key exact) (fun k => d_bind d_sig (fun s => d_bind (d_int 8) (fun r => d_ret (k, s, r)))).
Definition d_tc (exact : bool) : dparser WTC :=
  d_bind (d_int 8) (fun r => d_bind (d_list (d_tc_vote exact)) (fun vs => d_ret (mkWTC r vs))).

(* Vote { hash, round, author, signature }  -- record WVote of Codec.v *)
Definition w_enc_vote (v : WVote) : bytes :=
  wv_hash v ++ le_bytes 8 (wv_round v) ++ w_enc_key (wv_author v) ++ wv_sig v.
Definition d_vote (exact : bool) : dparser WVote :=
  d_bind d_digest (fun h => d_bind (d_int 8) (fun r => d_bind (d_key exact) (fun a => d_bind d_sig (fun s =>
    d_ret (mkWVote h r a s))))).

(* Timeout { high_qc: QC, round, author, signature } *)
Record WTimeout := mkWTimeout { wto_high_qc : WQC; wto_round : N; wto_author : bytes; wto_sig : bytes }.
Definition w_enc_timeout (t : WTimeout) : bytes :=
  w_enc_qc (wto_high_qc t) ++ le_bytes 8 (wto_round t) ++ w_enc_key (wto_author t) ++ wto_sig t.
Definition d_timeout (exact : bool) : dparser WTimeout :=
  d_bind (d_qc exact) (fun q => d_bind (d_int 8) (fun r => d_bind (d_key exact) (fun a => d_bind d_sig (fun s =>
    d_ret (mkWTimeout q r a s))))).

(* Block { qc: QC, tc: Option<TC>, author, round, payload: Vec<Digest>, signature } *)
Record WBlock := mkWBlock { wb_qc : WQC; wb_tc : option WTC; wb_author : bytes; wb_round : N;
                            wb_payload : list bytes; wb_sig : bytes }.
Definition w_enc_block (b : WBlock) : bytes :=
  w_enc_qc (wb_qc b) ++ enc_opt w_enc_tc (wb_tc b) ++ w_enc_key (wb_author b) ++ le_bytes 8 (wb_round b) ++
  enc_list (fun d => d) (wb_payload b) ++ wb_sig b.
Definition d_block (exact : bool) : dparser WBlock :=
  d_bind (d_qc exact) (fun q => d_bind (d_opt (d_tc exact)) (fun t => d_bind (d_key exact) (fun a =>
  d_bind (d_int 8) (fun r => d_bind (d_list d_digest) (fun p => d_bind d_sig (fun s =>
    d_ret (mkWBlock q t a r p s))))))).

(* consensus/src/consensus.rs: enum ConsensusMessage, u32 variant index *)
Inductive WCMsg :=
| CPropose (b : WBlock) | CVote (v : WVote) | CTimeout (t : WTimeout) | CTC (t : WTC)
| CSyncRequest (d : bytes) (k : bytes).
Definition w_enc_cmsg (m : WCMsg) : bytes :=
  match m with
  | CPropose b => le_bytes 4 0 ++ w_enc_block b
  | CVote v => le_bytes 4 1 ++ w_enc_vote v
  | CTimeout t => le_bytes 4 2 ++ w_enc_timeout t
  | CTC t => le_bytes 4 3 ++ w_enc_tc t
  | CSyncRequest d k => le_bytes 4 4 ++ d ++ w_enc_key k
  end.
Definition d_cmsg (exact : bool) : dparser WCMsg :=
  d_bind (d_int 4) (fun tag =>
    match tag with
    | 0 => d_bind (d_block exact) (fun b => d_ret (CPropose b))
    | 1 => d_bind (d_vote exact) (fun v => d_ret (CVote v))
    | 2 => d_bind (d_timeout exact) (fun t => d_ret (CTimeout t))
    | 3 => d_bind (d_tc exact) (fun t => d_ret (CTC t))
    | 4 => d_bind d_digest (fun d => d_bind (d_key exact) (fun k => d_ret (CSyncRequest d k)))
    | _ => fun _ => Err
    end).

(* mempool/src/mempool.rs: enum MempoolMessage { Batch(Vec<Vec<u8>>), BatchRequest(Vec<Digest>, PublicKey) } *)
Inductive WMMsg := MBatch (txs : list bytes) | MBatchRequest (ds : list bytes) (k : bytes).
Definition w_enc_mmsg (m : WMMsg) : bytes :=
  match m with
  | MBatch txs => le_bytes 4 0 ++ enc_list enc_str txs
  | MBatchRequest ds k => le_bytes 4 1 ++ enc_list (fun d => d) ds ++ w_enc_key k
  end.
Definition d_mmsg (exact : bool) : dparser WMMsg :=
  d_bind (d_int 4) (fun tag =>
    match tag with
    | 0 => d_bind (d_list d_str) (fun txs => d_ret (MBatch txs))
    | 1 => d_bind (d_list d_digest) (fun ds => d_bind (d_key exact) (fun k => d_ret (MBatchRequest ds k)))
    | _ => fun _ => Err
    end).

(* `bincode::deserialize` = parse a prefix, ignore what follows (`allow_trailing_bytes`) *)
Definition d_top {A} (p : dparser A) (l : bytes) : res A :=
  match p l with Ok (a, _) => Ok a | Err => Err | Panic => Panic end.
Definition decode_cmsg (exact : bool) : bytes -> res WCMsg := d_top (d_cmsg exact).
Definition decode_mmsg (exact : bool) : bytes -> res WMMsg := d_top (d_mmsg exact).
Definition decode_block (exact : bool) : bytes -> res WBlock := d_top (d_block exact).   (* store reads *)

(* ---------- digest pre-images of the records (messages.rs `impl Hash`, layouts of Codec.v) ---------- *)
Definition block_pre (b : WBlock) : bytes :=
  pre_block (wb_author b) (wb_round b) (wb_payload b) (w_hash (wb_qc b)).
Definition vote_pre (v : WVote) : bytes := pre_vote (wv_hash v) (wv_round v).
Definition qc_pre (q : WQC) : bytes := pre_vote (w_hash q) (w_round q).
Definition timeout_pre (t : WTimeout) : bytes := pre_timeout (wto_round t) (w_round (wto_high_qc t)).
Definition tc_pres (t : WTC) : list bytes := map (fun e => pre_timeout (wt_round t) (snd e)) (wt_votes t).

(* every pre-image a receiver hashes when it verifies the message, in a fixed order *)
Definition cmsg_pres (m : WCMsg) : list bytes :=
  match m with
  | CPropose b => block_pre b :: qc_pre (wb_qc b) :: match wb_tc b with Some t => tc_pres t | None => [] end
  | CVote v => [vote_pre v]
  | CTimeout t => [timeout_pre t; qc_pre (wto_high_qc t)]
  | CTC t => tc_pres t
  | CSyncRequest _ _ => []
  end.
