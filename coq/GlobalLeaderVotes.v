(* C09 (iii) at the level of the global model: honest nodes vote only for blocks authored by the leader of the block's
   round.  No admissibility hypothesis is needed: the statement holds along every schedule of every input whatsoever
   (forged, invalid or Byzantine messages included) -- [greachL] is plain reachability under Node.step, and the usual
   [Global.greach] is a special case. *)
From Coq Require Import List NArith Lia Bool.
From HS Require Import GTac Node LeaderVotesDefs NodeLeaderVotes Proto Link NodeInv Global.
Import ListNotations.
Open Scope N_scope.

Section GL.
  Variable c : Committee.

  (* every node runs Node.step on arbitrary events with arbitrary hints *)
  Inductive greachL : gstate -> Prop :=
  | gL_init : greachL (fun _ => init c)
  | gL_step g a hint e : greachL g ->
      greachL (gupd g a (fst (fst (step c a src_dq hint e (g a))))).

  Theorem c09_lv_invariant g a : greachL g -> LvInv c (g a).
  Proof.
    induction 1 as [|g b hint e Hr IH]; [apply LvInv_init|].
    unfold gupd. destruct (N.eqb_spec a b) as [->|Hne]; [|exact IH].
    exact (step_lv c b src_dq hint e (g b) IH).
  Qed.

  (* every vote a node ever signed is for a block whose author field is the leader of the block's round *)
  Theorem c09_votes_for_leader_any g a d q j :
    greachL g -> In (HVote d q j) (s_hist (g a)) -> dauthor d = leader c (dround d).
  Proof. intros Hr Hin. exact (lv_hist _ _ (c09_lv_invariant g a Hr) d q j Hin). Qed.

  (* ... and so is every block waiting anywhere inside the node *)
  Theorem c09_flight_by_leader g a b :
    greachL g ->
    In b (s_loopback (g a)) \/ In b (s_sync_pending (g a)) \/ In b (map snd (s_pw_pending (g a))) \/
    In b (map snd (s_store (g a))) ->
    b_author b = leader c (b_round b).
  Proof.
    intros Hr Hin. pose proof (c09_lv_invariant g a Hr) as H.
    destruct Hin as [Hin|[Hin|[Hin|Hin]]].
    - exact (lv_loop _ _ H b Hin).
    - exact (lv_sync _ _ H b Hin).
    - apply in_map_iff in Hin. destruct Hin as [[m b'] [<- Hin]]. exact (lv_pw _ _ H m b' Hin).
    - apply in_map_iff in Hin. destruct Hin as [[d b'] [<- Hin]]. exact (lv_store _ _ H d b' Hin).
  Qed.

  (* the statement over the global model of Global.v *)
  Variable honest : N -> bool.
  Lemma greach_greachL g : greach c honest g -> greachL g.
  Proof.
    induction 1 as [|g g' Hr IH Hs]; [constructor|].
    inversion Hs; subst. apply gL_step. exact IH.
  Qed.

  Theorem c09_votes_for_leader g a d q j :
    greach c honest g -> honest a = true -> In (HVote d q j) (s_hist (g a)) ->
    dauthor d = leader c (dround d).
  Proof. intros Hr _ Hin. eapply c09_votes_for_leader_any; [apply greach_greachL; exact Hr|exact Hin]. Qed.
End GL.

(* not vacuous: in the 4-node committee, after node 0 handled the round-1 proposal of node 1 = leader(1), its ghost
   history holds a vote for that block *)
Example votes_happen :
  exists g, greachL c4 g /\ In (HVote (block_digest B1) 0 JDirect) (s_hist (g 0)) /\
            dauthor (block_digest B1) = 1 /\ leader c4 (dround (block_digest B1)) = 1.
Proof.
  eexists. split; [eapply (gL_step c4 _ 0 [] (EvPropose B1)); apply gL_init|].
  vm_compute. auto.
Qed.
(* a proposal for round 1 by anybody else is not voted for, whatever its signatures *)
Example wrong_leader_not_voted :
  s_hist (fst (fst (step c4 0 src_dq [] (EvPropose (mkBlock qc_genesis None 2 1 [] (SigOf 2 (CBlock (DBlk 2 1 [] DZero))))) (init c4)))) = [].
Proof. vm_compute. reflexivity. Qed.

Check c09_votes_for_leader.
Print Assumptions c09_votes_for_leader.
Print Assumptions c09_votes_for_leader_any.
