(* Tie lemma for `advance_round`: the statement skeleton REGENERATED from the Rust source (GenCore.v, tools/skel.py) computes, for every
   argument and every state, exactly what the hand-written model function does (same state, same outputs, same result). *)
From Coq Require Import List NArith Bool Lia ZArith.
From Coq Require Import ZifyN ZifyBool.
From HS Require Import TieTac GenCore.
Import ListNotations.
Open Scope N_scope.

Lemma tie_advance_round c me dq hint r s : gen_advance_round c me dq hint r s = advance_round r s.
Proof. unfold gen_advance_round, advance_round, agg_cleanup. tie. Qed.
