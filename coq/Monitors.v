(* Executable monitors: each property as a boolean function of an OBSERVED trace (the events given to a
   node and what it did: outputs per step, result kind, state snapshot), so that the same definition can
   be evaluated on traces recorded from the real code. Model-only dependencies (no proof files), so the
   monitors still evaluate when a proof no longer compiles. *)
From Coq Require Import List NArith Bool.
From HS Require Import GTac Node Corr.
Import ListNotations.
Open Scope N_scope.

Definition is_blkb (d : digest) : bool := match d with DBlk _ _ _ _ => true | _ => false end.
(* newest first: every entry is a block term whose parent is the next entry; the oldest one's parent is the
   genesis certificate's hash *)
Fixpoint chainb (l : list digest) : bool :=
  match l with
  | [] => true
  | d :: r => is_blkb d &&
              match r with
              | [] => digest_eqb (dparent d) DZero
              | d' :: _ => digest_eqb (dparent d) d' && chainb r
              end
  end.

(* d' is d or an ancestor of d (structural: a block's ancestry is a sub-term of its digest) *)
Fixpoint extb (d' d : digest) : bool :=
  digest_eqb d' d || match d with DBlk _ _ _ p => extb d' p | _ => false end.

Definition outs_of (obs : list Obs) : list Out := flat_map ob_out obs.
Definition commits_of (os : list Out) : list Block := flat_map (fun o => match o with OCommit b => [b] | _ => [] end) os.
Definition votes_of (os : list Out) : list Vote := flat_map (fun o => match o with OVote _ v => [v] | _ => [] end) os.
Definition timeouts_of (os : list Out) : list Timeout := flat_map (fun o => match o with OTimeout t => [t] | _ => [] end) os.
Definition tcs_of (os : list Out) : list TC := flat_map (fun o => match o with OTC t => [t] | _ => [] end) os.
Definition makes_of (os : list Out) : list (N * QC * option TC) :=
  flat_map (fun o => match o with OProposer (PMake r q t) => [(r, q, t)] | _ => [] end) os.
Definition proposes_of (os : list Out) : list Block := flat_map (fun o => match o with OPropose b => [b] | _ => [] end) os.

Fixpoint strictly_inc (l : list N) : bool :=
  match l with x :: ((y :: _) as r) => (x <? y) && strictly_inc r | _ => true end.
Fixpoint nondec (l : list N) : bool :=
  match l with x :: ((y :: _) as r) => (x <=? y) && nondec r | _ => true end.

Definition ev_block (e : Event) : option Block :=
  match e with EvPropose b | EvLoopback b => Some b | _ => None end.

(* ---- C02: the blocks handed to the commit channel, in order, are a parent-linked chain from genesis ---- *)
Definition mon_c02 (obs : list Obs) : bool :=
  chainb (rev (map block_digest (commits_of (outs_of obs)))).

(* ---- C03 ---- *)
Definition vote_rule_ok (b : Block) : bool :=
  (qc_round (b_qc b) <? b_round b) &&
  ((qc_round (b_qc b) + 1 =? b_round b) ||
   match b_tc b with
   | Some tc => (tc_round tc + 1 =? b_round b) && forallb (fun hq => hq <=? qc_round (b_qc b)) (tc_hqrs tc)
   | None => false
   end).
(* walk the trace: [lastv] = round of the last vote seen on the wire, [lastt] = highest round of an own
   timeout; a vote must be for the block of the event being processed *)
Fixpoint c03_walk (evs : list (list N * Event)) (obs : list Obs) (lastv lastt : N) (any_t : bool) : bool :=
  match evs, obs with
  | (_, e) :: er, ob :: or =>
      let vs := votes_of (ob_out ob) in
      let ts := timeouts_of (ob_out ob) in
      let okv := match vs with
                 | [] => true
                 | [v] => (lastv <? v_round v) && (negb any_t || (lastt <? v_round v)) &&
                          match ev_block e with
                          | Some b => digest_eqb (block_digest b) (v_hash v) && (b_round b =? v_round v) && vote_rule_ok b
                          | None => false
                          end
                 | _ => false       (* two votes in one step *)
                 end in
      let lastv' := fold_left N.max (map v_round vs) lastv in
      let lastt' := fold_left N.max (map t_round ts) lastt in
      okv && c03_walk er or lastv' lastt' (any_t || match ts with [] => false | _ => true end)
  | _, _ => true
  end.
Definition snap_lv (ob : Obs) : N := match ob_state ob with (_, lv, _, _) => lv end.
Definition snap_round (ob : Obs) : N := match ob_state ob with (r, _, _, _) => r end.
Definition snap_lc (ob : Obs) : N := match ob_state ob with (_, _, lc, _) => lc end.
Definition snap_hq (ob : Obs) : N := match ob_state ob with (_, _, _, hq) => hq end.
Definition mon_c03 (evs : list (list N * Event)) (obs : list Obs) : bool :=
  c03_walk evs obs 0 0 false && nondec (map snap_lv obs).
(* the same on the model's ghost history (covers votes a node casts for itself as next leader, which never
   reach the wire): newest first, every vote's round exceeds the round of every older event *)
Definition evround (e : hev) : N := match e with HVote d _ _ => dround d | HTimeout r _ => r end.
Fixpoint ghost_c03 (h : list hev) : bool :=
  match h with
  | [] => true
  | e :: r => match e with
              | HVote d qcr j => forallb (fun e' => evround e' <? dround d) r && (qcr <? dround d)
              | HTimeout _ hqr => forallb (fun e' => match e' with HVote _ q _ => q <=? hqr | _ => true end) r
              end && ghost_c03 r
  end.

(* ---- C05: every step that delivers blocks holds a certified consecutive 2-chain whose head is among the
   delivered blocks and of which all the other delivered blocks are ancestors ---- *)
Definition known_blocks (evs : list (list N * Event)) (obs : list Obs) : list Block :=
  flat_map (fun x => match ev_block (snd x) with Some b => [b] | None => [] end) evs ++ proposes_of (outs_of obs).
Definition find_block (d : digest) (l : list Block) : option Block := find (fun b => digest_eqb (block_digest b) d) l.
Fixpoint c05_walk (c : Committee) (seen : list Block) (evs : list (list N * Event)) (obs : list Obs) : bool :=
  match evs, obs with
  | (_, e) :: er, ob :: or =>
      let seen' := match ev_block e with Some b => b :: seen | None => seen end ++ proposes_of (ob_out ob) in
      let cs := commits_of (ob_out ob) in
      (match cs with
       | [] => true
       | _ => match ev_block e with
              | None => false                  (* only processing a block can commit *)
              | Some b =>
                  match find_block (qc_hash (b_qc b)) seen' with
                  | None => false
                  | Some b1 =>
                      match find_block (qc_hash (b_qc b1)) seen' with
                      | None => false
                      | Some b0 =>
                          (b_round b0 + 1 =? b_round b1) &&
                          (match qc_verify c (b_qc b) with ROk _ => true | _ => false end) &&
                          existsb (fun x => digest_eqb (block_digest x) (block_digest b0)) cs &&
                          forallb (fun x => extb (block_digest x) (block_digest b0)) cs
                      end
                  end
              end
       end) && c05_walk c seen' er or
  | _, _ => true
  end.
Definition mon_c05 (c : Committee) (evs : list (list N * Event)) (obs : list Obs) : bool := c05_walk c [] evs obs.

(* ---- C08: payload of every block voted (for another author) or committed is among the batches stored so far ---- *)
Fixpoint c08_walk (me : N) (batches : list N) (evs : list (list N * Event)) (obs : list Obs) : bool :=
  match evs, obs with
  | (_, e) :: er, ob :: or =>
      let batches' := match e with EvBatch d => d :: batches | _ => batches end in
      let okc := forallb (fun b => forallb (fun d => memN d batches') (b_payload b)) (commits_of (ob_out ob)) in
      let okv := match votes_of (ob_out ob), ev_block e with
                 | _ :: _, Some b => (b_author b =? me) || forallb (fun d => memN d batches') (b_payload b)
                 | _ :: _, None => false
                 | [], _ => true
                 end in
      okc && okv && c08_walk me batches' er or
  | _, _ => true
  end.
Definition mon_c08 (me : N) (evs : list (list N * Event)) (obs : list Obs) : bool := c08_walk me [] evs obs.

(* ---- C09 (iii),(iv): votes only for the round's leader's blocks; proposal requests and own blocks have
   strictly increasing rounds and are made only when leading ---- *)
Fixpoint c09_votes (c : Committee) (evs : list (list N * Event)) (obs : list Obs) : bool :=
  match evs, obs with
  | (_, e) :: er, ob :: or =>
      (match votes_of (ob_out ob), ev_block e with
       | _ :: _, Some b => (b_author b =? leader c (b_round b)) &&
                           sig_ok (b_author b) (CBlock (block_digest b)) (b_sig b)
       | _ :: _, None => false
       | [], _ => true
       end) && c09_votes c er or
  | _, _ => true
  end.
Definition mon_c09 (c : Committee) (me : N) (evs : list (list N * Event)) (obs : list Obs) : bool :=
  c09_votes c evs obs &&
  strictly_inc (map (fun x => fst (fst x)) (makes_of (outs_of obs))) &&
  strictly_inc (map b_round (proposes_of (outs_of obs))) &&
  forallb (fun b => (b_author b =? me) && (leader c (b_round b) =? me)) (proposes_of (outs_of obs)).

(* ---- C10: round monotone; each increase to r+1 happens in a step that holds a valid QC or TC of round r;
   every own timeout's QC dominates the QC of every block voted before and every QC sent before ---- *)
Definition qc_okb (c : Committee) (q : QC) : bool :=
  qc_eqb q qc_genesis || match qc_verify c q with ROk _ => true | _ => false end.
Definition tc_okb (c : Committee) (t : TC) : bool := match tc_verify c t with ROk _ => true | _ => false end.
Definition ev_cert_rounds (c : Committee) (e : Event) : list N :=
  match e with
  | EvPropose b | EvLoopback b =>
      (if qc_okb c (b_qc b) then [qc_round (b_qc b)] else []) ++
      match b_tc b with Some t => if tc_okb c t then [tc_round t] else [] | None => [] end
  | EvTimeout t => if qc_okb c (t_high_qc t) then [qc_round (t_high_qc t)] else []
  | EvTC t => if tc_okb c t then [tc_round t] else []
  | _ => []
  end.
Fixpoint c10_walk (c : Committee) (prev_round sent_qc : N) (evs : list (list N * Event)) (obs : list Obs) : bool :=
  match evs, obs with
  | (_, e) :: er, ob :: or =>
      let r := snap_round ob in
      let assembled := map tc_round (filter (tc_okb c) (tcs_of (ob_out ob))) ++
                       flat_map (fun m => match m with (_, q, _) => if qc_okb c q then [qc_round q] else [] end) (makes_of (ob_out ob)) ++
                       [snap_hq ob] in
      let evidence := ev_cert_rounds c e ++ assembled in
      let ok_round := (prev_round <=? r) && ((prev_round =? r) || ((1 <=? r) && memN (r - 1) evidence)) in
      let ts := timeouts_of (ob_out ob) in
      let ok_t := forallb (fun t => sent_qc <=? qc_round (t_high_qc t)) ts in
      let voted_qc := match votes_of (ob_out ob), ev_block e with _ :: _, Some b => [qc_round (b_qc b)] | _, _ => [] end in
      let sent := map (fun t => qc_round (t_high_qc t)) ts ++ map (fun b => qc_round (b_qc b)) (proposes_of (ob_out ob)) ++ voted_qc in
      ok_round && ok_t && c10_walk c r (fold_left N.max sent sent_qc) er or
  | _, _ => true
  end.
Definition mon_c10 (c : Committee) (evs : list (list N * Event)) (obs : list Obs) : bool := c10_walk c 1 0 evs obs.

(* ---- C19: every certificate the node sends out verifies; at most one TC per round; Make carries valid ones ---- *)
Fixpoint nodupN (l : list N) : bool := match l with [] => true | x :: r => negb (memN x r) && nodupN r end.
Definition mon_c19 (c : Committee) (obs : list Obs) : bool :=
  let os := outs_of obs in
  forallb (tc_okb c) (tcs_of os) && nodupN (map tc_round (tcs_of os)) &&
  forallb (fun m => match m with (_, q, t) => qc_okb c q && match t with Some t => tc_okb c t | None => true end end) (makes_of os) &&
  forallb (fun b => qc_okb c (b_qc b) && match b_tc b with Some t => tc_okb c t | None => true end) (proposes_of os) &&
  forallb (fun t => qc_okb c (t_high_qc t)) (timeouts_of os).

(* ---- C04 (ii): a message the verifiers reject leaves the state snapshot unchanged and produces no output ---- *)
Definition ev_valid (c : Committee) (e : Event) : bool :=
  match e with
  | EvPropose b => (b_author b =? leader c (b_round b)) && match block_verify c b with ROk _ => true | _ => false end
  | EvVote v => match vote_verify c v with ROk _ => true | _ => false end
  | EvTimeout t => match timeout_verify c t with ROk _ => true | _ => false end
  | EvTC t => tc_okb c t
  | _ => true
  end.
Fixpoint c04_walk (c : Committee) (prev : N * N * N * N) (evs : list (list N * Event)) (obs : list Obs) : bool :=
  match evs, obs with
  | (_, e) :: er, ob :: or =>
      (ev_valid c e || (snap_eqb prev (ob_state ob) && match ob_out ob with [] => true | _ => false end)) &&
      c04_walk c (ob_state ob) er or
  | _, _ => true
  end.
Definition mon_c04 (c : Committee) (evs : list (list N * Event)) (obs : list Obs) : bool := c04_walk c (1, 0, 0, 0) evs obs.

(* ---- C15 (core part): no step of the real node panicked ---- *)
Definition mon_c15 (obs : list Obs) : bool := forallb (fun ob => negb (rkind_eqb (ob_res ob) KPanic)) obs.

(* ---- C06 (enabling, on clean happy-path leader scenarios only): the node that leads round r and was given the round r-1
   proposal and every other member's vote for it -- in any order, nothing else interfering -- has asked its proposer
   for a round-r block carrying a QC of round r-1 ---- *)
Definition mon_c06_make (obs : list Obs) (r : N) : bool :=
  existsb (fun m => match m with (mr, q, t) => (mr =? r) && (qc_round q + 1 =? r) && match t with None => true | Some _ => false end end)
          (makes_of (outs_of obs)).

(* The verdict of one step-mode case, as a list of numbers (see tools/props.py for the index map):
   [all-agree; net; commit; mem; proposer; result; state; hint; first differing step (0 = none);
    C02; C03; C03 on the model's ghost history; C04; C05; C08; C09; C10; C15; C19] *)
Definition step_verdict (c : Committee) (me : N) (evs : list (list N * Event)) (obs : list Obs) : list N :=
  match agree c me evs obs with
  | (flags, first, sfin) =>
      [b2n (forallb (fun x => x) flags)] ++ map b2n flags ++ [first] ++
      map b2n [ mon_c02 obs; mon_c03 evs obs; ghost_c03 (s_hist sfin); mon_c04 c evs obs; mon_c05 c evs obs;
                mon_c08 me evs obs; mon_c09 c me evs obs; mon_c10 c evs obs; mon_c15 obs; mon_c19 c obs ]
  end.
