(* Correspondence support for component-mode cases: each `*_case` evaluates the model on the inputs
   the real component was run on and returns a list of numbers, the first of which is 1 iff model and
   implementation agree; the others locate the difference. *)
From Coq Require Import List NArith Bool.
From HS Require Import Guards QuorumDefs.
Import ListNotations.
Open Scope N_scope.

Fixpoint forallb2 {A B} (f : A -> B -> bool) (l1 : list A) (l2 : list B) : bool :=
  match l1, l2 with [], [] => true | x :: xs, y :: ys => f x y && forallb2 f xs ys | _, _ => false end.
Definition b2n (b : bool) : N := if b then 1 else 0.
Definition all1 (l : list N) : N := b2n (forallb (N.eqb 1) l).
Definition verdict_of (l : list N) : list N := all1 l :: l.

(* C17: stakes by rank; observed thresholds of both crates; observed stake() of every member followed
   by one non-member, for both crates *)
Definition quorum_case (stakes : list N) (q_cons q_mem : N) (s_cons s_mem : list N) : list N :=
  let total := fold_right N.add 0 stakes in
  let auths := combine (map N.of_nat (seq 0 (length stakes))) stakes in
  let model_stakes := map (stake_of auths) (map N.of_nat (seq 0 (S (length stakes)))) in
  verdict_of [ b2n (quorum_u32 total =? q_cons);
               b2n (quorum_mempool_u32 total =? q_mem);
               b2n (q_cons =? q_mem);
               b2n (forallb2 N.eqb model_stakes s_cons);
               b2n (forallb2 N.eqb model_stakes s_mem);
               (* monitor on the implementation's own numbers: the C17 inequalities *)
               b2n ((2 * total <? 3 * q_cons) && (q_cons + faults total =? total)) ].

(* ---- C09: LeaderElector. keys in insertion order (byte lists), rounds, observed leaders ---- *)
From HS Require Import LeaderDefs.
Fixpoint bytes_eqb (a b : list N) : bool :=
  match a, b with [], [] => true | x :: xs, y :: ys => (x =? y) && bytes_eqb xs ys | _, _ => false end.
Definition leader_case (keys : list (list N)) (rounds : list N) (leaders : list (list N)) : list N :=
  let n := length keys in
  verdict_of [ b2n (forallb2 bytes_eqb (map (leader keys) rounds) leaders);
               (* monitor on the implementation's own answers: every leader is a member, and among the first n
                  (consecutive) rounds every member leads exactly once *)
               b2n (forallb (fun l => existsb (bytes_eqb l) keys) leaders);
               b2n (forallb (fun k => Nat.eqb (length (filter (bytes_eqb k) (firstn n leaders))) 1) keys) ].
