(* Monitor soundness, part 12: the two COMPLETENESS monitors of MonitorsC19.v ("a certificate is assembled exactly
   WHEN a quorum has voted", the "never later" direction) are true on every run of the node model, whatever the
   events (valid, forged, stale, Byzantine), with no hypothesis at all.

   The invariant relates the model's aggregator to the monitor's accumulator along a run:
   - [MQ s]: every QCMaker whose round is above the high-QC round has not produced yet: its [used] list is
     duplicate-free, its weight is the stake of [used] and is below the quorum (a maker that produced made the high-QC
     round reach its round, for ever, since that round never decreases);
   - [MT s]: the same for every TCMaker of a round not below the node's round (a maker that produced made the round
     exceed its round, for ever);
   - [RQ s acc] / [RT s acc]: the authors the monitor counted for a key are all in the [used] list of the maker of
     that key, as long as the key's round is not below the node's round (cleanup keeps those makers).
   A maker only ever REJECTS an author that is already in [used], so when the monitor's distinct authors reach the
   quorum and the maker has not produced, [used] holds at least quorum stake = the weight < quorum: contradiction. *)
From Coq Require Import List NArith Lia Bool.
From HS Require Import GTac Node Corr Monitors Proto Link MonSoundDefs MonitorsC19.
Import ListNotations.
Open Scope N_scope.

Definition hqr (s : State) : N := qc_round (s_high_qc s).
Definition post {A} (m : M A) (s : State) : State := fst (fst (m s)).
Definition qget (k : N * digest) (s : State) : QCMaker := qcm_get k (s_qcm s).
Definition tget (r : N) (s : State) : TCMaker := tcm_get r (s_tcm s).

(* ---------- the state after a bind ---------- *)
Lemma post_bind {A B} (m : M A) (k : A -> M B) s :
  post (bind m k) s = match m s with (s1, _, ROk a) => post (k a) s1 | (s1, _, _) => s1 end.
Proof.
  unfold post, bind. destruct (m s) as [[s1 o1] [a|e|n]]; try reflexivity.
  destruct (k a s1) as [[s2 o2] r2]. reflexivity.
Qed.
Lemma post_bind_get {B} (k : State -> M B) s : post (bind get k) s = post (k s) s.
Proof. rewrite post_bind. reflexivity. Qed.

(* ---------- "every computation relates its initial to its final state by a preorder" ---------- *)
Section Rel.
  Variable Rl : State -> State -> Prop.
  Hypothesis Rl_refl : forall s, Rl s s.
  Hypothesis Rl_trans : forall a b d, Rl a b -> Rl b d -> Rl a d.
  Definition rm {A} (m : M A) : Prop := forall s, Rl s (post m s).
  Lemma rm_ret {A} (a : A) : rm (ret a). Proof. intros s. apply Rl_refl. Qed.
  Lemma rm_fail {A} e : rm (@fail A e). Proof. intros s. apply Rl_refl. Qed.
  Lemma rm_panic {A} k : rm (@panic A k). Proof. intros s. apply Rl_refl. Qed.
  Lemma rm_get : rm get. Proof. intros s. apply Rl_refl. Qed.
  Lemma rm_lift {A} (r : res A) : rm (lift r). Proof. intros s. apply Rl_refl. Qed.
  Lemma rm_emit o : rm (emit o). Proof. intros s. apply Rl_refl. Qed.
  Lemma rm_modify g : (forall s, Rl s (g s)) -> rm (modify g).
  Proof. intros H s. apply H. Qed.
  Lemma rm_bind {A B} (m : M A) (k : A -> M B) : rm m -> (forall a, rm (k a)) -> rm (bind m k).
  Proof.
    intros Hm Hk s. rewrite post_bind. specialize (Hm s). unfold post in Hm.
    destruct (m s) as [[s1 o1] [a|e|n]]; cbn [fst] in Hm; try exact Hm.
    eapply Rl_trans; [exact Hm|apply Hk].
  Qed.
End Rel.

Ltac rm_dm := match goal with |- rm _ (match ?x with _ => _ end) => destruct x end.

(* ---------- lookups in filtered association lists ---------- *)
Lemma find_filter_keep {A} (p q : A -> bool) l :
  (forall e, p e = true -> q e = true) -> find p (filter q l) = find p l.
Proof.
  intros H. induction l as [|x r IH]; cbn [filter find]; [reflexivity|].
  destruct (q x) eqn:Eq; cbn [find].
  - destruct (p x); [reflexivity|exact IH].
  - destruct (p x) eqn:Ep; [rewrite (H x Ep) in Eq; discriminate|exact IH].
Qed.
Lemma find_filter_drop {A} (p q : A -> bool) l :
  (forall e, p e = true -> q e = false) -> find p (filter q l) = None.
Proof.
  intros H. induction l as [|x r IH]; cbn [filter find]; [reflexivity|].
  destruct (q x) eqn:Eq; cbn [find]; [|exact IH].
  destruct (p x) eqn:Ep; [rewrite (H x Ep) in Eq; discriminate|exact IH].
Qed.

Lemma vkey_eqb_true k k' : vkey_eqb k k' = true -> k = k'.
Proof.
  destruct k as [r h], k' as [r' h']. unfold vkey_eqb. cbn [fst snd]. intros H.
  apply andb_true_iff in H. destruct H as [H1 H2]. apply N.eqb_eq in H1. apply digest_eqb_eq in H2. subst. reflexivity.
Qed.
Lemma vkey_eqb_refl k : vkey_eqb k k = true.
Proof. unfold vkey_eqb. rewrite N.eqb_refl, digest_eqb_refl. reflexivity. Qed.
Lemma vkey_eqb_fst k k' : fst k <> fst k' -> vkey_eqb k k' = false.
Proof. intros H. unfold vkey_eqb. apply N.eqb_neq in H. rewrite H. reflexivity. Qed.

Lemma qcm_get_put_k k k' m l : qcm_get k' (qcm_put k m l) = if vkey_eqb k k' then m else qcm_get k' l.
Proof.
  unfold qcm_get, qcm_put. cbn [find fst snd]. fold (vkey_eqb k k').
  destruct (vkey_eqb k k') eqn:E; [reflexivity|].
  rewrite find_filter_keep; [reflexivity|].
  intros e He. fold (vkey_eqb (fst e) k') in He. fold (vkey_eqb (fst e) k).
  apply vkey_eqb_true in He. rewrite He.
  destruct (vkey_eqb k' k) eqn:E2; [|reflexivity].
  apply vkey_eqb_true in E2. rewrite E2, vkey_eqb_refl in E. discriminate.
Qed.
Lemma tcm_get_put_k r r' m l : tcm_get r' (tcm_put r m l) = if r =? r' then m else tcm_get r' l.
Proof.
  unfold tcm_get, tcm_put. cbn [find fst snd].
  destruct (r =? r') eqn:E; [reflexivity|].
  rewrite find_filter_keep; [reflexivity|].
  intros e He. apply N.eqb_eq in He. rewrite He, N.eqb_sym, E. reflexivity.
Qed.
Lemma vacc_get_put k k' l acc : vacc_get k' (vacc_put k l acc) = if vkey_eqb k k' then l else vacc_get k' acc.
Proof.
  unfold vacc_get, vacc_put. cbn [find fst snd].
  destruct (vkey_eqb k k') eqn:E; [reflexivity|].
  rewrite find_filter_keep; [reflexivity|].
  intros e He. apply vkey_eqb_true in He. rewrite He.
  destruct (vkey_eqb k' k) eqn:E2; [|reflexivity].
  apply vkey_eqb_true in E2. rewrite E2, vkey_eqb_refl in E. discriminate.
Qed.
Lemma tacc_get_put r r' l acc : tacc_get r' (tacc_put r l acc) = if r =? r' then l else tacc_get r' acc.
Proof.
  unfold tacc_get, tacc_put. cbn [find fst snd].
  destruct (r =? r') eqn:E; [reflexivity|].
  rewrite find_filter_keep; [reflexivity|].
  intros e He. apply N.eqb_eq in He. rewrite He, N.eqb_sym, E. reflexivity.
Qed.

Lemma qcm_get_filter k nr l :
  qcm_get k (filter (fun e : (N * digest) * QCMaker => nr <=? fst (fst e)) l) = qcm_get k l \/
  (fst k < nr /\ qcm_get k (filter (fun e : (N * digest) * QCMaker => nr <=? fst (fst e)) l) = mkQM 0 [] []).
Proof.
  unfold qcm_get. destruct (nr <=? fst k) eqn:E.
  - left. rewrite find_filter_keep; [reflexivity|]. intros e He.
    apply andb_true_iff in He. destruct He as [He _]. apply N.eqb_eq in He. rewrite He. exact E.
  - right. apply N.leb_gt in E. split; [exact E|]. rewrite find_filter_drop; [reflexivity|]. intros e He.
    apply andb_true_iff in He. destruct He as [He _]. apply N.eqb_eq in He. rewrite He. apply N.leb_gt. exact E.
Qed.
Lemma tcm_get_filter r nr l :
  tcm_get r (filter (fun e : N * TCMaker => nr <=? fst e) l) = tcm_get r l \/
  (r < nr /\ tcm_get r (filter (fun e : N * TCMaker => nr <=? fst e) l) = mkTM 0 [] []).
Proof.
  unfold tcm_get. destruct (nr <=? r) eqn:E.
  - left. rewrite find_filter_keep; [reflexivity|]. intros e He. apply N.eqb_eq in He. rewrite He. exact E.
  - right. apply N.leb_gt in E. split; [exact E|]. rewrite find_filter_drop; [reflexivity|]. intros e He.
    apply N.eqb_eq in He. rewrite He. apply N.leb_gt. exact E.
Qed.

(* ---------- the "aquiet" preorder: round and high-QC round never decrease, every maker is untouched or was
   cleaned up because its round fell below the node's round ---------- *)
Definition qle (s s' : State) : Prop :=
  s_round s <= s_round s' /\ hqr s <= hqr s' /\
  (forall k, qget k s' = qget k s \/ (fst k < s_round s' /\ qget k s' = mkQM 0 [] [])) /\
  (forall r, tget r s' = tget r s \/ (r < s_round s' /\ tget r s' = mkTM 0 [] [])).

Lemma qle_refl s : qle s s.
Proof. unfold qle. repeat split; try lia; intros; left; reflexivity. Qed.
Lemma qle_trans a b d : qle a b -> qle b d -> qle a d.
Proof.
  intros [A1 [A2 [A3 A4]]] [B1 [B2 [B3 B4]]]. unfold qle. split; [lia|]. split; [lia|]. split.
  - intros k. destruct (B3 k) as [E|[L E]]; [|right; split; assumption].
    rewrite E. destruct (A3 k) as [E'|[L' E']]; [left; exact E'|right; split; [lia|exact E']].
  - intros r. destruct (B4 r) as [E|[L E]]; [|right; split; assumption].
    rewrite E. destruct (A4 r) as [E'|[L' E']]; [left; exact E'|right; split; [lia|exact E']].
Qed.
Lemma qle_frame s s' :
  s_round s' = s_round s -> s_high_qc s' = s_high_qc s -> s_qcm s' = s_qcm s -> s_tcm s' = s_tcm s -> qle s s'.
Proof.
  intros E1 E2 E3 E4. unfold qle, hqr, qget, tget. rewrite E1, E2, E3, E4.
  repeat split; try lia; intros; left; reflexivity.
Qed.

Notation aquiet := (rm qle).
Create HintDb c19q.
Ltac q_step :=
  match goal with
  | |- rm _ (ret _) => apply (rm_ret _ qle_refl)
  | |- rm _ (fail _) => apply (rm_fail _ qle_refl)
  | |- rm _ (panic _) => apply (rm_panic _ qle_refl)
  | |- rm _ get => apply (rm_get _ qle_refl)
  | |- rm _ (lift _) => apply (rm_lift _ qle_refl)
  | |- rm _ (emit _) => apply (rm_emit _ qle_refl)
  | |- rm _ (bind _ _) => apply (rm_bind _ qle_trans); [|intros ?]
  end.
Ltac q_mod :=
  solve [apply rm_modify; intros; apply qle_frame; cbn;
         repeat match goal with |- context [if ?b then _ else _] => destruct b end; reflexivity].
Ltac q_go := repeat first [ q_step | rm_dm | q_mod | solve [auto 2 with c19q] | progress cbv zeta ].

(* what advance_round and process_qc guarantee about the state they leave *)
Lemma advance_round_post r s :
  match advance_round r s with
  | (s', o, res) => qle s s' /\ r < s_round s' /\ res = ROk tt
  end.
Proof.
  unfold advance_round, bind, get, modify, ret. cbn [fst snd]. gunf.
  destruct (r <? s_round s) eqn:E; cbn [app].
  - apply N.ltb_lt in E. split; [apply qle_refl|]. split; [exact E|reflexivity].
  - apply N.ltb_ge in E. split; [|split; [cbn; lia|reflexivity]].
    unfold qle, hqr, qget, tget. cbn. split; [lia|]. split; [lia|]. split.
    + intros k. apply qcm_get_filter.
    + intros r'. apply tcm_get_filter.
Qed.
Lemma ql_advance_round r : aquiet (advance_round r).
Proof.
  intros s. unfold post. pose proof (advance_round_post r s) as P.
  destruct (advance_round r s) as [[s1 o1] r1]. apply P.
Qed.
Global Hint Resolve ql_advance_round : c19q.

Lemma update_high_qc_post q s :
  match update_high_qc q s with
  | (s', o, res) => qle s s' /\ qc_round q <= hqr s' /\ s_round s' = s_round s /\ res = ROk tt
  end.
Proof.
  unfold update_high_qc, modify. gunf.
  destruct (qc_round (s_high_qc s) <? qc_round q) eqn:E.
  - apply N.ltb_lt in E. split; [|unfold hqr; cbn; repeat split; lia].
    unfold qle, hqr, qget, tget. cbn. repeat split; try lia; intros; left; reflexivity.
  - apply N.ltb_ge in E. split; [apply qle_refl|]. unfold hqr. repeat split; lia.
Qed.
Lemma ql_update_high_qc q : aquiet (update_high_qc q).
Proof.
  intros s. unfold post. pose proof (update_high_qc_post q s) as P.
  destruct (update_high_qc q s) as [[s1 o1] r1]. apply P.
Qed.
Global Hint Resolve ql_update_high_qc : c19q.

Lemma process_qc_post q s :
  match process_qc q s with
  | (s', o, res) => qle s s' /\ qc_round q <= hqr s' /\ qc_round q < s_round s' /\ res = ROk tt
  end.
Proof.
  unfold process_qc, bind.
  pose proof (advance_round_post (qc_round q) s) as A.
  destruct (advance_round (qc_round q) s) as [[s1 o1] r1]. destruct A as [Q1 [R1 ->]].
  pose proof (update_high_qc_post q s1) as U.
  destruct (update_high_qc q s1) as [[s2 o2] r2]. destruct U as [Q2 [H2 [R2 ->]]].
  split; [eapply qle_trans; eauto|]. split; [exact H2|]. split; [lia|reflexivity].
Qed.
Lemma ql_process_qc q : aquiet (process_qc q).
Proof.
  intros s. unfold post. pose proof (process_qc_post q s) as P.
  destruct (process_qc q s) as [[s1 o1] r1]. apply P.
Qed.
Global Hint Resolve ql_process_qc : c19q.

Section QuietHandlers.
  Variable c : Committee. Variable me : N. Variable dq : DqCfg.

  Lemma ql_generate_proposal hint tc : aquiet (generate_proposal me hint tc).
  Proof. unfold generate_proposal. q_go. Qed.
  Hint Resolve ql_generate_proposal : c19q.
  Lemma ql_proposer_cleanup ds : aquiet (proposer_cleanup ds).
  Proof. unfold proposer_cleanup. q_go. Qed.
  Hint Resolve ql_proposer_cleanup : c19q.
  Lemma ql_sync_park b : aquiet (sync_park b).
  Proof. unfold sync_park. q_go. Qed.
  Hint Resolve ql_sync_park : c19q.
  Lemma ql_get_parent_block b : aquiet (get_parent_block b).
  Proof. unfold get_parent_block. q_go. Qed.
  Hint Resolve ql_get_parent_block : c19q.
  Lemma ql_store_block b : aquiet (store_block b).
  Proof. unfold store_block. apply rm_modify. intros s. apply qle_frame; reflexivity. Qed.
  Hint Resolve ql_store_block : c19q.
  Lemma ql_commit_walk lcr : forall fuel parent acc, aquiet (commit_walk dq fuel lcr parent acc).
  Proof. induction fuel as [|f IH]; intros parent acc; cbn [commit_walk]; q_go; apply IH. Qed.
  Hint Resolve ql_commit_walk : c19q.
  Lemma ql_deliver_all l : aquiet (deliver_all l).
  Proof. induction l as [|b l IH]; cbn [deliver_all]; q_go. Qed.
  Hint Resolve ql_deliver_all : c19q.
  Lemma ql_commit b : aquiet (commit dq b).
  Proof. unfold commit. q_go. Qed.
  Hint Resolve ql_commit : c19q.
  Lemma ql_make_vote b : aquiet (make_vote me b).
  Proof. unfold make_vote, increase_last_voted. q_go. Qed.
  Hint Resolve ql_make_vote : c19q.
  Lemma ql_pw_cleanup r : aquiet (pw_cleanup r).
  Proof. unfold pw_cleanup. q_go. Qed.
  Hint Resolve ql_pw_cleanup : c19q.
  Lemma ql_mempool_verify b : aquiet (mempool_verify b).
  Proof. unfold mempool_verify. q_go. Qed.
  Hint Resolve ql_mempool_verify : c19q.
  Lemma ql_batch_stored d : aquiet (batch_stored d).
  Proof. unfold batch_stored. q_go. Qed.
  Hint Resolve ql_batch_stored : c19q.
  Lemma ql_handle_tc hint tc : aquiet (handle_tc c me hint tc).
  Proof. unfold handle_tc. q_go. Qed.
  (* what follows the assembly of a certificate *)
  Lemma ql_maybe_propose hint tc :
    aquiet (s <- get ;; if me =? leader c (s_round s) then generate_proposal me hint tc else ret tt).
  Proof. q_go. Qed.
End QuietHandlers.
Global Hint Resolve ql_generate_proposal ql_proposer_cleanup ql_sync_park ql_get_parent_block ql_store_block ql_commit_walk
  ql_deliver_all ql_commit ql_make_vote ql_pw_cleanup ql_mempool_verify ql_batch_stored ql_handle_tc ql_maybe_propose : c19q.

(* ---------- the invariant and the preorder that carries it ---------- *)
Lemma authors_stake_wsum c l : authors_stake c l = wsum (Node.stake c) l.
Proof. induction l as [|a r IH]; cbn [authors_stake wsum]; [reflexivity|]. rewrite IH. reflexivity. Qed.

Lemma add_author_in a l x : In x (add_author a l) -> x = a \/ In x l.
Proof. unfold add_author. destruct (memN a l); [right; assumption|]. intros [<-|H]; [left; reflexivity|right; exact H]. Qed.
Lemma add_author_nodup a l : NoDup l -> NoDup (add_author a l).
Proof.
  intros H. unfold add_author. destruct (memN a l) eqn:E; [exact H|].
  constructor; [|exact H]. intro Hin. apply memN_in in Hin. congruence.
Qed.

Section C19Complete.
  Variable c : Committee. Variable me : N.
  Notation stk := (Node.stake c).

  Lemma c19_quorum_pos : 0 < Node.quorum c.
  Proof. unfold Node.quorum. gunf. lia. Qed.

  Definition qm_fresh (m : QCMaker) : Prop :=
    NoDup (qm_used m) /\ qm_weight m = wsum stk (qm_used m) /\ qm_weight m < Node.quorum c.
  Definition tm_fresh (m : TCMaker) : Prop :=
    NoDup (tm_used m) /\ tm_weight m = wsum stk (tm_used m) /\ tm_weight m < Node.quorum c.
  Definition MQ (s : State) : Prop := forall k, hqr s < fst k -> qm_fresh (qget k s).
  Definition MT (s : State) : Prop := forall r, s_round s <= r -> tm_fresh (tget r s).

  Lemma qm_fresh_empty : qm_fresh (mkQM 0 [] []).
  Proof. unfold qm_fresh. cbn. split; [constructor|]. split; [reflexivity|apply c19_quorum_pos]. Qed.
  Lemma tm_fresh_empty : tm_fresh (mkTM 0 [] []).
  Proof. unfold tm_fresh. cbn. split; [constructor|]. split; [reflexivity|apply c19_quorum_pos]. Qed.

  Definition ale (s s' : State) : Prop :=
    s_round s <= s_round s' /\ hqr s <= hqr s' /\ (MQ s -> MQ s') /\ (MT s -> MT s') /\
    (forall k, s_round s' <= fst k -> incl (qm_used (qget k s)) (qm_used (qget k s'))) /\
    (forall r, s_round s' <= r -> incl (tm_used (tget r s)) (tm_used (tget r s'))).

  Lemma ale_refl s : ale s s.
  Proof. unfold ale. split; [lia|]. split; [lia|]. split; [auto|]. split; [auto|]. split; intros; apply incl_refl. Qed.
  Lemma ale_trans a b d : ale a b -> ale b d -> ale a d.
  Proof.
    intros [A1 [A2 [A3 [A4 [A5 A6]]]]] [B1 [B2 [B3 [B4 [B5 B6]]]]]. unfold ale.
    split; [lia|]. split; [lia|]. split; [auto|]. split; [auto|]. split.
    - intros k Hk. eapply incl_tran; [apply A5; lia|apply B5; exact Hk].
    - intros r Hr. eapply incl_tran; [apply A6; lia|apply B6; exact Hr].
  Qed.
  Lemma qle_ale s s' : qle s s' -> ale s s'.
  Proof.
    intros [Q1 [Q2 [Q3 Q4]]]. unfold ale. split; [exact Q1|]. split; [exact Q2|]. split; [|split; [|split]].
    - intros HM k Hk. destruct (Q3 k) as [E|[_ E]]; rewrite E; [apply HM; lia|apply qm_fresh_empty].
    - intros HM r Hr. destruct (Q4 r) as [E|[L _]]; [rewrite E; apply HM; lia|lia].
    - intros k Hk. destruct (Q3 k) as [E|[L _]]; [rewrite E; apply incl_refl|lia].
    - intros r Hr. destruct (Q4 r) as [E|[L _]]; [rewrite E; apply incl_refl|lia].
  Qed.

  Notation pres := (rm ale).
  Lemma pres_of_aquiet {A} (m : M A) : aquiet m -> pres m.
  Proof. intros H s. apply qle_ale. apply H. Qed.

  (* a vote aggregator is replaced by one that holds more authors and is still "not produced" (or is not constrained) *)
  Lemma ale_put s k m' :
    incl (qm_used (qget k s)) (qm_used m') -> (hqr s < fst k -> qm_fresh (qget k s) -> qm_fresh m') ->
    ale s (set_qcm s (qcm_put k m' (s_qcm s))).
  Proof.
    intros Hi Hok. unfold ale. split; [cbn; lia|]. split; [unfold hqr; cbn; lia|]. split; [|split; [|split]].
    - intros HM k' Hk'. unfold qget. cbn [s_qcm set_qcm]. rewrite qcm_get_put_k.
      destruct (vkey_eqb k k') eqn:E; [|apply HM; exact Hk'].
      apply vkey_eqb_true in E. subst k'. apply Hok; [exact Hk'|apply HM; exact Hk'].
    - intros HM. exact HM.
    - intros k' _. unfold qget at 2. cbn [s_qcm set_qcm]. rewrite qcm_get_put_k.
      destruct (vkey_eqb k k') eqn:E; [|apply incl_refl].
      apply vkey_eqb_true in E. subst k'. exact Hi.
    - intros r _. apply incl_refl.
  Qed.
  (* ... or by anything at all, when what follows lifts the high-QC round to the key's round and the round above it *)
  Lemma ale_put_formed s k m' s4 :
    qle (set_qcm s (qcm_put k m' (s_qcm s))) s4 -> fst k <= hqr s4 -> fst k < s_round s4 -> ale s s4.
  Proof.
    intros [Q1 [Q2 [Q3 Q4]]] Hh Hr. cbn [s_round set_qcm] in Q1. unfold hqr at 1 in Q2. cbn [s_high_qc set_qcm] in Q2.
    fold (hqr s) in Q2.
    assert (K : forall k', fst k < fst k' -> qget k' s4 = qget k' s \/ (fst k' < s_round s4 /\ qget k' s4 = mkQM 0 [] [])).
    { intros k' Hk'. destruct (Q3 k') as [E|E]; [|right; exact E]. left. rewrite E.
      unfold qget. cbn [s_qcm set_qcm]. rewrite qcm_get_put_k, vkey_eqb_fst; [reflexivity|lia]. }
    unfold ale. split; [exact Q1|]. split; [exact Q2|]. split; [|split; [|split]].
    - intros HM k' Hk'. destruct (K k') as [E|[_ E]]; [lia| |]; rewrite E; [apply HM; lia|apply qm_fresh_empty].
    - intros HM r Hr'. destruct (Q4 r) as [E|[L _]]; [|lia]. rewrite E. apply HM. lia.
    - intros k' Hk'. destruct (K k') as [E|[L _]]; [lia| |lia]. rewrite E. apply incl_refl.
    - intros r Hr'. destruct (Q4 r) as [E|[L _]]; [|lia]. rewrite E. apply incl_refl.
  Qed.

  Lemma ale_put_t s r m' :
    incl (tm_used (tget r s)) (tm_used m') -> (s_round s <= r -> tm_fresh (tget r s) -> tm_fresh m') ->
    ale s (set_tcm s (tcm_put r m' (s_tcm s))).
  Proof.
    intros Hi Hok. unfold ale. split; [cbn; lia|]. split; [unfold hqr; cbn; lia|]. split; [|split; [|split]].
    - intros HM. exact HM.
    - intros HM r' Hr'. unfold tget. cbn [s_tcm set_tcm]. rewrite tcm_get_put_k.
      destruct (r =? r') eqn:E; [|apply HM; exact Hr'].
      apply N.eqb_eq in E. subst r'. apply Hok; [exact Hr'|apply HM; exact Hr'].
    - intros k _. apply incl_refl.
    - intros r' _. unfold tget at 2. cbn [s_tcm set_tcm]. rewrite tcm_get_put_k.
      destruct (r =? r') eqn:E; [|apply incl_refl].
      apply N.eqb_eq in E. subst r'. exact Hi.
  Qed.
  Lemma ale_put_t_formed s r m' s4 :
    qle (set_tcm s (tcm_put r m' (s_tcm s))) s4 -> r < s_round s4 -> ale s s4.
  Proof.
    intros [Q1 [Q2 [Q3 Q4]]] Hr. cbn [s_round set_tcm] in Q1. unfold hqr at 1 in Q2. cbn [s_high_qc set_tcm] in Q2.
    fold (hqr s) in Q2.
    assert (K : forall r', r < r' -> tget r' s4 = tget r' s \/ (r' < s_round s4 /\ tget r' s4 = mkTM 0 [] [])).
    { intros r' Hr'. destruct (Q4 r') as [E|E]; [|right; exact E]. left. rewrite E.
      unfold tget. cbn [s_tcm set_tcm]. rewrite tcm_get_put_k.
      destruct (r =? r') eqn:E2; [apply N.eqb_eq in E2; lia|reflexivity]. }
    unfold ale. split; [exact Q1|]. split; [exact Q2|]. split; [|split; [|split]].
    - intros HM k Hk. destruct (Q3 k) as [E|[_ E]]; rewrite E; [apply HM; lia|apply qm_fresh_empty].
    - intros HM r' Hr'. destruct (K r') as [E|[L _]]; [lia| |lia]. rewrite E. apply HM. lia.
    - intros k Hk. destruct (Q3 k) as [E|[L _]]; [|lia]. rewrite E. apply incl_refl.
    - intros r' Hr'. destruct (K r') as [E|[L _]]; [lia| |lia]. rewrite E. apply incl_refl.
  Qed.

  (* ---------- one append ---------- *)
  Lemma qm_append_cases m v :
    match qm_append c m v with
    | (m', r) =>
        (In (v_author v) (qm_used m) /\ m' = m /\ exists e, r = RErr e) \/
        (~ In (v_author v) (qm_used m) /\ qm_used m' = v_author v :: qm_used m /\
         ((Node.quorum c <= qm_weight m + stk (v_author v) /\ exists qc, r = ROk (Some qc) /\ qc_round qc = v_round v) \/
          (qm_weight m + stk (v_author v) < Node.quorum c /\ r = ROk None /\
           qm_weight m' = qm_weight m + stk (v_author v))))
    end.
  Proof.
    unfold qm_append. gunf. destruct (memN (v_author v) (qm_used m)) eqn:Em.
    - left. apply memN_in in Em. split; [exact Em|]. split; [reflexivity|eexists; reflexivity].
    - assert (Hnin : ~ In (v_author v) (qm_used m)) by (intro Hin; apply memN_in in Hin; congruence).
      cbv zeta. destruct (Node.quorum c <=? qm_weight m + stk (v_author v)) eqn:Eq; right; (split; [exact Hnin|]);
        cbn [qm_used qm_weight].
      + apply N.leb_le in Eq. split; [reflexivity|]. left. split; [exact Eq|]. eexists. split; reflexivity.
      + apply N.leb_gt in Eq. split; [reflexivity|]. right. split; [exact Eq|]. split; reflexivity.
  Qed.
  Lemma tm_append_cases m t :
    match tm_append c m t with
    | (m', r) =>
        (In (t_author t) (tm_used m) /\ m' = m /\ exists e, r = RErr e) \/
        (~ In (t_author t) (tm_used m) /\ tm_used m' = t_author t :: tm_used m /\
         ((Node.quorum c <= tm_weight m + stk (t_author t) /\ exists tc, r = ROk (Some tc) /\ tc_round tc = t_round t) \/
          (tm_weight m + stk (t_author t) < Node.quorum c /\ r = ROk None /\
           tm_weight m' = tm_weight m + stk (t_author t))))
    end.
  Proof.
    unfold tm_append. gunf. destruct (memN (t_author t) (tm_used m)) eqn:Em.
    - left. apply memN_in in Em. split; [exact Em|]. split; [reflexivity|eexists; reflexivity].
    - assert (Hnin : ~ In (t_author t) (tm_used m)) by (intro Hin; apply memN_in in Hin; congruence).
      cbv zeta. destruct (Node.quorum c <=? tm_weight m + stk (t_author t)) eqn:Eq; right; (split; [exact Hnin|]);
        cbn [tm_used tm_weight].
      + apply N.leb_le in Eq. split; [reflexivity|]. left. split; [exact Eq|]. eexists. split; reflexivity.
      + apply N.leb_gt in Eq. split; [reflexivity|]. right. split; [exact Eq|]. split; reflexivity.
  Qed.

  (* ---------- handle_vote: the preorder, and what a verified, non-stale vote leaves behind ---------- *)
  Lemma handle_vote_spec hint v s s' :
    s' = post (handle_vote c me hint v) s ->
    ale s s' /\
    (vote_verify c v = ROk tt -> s_round s <= v_round v ->
     (v_round v <= hqr s' /\ v_round v < s_round s') \/
     (s_round s' <= v_round v /\ In (v_author v) (qm_used (qget (v_round v, v_hash v) s')))).
  Proof.
    intros Es'. unfold handle_vote in Es'. rewrite post_bind_get in Es'. gunf.
    destruct (v_round v <? s_round s) eqn:Est.
    { apply N.ltb_lt in Est. cbn [post ret fst] in Es'. subst s'. split; [apply ale_refl|]. intros _ H. lia. }
    apply N.ltb_ge in Est. rewrite post_bind in Es'. unfold lift at 1 in Es'.
    destruct (vote_verify c v) as [[]|e|n] eqn:Ev; [|subst s'; split; [apply ale_refl|discriminate]..].
    cbv zeta in Es'. set (k := (v_round v, v_hash v)) in *.
    pose proof (qm_append_cases (qcm_get k (s_qcm s)) v) as Q.
    destruct (qm_append c (qcm_get k (s_qcm s)) v) as [m' r].
    rewrite post_bind in Es'. unfold modify at 1 in Es'. rewrite post_bind in Es'. unfold lift at 1 in Es'.
    set (s2 := set_qcm s (qcm_put k m' (s_qcm s))) in *.
    assert (G2 : qget k s2 = m').
    { unfold qget, s2. cbn [s_qcm set_qcm]. rewrite qcm_get_put_k, vkey_eqb_refl. reflexivity. }
    destruct Q as [[Hin [-> [e ->]]]|[Hnin [Hu [[Hq [qc [-> Hr]]]|[Hq [-> Hw]]]]]].
    - (* the author was already counted *)
      subst s'. split; [apply ale_put; [apply incl_refl|auto]|].
      intros _ _. right. split; [exact Est|]. rewrite G2. exact Hin.
    - (* the certificate is assembled *)
      rewrite post_bind in Es'.
      pose proof (process_qc_post qc s2) as P.
      destruct (process_qc qc s2) as [[s3 o3] r3]. destruct P as [P1 [P2 [P3 ->]]].
      pose proof (ql_maybe_propose c me hint None s3) as P4. rewrite <- Es' in P4.
      assert (Q24 : qle s2 s') by (eapply qle_trans; eauto).
      destruct P4 as [R4 [H4 _]]. rewrite Hr in P2, P3.
      split; [eapply (ale_put_formed s k m' s'); [exact Q24|cbn [fst k]; lia|cbn [fst k]; lia]|].
      intros _ _. left. split; lia.
    - (* one more author, below the quorum *)
      cbn [post ret fst] in Es'. subst s'. split.
      + apply ale_put; [fold (qget k s); rewrite Hu; apply incl_tl, incl_refl|].
        intros Hk [N1 [N2 N3]]. fold (qget k s) in Hu, Hw, Hnin, Hq. unfold qm_fresh. rewrite Hu, Hw. cbn [wsum].
        split; [constructor; assumption|]. split; lia.
      + intros _ _. right. split; [exact Est|]. rewrite G2, Hu. left. reflexivity.
  Qed.

  (* ---------- handle_timeout ---------- *)
  Lemma handle_timeout_spec hint t s s' :
    s' = post (handle_timeout c me hint t) s ->
    ale s s' /\
    (timeout_verify c t = ROk tt -> s_round s <= t_round t ->
     t_round t < s_round s' \/ In (t_author t) (tm_used (tget (t_round t) s'))).
  Proof.
    intros Es'. unfold handle_timeout in Es'. rewrite post_bind_get in Es'. gunf.
    destruct (t_round t <? s_round s) eqn:Est.
    { apply N.ltb_lt in Est. cbn [post ret fst] in Es'. subst s'. split; [apply ale_refl|]. intros _ H. lia. }
    apply N.ltb_ge in Est. rewrite post_bind in Es'. unfold lift at 1 in Es'.
    destruct (timeout_verify c t) as [[]|e|n] eqn:Ev; [|subst s'; split; [apply ale_refl|discriminate]..].
    rewrite post_bind in Es'.
    pose proof (process_qc_post (t_high_qc t) s) as P.
    destruct (process_qc (t_high_qc t) s) as [[s1 o1] r1]. destruct P as [P1 [_ [_ ->]]].
    apply qle_ale in P1.
    rewrite post_bind_get in Es'.
    pose proof (tm_append_cases (tcm_get (t_round t) (s_tcm s1)) t) as Q.
    destruct (tm_append c (tcm_get (t_round t) (s_tcm s1)) t) as [m' r].
    rewrite post_bind in Es'. unfold modify at 1 in Es'. rewrite post_bind in Es'. unfold lift at 1 in Es'.
    set (s2 := set_tcm s1 (tcm_put (t_round t) m' (s_tcm s1))) in *.
    assert (G2 : tget (t_round t) s2 = m').
    { unfold tget, s2. cbn [s_tcm set_tcm]. rewrite tcm_get_put_k, N.eqb_refl. reflexivity. }
    destruct Q as [[Hin [-> [e ->]]]|[Hnin [Hu [[Hq [tc [-> Hr]]]|[Hq [-> Hw]]]]]].
    - subst s'. split; [eapply ale_trans; [exact P1|]; apply ale_put_t; [apply incl_refl|auto]|].
      intros _ _. right. rewrite G2. exact Hin.
    - rewrite post_bind in Es'.
      pose proof (advance_round_post (tc_round tc) s2) as A.
      destruct (advance_round (tc_round tc) s2) as [[s3 o3] r3]. destruct A as [A1 [A2 ->]].
      rewrite post_bind in Es'. unfold emit at 1 in Es'.
      pose proof (ql_maybe_propose c me hint (Some tc) s3) as P4. rewrite <- Es' in P4.
      assert (Q24 : qle s2 s') by (eapply qle_trans; eauto).
      destruct P4 as [R4 _]. rewrite Hr in A2.
      split; [eapply ale_trans; [exact P1|]; eapply (ale_put_t_formed s1 (t_round t) m' s'); [exact Q24|lia]|].
      intros _ _. left. lia.
    - cbn [post ret fst] in Es'. subst s'. split.
      + eapply ale_trans; [exact P1|]. apply ale_put_t; [fold (tget (t_round t) s1); rewrite Hu; apply incl_tl, incl_refl|].
        intros Hk [N1 [N2 N3]]. fold (tget (t_round t) s1) in Hu, Hw, Hnin, Hq. unfold tm_fresh. rewrite Hu, Hw. cbn [wsum].
        split; [constructor; assumption|]. split; lia.
      + intros _ _. right. rewrite G2, Hu. left. reflexivity.
  Qed.

  (* ---------- every handler, every event ---------- *)
  Create HintDb c19p.
  Lemma p_handle_vote hint v : pres (handle_vote c me hint v).
  Proof. intros s. apply (handle_vote_spec hint v s _ eq_refl). Qed.
  Lemma p_handle_timeout hint t : pres (handle_timeout c me hint t).
  Proof. intros s. apply (handle_timeout_spec hint t s _ eq_refl). Qed.
  Hint Resolve p_handle_vote p_handle_timeout : c19p.

  Lemma ale_frame s s' :
    s_round s' = s_round s -> s_high_qc s' = s_high_qc s -> s_qcm s' = s_qcm s -> s_tcm s' = s_tcm s -> ale s s'.
  Proof. intros. apply qle_ale, qle_frame; assumption. Qed.

  Ltac p_step :=
    match goal with
    | |- rm _ (ret _) => apply (rm_ret _ ale_refl)
    | |- rm _ (fail _) => apply (rm_fail _ ale_refl)
    | |- rm _ (panic _) => apply (rm_panic _ ale_refl)
    | |- rm _ get => apply (rm_get _ ale_refl)
    | |- rm _ (lift _) => apply (rm_lift _ ale_refl)
    | |- rm _ (emit _) => apply (rm_emit _ ale_refl)
    | |- rm _ (bind _ _) => apply (rm_bind _ ale_trans); [|intros ?]
    end.
  Ltac p_mod :=
    solve [apply rm_modify; intros; apply ale_frame; cbn;
           repeat match goal with |- context [if ?b then _ else _] => destruct b end; reflexivity].
  Ltac p_go := repeat first [ p_step | rm_dm | p_mod | solve [auto 2 with c19p]
                            | solve [apply pres_of_aquiet; auto 2 with c19q] | progress cbv zeta ].

  Lemma p_local_timeout hint : pres (local_timeout c me hint).
  Proof. unfold local_timeout, increase_last_voted. p_go. Qed.
  Lemma p_process_block dq hint b : pres (process_block c me dq hint b).
  Proof. unfold process_block. p_go. Qed.
  Hint Resolve p_process_block : c19p.
  Lemma p_handle_proposal dq hint b : pres (handle_proposal c me dq hint b).
  Proof. unfold handle_proposal. p_go. Qed.

  Theorem step_ale dq hint e : pres (step c me dq hint e).
  Proof.
    destruct e as [b|v|t|tc|b| |d|d| ]; cbn [step].
    - apply p_handle_proposal.
    - apply p_handle_vote.
    - apply p_handle_timeout.
    - apply pres_of_aquiet, ql_handle_tc.
    - p_go.
    - apply p_local_timeout.
    - apply pres_of_aquiet, ql_batch_stored.
    - p_go.
    - apply pres_of_aquiet, ql_maybe_propose.
  Qed.

  (* ---------- the walks ---------- *)
  Definition RQ (s : State) (acc : list ((N * digest) * list N)) : Prop :=
    (forall k, NoDup (vacc_get k acc)) /\
    (forall k, s_round s <= fst k -> incl (vacc_get k acc) (qm_used (qget k s))).
  Definition RT (s : State) (acc : list (N * list N)) : Prop :=
    (forall r, NoDup (tacc_get r acc)) /\
    (forall r, s_round s <= r -> incl (tacc_get r acc) (tm_used (tget r s))).

  Lemma RQ_ale s s' acc : ale s s' -> RQ s acc -> RQ s' acc.
  Proof.
    intros [L1 [_ [_ [_ [L5 _]]]]] [R1 R2]. split; [exact R1|].
    intros k Hk. eapply incl_tran; [apply R2; lia|apply L5; exact Hk].
  Qed.
  Lemma RT_ale s s' acc : ale s s' -> RT s acc -> RT s' acc.
  Proof.
    intros [L1 [_ [_ [_ [_ L6]]]]] [R1 R2]. split; [exact R1|].
    intros r Hr. eapply incl_tran; [apply R2; lia|apply L6; exact Hr].
  Qed.

  Lemma c19c_walk_sound evs : forall s acc,
    MQ s -> RQ s acc -> c19c_walk c (snap s) acc evs (obs_from c me evs s) = true.
  Proof.
    induction evs as [|[h e] rest IH]; intros s acc HM HR; cbn [obs_from]; [reflexivity|].
    pose proof (step_ale src_dq h e s) as L. unfold post in L.
    assert (V : forall v, e = EvVote v -> vote_verify c v = ROk tt -> s_round s <= v_round v ->
                let s' := fst (fst (step c me src_dq h e s)) in
                (v_round v <= hqr s' /\ v_round v < s_round s') \/
                (s_round s' <= v_round v /\ In (v_author v) (qm_used (qget (v_round v, v_hash v) s')))).
    { intros v -> Hv Hr. cbn [step]. apply (proj2 (handle_vote_spec h v s _ eq_refl) Hv Hr). }
    destruct (step c me src_dq h e s) as [[s1 o] res]. cbn [fst] in L, V.
    cbn [c19c_walk ob_state].
    assert (HM1 : MQ s1) by (apply L; exact HM).
    assert (HR1 : RQ s1 acc) by (eapply RQ_ale; eauto).
    destruct e as [b|v|t|tc|b| |d|d| ]; try (apply IH; assumption).
    destruct (vote_okb c v && (st_round (snap s) <=? v_round v)) eqn:Ec; [|apply IH; assumption].
    apply andb_true_iff in Ec. destruct Ec as [Ev Er]. apply N.leb_le in Er. cbn [snap st_round] in Er.
    unfold vote_okb in Ev. destruct (vote_verify c v) as [[]|e|n] eqn:Evv; try discriminate.
    specialize (V v eq_refl Evv Er). clear Ev.
    cbv zeta. set (k := (v_round v, v_hash v)) in *.
    set (l := add_author (v_author v) (vacc_get k acc)).
    assert (HR2 : RQ s1 (vacc_put k l acc)).
    { destruct HR1 as [R1 R2]. split.
      - intros k'. rewrite vacc_get_put. destruct (vkey_eqb k k'); [apply add_author_nodup|]; apply R1.
      - intros k' Hk'. rewrite vacc_get_put. destruct (vkey_eqb k k') eqn:E; [|apply R2; exact Hk'].
        apply vkey_eqb_true in E. subst k'. cbn [fst k] in Hk'.
        intros x Hx. apply add_author_in in Hx. destruct Hx as [->|Hx]; [|apply R2; [exact Hk'|exact Hx]].
        destruct V as [[_ V]|[_ V]]; [lia|exact V]. }
    apply andb_true_iff. split; [|apply IH; assumption].
    destruct (Node.quorum c <=? authors_stake c l) eqn:Q; [|reflexivity]. cbn [negb orb].
    apply N.leb_le. apply N.leb_le in Q. cbn [snap st_hq]. fold (hqr s1).
    destruct (N.le_gt_cases (v_round v) (hqr s1)) as [Hle|Hgt]; [exact Hle|exfalso].
    destruct V as [[V _]|[V _]]; [lia|].
    destruct (HM1 k Hgt) as [N1 [N2 N3]].
    destruct HR2 as [R1 R2]. specialize (R1 k). specialize (R2 k V).
    rewrite vacc_get_put, vkey_eqb_refl in R1, R2.
    pose proof (wsum_incl_nodup stk _ _ R1 R2) as W. rewrite authors_stake_wsum in Q. lia.
  Qed.

  Lemma c19t_walk_sound evs : forall s acc,
    MT s -> RT s acc -> c19t_walk c (snap s) acc evs (obs_from c me evs s) = true.
  Proof.
    induction evs as [|[h e] rest IH]; intros s acc HM HR; cbn [obs_from]; [reflexivity|].
    pose proof (step_ale src_dq h e s) as L. unfold post in L.
    assert (V : forall t, e = EvTimeout t -> timeout_verify c t = ROk tt -> s_round s <= t_round t ->
                let s' := fst (fst (step c me src_dq h e s)) in
                t_round t < s_round s' \/ In (t_author t) (tm_used (tget (t_round t) s'))).
    { intros t -> Hv Hr. cbn [step]. apply (proj2 (handle_timeout_spec h t s _ eq_refl) Hv Hr). }
    destruct (step c me src_dq h e s) as [[s1 o] res]. cbn [fst] in L, V.
    cbn [c19t_walk ob_state].
    assert (HM1 : MT s1) by (apply L; exact HM).
    assert (HR1 : RT s1 acc) by (eapply RT_ale; eauto).
    destruct e as [b|v|t|tc|b| |d|d| ]; try (apply IH; assumption).
    destruct (timeout_okb c t && (st_round (snap s) <=? t_round t)) eqn:Ec; [|apply IH; assumption].
    apply andb_true_iff in Ec. destruct Ec as [Ev Er]. apply N.leb_le in Er. cbn [snap st_round] in Er.
    unfold timeout_okb in Ev. destruct (timeout_verify c t) as [[]|e|n] eqn:Evv; try discriminate.
    specialize (V t eq_refl Evv Er). clear Ev.
    cbv zeta. set (l := add_author (t_author t) (tacc_get (t_round t) acc)).
    assert (HR2 : RT s1 (tacc_put (t_round t) l acc)).
    { destruct HR1 as [R1 R2]. split.
      - intros r'. rewrite tacc_get_put. destruct (t_round t =? r'); [apply add_author_nodup|]; apply R1.
      - intros r' Hr'. rewrite tacc_get_put. destruct (t_round t =? r') eqn:E; [|apply R2; exact Hr'].
        apply N.eqb_eq in E. subst r'.
        intros x Hx. apply add_author_in in Hx. destruct Hx as [->|Hx]; [|apply R2; [exact Hr'|exact Hx]].
        destruct V as [V|V]; [lia|exact V]. }
    apply andb_true_iff. split; [|apply IH; assumption].
    destruct (Node.quorum c <=? authors_stake c l) eqn:Q; [|reflexivity]. cbn [negb orb].
    apply N.leb_le. apply N.leb_le in Q. cbn [snap st_round].
    destruct (N.le_gt_cases (t_round t + 1) (s_round s1)) as [Hle|Hgt]; [exact Hle|exfalso].
    assert (Hr : s_round s1 <= t_round t) by lia.
    destruct (HM1 (t_round t) Hr) as [N1 [N2 N3]].
    destruct HR2 as [R1 R2]. specialize (R1 (t_round t)). specialize (R2 (t_round t) Hr).
    rewrite tacc_get_put, N.eqb_refl in R1, R2.
    pose proof (wsum_incl_nodup stk _ _ R1 R2) as W. rewrite authors_stake_wsum in Q. lia.
  Qed.

  Lemma MQ_init : MQ (init c).
  Proof. intros k _. apply qm_fresh_empty. Qed.
  Lemma MT_init : MT (init c).
  Proof. intros r _. apply tm_fresh_empty. Qed.

  (* on every run of the node model from the initial state, whatever the events (valid, forged, stale, Byzantine) *)
  Theorem mon_c19_complete_sound evs : mon_c19_complete c evs (obs_of_run c me evs) = true.
  Proof.
    unfold mon_c19_complete, obs_of_run. apply (c19c_walk_sound evs (init c) []); [apply MQ_init|].
    split; [intros k; constructor|intros k _ x []].
  Qed.
  Theorem mon_c19_tc_complete_sound evs : mon_c19_tc_complete c evs (obs_of_run c me evs) = true.
  Proof.
    unfold mon_c19_tc_complete, obs_of_run. apply (c19t_walk_sound evs (init c) []); [apply MT_init|].
    split; [intros r; constructor|intros r _ x []].
  Qed.
End C19Complete.
Print Assumptions mon_c19_complete_sound.
Print Assumptions mon_c19_tc_complete_sound.

(* ---------- non-vacuity: a run on which the accumulators reach the quorum and the requirements are evaluated ---------- *)
(* committee of 4, equal stake, quorum 3; node 2 leads round 2 and collects the votes for the round-1 block B1.
   First a FORGED vote naming member 0 (junk signature), then the genuine votes of 0, 1, 3, then a duplicate of 1. *)
Definition vt1 (a : N) : Vote := mkVote (block_digest B1) 1 a (SigOf a (CVote (block_digest B1) 1)).
Definition vt1_forged : Vote := mkVote (block_digest B1) 1 0 (SigJunk 7).
Definition evs_c19c : list (list N * Event) :=
  [([], EvVote vt1_forged); ([], EvVote (vt1 0)); ([], EvVote (vt1 1)); ([], EvVote (vt1 3)); ([], EvVote (vt1 1))].
Example c19c_hyps_met :
  map snap_hq (obs_of_run c4 2 evs_c19c) = [0; 0; 0; 1; 1] /\
  c19_complete_fired c4 evs_c19c (obs_of_run c4 2 evs_c19c) = 1 /\
  mon_c19_complete c4 evs_c19c (obs_of_run c4 2 evs_c19c) = true.
Proof. vm_compute. repeat split; reflexivity. Qed.

(* the monitor is FALSE on an observed trace in which the same three valid votes of distinct members arrive (after
   the forged one) and the node's high-QC round stays 0 -- what the seeded defect "signature checked inside the
   aggregator after the author was marked as used" produces: the forged vote burns member 0's slot *)
Definition ob_stuck : Obs := mkObs [] KOk (1, 0, 0, 0).
Example c19c_detects_stuck :
  mon_c19_complete c4 evs_c19c [mkObs [] KErr (1, 0, 0, 0); ob_stuck; ob_stuck; ob_stuck; ob_stuck] = false.
Proof. vm_compute. reflexivity. Qed.
(* two valid votes are not enough for a requirement: the same stuck observations pass when member 3's vote is missing *)
Example c19c_no_early_demand :
  mon_c19_complete c4 [([], EvVote vt1_forged); ([], EvVote (vt1 0)); ([], EvVote (vt1 1)); ([], EvVote (vt1 1))]
    [mkObs [] KErr (1, 0, 0, 0); ob_stuck; ob_stuck; ob_stuck] = true.
Proof. vm_compute. reflexivity. Qed.

(* timeouts of round 1 from members 0, 1, 3 (after a forged one naming 0): the TC forms at the third, the round becomes 2 *)
Definition to1 (a : N) : Timeout := mkTimeout qc_genesis 1 a (SigOf a (CTimeout 1 0)).
Definition to1_forged : Timeout := mkTimeout qc_genesis 1 0 (SigJunk 7).
Definition evs_c19t : list (list N * Event) :=
  [([], EvTimeout to1_forged); ([], EvTimeout (to1 0)); ([], EvTimeout (to1 1)); ([], EvTimeout (to1 3))].
Example c19t_hyps_met :
  map snap_round (obs_of_run c4 1 evs_c19t) = [1; 1; 1; 2] /\
  c19_tc_complete_fired c4 evs_c19t (obs_of_run c4 1 evs_c19t) = 1 /\
  mon_c19_tc_complete c4 evs_c19t (obs_of_run c4 1 evs_c19t) = true.
Proof. vm_compute. repeat split; reflexivity. Qed.
Example c19t_detects_stuck :
  mon_c19_tc_complete c4 evs_c19t [mkObs [] KErr (1, 0, 0, 0); ob_stuck; ob_stuck; ob_stuck] = false.
Proof. vm_compute. reflexivity. Qed.
