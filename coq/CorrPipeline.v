(* Correspondence support for harness/src/bin/pipeline.rs (C13): definitions only, no proofs.

   msync   the REAL mempool::Synchronizer task against MempoolSyncDefs.msstep
   mhelper the REAL mempool::Helper task against ReceiveDefs.mempool_helper_answer
   e2e     one real node's mempool (Mempool::spawn) + consensus MempoolDriver/PayloadWaiter on one store: monitors on
           the observed order of events, and the release points compared with Node.mempool_verify / Node.batch_stored *)
From Coq Require Import List NArith Bool.
From HS Require Import GTac Node MempoolSyncDefs Codec Base64Defs WireDefs ReceiveDefs CorrComp.
Import ListNotations.
Open Scope N_scope.

Definition nlist_eqb (a b : list N) : bool := forallb2 N.eqb a b.
Definition subsetb (a b : list N) : bool := forallb (fun x => existsb (N.eqb x) b) a.
Definition sameset (a b : list N) : bool := Nat.eqb (length a) (length b) && subsetb a b && subsetb b a.

(* ------------------------------------------------------------------------------------------------ msync *)
(* Authorities are named by rank 0..n-1; 99 is a key outside the committee. Digests are interned by the harness.
   evs: the abstract events applied to the real task; time is a virtual clock that the harness advances by at
   least 1 (and sleeps 2 ms of real time, the code compares wall-clock milliseconds) before every retry tick. The
   `pick` of an MRetry event is the OBSERVED destination set of that tick, sorted (the random draw of
   `lucky_broadcast` is not predictable): the model is evaluated on it, and [picks_ok] checks that it is a legal draw.
   obs: the BatchRequests captured on the network tap after each event (retry: sorted by destination). *)
Definition req_eqb (exact : bool) (a b : mreq) : bool :=
  (rq_dest a =? rq_dest b) && (rq_origin a =? rq_origin b) &&
  (if exact then nlist_eqb (rq_digests a) (rq_digests b) else sameset (rq_digests a) (rq_digests b)).
Definition is_retry (e : msev) : bool := match e with MRetry _ _ => true | _ => false end.
Definition out_eqb (e : msev) (m o : list mreq) : bool := forallb2 (req_eqb (negb (is_retry e))) m o.

Fixpoint outs_agree (evs : list msev) (model obs : list (list mreq)) : bool :=
  match evs, model, obs with
  | [], [], [] => true
  | e :: re, m :: rm, o :: ro => out_eqb e m o && outs_agree re rm ro
  | _, _, _ => false
  end.

Section MS.
  Variables (n me gc_depth delay nodes : N).
  Definition ms_known (a : N) : bool := a <? n.
  Definition ms_others : list N := filter (fun a => negb (a =? me)) (map N.of_nat (seq 0 (N.to_nat n))).

  (* whenever the model has something to re-request, the observed destinations are a legal draw *)
  Fixpoint picks_ok (s : MS) (evs : list msev) : bool :=
    match evs with
    | [] => true
    | e :: r =>
        (match e with
         | MRetry now pick => match retry_list delay now (ms_pending s) with [] => true | _ => pick_ok ms_others nodes pick end
         | _ => true
         end) && picks_ok (fst (msstep me gc_depth delay ms_known s e)) r
    end.

  (* monitors on the implementation's own observations *)
  (* (a) a digest named in a Synchronize request is not named again by a later Synchronize request unless its batch
         arrived or a Cleanup was received in between; every Synchronize request goes to the target, from me *)
  Fixpoint mon_once (asked : list N) (evs : list msev) (obs : list (list mreq)) : bool :=
    match evs, obs with
    | e :: re, o :: ro =>
        match e with
        | MSync ds t _ =>
            forallb (fun q => (rq_dest q =? t) && (rq_origin q =? me) && subsetb (rq_digests q) ds &&
                              forallb (fun d => negb (existsb (N.eqb d) asked)) (rq_digests q)) o &&
            (Nat.leb (length o) 1) &&
            mon_once (flat_map rq_digests o ++ asked) re ro
        | MArrived d => mon_once (filter (fun x => negb (x =? d)) asked) re ro
        | MCleanup _ => mon_once [] re ro
        | MRetry _ _ => mon_once asked re ro
        end
    | _, _ => true
    end.
  (* (c) with sync_retry_delay = 0 every digest requested by a Synchronize, whose batch has not arrived and which has not been
         garbage-collected since, is named by every request of every later retry tick (if that tick may address anybody).
         Garbage collection as the property understands it (NOT the regenerated guards: this is the specification side): a request
         registered while the synchronizer knew round r0 is collected by Cleanup(r) only when r >= gc_depth and r0 <= r - gc_depth;
         a Cleanup of a round below gc_depth collects nothing. [cur] = the round of the last Cleanup (0 initially). *)
  Fixpoint mon_retry_go (cur : N) (asked : list (N * N)) (evs : list msev) (obs : list (list mreq)) : bool :=
    match evs, obs with
    | e :: re, o :: ro =>
        match e with
        | MSync _ _ _ => mon_retry_go cur (map (fun d => (d, cur)) (filter (fun d => negb (existsb (fun x => fst x =? d) asked)) (flat_map rq_digests o)) ++ asked) re ro
        | MArrived d => mon_retry_go cur (filter (fun x => negb (fst x =? d)) asked) re ro
        | MCleanup r => mon_retry_go r (if r <? gc_depth then asked else filter (fun x => r - gc_depth <? snd x) asked) re ro
        | MRetry _ _ =>
            ((negb (delay =? 0)) ||
             (forallb (fun q => subsetb (map fst asked) (rq_digests q) && (rq_origin q =? me) && negb (rq_dest q =? me)) o &&
              (match asked with [] => true | _ => Nat.eqb (length o) (N.to_nat (N.min nodes (N.of_nat (length ms_others)))) end)))
            && mon_retry_go cur asked re ro
        end
    | _, _ => true
    end.
  Definition mon_retry (asked : list N) (evs : list msev) (obs : list (list mreq)) : bool := mon_retry_go 0 (map (fun d => (d, 0)) asked) evs obs.

  Definition msync_case (evs : list msev) (obs : list (list mreq)) : list N :=
    verdict_of [ b2n (outs_agree evs (ms_run me gc_depth delay ms_known ms_init evs) obs);
                 b2n (picks_ok ms_init evs);
                 b2n (mon_once [] evs obs);
                 b2n (mon_retry [] evs obs) ].
End MS.

(* ------------------------------------------------------------------------------------------------ mhelper *)
(* writes: what the harness (through the real Processor, or directly) put in the node's store, oldest first: interned
   key -> exact bytes (batches go through the REAL Processor: key = the digest it announced). reqs: (requested keys, origin rank; 99 = not a member). obs: per request, the messages the real
   Helper handed to the network, in order: (destination rank, exact bytes). *)
Fixpoint wlookup (k : N) (w : list (N * bytes)) : option bytes :=    (* last write wins *)
  match w with [] => None | (k', v) :: r => match wlookup k r with Some x => Some x | None => if k =? k' then Some v else None end end.
Definition reply_eqb (a b : N * bytes) : bool := (fst a =? fst b) && bytes_eqb (snd a) (snd b).
Definition mhelper_model (n : N) (writes : list (N * bytes)) (rq : list N * N) : list (N * bytes) :=
  map (fun v => (snd rq, v)) (mempool_helper_answer (snd rq <? n) (map (fun k => wlookup k writes) (fst rq))).
Definition mhelper_case (n : N) (writes : list (N * bytes)) (reqs : list (list N * N)) (obs : list (list (N * bytes)))
                        (flags : list bool) : list N :=
  verdict_of ([ b2n (forallb2 (forallb2 reply_eqb) (map (mhelper_model n writes) reqs) obs);
               (* monitors on the observation alone: every reply goes to the requestor and carries the stored value of
                  one of the requested keys; a non-member gets nothing; at most one reply per requested key *)
               b2n (forallb2 (fun rq o => forallb (fun r => (fst r =? snd rq) &&
                                 existsb (fun k => match wlookup k writes with Some v => bytes_eqb v (snd r) | None => false end) (fst rq)) o) reqs obs);
               b2n (forallb2 (fun rq o => (snd rq <? n) || match o with [] => true | _ => false end) reqs obs);
               b2n (forallb2 (fun rq o => Nat.leb (length o) (length (fst rq))) reqs obs) ]
              (* flags: [the real Processor announced, and stored under, the SHA-512/256 of the exact bytes it was given] *)
              ++ map b2n flags).

(* ------------------------------------------------------------------------------------------------ e2e *)
(* One real node (authority `me` of n, by rank): Mempool::spawn + MempoolDriver/PayloadWaiter on one store. The trace
   is what the harness did and saw, in order. Batches are interned by digest (k); transactions by submission index;
   blocks are identified by their round (the harness uses every round once). *)
Inductive xev :=
| XTx (i : N)                                         (* client transaction i written to the transactions port *)
| XSealed (k : N) (txs : list N)                      (* Batch k first seen on the tap (reliable broadcast), its transactions *)
| XAnnounced (k : N) (stored : bool)                  (* digest k arrived on the mempool->consensus channel; `stored` = at
                                                         that moment store.read(k) returned bytes hashing to k *)
| XVerify (author round : N) (payload : list N) (res : bool)   (* MempoolDriver::verify(block) returned Ok(res) *)
| XRequest (dest : N) (ds : list N) (origin : N)      (* BatchRequest seen on the tap *)
| XDelivered (k : N)                                  (* Batch k written to the node's mempool port and acknowledged *)
| XReleased (round : N).                              (* block received on the loop-back channel *)

Definition xblock (author round : N) (payload : list N) : Block :=
  mkBlock qc_genesis None author round payload (SigJunk 0).

Definition mem (x : N) (l : list N) : bool := existsb (N.eqb x) l.

(* monitor 1: every transaction is in exactly one sealed batch, in submission order, and no batch contains a
   transaction before it was submitted *)
Fixpoint mon_tx_prefix (submitted : list N) (tr : list xev) : bool :=
  match tr with
  | [] => true
  | XTx i :: r => mon_tx_prefix (submitted ++ [i]) r
  | XSealed _ txs :: r => subsetb txs submitted && negb (match txs with [] => true | _ => false end) && mon_tx_prefix submitted r
  | _ :: r => mon_tx_prefix submitted r
  end.
Definition mon_tx_once (tr : list xev) : bool :=
  nlist_eqb (flat_map (fun e => match e with XSealed _ txs => txs | _ => [] end) tr)
            (flat_map (fun e => match e with XTx i => [i] | _ => [] end) tr) && mon_tx_prefix [] tr.

(* monitor 2: a digest is announced only when its batch is already readable from the store, only after the batch
   was sealed here or delivered from outside, and every sealed batch is eventually announced *)
Fixpoint mon_announce (known_b : list N) (tr : list xev) : bool :=
  match tr with
  | [] => true
  | XSealed k _ :: r => mon_announce (k :: known_b) r
  | XDelivered k :: r => mon_announce (k :: known_b) r
  | XAnnounced k stored :: r => stored && mem k known_b && mon_announce known_b r
  | _ :: r => mon_announce known_b r
  end.
Definition announced (tr : list xev) : list N := flat_map (fun e => match e with XAnnounced k _ => [k] | _ => [] end) tr.
Definition mon_sealed_announced (tr : list xev) : bool :=
  forallb (fun e => match e with XSealed k _ => mem k (announced tr) | _ => true end) tr.

(* monitor 3: a block is released only after every batch of its payload was announced (stored), at most once, only
   if verify parked it; and at the end no block is parked whose batches are all there (no stall) *)
Fixpoint mon_release (ann : list N) (parked : list (N * list N)) (released : list N) (tr : list xev) : bool :=
  match tr with
  | [] => forallb (fun p => mem (fst p) released || negb (subsetb (snd p) ann)) parked
  | XAnnounced k _ :: r => mon_release (k :: ann) parked released r
  | XVerify _ rd pl res :: r =>
      (Bool.eqb res (subsetb pl ann)) && mon_release ann (if res then parked else (rd, pl) :: parked) released r
  | XReleased rd :: r =>
      negb (mem rd released) &&
      existsb (fun p => (fst p =? rd) && subsetb (snd p) ann) parked &&
      mon_release ann parked (rd :: released) r
  | _ :: r => mon_release ann parked released r
  end.

(* comparison with the models: the release points against Node.mempool_verify / Node.batch_stored, the requests against
   MempoolSyncDefs.msstep. After each stimulus (announce, verify) the reactions the models predict must be the next
   events of the trace, in order, before the next stimulus. *)
Section E2E.
  Variables (n me : N).
  Definition e2e_known (a : N) : bool := a <? n.
  Record xst := mkX { x_cons : State; x_ms : MS; x_rel : list N; x_req : list mreq; x_ok : bool }.
  Definition new_rounds (old new : list Block) : list N := map b_round (skipn (length old) new).
  Definition x_step (x : xst) (e : xev) : xst :=
    match e with
    | XReleased rd =>
        match x_rel x with
        | r :: rest => mkX (x_cons x) (x_ms x) rest (x_req x) (x_ok x && (r =? rd))
        | [] => mkX (x_cons x) (x_ms x) [] (x_req x) false
        end
    | XRequest dest ds origin =>
        match x_req x with
        | q :: rest => mkX (x_cons x) (x_ms x) (x_rel x) rest (x_ok x && req_eqb true q (mkReq dest ds origin))
        | [] => mkX (x_cons x) (x_ms x) (x_rel x) [] false
        end
    | _ =>
        let quiet := match x_rel x, x_req x with [], [] => true | _, _ => false end in
        match e with
        | XAnnounced k _ =>
            let s' := fst (fst (batch_stored k (x_cons x))) in
            mkX s' (fst (msstep me 50 0 e2e_known (x_ms x) (MArrived k)))
                (new_rounds (s_loopback (x_cons x)) (s_loopback s')) [] (x_ok x && quiet)
        | XVerify a rd pl res =>
            match mempool_verify (xblock a rd pl) (x_cons x) with
            | (s', o, r) =>
                let cmds := flat_map (fun y => match y with OMemSync m t => [MSync m t 0] | _ => [] end) o in
                let ms' := ms_state me 50 0 e2e_known (x_ms x) cmds in
                mkX s' ms' [] (concat (ms_run me 50 0 e2e_known (x_ms x) cmds))
                    (x_ok x && quiet && match r with ROk v => Bool.eqb v res | _ => false end)
            end
        | _ => mkX (x_cons x) (x_ms x) (x_rel x) (x_req x) (x_ok x && quiet)
        end
    end.
  Definition x_final (tr : list xev) : xst := fold_left x_step tr (mkX (init (mkCommittee [])) ms_init [] [] true).
  Definition model_agrees (tr : list xev) : bool :=
    let x := x_final tr in x_ok x && match x_rel x, x_req x with [], [] => true | _, _ => false end.

  (* flags: harness-side facts that are not expressible on the abstract trace: [every sealed batch's stored bytes are
     exactly the broadcast bytes; every broadcast reached all n-1 peers' mempool addresses reliably; the released
     block is byte-identical to the verified one; no task panicked] *)
  Definition e2e_case (tr : list xev) (flags : list bool) : list N :=
    verdict_of ([ b2n (model_agrees tr); b2n (mon_tx_once tr); b2n (mon_announce [] tr && mon_sealed_announced tr);
                  b2n (mon_release [] [] [] tr) ] ++ map b2n flags).
End E2E.
