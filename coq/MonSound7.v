(* Monitor soundness, part 7: mon_c10 is true on every run of the node model, whatever the messages (no admissibility
   hypothesis), provided each loop-back selector names the very block in the pool ([lb_exact]; counterexample at the
   end).  Round part: the round never decreases, and when a step leaves the node in a new round r, a certificate of
   round r-1 is among: the valid certificates of the event, the TCs the step broadcast, the node's high QC after the
   step.  Timeout part: the QC of every own timeout dominates every QC sent before (in timeouts, own proposals, and
   blocks voted for). *)
From Coq Require Import List NArith Lia Bool.
From HS Require Import GTac Node Corr Monitors Proto Link Exact MonSoundDefs MonSound2 MonSound4 MonSound5 MonSound6.
Import ListNotations.
Open Scope N_scope.

Section RoundEvidence.
  Variable c : Committee. Variable me : N. Variable dq : DqCfg.
  Variable E : list N.     (* rounds of the valid certificates carried by the event *)

  Definition evs_of (o : list Out) : list N := E ++ map tc_round (tcs_of o).
  Lemma evs_of_mono x o o' : In x (evs_of o) -> In x (evs_of (o ++ o')).
  Proof.
    unfold evs_of. rewrite tcs_of_app, map_app. intros H. apply in_app_or in H. apply in_or_app.
    destruct H as [H|H]; [left; exact H|right; apply in_or_app; left; exact H].
  Qed.

  (* [s0] = state before the step, [o] = outputs so far *)
  Definition RJ (s0 s : State) (o : list Out) : Prop :=
    hq s < s_round s /\ s_round s0 <= s_round s /\
    (s_round s = s_round s0 \/ s_round s - 1 = hq s \/ In (s_round s - 1) (evs_of o)).
  Definition rj {A} (m : M A) : Prop :=
    forall s0 opre s, RJ s0 s opre -> match m s with (s', o, _) => RJ s0 s' (opre ++ o) end.

  Lemma RJ_out s0 s o o' : RJ s0 s o -> RJ s0 s (o ++ o').
  Proof. intros [A [B C]]. split; [exact A|]. split; [exact B|]. destruct C as [C|[C|C]]; auto. right. right. apply evs_of_mono. exact C. Qed.
  Lemma RJ_same s0 s s' o : RJ s0 s o -> s_round s' = s_round s -> s_high_qc s' = s_high_qc s -> RJ s0 s' o.
  Proof. unfold RJ, hq. intros H E1 E2. rewrite E1, E2. exact H. Qed.

  Lemma rj_ret {A} (a : A) : rj (ret a). Proof. intros s0 op s H. unfold ret. cbv beta iota. rewrite app_nil_r. exact H. Qed.
  Lemma rj_fail {A} e : rj (@fail A e). Proof. intros s0 op s H. unfold fail. cbv beta iota. rewrite app_nil_r. exact H. Qed.
  Lemma rj_panic {A} k : rj (@panic A k). Proof. intros s0 op s H. unfold panic. cbv beta iota. rewrite app_nil_r. exact H. Qed.
  Lemma rj_get : rj get. Proof. intros s0 op s H. unfold get. cbv beta iota. rewrite app_nil_r. exact H. Qed.
  Lemma rj_lift {A} (r : res A) : rj (lift r). Proof. intros s0 op s H. unfold lift. cbv beta iota. rewrite app_nil_r. exact H. Qed.
  Lemma rj_emit o : rj (emit o). Proof. intros s0 op s H. unfold emit. cbv beta iota. apply RJ_out. exact H. Qed.
  Lemma rj_modify g : (forall s, s_round (g s) = s_round s /\ s_high_qc (g s) = s_high_qc s) -> rj (modify g).
  Proof. intros Hg s0 op s H. unfold modify. cbv beta iota. rewrite app_nil_r. destruct (Hg s). eapply RJ_same; eauto. Qed.
  Lemma rj_bind {A B} (m : M A) (k : A -> M B) : rj m -> (forall a, rj (k a)) -> rj (bind m k).
  Proof.
    intros Hm Hk s0 op s H. unfold bind. specialize (Hm s0 op s H). destruct (m s) as [[s1 o1] r1].
    destruct r1 as [a|e|n]; auto.
    specialize (Hk a s0 (op ++ o1) s1 Hm). destruct (k a s1) as [[s2 o2] r2]. rewrite app_assoc. exact Hk.
  Qed.

  (* a QC moves the round only together with the high QC; the high QC stays below the round *)
  Lemma rj_process_qc q : rj (process_qc q).
  Proof.
    intros s0 op s [P [R J]]. unfold process_qc, advance_round, update_high_qc, bind, get, modify, ret. cbn [fst snd]. gunf.
    unfold RJ, hq in *.
    destruct (qc_round q <? s_round s) eqn:E1; cbn [fst snd app s_round s_high_qc set_high_qc set_round set_qcm set_tcm].
    - apply N.ltb_lt in E1. destruct (qc_round (s_high_qc s) <? qc_round q) eqn:E2; cbn; rewrite ?app_nil_r.
      + apply N.ltb_lt in E2. split; [lia|]. split; [exact R|]. destruct J as [J|[J|J]]; auto. lia.
      + split; [exact P|]. split; [exact R|exact J].
    - apply N.ltb_ge in E1. assert (E2 : (qc_round (s_high_qc s) <? qc_round q) = true) by (apply N.ltb_lt; lia).
      rewrite E2. cbn. rewrite ?app_nil_r. split; [lia|]. split; [lia|]. right. left. lia.
  Qed.
  (* a TC of the event moves the round *)
  Lemma rj_advance_round r : In r E -> rj (advance_round r).
  Proof.
    intros Hin s0 op s [P [R J]]. unfold advance_round, bind, get, modify, ret. cbn [fst snd]. gunf.
    unfold RJ, hq in *.
    destruct (r <? s_round s) eqn:E1; cbn; rewrite ?app_nil_r.
    - split; [exact P|]. split; [exact R|exact J].
    - apply N.ltb_ge in E1. split; [lia|]. split; [lia|]. right. right. rewrite N.add_sub.
      unfold evs_of. apply in_or_app. left. exact Hin.
  Qed.
  (* a TC the node assembled moves the round and is broadcast *)
  Lemma rj_advance_emit tc {B} (k : M B) : rj k -> rj (advance_round (tc_round tc) ;;; emit (OTC tc) ;;; k).
  Proof.
    intros Hk s0 op s [P [R J]]. unfold bind at 1.
    assert (A : match advance_round (tc_round tc) s with
                | (s1, o1, r1) => o1 = [] /\ r1 = ROk tt /\ RJ s0 s1 (op ++ [OTC tc])
                end).
    { unfold advance_round, bind, get, modify, ret. cbn [fst snd]. gunf. unfold RJ, hq in *.
      destruct (tc_round tc <? s_round s) eqn:E1; cbn.
      - split; [reflexivity|]. split; [reflexivity|]. split; [exact P|]. split; [exact R|].
        destruct J as [J|[J|J]]; auto. right. right. apply evs_of_mono. exact J.
      - apply N.ltb_ge in E1. split; [reflexivity|]. split; [reflexivity|]. split; [lia|]. split; [lia|].
        right. right. rewrite N.add_sub. unfold evs_of. rewrite tcs_of_app, map_app. cbn.
        apply in_or_app. right. apply in_or_app. right. left. reflexivity. }
    destruct (advance_round (tc_round tc) s) as [[s1 o1] r1]. destruct A as [-> [-> A]].
    unfold bind at 1. unfold emit at 1.
    specialize (Hk s0 (op ++ [OTC tc]) s1 A). destruct (k s1) as [[s2 o2] r2]. cbn [app].
    rewrite <- app_assoc in Hk. exact Hk.
  Qed.
End RoundEvidence.

Ltac rj_step :=
  match goal with
  | |- rj _ (ret _) => apply rj_ret
  | |- rj _ (fail _) => apply rj_fail
  | |- rj _ (panic _) => apply rj_panic
  | |- rj _ get => apply rj_get
  | |- rj _ (lift _) => apply rj_lift
  | |- rj _ (emit _) => apply rj_emit
  | |- rj _ (process_qc _) => apply rj_process_qc
  | |- rj _ (bind _ _) => apply rj_bind; [|intros ?]
  end.
Ltac rj_dm := match goal with |- rj _ (match ?x with _ => _ end) => destruct x end.
Ltac rj_mod :=
  solve [apply rj_modify; intros; cbn;
         repeat match goal with |- context [if ?b then _ else _] => destruct b end; split; reflexivity].
Create HintDb rj.
Ltac rj_go := repeat first [ rj_step | rj_dm | rj_mod | solve [auto 2 with rj] | progress cbv zeta ].

Section RoundEvidence2.
  Variable c : Committee. Variable me : N. Variable dq : DqCfg.
  Variable E : list N.
  Notation rj := (rj E).

  Lemma rj_generate_proposal hint tc : rj (generate_proposal me hint tc).
  Proof. unfold generate_proposal. rj_go. Qed.
  Hint Resolve rj_generate_proposal : rj.
  Lemma rj_proposer_cleanup ds : rj (proposer_cleanup ds).
  Proof. unfold proposer_cleanup. rj_go. Qed.
  Hint Resolve rj_proposer_cleanup : rj.
  Lemma rj_sync_park b : rj (sync_park b).
  Proof. unfold sync_park. rj_go. Qed.
  Hint Resolve rj_sync_park : rj.
  Lemma rj_get_parent_block b : rj (get_parent_block b).
  Proof. unfold get_parent_block. rj_go. Qed.
  Hint Resolve rj_get_parent_block : rj.
  Lemma rj_store_block b : rj (store_block b).
  Proof. unfold store_block. apply rj_modify. intros s. split; reflexivity. Qed.
  Hint Resolve rj_store_block : rj.
  Lemma rj_commit_walk lcr : forall fuel parent acc, rj (commit_walk dq fuel lcr parent acc).
  Proof. induction fuel as [|f IH]; intros parent acc; simpl; rj_go; apply IH. Qed.
  Hint Resolve rj_commit_walk : rj.
  Lemma rj_deliver_all l : rj (deliver_all l).
  Proof. induction l as [|b l IH]; simpl; rj_go. Qed.
  Hint Resolve rj_deliver_all : rj.
  Lemma rj_commit b : rj (commit dq b).
  Proof. unfold commit. rj_go. Qed.
  Hint Resolve rj_commit : rj.
  Lemma rj_make_vote b : rj (make_vote me b).
  Proof. unfold make_vote, increase_last_voted. rj_go. Qed.
  Hint Resolve rj_make_vote : rj.
  Lemma rj_handle_vote hint v : rj (handle_vote c me hint v).
  Proof. unfold handle_vote. rj_go. Qed.
  Hint Resolve rj_handle_vote : rj.
  Lemma rj_pw_cleanup r : rj (pw_cleanup r).
  Proof. unfold pw_cleanup. rj_go. Qed.
  Hint Resolve rj_pw_cleanup : rj.
  Lemma rj_mempool_verify b : rj (mempool_verify b).
  Proof. unfold mempool_verify. rj_go. Qed.
  Hint Resolve rj_mempool_verify : rj.
  Lemma rj_batch_stored d : rj (batch_stored d).
  Proof. unfold batch_stored. rj_go. Qed.
  Lemma rj_process_block hint b : rj (process_block c me dq hint b).
  Proof. unfold process_block. rj_go. Qed.
  Hint Resolve rj_process_block : rj.

  Lemma rj_handle_timeout hint t : rj (handle_timeout c me hint t).
  Proof.
    unfold handle_timeout. apply rj_bind; [apply rj_get|]. intros s.
    destruct (g_timeout_stale _ _ _ _ _); [apply rj_ret|].
    apply rj_bind; [apply rj_lift|]. intros _.
    apply rj_bind; [apply rj_process_qc|]. intros _.
    apply rj_bind; [apply rj_get|]. intros s1.
    destruct (tm_append _ _ _) as [m' r].
    apply rj_bind; [rj_mod|]. intros _.
    apply rj_bind; [apply rj_lift|]. intros [tc|]; [|apply rj_ret].
    apply rj_advance_emit. rj_go.
  Qed.
  Lemma rj_local_timeout hint : rj (local_timeout c me hint).
  Proof.
    unfold local_timeout, increase_last_voted. apply rj_bind; [apply rj_get|]. intros s.
    apply rj_bind; [rj_mod|]. intros _. cbv zeta.
    apply rj_bind; [rj_mod|]. intros _.
    apply rj_bind; [apply rj_emit|]. intros _. apply rj_handle_timeout.
  Qed.
End RoundEvidence2.

Section RoundStep.
  Variable c : Committee. Variable me : N. Variable dq : DqCfg.

  Lemma rj_lift_bind E {A B} (r : res A) (k : A -> M B) :
    (forall a, r = ROk a -> rj E (k a)) -> rj E (bind (lift r) k).
  Proof.
    intros Hk s0 op s H. unfold bind, lift. destruct r as [a|e|n]; [|rewrite app_nil_r; exact H..].
    specialize (Hk a eq_refl s0 op s H). destruct (k a s) as [[s2 o2] r2]. exact Hk.
  Qed.

  Lemma rj_handle_proposal hint b : rj (ev_cert_rounds c (EvPropose b)) (handle_proposal c me dq hint b).
  Proof.
    unfold handle_proposal. apply rj_bind; [destruct (_ =? _); [apply rj_ret|apply rj_fail]|]. intros _.
    apply rj_lift_bind. intros [] Ev. destruct (block_verify_ok c b Ev) as [_ [_ Ht]].
    apply rj_bind; [apply rj_process_qc|]. intros _.
    apply rj_bind.
    { destruct (b_tc b) as [tc|] eqn:Etc; [|apply rj_ret]. apply rj_advance_round.
      cbn [ev_cert_rounds]. rewrite Etc. simpl in Ht. rewrite Ht. apply in_or_app. right. left. reflexivity. }
    intros _. apply rj_bind; [apply rj_mempool_verify|]. intros [|]; [apply rj_process_block|apply rj_ret].
  Qed.
  Lemma rj_handle_tc hint tc : rj (ev_cert_rounds c (EvTC tc)) (handle_tc c me hint tc).
  Proof.
    unfold handle_tc. apply rj_lift_bind. intros [] Ev. apply tc_okb_verify in Ev.
    apply rj_bind; [apply rj_get|]. intros s. destruct (g_tc_stale _ _ _ _ _); [apply rj_ret|].
    apply rj_bind; [apply rj_advance_round; cbn [ev_cert_rounds]; rewrite Ev; left; reflexivity|]. intros _.
    apply rj_bind; [apply rj_get|]. intros s1. destruct (_ =? _); [apply rj_generate_proposal|apply rj_ret].
  Qed.

  Theorem rj_step hint e : rj (ev_cert_rounds c e) (step c me dq hint e).
  Proof.
    destruct e as [b|v|t|tc|b| |d|d| ]; cbn [step].
    - apply rj_handle_proposal.
    - apply rj_handle_vote.
    - apply rj_handle_timeout.
    - apply rj_handle_tc.
    - apply rj_bind; [apply rj_get|]. intros s.
      destruct (remove_first b (s_loopback s)) as [[x l]|]; [|apply rj_emit].
      apply rj_bind; [rj_mod|]. intros _. apply rj_process_block.
    - apply rj_local_timeout.
    - apply rj_batch_stored.
    - rj_mod.
    - apply rj_bind; [apply rj_get|]. intros s. destruct (_ =? _); [apply rj_generate_proposal|apply rj_ret].
  Qed.

  (* the round after a step: unchanged, or one above the high QC, or one above a valid certificate of the event or a
     TC broadcast in the step *)
  Theorem step_round hint e s :
    hq s < s_round s ->
    match step c me dq hint e s with
    | (s', o, _) => RJ (ev_cert_rounds c e) s s' o
    end.
  Proof.
    intros P. pose proof (rj_step hint e s [] s) as R.
    destruct (step c me dq hint e s) as [[s' o] r]. apply R. split; [exact P|]. split; [lia|left; reflexivity].
  Qed.
End RoundStep.

Lemma fold_left_max_le l : forall a m, a <= m -> (forall x, In x l -> x <= m) -> fold_left N.max l a <= m.
Proof.
  induction l as [|y r IH]; intros a m Ha Hl; cbn [fold_left]; [exact Ha|].
  apply IH; [|intros x Hx; apply Hl; right; exact Hx].
  pose proof (Hl y (or_introl eq_refl)). lia.
Qed.
Lemma forallb_filter_id {A} (p : A -> bool) l : forallb p l = true -> filter p l = l.
Proof.
  induction l as [|x r IH]; cbn; [reflexivity|]. intros H. apply andb_true_iff in H. destruct H as [H1 H2].
  rewrite H1, (IH H2). reflexivity.
Qed.

Section C10.
  Variable c : Committee. Variable me : N.

  Lemma okout_proposes_hq s' o :
    Forall (okout c me s') o -> forall b, In b (proposes_of o) -> qc_round (b_qc b) <= hq s'.
  Proof.
    induction 1 as [|x r Hx Hr IH]; intros b Hb; [destruct Hb|].
    destruct x; simpl in *; auto. destruct Hb as [<-|Hb]; [apply Hx|apply IH; exact Hb].
  Qed.

  Lemma c10_walk_from evs : forall s sent,
    WfInv c s -> along lb_exact c me evs s -> sent <= hq s ->
    c10_walk c (s_round s) sent evs (obs_from c me evs s) = true.
  Proof.
    induction evs as [|[h e] r IH]; intros s sent H HA Hs; cbn [obs_from]; [reflexivity|].
    destruct HA as [Hl HA].
    pose proof (step_votes c me src_dq h e s) as V.
    pose proof (step_wf c me src_dq h e s H) as W. unfold gat in W.
    pose proof (step_round c me src_dq h e s (wf_pace c s H)) as R.
    destruct (step c me src_dq h e s) as [[s1 o] res]. cbn [fst] in HA.
    destruct W as [H1 [[M1 M2] F]]. destruct V as [Vt [_ V]]. destruct R as [P1 [R1 J]].
    cbn [c10_walk ob_out].
    change (snap_round (mkObs o (rkind_of res) (snap s1))) with (s_round s1).
    change (snap_hq (mkObs o (rkind_of res) (snap s1))) with (hq s1).
    apply andb_true_iff. split; [apply andb_true_iff; split|].
    - (* the round *)
      apply andb_true_iff. split; [apply N.leb_le; exact R1|].
      destruct J as [J|J]; [rewrite J, N.eqb_refl; reflexivity|].
      apply orb_true_iff. right. apply andb_true_iff. split; [apply N.leb_le; lia|].
      apply memN_in. rewrite (forallb_filter_id _ _ (okout_tcs c me _ _ F)).
      destruct J as [J|J].
      + rewrite J. apply in_or_app. right. apply in_or_app. right. apply in_or_app. right. left. reflexivity.
      + unfold evs_of in J. apply in_app_or in J. apply in_or_app.
        destruct J as [J|J]; [left; exact J|right; apply in_or_app; left; exact J].
    - (* own timeouts *)
      rewrite Vt. destruct e; try reflexivity. cbn. rewrite andb_true_r. apply N.leb_le. exact Hs.
    - (* what was sent in this step is dominated by the high QC after it *)
      apply IH; [exact H1|exact HA|]. apply fold_left_max_le; [unfold hq in *; lia|].
      intros x Hx. apply in_app_or in Hx. destruct Hx as [Hx|Hx].
      { rewrite Vt in Hx. destruct e; cbn in Hx; try contradiction. destruct Hx as [<-|[]]. exact M2. }
      apply in_app_or in Hx. destruct Hx as [Hx|Hx].
      { apply in_map_iff in Hx. destruct Hx as [b [<- Hb]]. eapply okout_proposes_hq; eauto. }
      destruct V as [[V _]|[y [Hp [_ [_ [[j Hj] [_ Hv]]]]]]]; [rewrite V in Hx; destruct Hx|].
      destruct Hv as [Hv|Hv]; rewrite Hv in Hx; [destruct Hx|].
      rewrite (processed_exact c e s y Hl Hp) in Hx. destruct Hx as [<-|[]].
      apply (wf_hist c s1 H1 _ _ _ Hj).
  Qed.

  Theorem mon_c10_sound evs :
    along lb_exact c me evs (init c) -> mon_c10 c evs (obs_of_run c me evs) = true.
  Proof.
    intros HA. unfold mon_c10, obs_of_run.
    apply (c10_walk_from evs (init c) 0 (WfInv_init c) HA). cbn. lia.
  Qed.
End C10.
Print Assumptions mon_c10_sound.

(* the proviso is needed: with the selector of MonSound5.v whose QC round field says 7, the monitor books a QC of
   round 7 as "sent" with the vote, and the node's next timeout (carrying the genesis QC) fails the domination test *)
Example mon_c10_needs_exact :
  mon_c10 c4 (evs_bad ++ [([], EvTimer)]) (obs_of_run c4 1 (evs_bad ++ [([], EvTimer)])) = false.
Proof. vm_compute. reflexivity. Qed.
Example mon_c10_good :
  mon_c10 c4 (evs_good ++ [([], EvTimer)]) (obs_of_run c4 1 (evs_good ++ [([], EvTimer)])) = true.
Proof. vm_compute. reflexivity. Qed.
