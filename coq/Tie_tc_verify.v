(* Tie lemma for `tc_verify`: the statement skeleton REGENERATED from the Rust source (GenAgg.v, tools/skelagg.py) computes, for every
   argument and every state, exactly what the hand-written model function does. *)
From Coq Require Import List NArith Bool Lia ZArith.
From Coq Require Import ZifyN ZifyBool.
From HS Require Import TieAggTac GenAgg.
Import ListNotations.
Open Scope N_scope.

Lemma tie_tc_verify c t : snd (gen_tc_verify c t tt) = tc_verify c t.
Proof.
  unfold gen_tc_verify, tc_verify. unfold gbind at 1.
  rewrite (gfor_scan (fun x : N * sig * N => fst (fst x)) g_tc_entry_stake c).
  2:{ intros [[a sg] hq] u w. tieg. }
  destruct (scan_signers _ _ _ _ _) as [w'| |]; cbn [fst snd]; try reflexivity.
  gunf. destruct (quorum c <=? w'); cbn [negb]; [|reflexivity].
  unfold gbind at 1.
  rewrite (gfor_all (fun v : N * sig * N => match v with (a, s, hq) => sig_ok a (CTimeout (tc_round t) hq) s end)).
  2:{ intros [[a sg] hq]. tieg. }
  gmunf. cbn [fst snd]. destruct (forallb _ (tc_votes t)); reflexivity.
Qed.
