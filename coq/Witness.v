(* Refutation witnesses on the model of commit() as it was on the pinned tree ([pinned_dq]: the deque
   discipline before the repair), and the same runs on the model of the current source ([src_dq], regenerated). *)
From Coq Require Import List NArith Lia Bool.
From HS Require Import GTac Node Corr Monitors Proto Link NodeInv NodeLog.
Import ListNotations.
Open Scope N_scope.

Lemma chainb_complete l : chain l -> chainb l = true.
Proof.
  induction 1 as [|d B P|d d' l B P Hc IH]; simpl; auto.
  - destruct d; simpl in *; try contradiction. rewrite P. reflexivity.
  - destruct d; simpl in B; try contradiction. simpl in P. subst. simpl.
    rewrite digest_eqb_refl. simpl. exact IH.
Qed.

Definition log_of (dq : DqCfg) (me : N) (bs : list Block) : list digest :=
  s_log (fst (run c4 me dq (map (fun b => ([], EvPropose b)) bs) (init c4))).

(* pinned tree: ancestors delivered newest-first, before the head *)
Theorem c02_refuted_order : ~ chain (log_of pinned_dq 3 [B1; B3; B5; B6; B7]).
Proof. intro H. apply chainb_complete in H. vm_compute in H. discriminate. Qed.

(* pinned tree: the genesis placeholder is delivered *)
Theorem c02_refuted_genesis : ~ chain (log_of pinned_dq 3 [G3; G4; G5]).
Proof. intro H. apply chainb_complete in H. vm_compute in H. discriminate. Qed.

(* pinned tree: the last delivered block is delivered again *)
Definition D1 := mkblk qc_genesis None 1.
Definition D2 := mkblk (mkqc D1) None 2.
Definition D3 := mkblk (mkqc D2) None 3.             (* commits D1 *)
Definition D6 := mkblk (mkqc D1) (Some (mktc 5 1)) 6. (* extends D1 directly, skipping D2 *)
Definition D7 := mkblk (mkqc D6) None 7.
Definition D8 := mkblk (mkqc D7) None 8.             (* commits D6: walk re-delivers D1 *)
Eval vm_compute in map dround (log_of pinned_dq 3 [D1; D2; D3; D6; D7; D8]).
Eval vm_compute in map dround (log_of src_dq 3 [D1; D2; D3; D6; D7; D8]).
Theorem c02_refuted_duplicate : ~ chain (log_of pinned_dq 3 [D1; D2; D3; D6; D7; D8]).
Proof. intro H. apply chainb_complete in H. vm_compute in H. discriminate. Qed.

(* the repaired model on the same inputs *)
Example c02_fixed_order : chainb (log_of src_dq 3 [B1; B3; B5; B6; B7]) = true. Proof. vm_compute. reflexivity. Qed.
Example c02_fixed_genesis : chainb (log_of src_dq 3 [G3; G4; G5]) = true. Proof. vm_compute. reflexivity. Qed.
Example c02_fixed_duplicate : chainb (log_of src_dq 3 [D1; D2; D3; D6; D7; D8]) = true. Proof. vm_compute. reflexivity. Qed.
