(* Tactics and loop lemmas for the tie lemmas of the REGENERATED statement skeletons of messages.rs / aggregator.rs (GenAgg.v, tools/skelagg.py): each regenerated
   function computes, for every argument (and every maker / node state), exactly what the hand-written model function of Node.v /
   SkelPrims.v does -- the functions all the theorems (C01, C04, C17, C19, ...) are about. *)
From Coq Require Import List NArith Bool Lia ZArith.
From Coq Require Import ZifyN ZifyBool.
From HS Require Export GTac Node SkelPrims SkelMonad.
Import ListNotations.
Open Scope N_scope.

Ltac gmunf := unfold gbind, gret, gfail, gpanic, gget, gmodify, glift, gset_insert, sig_verify, sig_verify_batch, set_insert in *.
Ltac tsplit1 :=
  match goal with
  | |- context [match ?x with _ => _ end] =>
      lazymatch x with
      | context [match _ with _ => _ end] => fail
      | _ => first [ is_var x; destruct x | destruct x eqn:? ]
      end
  end.
Ltac tdone := repeat match goal with u : unit |- _ => destruct u end; try reflexivity; try congruence; try (exfalso; lia); try (exfalso; congruence).
Ltac tieg := intros; gmunf; gunf; cbv beta iota zeta; repeat (cbn [fst snd negb]; tsplit1); cbn [fst snd negb]; tdone.

(* the signer loop of QC::verify / TC::verify, for any element type and any loop body that behaves pointwise like one step of
   scan_signers (reuse, then unknown authority, then accumulate) *)
Lemma gfor_scan {X} (proj : X -> N) (okst : N -> bool) c (f : X -> list N * N -> GM (St := unit) (list N * N)) :
  (forall x u w, f x (u, w) tt =
     (tt, if memN (proj x) u then RErr (EAuthorityReuse (proj x))
          else if negb (okst (stake c (proj x))) then RErr (EUnknownAuthority (proj x))
          else ROk (proj x :: u, w + stake c (proj x)))) ->
  forall l u w, gfor l f (u, w) tt =
     (tt, match scan_signers okst c (map proj l) u w with
          | ROk w' => ROk (rev (map proj l) ++ u, w') | RErr e => RErr e | RPanic k => RPanic k end).
Proof.
  intros Hf l; induction l as [|x l IH]; intros u w; cbn [gfor map scan_signers rev app].
  - reflexivity.
  - unfold gbind. rewrite Hf.
    destruct (memN (proj x) u); [reflexivity|].
    destruct (okst (stake c (proj x))); cbn [negb]; [|reflexivity].
    rewrite IH. rewrite <- app_assoc. reflexivity.
Qed.

(* the signature loop of TC::verify *)
Lemma gfor_all {X} (ok : X -> bool) (f : X -> unit -> GM (St := unit) unit) :
  (forall x, f x tt tt = (tt, if ok x then ROk tt else RErr EInvalidSignature)) ->
  forall l, gfor l f tt tt = (tt, if forallb ok l then ROk tt else RErr EInvalidSignature).
Proof.
  intros Hf l; induction l as [|x l IH]; cbn [gfor forallb]; [reflexivity|].
  unfold gbind. rewrite Hf. destruct (ok x); cbn [andb]; [exact IH | reflexivity].
Qed.

