(* Correspondence support for the codec harness (harness/src/bin/codec.rs; properties C20, C18, decoding half
   of C15). Model-only imports. Every `codec_*` function evaluates the model on what the real code was run on
   and returns a verdict list: first element 1 iff every compared aspect agrees (and every monitor that is part
   of the verdict holds), then one 0/1 flag per aspect; see each function for the layout. *)
From Coq Require Import List NArith Bool.
From HS Require Import Codec Base64Defs WireDefs CorrComp.
Import ListNotations.
Open Scope N_scope.

(* ---------- decidable equality on wire values ---------- *)
Definition bytes_eqb (a b : bytes) : bool := forallb2 N.eqb a b.
Definition qc_eqb (a b : WQC) : bool :=
  bytes_eqb (w_hash a) (w_hash b) && (w_round a =? w_round b) &&
  forallb2 (fun e e' => bytes_eqb (fst e) (fst e') && bytes_eqb (snd e) (snd e')) (w_votes a) (w_votes b).
Definition tc_eqb (a b : WTC) : bool :=
  (wt_round a =? wt_round b) &&
  forallb2 (fun e e' => bytes_eqb (fst (fst e)) (fst (fst e')) && bytes_eqb (snd (fst e)) (snd (fst e')) && (snd e =? snd e'))
           (wt_votes a) (wt_votes b).
Definition opt_eqb {A} (f : A -> A -> bool) (a b : option A) : bool :=
  match a, b with Some x, Some y => f x y | None, None => true | _, _ => false end.
Definition vote_eqb (a b : WVote) : bool :=
  bytes_eqb (wv_hash a) (wv_hash b) && (wv_round a =? wv_round b) && bytes_eqb (wv_author a) (wv_author b) &&
  bytes_eqb (wv_sig a) (wv_sig b).
Definition timeout_eqb (a b : WTimeout) : bool :=
  qc_eqb (wto_high_qc a) (wto_high_qc b) && (wto_round a =? wto_round b) && bytes_eqb (wto_author a) (wto_author b) &&
  bytes_eqb (wto_sig a) (wto_sig b).
Definition block_eqb (a b : WBlock) : bool :=
  qc_eqb (wb_qc a) (wb_qc b) && opt_eqb tc_eqb (wb_tc a) (wb_tc b) && bytes_eqb (wb_author a) (wb_author b) &&
  (wb_round a =? wb_round b) && forallb2 bytes_eqb (wb_payload a) (wb_payload b) && bytes_eqb (wb_sig a) (wb_sig b).
Definition cmsg_eqb (a b : WCMsg) : bool :=
  match a, b with
  | CPropose x, CPropose y => block_eqb x y
  | CVote x, CVote y => vote_eqb x y
  | CTimeout x, CTimeout y => timeout_eqb x y
  | CTC x, CTC y => tc_eqb x y
  | CSyncRequest d k, CSyncRequest d' k' => bytes_eqb d d' && bytes_eqb k k'
  | _, _ => false
  end.
Definition mmsg_eqb (a b : WMMsg) : bool :=
  match a, b with
  | MBatch x, MBatch y => forallb2 bytes_eqb x y
  | MBatchRequest d k, MBatchRequest d' k' => forallb2 bytes_eqb d d' && bytes_eqb k k'
  | _, _ => false
  end.

(* outcome codes shared with the harness: 0 = value, 1 = error, 2 = panic *)
Definition res_code {A} (r : res A) : N := match r with Ok _ => 0 | Err => 1 | Panic => 2 end.
Definition key_code (r : key_outcome) : N := match r with KOk _ => 0 | KErr => 1 | KPanic => 2 end.
Definition is_ok_with {A} (f : A -> bool) (r : res A) : bool := match r with Ok a => f a | _ => false end.

(* ---------- mode `wire` ----------
   impl_bytes = bincode::serialize(real message); m = the abstract value the harness built from the fields;
   impl_pres = the pre-image byte strings the harness assembled from the real fields following messages.rs;
   impl_flags = monitors computed by the harness on the real code only:
       [ SHA-512(pre)[..32] == digest() for every pre-image;
         deserialize(serialize(m)) has the same digest(s) and re-serialises to the same bytes;
         verify(committee) gives the same answer before and after the round trip ]
   verdict = [all; enc; dec(exact=false); dec(exact=true); dec with trailing bytes; pre-images; impl_flags...] *)
Definition codec_wire_cmsg (impl_bytes : bytes) (m : WCMsg) (impl_pres : list bytes) (impl_flags : list N) : list N :=
  verdict_of ([ b2n (bytes_eqb (w_enc_cmsg m) impl_bytes);
                b2n (is_ok_with (cmsg_eqb m) (decode_cmsg false impl_bytes));
                b2n (is_ok_with (cmsg_eqb m) (decode_cmsg true impl_bytes));
                b2n (is_ok_with (cmsg_eqb m) (decode_cmsg false (impl_bytes ++ [255; 0; 7])));
                b2n (forallb2 bytes_eqb (cmsg_pres m) impl_pres) ] ++ impl_flags).
(* verdict = [all; enc; dec(exact=false); dec(exact=true); dec with trailing bytes; impl_flags...] *)
Definition codec_wire_mmsg (impl_bytes : bytes) (m : WMMsg) (impl_flags : list N) : list N :=
  verdict_of ([ b2n (bytes_eqb (w_enc_mmsg m) impl_bytes);
                b2n (is_ok_with (mmsg_eqb m) (decode_mmsg false impl_bytes));
                b2n (is_ok_with (mmsg_eqb m) (decode_mmsg true impl_bytes));
                b2n (is_ok_with (mmsg_eqb m) (decode_mmsg false (impl_bytes ++ [255; 0; 7]))) ] ++ impl_flags).

(* ---------- mode `malformed` ----------
   input = the byte string given to the real `bincode::deserialize`; impl_outcome = 0/1/2 as observed under
   catch_unwind; impl_reser = bincode::serialize of the value the real decoder returned ([] unless outcome 0).
   `exact` = which key-length discipline the tree under test has (false on the pinned tree).
   verdict = [all; outcome agrees; value agrees (model value re-encoded == impl_reser); MONITOR impl did not panic].
   The monitor is reported but is NOT part of `all`: it is the C15 observation, which the model with
   exact = false predicts to be violated on the pinned tree. *)
Definition bad_verdict (code : N) (reser : bytes) (has_value : bool) (impl_outcome : N) (impl_reser : bytes) : list N :=
  verdict_of [ b2n (code =? impl_outcome);
               b2n (if has_value then bytes_eqb reser impl_reser else match impl_reser with [] => true | _ => false end) ]
  ++ [ b2n (negb (impl_outcome =? 2)) ].
Definition codec_bad_cmsg (exact : bool) (input : bytes) (impl_outcome : N) (impl_reser : bytes) : list N :=
  let r := decode_cmsg exact input in
  bad_verdict (res_code r) (match r with Ok m => w_enc_cmsg m | _ => [] end)
              (match r with Ok _ => true | _ => false end) impl_outcome impl_reser.
Definition codec_bad_mmsg (exact : bool) (input : bytes) (impl_outcome : N) (impl_reser : bytes) : list N :=
  let r := decode_mmsg exact input in
  bad_verdict (res_code r) (match r with Ok m => w_enc_mmsg m | _ => [] end)
              (match r with Ok _ => true | _ => false end) impl_outcome impl_reser.
(* key strings: `PublicKey::decode_base64` (len = 32) / `SecretKey::decode_base64` (len = 64) and the raw
   `base64::decode` on the same string.
   verdict = [all; key outcome agrees; key bytes agree; raw base64 outcome agrees; raw base64 bytes agree;
              MONITOR impl did not panic (not part of `all`)] *)
Definition codec_bad_key (exact : bool) (len : nat) (input : bytes) (impl_outcome : N) (impl_key : bytes)
                         (raw_ok : N) (raw_bytes : bytes) : list N :=
  let r := decode_key_n len exact input in
  let raw := b64_decode input in
  verdict_of [ b2n (key_code r =? impl_outcome);
               b2n (match r with KOk k => bytes_eqb k impl_key | _ => match impl_key with [] => true | _ => false end end);
               b2n (match raw with Some _ => raw_ok =? 1 | None => raw_ok =? 0 end);
               b2n (match raw with Some l => bytes_eqb l raw_bytes | None => match raw_bytes with [] => true | _ => false end end) ]
  ++ [ b2n (negb (impl_outcome =? 2)) ].

(* ---------- mode `keys` ----------
   data = raw bytes (a public key, a secret key, or a random string of any length); impl_str = base64::encode /
   encode_base64 of it; impl_flags = [real decode(encode(data)) == data].
   verdict = [all; model encode == impl_str; model decode impl_str == data; model decode (model encode data) == data;
              key decoders (both disciplines) accept it when the length is 32 / 64; impl_flags...] *)
Definition codec_keys_case (data impl_str : bytes) (impl_flags : list N) : list N :=
  let is_key (len : nat) (e : bool) :=
      match decode_key_n len e impl_str with KOk k => bytes_eqb k data | _ => false end in
  verdict_of ([ b2n (bytes_eqb (b64_encode data) impl_str);
                b2n (match b64_decode impl_str with Some l => bytes_eqb l data | None => false end);
                b2n (match b64_decode (b64_encode data) with Some l => bytes_eqb l data | None => false end);
                b2n (if Nat.eqb (length data) 32 then is_key 32%nat false && is_key 32%nat true
                     else if Nat.eqb (length data) 64 then is_key 64%nat false && is_key 64%nat true
                     else true) ] ++ impl_flags).
