(* Correspondence for QuorumWaiter (C12). *)
From Coq Require Import List NArith Bool.
From HS Require Import Guards QuorumDefs QuorumWaiterDefs CorrComp.
Import ListNotations.
Open Scope N_scope.

Definition opt_nat_eqb (a : option nat) (b : option N) : bool :=
  match a, b with Some x, Some y => N.of_nat x =? y | None, None => true | _, _ => false end.
(* stakes by rank; me; per batch the acknowledgement order (99 = an authority unknown to the committee);
   observed: index of the acknowledgement at which the batch was forwarded, if at all *)
Definition qw_case (stakes : list (N * N)) (me : N) (orders : list (list N)) (observed : list (option N)) : list N :=
  let st := stake_of stakes in
  let q := g_quorum_mempool (fold_right (fun x acc => snd x + acc) 0 stakes) in
  let model := map (fun acks => qw st q (st me) acks) orders in
  verdict_of [ b2n (forallb2 opt_nat_eqb model observed);
               (* monitor on the observation alone: forwarded at ack j => own + acknowledged stake up to j reaches the quorum
                  (that j is the FIRST such index is the comparison with the model) *)
               b2n (forallb2 (fun acks o => match o with
                                            | Some j => (q <=? st me + wsum st (firstn (S (N.to_nat j)) acks))
                                            | None => true      (* not forwarding is safe (progress is C13, not C12) *)
                                            end) orders observed) ].
