(* Tie lemma for `block_verify`: the statement skeleton REGENERATED from the Rust source (GenAgg.v, tools/skelagg.py) computes, for every
   argument and every state, exactly what the hand-written model function does. *)
From Coq Require Import List NArith Bool Lia ZArith.
From Coq Require Import ZifyN ZifyBool.
From HS Require Import TieAggTac GenAgg.
Import ListNotations.
Open Scope N_scope.

Lemma tie_block_verify c b : snd (gen_block_verify c b tt) = block_verify c b.
Proof. unfold gen_block_verify, block_verify. tieg. Qed.
