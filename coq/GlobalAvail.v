(* C08 at the level of the global model. No admissibility hypothesis is needed: the statement holds for
   every input whatsoever (forged, invalid or Byzantine messages included); the only hypothesis on the
   schedule is the mempool Processor's ordering: a digest is handed to the proposer only after its batch was
   written to the store ([ev_av]). *)
From Coq Require Import List NArith Lia Bool.
From HS Require Import GTac Node NodeAvail.
Import ListNotations.
Open Scope N_scope.

Section GA.
  Variable c : Committee.

  Definition gstateA := N -> State.
  Definition gupdA (g : gstateA) (a : N) (s : State) : gstateA := fun x => if x =? a then s else g x.

  Inductive greachA : gstateA -> Prop :=
  | gA_init : greachA (fun _ => init c)
  | gA_step g a hint e : greachA g -> ev_av (g a) e ->
      greachA (gupdA g a (fst (fst (step c a src_dq hint e (g a))))).

  Lemma AvInv_init : AvInv (init c).
  Proof. constructor; simpl; intros; try contradiction. intros x []. Qed.

  Theorem c08_invariant g a : greachA g -> AvInv (g a).
  Proof.
    induction 1 as [|g b hint e Hr IH Hav]; [apply AvInv_init|].
    unfold gupdA. destruct (N.eqb_spec a b) as [->|Hne]; [|exact IH].
    pose proof (c08_step c b hint e (g b) IH Hav) as P. unfold Post in P.
    destruct (step c b src_dq hint e (g b)) as [[s' o] r]. simpl. apply P.
  Qed.

  (* every vote a node ever signed is for a block all of whose batches are in the node's own store *)
  Theorem c08_vote_available g a d q j :
    greachA g -> In (HVote d q j) (s_hist (g a)) -> incl (dpayload d) (s_batches (g a)).
  Proof. intros Hr Hin. exact (av_hist _ (c08_invariant g a Hr) d q j Hin). Qed.

  (* every block handed to the commit channel has all its batches in the node's own store at that moment,
     and the set of stored batches never shrinks *)
  Theorem c08_commit_available g a hint e b :
    greachA g -> ev_av (g a) e ->
    In (OCommit b) (snd (fst (step c a src_dq hint e (g a)))) ->
    incl (b_payload b) (s_batches (fst (fst (step c a src_dq hint e (g a))))).
  Proof.
    intros Hr Hav Hin. pose proof (c08_step c a hint e (g a) (c08_invariant g a Hr) Hav) as P. unfold Post in P.
    destruct (step c a src_dq hint e (g a)) as [[s' o] r]. simpl in *. destruct P as [_ [_ P]]. apply P. exact Hin.
  Qed.
  Theorem c08_batches_grow g a hint e :
    greachA g -> ev_av (g a) e -> incl (s_batches (g a)) (s_batches (fst (fst (step c a src_dq hint e (g a))))).
  Proof.
    intros Hr Hav. pose proof (c08_step c a hint e (g a) (c08_invariant g a Hr) Hav) as P. unfold Post in P.
    destruct (step c a src_dq hint e (g a)) as [[s' o] r]. simpl in *. apply P.
  Qed.
  (* blocks waiting anywhere inside the node (loop-back pool, parked on a parent, stored) are available too;
     a payload-parked block's batches are stored or still listed as missing *)
  Theorem c08_parked g a m b d :
    greachA g -> In (m, b) (s_pw_pending (g a)) -> In d (b_payload b) -> In d (s_batches (g a)) \/ In d m.
  Proof. intros Hr Hin Hd. exact (av_pw _ (c08_invariant g a Hr) m b Hin d Hd). Qed.
End GA.
