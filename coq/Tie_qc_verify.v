(* Tie lemma for `qc_verify`: the statement skeleton REGENERATED from the Rust source (GenAgg.v, tools/skelagg.py) computes, for every
   argument and every state, exactly what the hand-written model function does. *)
From Coq Require Import List NArith Bool Lia ZArith.
From Coq Require Import ZifyN ZifyBool.
From HS Require Import TieAggTac GenAgg.
Import ListNotations.
Open Scope N_scope.

Lemma tie_qc_verify c q : snd (gen_qc_verify c q tt) = qc_verify c q.
Proof.
  unfold gen_qc_verify, qc_verify. unfold gbind at 1.
  rewrite (gfor_scan (fun x : N * sig => fst x) g_qc_entry_stake c).
  2:{ intros [a sg] u w. tieg. }
  tieg.
Qed.
