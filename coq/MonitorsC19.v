(* C19, the "exactly WHEN" direction, as executable monitors over an OBSERVED trace (definitions only, no proofs:
   evaluated with vm_compute on traces recorded from the real implementation).

   [mon_c19] (Monitors.v) checks "never earlier / valid / at most once". The two monitors here check "never later":
   - [mon_c19_complete]: once distinct authorities holding quorum stake have each delivered a verified, non-stale
     vote for the same (round, block digest), the node's high-QC round is at least that round at the end of the very
     step that delivered the last of them (the QC was assembled and processed);
   - [mon_c19_tc_complete]: once distinct authorities holding quorum stake have each delivered a verified, non-stale
     timeout for the same round r, the node's round is at least r+1 at the end of that step (the TC was assembled
     and the round advanced).
   Only messages that arrive as [EvVote]/[EvTimeout] events are counted (not the node's own internal vote/timeout):
   that only makes the requirement weaker, never wrong.
   A snapshot is [ob_state] = (round, last_voted, last_committed, high_qc.round), see Corr.v. *)
From Coq Require Import List NArith Bool.
From HS Require Import GTac Node Corr Monitors.
Import ListNotations.
Open Scope N_scope.

Definition st_round (x : N * N * N * N) : N := match x with (r, _, _, _) => r end.
Definition st_hq (x : N * N * N * N) : N := match x with (_, _, _, h) => h end.

(* total stake of a list of authorities *)
Fixpoint authors_stake (c : Committee) (l : list N) : N :=
  match l with [] => 0 | a :: r => stake c a + authors_stake c r end.

(* insertion of an authority in a duplicate-free list *)
Definition add_author (a : N) (l : list N) : list N := if memN a l then l else a :: l.

Definition vote_okb (c : Committee) (v : Vote) : bool := match vote_verify c v with ROk _ => true | _ => false end.
Definition timeout_okb (c : Committee) (t : Timeout) : bool := match timeout_verify c t with ROk _ => true | _ => false end.

(* ---- votes: accumulator keyed by (vote round, block digest) ---- *)
Definition vkey_eqb (k1 k2 : N * digest) : bool := (fst k1 =? fst k2) && digest_eqb (snd k1) (snd k2).
Definition vacc_get (k : N * digest) (acc : list ((N * digest) * list N)) : list N :=
  match find (fun e => vkey_eqb (fst e) k) acc with Some e => snd e | None => [] end.
Definition vacc_put (k : N * digest) (l : list N) (acc : list ((N * digest) * list N)) : list ((N * digest) * list N) :=
  (k, l) :: filter (fun e => negb (vkey_eqb (fst e) k)) acc.

(* [prev] = snapshot BEFORE the step *)
Fixpoint c19c_walk (c : Committee) (prev : N * N * N * N) (acc : list ((N * digest) * list N))
                   (evs : list (list N * Event)) (obs : list Obs) : bool :=
  match evs, obs with
  | (_, e) :: er, ob :: or =>
      match e with
      | EvVote v =>
          if vote_okb c v && (st_round prev <=? v_round v) then
            let k := (v_round v, v_hash v) in
            let l := add_author (v_author v) (vacc_get k acc) in
            (negb (quorum c <=? authors_stake c l) || (v_round v <=? st_hq (ob_state ob))) &&
            c19c_walk c (ob_state ob) (vacc_put k l acc) er or
          else c19c_walk c (ob_state ob) acc er or
      | _ => c19c_walk c (ob_state ob) acc er or
      end
  | _, _ => true
  end.
Definition mon_c19_complete (c : Committee) (evs : list (list N * Event)) (obs : list Obs) : bool :=
  c19c_walk c (1, 0, 0, 0) [] evs obs.

(* ---- timeouts: accumulator keyed by the timeout round ---- *)
Definition tacc_get (r : N) (acc : list (N * list N)) : list N :=
  match find (fun e => fst e =? r) acc with Some e => snd e | None => [] end.
Definition tacc_put (r : N) (l : list N) (acc : list (N * list N)) : list (N * list N) :=
  (r, l) :: filter (fun e => negb (fst e =? r)) acc.

Fixpoint c19t_walk (c : Committee) (prev : N * N * N * N) (acc : list (N * list N))
                   (evs : list (list N * Event)) (obs : list Obs) : bool :=
  match evs, obs with
  | (_, e) :: er, ob :: or =>
      match e with
      | EvTimeout t =>
          if timeout_okb c t && (st_round prev <=? t_round t) then
            let l := add_author (t_author t) (tacc_get (t_round t) acc) in
            (negb (quorum c <=? authors_stake c l) || (t_round t + 1 <=? st_round (ob_state ob))) &&
            c19t_walk c (ob_state ob) (tacc_put (t_round t) l acc) er or
          else c19t_walk c (ob_state ob) acc er or
      | _ => c19t_walk c (ob_state ob) acc er or
      end
  | _, _ => true
  end.
Definition mon_c19_tc_complete (c : Committee) (evs : list (list N * Event)) (obs : list Obs) : bool :=
  c19t_walk c (1, 0, 0, 0) [] evs obs.

(* ---- non-vacuity counters (for harness statistics and the examples): the number of steps at which the
   accumulated stake was at or above the quorum, i.e. at which the requirement was actually evaluated ---- *)
Fixpoint c19c_fired (c : Committee) (prev : N * N * N * N) (acc : list ((N * digest) * list N))
                    (evs : list (list N * Event)) (obs : list Obs) : N :=
  match evs, obs with
  | (_, e) :: er, ob :: or =>
      match e with
      | EvVote v =>
          if vote_okb c v && (st_round prev <=? v_round v) then
            let k := (v_round v, v_hash v) in
            let l := add_author (v_author v) (vacc_get k acc) in
            (if quorum c <=? authors_stake c l then 1 else 0) + c19c_fired c (ob_state ob) (vacc_put k l acc) er or
          else c19c_fired c (ob_state ob) acc er or
      | _ => c19c_fired c (ob_state ob) acc er or
      end
  | _, _ => 0
  end.
Fixpoint c19t_fired (c : Committee) (prev : N * N * N * N) (acc : list (N * list N))
                    (evs : list (list N * Event)) (obs : list Obs) : N :=
  match evs, obs with
  | (_, e) :: er, ob :: or =>
      match e with
      | EvTimeout t =>
          if timeout_okb c t && (st_round prev <=? t_round t) then
            let l := add_author (t_author t) (tacc_get (t_round t) acc) in
            (if quorum c <=? authors_stake c l then 1 else 0) + c19t_fired c (ob_state ob) (tacc_put (t_round t) l acc) er or
          else c19t_fired c (ob_state ob) acc er or
      | _ => c19t_fired c (ob_state ob) acc er or
      end
  | _, _ => 0
  end.
Definition c19_complete_fired (c : Committee) (evs : list (list N * Event)) (obs : list Obs) : N :=
  c19c_fired c (1, 0, 0, 0) [] evs obs.
Definition c19_tc_complete_fired (c : Committee) (evs : list (list N * Event)) (obs : list Obs) : N :=
  c19t_fired c (1, 0, 0, 0) [] evs obs.
