(* Monitor soundness, part 11: mon_c02 on admissible runs, and all monitors together.  C02 (the delivered blocks form one
   chain) is the one monitor whose truth rests on safety: a single node's successive commits link up only because no
   conflicting block can be certified, so the statement needs the admissibility of NodeInv.v (honest signatures are
   recorded in the world [w0] of the other authorities' histories) and a well-formed world. *)
From Coq Require Import List NArith Lia Bool.
From HS Require Import GTac Node Corr Monitors Proto Link NodeInv NodeLog Global Witness MonSound NodePanic Exact
  MonSoundDefs MonSound2 MonSound3 MonSound4 MonSound5 MonSound6 MonSound7 MonSound8 MonSound9 MonSound10.
Import ListNotations.
Open Scope N_scope.

Section C02.
  Variable c : Committee.
  Variable me : N.
  Variable honest : N -> bool.
  Hypothesis members_nodup : NoDup (members c).
  Hypothesis me_honest : honest me = true.
  Variable w0 : world.
  Hypothesis byz_bound : 3 * byz_stake (stk c) (members c) honest < total (stk c) (members c).
  (* the histories of the other honest authorities are well guarded *)
  Hypothesis world_ok : W c me honest w0 (init c).

  Lemma run_loginv evs : forall s,
    Inv c me honest w0 s -> W c me honest w0 s -> LogInv c me honest w0 s ->
    along (ev_adm c me honest w0) c me evs s ->
    LogInv c me honest w0 (fst (run c me src_dq evs s)).
  Proof.
    induction evs as [|[h e] r IH]; intros s HI HW HL HA; cbn [run]; [exact HL|].
    destruct HA as [Ha HA].
    pose proof (step_inv c me honest members_nodup me_honest w0 byz_bound h e s HI Ha) as SI.
    pose proof (step_log c me honest members_nodup me_honest w0 byz_bound h e s HI HW HL Ha) as SL.
    destruct (step c me src_dq h e s) as [[s1 o] res]. cbn [fst] in HA. unfold NodeInv.st in SL. cbn [fst] in SL.
    destruct SI as [I1 L1].
    pose proof (W_sle c me honest members_nodup me_honest w0 byz_bound s s1 HW I1 L1) as W1.
    specialize (IH s1 I1 W1 SL HA). destruct (run c me src_dq r s1) as [s2 tr]. exact IH.
  Qed.

  Theorem mon_c02_sound evs :
    along (ev_adm c me honest w0) c me evs (init c) -> mon_c02 (obs_of_run c me evs) = true.
  Proof.
    intros HA. rewrite mon_c02_is. unfold obs_of_run. rewrite outs_of_obs_from.
    pose proof (mon_c02_complete c me src_dq evs) as M.
    assert (HL : LogInv c me honest w0 (fst (run c me src_dq evs (init c)))).
    { apply run_loginv; auto.
      - apply (Global.Inv_init c honest byz_bound).
      - split; [constructor|]. split; [reflexivity|]. intros d l Hl. discriminate. }
    destruct (run c me src_dq evs (init c)) as [s' tr]. cbn [fst snd] in *. apply M. apply HL.
  Qed.

  (* every property monitor of [step_verdict] is true on the model's own observations of an admissible run (the first
     nine entries of the verdict compare the model with the observations and are trivially about the model itself) *)
  Theorem all_monitors_sound evs :
    along (ev_adm c me honest w0) c me evs (init c) ->
    along lb_exact c me evs (init c) -> dig_ok [] evs = true -> boot_once evs = true ->
    let obs := obs_of_run c me evs in
    map b2n [ mon_c02 obs; mon_c03 evs obs; ghost_c03 (s_hist (fst (run c me src_dq evs (init c))));
              mon_c04 c evs obs; mon_c05 c evs obs; mon_c08 me evs obs; mon_c09 c me evs obs; mon_c10 c evs obs;
              mon_c15 obs; mon_c19 c obs ] = [1; 1; 1; 1; 1; 1; 1; 1; 1; 1].
  Proof.
    intros HA HL HD HB obs. subst obs.
    rewrite (mon_c02_sound evs HA), (mon_c03_sound c me evs HL), (ghost_c03_sound c me evs), (mon_c04_sound c me evs),
      (mon_c05_sound c me evs HL), (mon_c08_sound c me evs HD), (mon_c09_sound c me evs HB HL), (mon_c10_sound c me evs HL),
      (mon_c15_sound c me honest members_nodup me_honest w0 byz_bound evs HA), (mon_c19_sound c me evs).
    reflexivity.
  Qed.
End C02.
Print Assumptions mon_c02_sound.
Print Assumptions all_monitors_sound.

(* the hypotheses are jointly satisfiable: the empty world, node 3 of the 4-node committee, the run of MonSound9.v that
   ends with a commit *)
Example world_empty_ok : W c4 3 (fun _ => true) (fun _ => []) (init c4).
Proof. intros a _. unfold NodeInv.cw, upd. destruct (a =? 3); constructor. Qed.
Definition evs_small : list (list N * Event) := [([], EvPropose B1); ([], EvTimer)].
Example all_monitors_premises_ok :
  NoDup (members c4) /\ 3 * byz_stake (stk c4) (members c4) (fun _ => true) < total (stk c4) (members c4) /\
  along (ev_adm c4 3 (fun _ => true) (fun _ => [])) c4 3 evs_small (init c4) /\
  along lb_exact c4 3 evs_small (init c4) /\ dig_ok [] evs_small = true /\ boot_once evs_small = true /\
  votes_of (outs_of (obs_of_run c4 3 evs_small)) <> [] /\ timeouts_of (outs_of (obs_of_run c4 3 evs_small)) <> [].
Proof.
  split; [repeat constructor; cbn; intuition discriminate|].
  split; [vm_compute; reflexivity|].
  split.
  { cbn [along evs_small]. split; [|split; exact I]. split.
    - intros Hv. vm_compute in Hv. discriminate.
    - intros tc Htc. discriminate. }
  split; [cbn; auto|]. split; [reflexivity|]. split; [reflexivity|].
  split; vm_compute; discriminate.
Qed.
