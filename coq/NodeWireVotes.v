(* C03, link between the wire and the ghost history: every vote a node puts on the wire, and every timeout it
   broadcasts, is recorded in its ghost history [s_hist] (about which C03's voting-safety theorems speak), is authored by
   the node, and carries the node's own signature over exactly the recorded content.  No invariant is needed: this is a
   "what do the handlers emit" calculus, valid from EVERY state, for every event and every deque discipline [dq]. *)
From Coq Require Import List NArith Lia Bool.
From HS Require Import GTac Node.
Import ListNotations.
Open Scope N_scope.

Definition wst {A} (x : State * list Out * res A) : State := fst (fst x).
Definition wouts {A} (x : State * list Out * res A) : list Out := snd (fst x).

(* the ghost history only grows, at the front *)
Definition hext (s s' : State) : Prop := exists pre, s_hist s' = pre ++ s_hist s.
Lemma hext_refl s : hext s s.
Proof. exists []. reflexivity. Qed.
Lemma hext_trans a b d : hext a b -> hext b d -> hext a d.
Proof. intros [p1 H1] [p2 H2]. exists (p2 ++ p1). rewrite H2, H1. apply app_assoc. Qed.
Lemma hext_eq s s' : s_hist s' = s_hist s -> hext s s'.
Proof. intros E. exists []. exact E. Qed.
Lemma hext_in s s' e : hext s s' -> In e (s_hist s) -> In e (s_hist s').
Proof. intros [p H] Hin. rewrite H. apply in_or_app. right. exact Hin. Qed.

Section Wire.
  Variable c : Committee.
  Variable me : N.
  Variable dq : DqCfg.

  Definition vote_rec (s : State) (v : Vote) : Prop :=
    (exists q j, In (HVote (v_hash v) q j) (s_hist s)) /\
    v_author v = me /\ v_round v = dround (v_hash v) /\
    v_sig v = SigOf me (CVote (v_hash v) (v_round v)).
  Definition timeout_rec (s : State) (t : Timeout) : Prop :=
    In (HTimeout (t_round t) (qc_round (t_high_qc t))) (s_hist s) /\
    t_author t = me /\
    t_sig t = SigOf me (CTimeout (t_round t) (qc_round (t_high_qc t))).

  Definition wire_ok (s : State) (o : Out) : Prop :=
    match o with
    | OVote _ v => vote_rec s v
    | OTimeout t => timeout_rec s t
    | _ => True
    end.
  Definition silent (o : Out) : Prop :=
    match o with OVote _ _ | OTimeout _ => False | _ => True end.

  Lemma wire_ok_mono s s' o : hext s s' -> wire_ok s o -> wire_ok s' o.
  Proof.
    intros He. destruct o; simpl; auto.
    - intros [[q [j Hin]] R]. split; [|exact R]. exists q, j. eapply hext_in; eauto.
    - intros [Hin R]. split; [|exact R]. eapply hext_in; eauto.
  Qed.

  (* what a computation may do, from state [s]: extend the history, and put on the wire only recorded votes/timeouts *)
  Definition wg_at {A} (m : M A) (s : State) : Prop :=
    hext s (wst (m s)) /\ forall o, In o (wouts (m s)) -> wire_ok (wst (m s)) o.
  Definition wg {A} (m : M A) : Prop := forall s, wg_at m s.

  Lemma wg_ret {A} (a : A) : wg (ret a).
  Proof. intros s. split; [apply hext_refl|intros o []]. Qed.
  Lemma wg_fail {A} e : wg (@fail A e).
  Proof. intros s. split; [apply hext_refl|intros o []]. Qed.
  Lemma wg_panic {A} k : wg (@panic A k).
  Proof. intros s. split; [apply hext_refl|intros o []]. Qed.
  Lemma wg_get : wg get.
  Proof. intros s. split; [apply hext_refl|intros o []]. Qed.
  Lemma wg_lift {A} (r : res A) : wg (lift r).
  Proof. intros s. split; [apply hext_refl|intros o []]. Qed.
  Lemma wg_emit o : silent o -> wg (emit o).
  Proof.
    intros Hs s. split; [apply hext_refl|]. unfold emit, wouts, wst. simpl. intros o' [<-|[]].
    destruct o; simpl in *; auto; contradiction.
  Qed.
  Lemma wg_modify f : (forall s, hext s (f s)) -> wg (modify f).
  Proof. intros Hf s. split; [apply Hf|intros o []]. Qed.
  Lemma wg_modify_same f : (forall s, s_hist (f s) = s_hist s) -> wg (modify f).
  Proof. intros Hf. apply wg_modify. intros s. apply hext_eq. apply Hf. Qed.

  Lemma wg_bind_at {A B} (m : M A) (f : A -> M B) s :
    wg_at m s -> (forall a s1 o1, m s = (s1, o1, ROk a) -> wg_at (f a) s1) -> wg_at (bind m f) s.
  Proof.
    intros [H1 O1] Hf. unfold wg_at, bind in *. destruct (m s) as [[s1 o1] r1]. unfold wst, wouts in *. simpl in *.
    destruct r1 as [a|e|k]; [|split; assumption|split; assumption].
    specialize (Hf a s1 o1 eq_refl). destruct (f a s1) as [[s2 o2] r2]. simpl in *. destruct Hf as [H2 O2].
    split; [eapply hext_trans; eauto|].
    intros o Ho. apply in_app_or in Ho. destruct Ho as [Ho|Ho]; [|apply O2; exact Ho].
    eapply wire_ok_mono; [exact H2|apply O1; exact Ho].
  Qed.
  Lemma wg_bind {A B} (m : M A) (f : A -> M B) : wg m -> (forall a, wg (f a)) -> wg (bind m f).
  Proof. intros Hm Hf s. apply wg_bind_at; [apply Hm|]. intros a s1 o1 _. apply Hf. Qed.

  Ltac same_tac := apply wg_modify_same; intros; reflexivity.

  (* ---------- the pieces that neither vote nor time out ---------- *)
  Lemma wg_advance_round r : wg (advance_round r).
  Proof.
    unfold advance_round. apply wg_bind; [apply wg_get|]. intros s.
    destruct (g_advance_guard _ _ _ _ _); [apply wg_ret|same_tac].
  Qed.
  Lemma wg_update_high_qc q : wg (update_high_qc q).
  Proof.
    unfold update_high_qc. apply wg_modify_same. intros s.
    destruct (g_update_high_qc _ _ _ _ _); reflexivity.
  Qed.
  Lemma wg_process_qc q : wg (process_qc q).
  Proof. unfold process_qc. apply wg_bind; [apply wg_advance_round|intro; apply wg_update_high_qc]. Qed.

  Lemma wg_generate_proposal hint tc : wg (generate_proposal me hint tc).
  Proof.
    unfold generate_proposal. apply wg_bind; [apply wg_get|]. intros s.
    apply wg_bind; [apply wg_emit; exact I|]. intros _.
    apply wg_bind; [same_tac|]. intros _.
    apply wg_bind; [destruct (same_set _ _); [apply wg_ret|apply wg_emit; exact I]|]. intros _.
    cbv zeta. apply wg_bind; [same_tac|]. intros _. apply wg_emit. exact I.
  Qed.
  Lemma wg_proposer_cleanup ds : wg (proposer_cleanup ds).
  Proof. unfold proposer_cleanup. apply wg_bind; [apply wg_emit; exact I|]. intros _. same_tac. Qed.
  Lemma wg_sync_park b : wg (sync_park b).
  Proof.
    unfold sync_park. apply wg_bind; [apply wg_get|]. intros s.
    destruct (existsb _ _); [apply wg_ret|]. cbv zeta.
    apply wg_bind; [same_tac|]. intros _.
    destruct (existsb _ _); [apply wg_ret|].
    apply wg_bind; [same_tac|]. intros _. apply wg_emit. exact I.
  Qed.
  Lemma wg_get_parent_block b : wg (get_parent_block b).
  Proof.
    unfold get_parent_block. destruct (qc_eqb _ _); [apply wg_ret|]. apply wg_bind; [apply wg_get|].
    intros s. destruct (store_get _ _); [apply wg_ret|].
    apply wg_bind; [apply wg_sync_park|intro; apply wg_ret].
  Qed.
  Lemma wg_store_block b : wg (store_block b).
  Proof. unfold store_block. same_tac. Qed.
  Lemma wg_pw_cleanup r : wg (pw_cleanup r).
  Proof. unfold pw_cleanup. same_tac. Qed.
  Lemma wg_increase_last_voted r : wg (increase_last_voted r).
  Proof. unfold increase_last_voted. same_tac. Qed.
  Lemma wg_mempool_verify b : wg (mempool_verify b).
  Proof.
    unfold mempool_verify. apply wg_bind; [apply wg_get|]. intros s. cbv zeta.
    destruct (filter _ _); [apply wg_ret|].
    apply wg_bind; [apply wg_emit; exact I|]. intros _.
    apply wg_bind; [destruct (existsb _ _); [apply wg_ret|same_tac]|]. intros _. apply wg_ret.
  Qed.
  Lemma wg_batch_stored d : wg (batch_stored d).
  Proof. unfold batch_stored. same_tac. Qed.

  Lemma wg_commit_walk lcr : forall fuel parent acc, wg (commit_walk dq fuel lcr parent acc).
  Proof.
    induction fuel as [|f IH]; intros parent acc; simpl; [apply wg_panic|].
    destruct (g_commit_walk _ _); [|apply wg_ret].
    apply wg_bind; [apply wg_get_parent_block|]. intros [anc|]; [|apply wg_panic].
    destruct (dq_stop _ _ _); [apply wg_ret|apply IH].
  Qed.
  Lemma wg_deliver_all l : wg (deliver_all l).
  Proof.
    induction l as [|b l IH]; simpl; [apply wg_ret|].
    apply wg_bind; [apply wg_emit; exact I|]. intros _.
    apply wg_bind; [same_tac|]. intros _. exact IH.
  Qed.
  Lemma wg_commit b : wg (commit dq b).
  Proof.
    unfold commit. apply wg_bind; [apply wg_get|]. intros s.
    destruct (g_commit_skip _ _ _ _ _); [apply wg_ret|]. cbv zeta.
    apply wg_bind; [apply wg_commit_walk|]. intros anc.
    apply wg_bind; [same_tac|]. intros _. apply wg_deliver_all.
  Qed.

  (* ---------- the one place where a vote is signed ---------- *)
  Lemma make_vote_wire b s :
    match make_vote me b s with
    | (s', o, r) => hext s s' /\ o = [] /\ forall v, r = ROk (Some v) -> vote_rec s' v
    end.
  Proof.
    unfold make_vote, increase_last_voted, bind, get, modify, ret, panic. simpl.
    destruct (b_tc b) as [tc|]; simpl.
    - destruct (list_max (tc_hqrs tc)) as [m|]; simpl.
      2:{ split; [apply hext_refl|]. split; [reflexivity|discriminate]. }
      destruct (negb _); simpl.
      + split; [apply hext_refl|]. split; [reflexivity|discriminate].
      + split; [eexists [_]; reflexivity|]. split; [reflexivity|].
        intros v E. inversion E; subst. unfold vote_rec. simpl.
        split; [eexists _, _; left; reflexivity|]. auto.
    - destruct (negb _); simpl.
      + split; [apply hext_refl|]. split; [reflexivity|discriminate].
      + split; [eexists [_]; reflexivity|]. split; [reflexivity|].
        intros v E. inversion E; subst. unfold vote_rec. simpl.
        split; [eexists _, _; left; reflexivity|]. auto.
  Qed.

  Lemma wg_handle_vote hint v : wg (handle_vote c me hint v).
  Proof.
    unfold handle_vote. apply wg_bind; [apply wg_get|]. intros s.
    destruct (g_vote_stale _ _ _ _ _); [apply wg_ret|]. apply wg_bind; [apply wg_lift|]. intros _.
    cbv zeta. destruct (qm_append _ _ _) as [m' r]. apply wg_bind; [same_tac|]. intros _.
    apply wg_bind; [apply wg_lift|]. intros [qc|]; [|apply wg_ret].
    apply wg_bind; [apply wg_process_qc|]. intros _. apply wg_bind; [apply wg_get|]. intros s'.
    destruct (_ =? _); [apply wg_generate_proposal|apply wg_ret].
  Qed.
  Lemma wg_handle_timeout hint t : wg (handle_timeout c me hint t).
  Proof.
    unfold handle_timeout. apply wg_bind; [apply wg_get|]. intros s.
    destruct (g_timeout_stale _ _ _ _ _); [apply wg_ret|]. apply wg_bind; [apply wg_lift|]. intros _.
    apply wg_bind; [apply wg_process_qc|]. intros _. apply wg_bind; [apply wg_get|]. intros s1.
    destruct (tm_append _ _ _) as [m' r]. apply wg_bind; [same_tac|]. intros _.
    apply wg_bind; [apply wg_lift|]. intros [tc|]; [|apply wg_ret].
    apply wg_bind; [apply wg_advance_round|]. intros _. apply wg_bind; [apply wg_emit; exact I|]. intros _.
    apply wg_bind; [apply wg_get|]. intros s'.
    destruct (_ =? _); [apply wg_generate_proposal|apply wg_ret].
  Qed.
  Lemma wg_handle_tc hint tc : wg (handle_tc c me hint tc).
  Proof.
    unfold handle_tc. apply wg_bind; [apply wg_lift|]. intros _. apply wg_bind; [apply wg_get|]. intros s.
    destruct (g_tc_stale _ _ _ _ _); [apply wg_ret|]. apply wg_bind; [apply wg_advance_round|]. intros _.
    apply wg_bind; [apply wg_get|]. intros s'. destruct (_ =? _); [apply wg_generate_proposal|apply wg_ret].
  Qed.

  (* the one place where a timeout is signed and broadcast: recorded first, then emitted *)
  Lemma wg_local_timeout hint : wg (local_timeout c me hint).
  Proof.
    intros s. unfold wg_at, local_timeout, bind, get, increase_last_voted, modify, emit. cbv beta zeta.
    match goal with |- context [handle_timeout c me hint ?T ?S] =>
      pose proof (wg_handle_timeout hint T S) as T0; unfold wg_at in T0;
      destruct (handle_timeout c me hint T S) as [[s3 o3] r3] end.
    unfold wg_at, wst, wouts in *. simpl in *. destruct T0 as [H3 O3].
    split.
    { eapply hext_trans; [|exact H3]. eexists [_]. reflexivity. }
    intros o [<-|Ho]; [|apply O3; exact Ho].
    simpl. unfold timeout_rec. simpl. split; [|auto].
    eapply hext_in; [exact H3|]. simpl. left. reflexivity.
  Qed.

  (* process_block: the vote handed to the next leader is the one make_vote just recorded *)
  Lemma wg_vote_tail hint b nl :
    wg (ov <- make_vote me b ;;
        match ov with
        | None => ret tt
        | Some v => if nl =? me then handle_vote c me hint v else emit (OVote nl v)
        end).
  Proof.
    intros s. pose proof (make_vote_wire b s) as V. apply wg_bind_at.
    - unfold wg_at. destruct (make_vote me b s) as [[s1 o1] r1]. unfold wst, wouts. simpl.
      destruct V as [V1 [-> _]]. split; [exact V1|intros o []].
    - intros ov s1 o1 E. rewrite E in V. destruct V as [_ [_ V]].
      destruct ov as [v|]; [|apply wg_ret].
      destruct (nl =? me); [apply wg_handle_vote|].
      split; [apply hext_refl|]. unfold emit, wouts, wst. simpl. intros o [<-|[]]. simpl. apply V. reflexivity.
  Qed.

  Lemma wg_process_block hint b : wg (process_block c me dq hint b).
  Proof.
    unfold process_block. apply wg_bind; [apply wg_get_parent_block|]. intros [b1|]; [|apply wg_ret].
    apply wg_bind; [apply wg_get_parent_block|]. intros [b0|]; [|apply wg_panic].
    apply wg_bind; [apply wg_store_block|]. intros _.
    apply wg_bind; [apply wg_proposer_cleanup|]. intros _.
    apply wg_bind.
    { destruct (g_two_chain _ _ _); [|apply wg_ret].
      apply wg_bind; [apply wg_emit; exact I|]. intros _.
      apply wg_bind; [apply wg_pw_cleanup|]. intros _. apply wg_commit. }
    intros _. apply wg_bind; [apply wg_get|]. intros s.
    destruct (g_round_gate _ _ _ _ _ _); [apply wg_ret|]. apply wg_vote_tail.
  Qed.

  Lemma wg_handle_proposal hint b : wg (handle_proposal c me dq hint b).
  Proof.
    unfold handle_proposal.
    apply wg_bind; [destruct (_ =? _); [apply wg_ret|apply wg_fail]|]. intros _.
    apply wg_bind; [apply wg_lift|]. intros _.
    apply wg_bind; [apply wg_process_qc|]. intros _.
    apply wg_bind; [destruct (b_tc b); [apply wg_advance_round|apply wg_ret]|]. intros _.
    apply wg_bind; [apply wg_mempool_verify|]. intros [|]; [apply wg_process_block|apply wg_ret].
  Qed.

  Theorem wg_step hint e : wg (step c me dq hint e).
  Proof.
    destruct e as [b|v|t|tc|b| |d|d| ]; cbn [step].
    - apply wg_handle_proposal.
    - apply wg_handle_vote.
    - apply wg_handle_timeout.
    - apply wg_handle_tc.
    - apply wg_bind; [apply wg_get|]. intros s.
      destruct (remove_first b (s_loopback s)) as [[x l]|]; [|apply wg_emit; exact I].
      apply wg_bind; [same_tac|]. intros _. apply wg_process_block.
    - apply wg_local_timeout.
    - apply wg_batch_stored.
    - apply wg_modify_same. intros s. destruct (memN d (s_buffer s)); reflexivity.
    - apply wg_bind; [apply wg_get|]. intros s.
      destruct (_ =? _); [apply wg_generate_proposal|apply wg_ret].
  Qed.

  (* C03 (wire): every vote sent in a step is in the ghost history of the state after the step, is authored by this
     node, is for the round of the block it names, and is signed by this node over exactly (block, round) *)
  Theorem c03_wire_vote_recorded hint e s to v :
    In (OVote to v) (snd (fst (step c me dq hint e s))) ->
    (exists q j, In (HVote (v_hash v) q j) (s_hist (fst (fst (step c me dq hint e s))))) /\
    v_author v = me /\ v_round v = dround (v_hash v) /\
    v_sig v = SigOf me (CVote (v_hash v) (v_round v)).
  Proof. intros Hin. destruct (wg_step hint e s) as [_ O]. exact (O _ Hin). Qed.

  (* every timeout broadcast in a step is in the ghost history of the state after the step, with the round of the QC
     it carries, is authored by this node and signed by it over exactly (round, high-QC round) *)
  Theorem c03_wire_timeout_recorded hint e s t :
    In (OTimeout t) (snd (fst (step c me dq hint e s))) ->
    In (HTimeout (t_round t) (qc_round (t_high_qc t))) (s_hist (fst (fst (step c me dq hint e s)))) /\
    t_author t = me /\
    t_sig t = SigOf me (CTimeout (t_round t) (qc_round (t_high_qc t))).
  Proof. intros Hin. destruct (wg_step hint e s) as [_ O]. exact (O _ Hin). Qed.

  (* and the ghost history is append-only: what was recorded stays recorded *)
  Theorem c03_hist_grows hint e s :
    exists pre, s_hist (fst (fst (step c me dq hint e s))) = pre ++ s_hist s.
  Proof. destruct (wg_step hint e s) as [H _]. exact H. Qed.
End Wire.

(* not vacuous: from the initial state of the 4-node committee, node 0 receiving the round-1 proposal sends a vote to
   the leader of round 2, and its timer makes it broadcast a timeout for round 1 *)
Example wire_vote_happens :
  In (OVote 2 (mkVote (block_digest B1) 1 0 (SigOf 0 (CVote (block_digest B1) 1))))
     (snd (fst (step c4 0 src_dq [] (EvPropose B1) (init c4)))).
Proof. vm_compute. auto. Qed.
Example wire_timeout_happens :
  In (OTimeout (mkTimeout qc_genesis 1 0 (SigOf 0 (CTimeout 1 0))))
     (snd (fst (step c4 0 src_dq [] EvTimer (init c4)))).
Proof. vm_compute. auto. Qed.

Print Assumptions c03_wire_vote_recorded.
Print Assumptions c03_wire_timeout_recorded.
