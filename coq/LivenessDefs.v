(* C06 (liveness, enabling side): executable definitions used by the statements of Liveness.v.
   No proofs in this file. *)
From Coq Require Import List NArith Bool.
From HS Require Import GTac Node Corr Monitors.
Import ListNotations.
Open Scope N_scope.

(* ---------- what a TC / QC assembled from a list of messages looks like ---------- *)
Definition tc_entry (t : Timeout) : N * sig * N := (t_author t, t_sig t, qc_round (t_high_qc t)).
Definition tc_of (r : N) (ts : list Timeout) : TC := mkTC r (map tc_entry ts).
Definition qc_entry (v : Vote) : N * sig := (v_author v, v_sig v).
Definition qc_of (h : digest) (r : N) (vs : list Vote) : QC := mkQC h r (map qc_entry vs).

(* total stake of a list of authorities (with multiplicity) *)
Definition stake_sum (c : Committee) (l : list N) : N := fold_right (fun a acc => stake c a + acc) 0 l.

(* ---------- feeding messages one after the other through the step function ---------- *)
Definition feed_timeouts (c : Committee) (me : N) (dq : DqCfg) (hint : list N) (ts : list Timeout) (s : State) :=
  run c me dq (map (fun t => (hint, EvTimeout t)) ts) s.
Definition feed_votes (c : Committee) (me : N) (dq : DqCfg) (hint : list N) (vs : list Vote) (s : State) :=
  run c me dq (map (fun v => (hint, EvVote v)) vs) s.

(* a step that emitted nothing and returned Ok *)
Definition quiet_step (x : list Out * res unit) : bool :=
  match x with ([], ROk _) => true | _ => false end.
Definition quiet (tr : list (list Out * res unit)) : bool := forallb quiet_step tr.
Definition outs_tr (tr : list (list Out * res unit)) : list Out := flat_map fst tr.
Definition is_ok (r : res unit) : bool := match r with ROk _ => true | _ => false end.
Definition all_ok (tr : list (list Out * res unit)) : bool := forallb (fun x => is_ok (snd x)) tr.

(* the message a local timeout broadcasts in state [s] *)
Definition own_timeout (me : N) (s : State) : Timeout :=
  mkTimeout (s_high_qc s) (s_round s) me (SigOf me (CTimeout (s_round s) (qc_round (s_high_qc s)))).

(* the four counters of the node never go down *)
Definition cleb (s s' : State) : bool :=
  (s_round s <=? s_round s') && (s_last_voted s <=? s_last_voted s') &&
  (s_last_committed s <=? s_last_committed s') && (qc_round (s_high_qc s) <=? qc_round (s_high_qc s')).

(* the parent of [b] as the synchronizer finds it in the store (not the genesis placeholder) *)
Definition stored_parent (s : State) (b p : Block) : Prop :=
  qc_eqb (b_qc b) qc_genesis = false /\ store_get (qc_hash (b_qc b)) (s_store s) = Some p.

(* each block of the list is the parent of the next one *)
Fixpoint linkedb (l : list Block) : bool :=
  match l with
  | x :: ((y :: _) as r) => digest_eqb (block_digest x) (qc_hash (b_qc y)) && linkedb r
  | _ => true
  end.

(* the block a leader builds from a Make request (what the proposer signs and broadcasts) *)
Definition made_block (a r : N) (qc : QC) (tc : option TC) (pl : list N) : Block :=
  let pre := mkBlock qc tc a r pl (SigJunk 0) in
  mkBlock qc tc a r pl (SigOf a (CBlock (block_digest pre))).

(* ---------- concrete material for the examples: committee of 4, equal stakes ---------- *)
Definition ex_to (a r : N) (hq : QC) : Timeout := mkTimeout hq r a (SigOf a (CTimeout r (qc_round hq))).
Definition ex_vote (a : N) (b : Block) : Vote :=
  mkVote (block_digest b) (b_round b) a (SigOf a (CVote (block_digest b) (b_round b))).
