(* Monitor soundness for C02: along every run of the node model, the digests handed to the commit channel
   (the OCommit outputs, in emission order) ARE the ghost delivery log. Hence the theorem about the log
   (c02_delivery_chain: the log is a chain) is a theorem about what the monitor mon_c02 evaluates on traces:
   for a model run whose log is a chain the monitor returns true. Holds for every deque discipline [dq]. *)
From Coq Require Import List NArith Lia Bool.
From HS Require Import GTac Node Corr Monitors Proto Link NodeInv NodeLog Witness.
Import ListNotations.
Open Scope N_scope.

Definition cdig (o : list Out) : list digest := map block_digest (commits_of o).
(* log-output coupling of a computation *)
Definition lo {A} (m : M A) : Prop :=
  forall s, match m s with (s', o, _) => s_log s' = rev (cdig o) ++ s_log s end.

Lemma cdig_app a b : cdig (a ++ b) = cdig a ++ cdig b.
Proof. unfold cdig, commits_of. rewrite flat_map_app, map_app. reflexivity. Qed.

Lemma lo_ret {A} (a : A) : lo (ret a). Proof. intros s. reflexivity. Qed.
Lemma lo_fail {A} e : lo (@fail A e). Proof. intros s. reflexivity. Qed.
Lemma lo_panic {A} k : lo (@panic A k). Proof. intros s. reflexivity. Qed.
Lemma lo_get : lo get. Proof. intros s. reflexivity. Qed.
Lemma lo_lift {A} (r : res A) : lo (lift r). Proof. intros s. reflexivity. Qed.
Lemma lo_emit o : (forall b, o <> OCommit b) -> lo (emit o).
Proof. intros H s. unfold emit, cdig, commits_of. simpl. destruct o; try reflexivity. exfalso. eapply H; eauto. Qed.
Lemma lo_modify f : (forall s, s_log (f s) = s_log s) -> lo (modify f).
Proof. intros H s. unfold modify. simpl. apply H. Qed.
Lemma lo_bind {A B} (m : M A) (f : A -> M B) : lo m -> (forall a, lo (f a)) -> lo (bind m f).
Proof.
  intros Hm Hf s. unfold bind. specialize (Hm s). destruct (m s) as [[s1 o1] r1].
  destruct r1 as [a|e|k]; auto.
  specialize (Hf a s1). destruct (f a s1) as [[s2 o2] r2].
  rewrite Hf, Hm, cdig_app, rev_app_distr, app_assoc. reflexivity.
Qed.
Lemma lo_if {A} (b : bool) (m1 m2 : M A) : lo m1 -> lo m2 -> lo (if b then m1 else m2).
Proof. destruct b; auto. Qed.

Ltac lo_mod := apply lo_modify; intros; try reflexivity.
Ltac lo_step :=
  match goal with
  | |- lo (ret _) => apply lo_ret
  | |- lo (fail _) => apply lo_fail
  | |- lo (panic _) => apply lo_panic
  | |- lo get => apply lo_get
  | |- lo (lift _) => apply lo_lift
  | |- lo (emit _) => apply lo_emit; discriminate
  | |- lo (bind _ _) => apply lo_bind; [|intros ?]
  end.

Ltac lo_dm := match goal with |- lo (match ?x with _ => _ end) => destruct x end.
Ltac lo_mod_s := solve [apply lo_modify; intros; simpl; repeat match goal with |- context [if ?b then _ else _] => destruct b end; reflexivity].
Create HintDb lo.
Ltac lo_go := repeat first [ lo_step | lo_dm | lo_mod_s | solve [auto 2 with lo] | progress cbv zeta ].

Section MS.
  Variable c : Committee. Variable me : N. Variable dq : DqCfg.

  Lemma lo_advance_round r : lo (advance_round r).
  Proof. unfold advance_round. lo_go. Qed.
  Hint Resolve lo_advance_round : lo.
  Lemma lo_update_high_qc q : lo (update_high_qc q).
  Proof. unfold update_high_qc. lo_go. Qed.
  Hint Resolve lo_update_high_qc : lo.
  Lemma lo_process_qc q : lo (process_qc q).
  Proof. unfold process_qc. lo_go. Qed.
  Hint Resolve lo_process_qc : lo.
  Lemma lo_generate_proposal hint tc : lo (generate_proposal me hint tc).
  Proof. unfold generate_proposal. lo_go. Qed.
  Hint Resolve lo_generate_proposal : lo.
  Lemma lo_proposer_cleanup ds : lo (proposer_cleanup ds).
  Proof. unfold proposer_cleanup. lo_go. Qed.
  Hint Resolve lo_proposer_cleanup : lo.
  Lemma lo_sync_park b : lo (sync_park b).
  Proof. unfold sync_park. lo_go. Qed.
  Hint Resolve lo_sync_park : lo.
  Lemma lo_get_parent_block b : lo (get_parent_block b).
  Proof. unfold get_parent_block. lo_go. Qed.
  Hint Resolve lo_get_parent_block : lo.
  Lemma lo_store_block b : lo (store_block b).
  Proof. unfold store_block. apply lo_modify. intros s. reflexivity. Qed.
  Hint Resolve lo_store_block : lo.
  Lemma lo_commit_walk lcr : forall fuel parent acc, lo (commit_walk dq fuel lcr parent acc).
  Proof. induction fuel as [|f IH]; intros parent acc; simpl; lo_go; apply IH. Qed.
  Hint Resolve lo_commit_walk : lo.
  Lemma lo_deliver_all l : lo (deliver_all l).
  Proof.
    induction l as [|b l IH]; simpl; [lo_step|]. intros s.
    unfold bind at 1, emit at 1. unfold bind at 1, modify at 1.
    specialize (IH (set_log s (block_digest b :: s_log s))). destruct (deliver_all l _) as [[s2 o2] r2].
    rewrite IH. simpl. unfold cdig, commits_of. simpl. fold (commits_of o2). rewrite <- app_assoc. reflexivity.
  Qed.
  Hint Resolve lo_deliver_all : lo.
  Lemma lo_commit b : lo (commit dq b).
  Proof. unfold commit. lo_go. Qed.
  Hint Resolve lo_commit : lo.
  Lemma lo_make_vote b : lo (make_vote me b).
  Proof. unfold make_vote, increase_last_voted. lo_go. Qed.
  Hint Resolve lo_make_vote : lo.
  Lemma lo_handle_vote hint v : lo (handle_vote c me hint v).
  Proof. unfold handle_vote. lo_go. Qed.
  Hint Resolve lo_handle_vote : lo.
  Lemma lo_handle_timeout hint t : lo (handle_timeout c me hint t).
  Proof. unfold handle_timeout. lo_go. Qed.
  Hint Resolve lo_handle_timeout : lo.
  Lemma lo_local_timeout hint : lo (local_timeout c me hint).
  Proof. unfold local_timeout, increase_last_voted. lo_go. Qed.
  Lemma lo_handle_tc hint tc : lo (handle_tc c me hint tc).
  Proof. unfold handle_tc. lo_go. Qed.
  Lemma lo_pw_cleanup r : lo (pw_cleanup r).
  Proof. unfold pw_cleanup. lo_go. Qed.
  Hint Resolve lo_pw_cleanup : lo.
  Lemma lo_mempool_verify b : lo (mempool_verify b).
  Proof. unfold mempool_verify. lo_go. Qed.
  Hint Resolve lo_mempool_verify : lo.
  Lemma lo_batch_stored d : lo (batch_stored d).
  Proof. unfold batch_stored. lo_go. Qed.
  Lemma lo_process_block hint b : lo (process_block c me dq hint b).
  Proof. unfold process_block. lo_go. Qed.
  Hint Resolve lo_process_block : lo.
  Lemma lo_handle_proposal hint b : lo (handle_proposal c me dq hint b).
  Proof. unfold handle_proposal. lo_go. Qed.
  Theorem lo_step_all hint e : lo (step c me dq hint e).
  Proof.
    destruct e as [b|v|t|tc|b| |d|d| ]; cbn [step].
    - apply lo_handle_proposal.
    - apply lo_handle_vote.
    - apply lo_handle_timeout.
    - apply lo_handle_tc.
    - lo_go.
    - apply lo_local_timeout.
    - apply lo_batch_stored.
    - lo_go.
    - lo_go.
  Qed.

  (* along a whole run *)
  Theorem run_log evs : forall s,
    match run c me dq evs s with
    | (s', tr) => s_log s' = rev (cdig (flat_map fst tr)) ++ s_log s
    end.
  Proof.
    induction evs as [|[h e] r IH]; intros s; simpl; [reflexivity|].
    pose proof (lo_step_all h e s) as L. destruct (step c me dq h e s) as [[s1 o] res].
    specialize (IH s1). destruct (run c me dq r s1) as [s2 tr]. simpl.
    rewrite IH, L, cdig_app, rev_app_distr, app_assoc. reflexivity.
  Qed.

  (* the monitor as evaluated on traces: chainb of the reversed digests of all commits *)
  Definition mon_c02_outs (outs : list Out) : bool := chainb (rev (cdig outs)).
  Corollary mon_c02_complete evs :
    match run c me dq evs (init c) with
    | (s', tr) => chain (s_log s') -> mon_c02_outs (flat_map fst tr) = true
    end.
  Proof.
    pose proof (run_log evs (init c)) as R. destruct (run c me dq evs (init c)) as [s' tr].
    intros Hc. unfold mon_c02_outs. apply chainb_complete. simpl in R. rewrite app_nil_r in R. rewrite <- R. exact Hc.
  Qed.
End MS.
(* mon_c02 of Monitors.v is this function on the observed outputs *)
Lemma mon_c02_is obs : mon_c02 obs = mon_c02_outs (outs_of obs).
Proof. reflexivity. Qed.
Print Assumptions run_log.
Print Assumptions mon_c02_complete.
