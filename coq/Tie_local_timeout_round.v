(* Tie lemma for `local_timeout_round`: the statement skeleton REGENERATED from the Rust source (GenCore.v, tools/skel.py) computes, for every
   argument and every state, exactly what the hand-written model function does (same state, same outputs, same result). *)
From Coq Require Import List NArith Bool Lia ZArith.
From Coq Require Import ZifyN ZifyBool.
From HS Require Import TieTac GenCore.
Import ListNotations.
Open Scope N_scope.

Lemma tie_local_timeout_round c me dq hint s :
  gen_local_timeout_round c me dq hint s = local_timeout c me hint s.
Proof. unfold gen_local_timeout_round, local_timeout, timeout_new, increase_last_voted. tie. Qed.
