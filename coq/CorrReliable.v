(* Correspondence support for the socket-mode cases of C14 (harness/src/bin/sock.rs, mode `reliable`): the model of
   ReliableDefs.v is run on the event list that the harness derived from what it observed, and its output is compared
   with what the scripted peer received and with the handles that resolved; then monitors are evaluated on the
   observation alone. Definitions only (no proofs). *)
From Coq Require Import List NArith Bool.
From HS Require Import ReliableDefs.
Import ListNotations.
Open Scope N_scope.

Definition rb2n (b : bool) : N := if b then 1 else 0.
Definition rverdict_of (l : list N) : list N := rb2n (forallb (N.eqb 1) l) :: l.

Fixpoint eq_nlist (a b : list N) : bool :=
  match a, b with
  | [], [] => true
  | x :: r, y :: r' => (x =? y) && eq_nlist r r'
  | _, _ => false
  end.
(* a is a prefix of b *)
Fixpoint prefix_nlist (a b : list N) : bool :=
  match a, b with
  | [], _ => true
  | x :: r, y :: r' => (x =? y) && prefix_nlist r r'
  | _ :: _, [] => false
  end.
Fixpoint sorted_lt (l : list N) : bool :=
  match l with
  | x :: ((y :: _) as r) => (x <? y) && sorted_lt r
  | _ => true
  end.
Fixpoint nodupb (l : list N) : bool :=
  match l with [] => true | x :: r => negb (memN x r) && nodupb r end.

(* One connection as seen by the scripted peer: the payload ids of the frames it took from the socket, in order, and
   whether it kept reading until everything the sender had to write had arrived (exact = true) or stopped reading
   early and closed (exact = false: the sender may have written more than the peer took; see sock.rs). *)
Definition oconn : Type := bool * list N.

Fixpoint frames_agree (model : list (list N)) (obs : list oconn) : bool :=
  match model, obs with
  | [], [] => true
  | m :: mr, (exact, ids) :: orest =>
      (if exact then eq_nlist m ids else prefix_nlist ids m) && frames_agree mr orest
  | _, _ => false
  end.

(* A resolution as seen by the sender's caller: the id of the handle, and the three numbers decoded from the reply
   bytes the handle resolved with: (connection number (from 1), index of the replied frame on that connection (from
   0), payload id of that frame), as written by the scripted peer into the reply. *)
Definition ores : Type := N * (N * N * N).

Definition pairing_ok (obs : list oconn) (r : ores) : bool :=
  let '(id, (c, t, p)) := r in
  (p =? id) && (1 <=? c) &&
  match nth_error obs (N.to_nat (c - 1)) with
  | Some (_, ids) => match nth_error ids (N.to_nat t) with Some x => x =? id | None => false end
  | None => false
  end.

(* Observation time line, in the order the (sequential) harness saw things happen:
   (1, i, _) message i handed to ReliableSender::send; (2, j, _) handle j dropped; (3, c, x) frame with payload id x
   taken from connection c; (4, x, _) handle x resolved. *)
Definition oitem : Type := N * N * N.
Fixpoint no_frame_after_drop (tl : list oitem) : bool :=
  match tl with
  | [] => true
  | (k, a, _) :: r =>
      (if k =? 2 then forallb (fun it => let '(k', _, x) := it in negb ((k' =? 3) && (x =? a))) r else true)
      && no_frame_after_drop r
  end.
(* frames only for ids already handed over, resolutions only for ids whose frame was seen before *)
Fixpoint causal (seen_send seen_frame : list N) (tl : list oitem) : bool :=
  match tl with
  | [] => true
  | (k, a, b) :: r =>
      if k =? 1 then causal (a :: seen_send) seen_frame r
      else if k =? 3 then memN b seen_send && causal seen_send (b :: seen_frame) r
      else if k =? 4 then memN a seen_frame && causal seen_send seen_frame r
      else causal seen_send seen_frame r
  end.

(* events : derived from the observation (see sock.rs);  obs : per connection;  res : resolutions in observed order;
   tl : time line;  nsent : number of messages handed over;  dropped : ids whose handle was dropped;
   complete : the script ran to its end (the last connection was kept until every frame had been answered).
   Verdict layout (after the leading "all agree" flag):
     1 model's number of connections = observed number
     2 model's frames per connection = / extend the observed ones (exact / early-close connections)
     3 model's resolutions = observed resolutions (ids, in order)
     4 monitor: every resolved handle got the reply to its own frame (reply bytes name a connection and an index at
       which the peer had received exactly this id), and no handle resolved twice
     5 monitor: first deliveries are in hand-over order
     6 monitor: on each connection ids strictly increase (no duplicate, no reordering)
     7 monitor: no frame for an id after its handle was dropped
     8 monitor: causality (frames only for handed-over ids; resolutions only after a frame with that id was received)
     9 monitor: at-least-once: the script was completed and every id whose handle was kept has resolved *)
Definition reliable_case (events : list ev) (obs : list oconn) (res : list ores) (tl : list oitem)
                         (nsent : N) (dropped : list N) (complete : bool) : list N :=
  let '(mf, mr) := run_obs events in
  let rids := map fst res in
  let allids := concat (map snd obs) in
  rverdict_of
    [ rb2n (N.of_nat (length mf) =? N.of_nat (length obs));
      rb2n (frames_agree mf obs);
      rb2n (eq_nlist mr rids);
      rb2n (forallb (pairing_ok obs) res && nodupb rids);
      rb2n (sorted_lt (firsts allids));
      rb2n (forallb (fun oc => sorted_lt (snd oc)) obs);
      rb2n (no_frame_after_drop tl);
      rb2n (causal [] [] tl);
      rb2n (complete &&
            forallb (fun i => memN i dropped || memN i rids) (map N.of_nat (seq 0 (N.to_nat nsent)))) ].
