(* Tie lemma for `qcmaker_append`: the statement skeleton REGENERATED from the Rust source (GenAgg.v, tools/skelagg.py) computes, for every
   argument and every state, exactly what the hand-written model function does. *)
From Coq Require Import List NArith Bool Lia ZArith.
From Coq Require Import ZifyN ZifyBool.
From HS Require Import TieAggTac GenAgg.
Import ListNotations.
Open Scope N_scope.

Lemma tie_qcmaker_append c v m : gen_qcmaker_append c v m = qm_append c m v.
Proof.
  unfold gen_qcmaker_append, qm_append. destruct m as [w vs us].
  gmunf; gunf; unfold set_qm_weight, set_qm_votes, set_qm_used; cbn [qm_weight qm_votes qm_used fst snd].
  repeat (tsplit1; cbn [qm_weight qm_votes qm_used fst snd negb]); tdone; f_equal; tdone.
Qed.
