(* C15 (consensus core part): no panic site of the node model is reachable. *)
From Coq Require Import List NArith Lia Bool ZifyN ZifyBool.
From HS Require Import GTac Node Proto Link NodeInv NodeLog.
Import ListNotations.
Open Scope N_scope.

(* ---------- "this computation does not touch the log nor the watermark" ---------- *)
Definition same_store (s s' : State) := s_store s' = s_store s.
Definition skeeps {A} (m : M A) := forall s, same_store s (st (m s)).

Lemma same_store_refl s : same_store s s. Proof. reflexivity. Qed.
Lemma same_store_trans a b d : same_store a b -> same_store b d -> same_store a d.
Proof. unfold same_store. congruence. Qed.

Lemma skeeps_ret {A} (a : A) : skeeps (ret a). Proof. intros s. apply same_store_refl. Qed.
Lemma skeeps_fail {A} e : skeeps (@fail A e). Proof. intros s. apply same_store_refl. Qed.
Lemma skeeps_panic {A} k : skeeps (@panic A k). Proof. intros s. apply same_store_refl. Qed.
Lemma skeeps_get : skeeps get. Proof. intros s. apply same_store_refl. Qed.
Lemma skeeps_emit o : skeeps (emit o). Proof. intros s. apply same_store_refl. Qed.
Lemma skeeps_lift {A} (r : res A) : skeeps (lift r). Proof. intros s. apply same_store_refl. Qed.
Lemma skeeps_modify f : (forall s, same_store s (f s)) -> skeeps (modify f).
Proof. intros H s. apply H. Qed.
Lemma skeeps_bind {A B} (m : M A) (f : A -> M B) : skeeps m -> (forall a, skeeps (f a)) -> skeeps (bind m f).
Proof.
  intros Hm Hf s. unfold bind. specialize (Hm s). destruct (m s) as [[s1 o1] r1]. unfold st in *. simpl in *.
  destruct r1 as [a|e|k]; auto.
  specialize (Hf a s1). destruct (f a s1) as [[s2 o2] r2]. unfold st in *. simpl in *.
  eapply same_store_trans; eauto.
Qed.

Ltac skeeps_tac :=
  repeat first
    [ apply skeeps_ret | apply skeeps_fail | apply skeeps_panic | apply skeeps_get | apply skeeps_emit
    | apply skeeps_lift | apply skeeps_bind | (apply skeeps_modify; intros; reflexivity)
    | intro | progress cbv zeta
    | match goal with |- skeeps (if ?b then _ else _) => destruct b end
    | match goal with |- skeeps (match ?x with _ => _ end) => destruct x end ].

Section KeepsStore.
  Variable c : Committee. Variable me : N.
  Lemma skeeps_advance_round r : skeeps (advance_round r).
  Proof.
    unfold advance_round. gunf. apply skeeps_bind; [apply skeeps_get|]. intros s.
    destruct (_ <? _); [apply skeeps_ret|]. apply skeeps_modify. intros; reflexivity.
  Qed.
  Lemma skeeps_update_high_qc q : skeeps (update_high_qc q).
  Proof. unfold update_high_qc. gunf. apply skeeps_modify. intros s. destruct (_ <? _); reflexivity. Qed.
  Lemma skeeps_process_qc q : skeeps (process_qc q).
  Proof. unfold process_qc. apply skeeps_bind; [apply skeeps_advance_round|intro; apply skeeps_update_high_qc]. Qed.
  Lemma skeeps_generate_proposal hint tc : skeeps (generate_proposal me hint tc).
  Proof.
    unfold generate_proposal. apply skeeps_bind; [apply skeeps_get|]. intros s.
    apply skeeps_bind; [apply skeeps_emit|]. intros _.
    apply skeeps_bind; [apply skeeps_modify; intros; reflexivity|]. intros _.
    apply skeeps_bind; [destruct (same_set _ _); [apply skeeps_ret|apply skeeps_emit]|]. intros _.
    apply skeeps_bind; [apply skeeps_modify; intros; reflexivity|]. intros _. apply skeeps_emit.
  Qed.
  Lemma skeeps_proposer_cleanup ds : skeeps (proposer_cleanup ds).
  Proof.
    unfold proposer_cleanup. apply skeeps_bind; [apply skeeps_emit|]. intros _.
    apply skeeps_modify; intros; reflexivity.
  Qed.
  Lemma skeeps_sync_park b : skeeps (sync_park b).
  Proof.
    unfold sync_park. apply skeeps_bind; [apply skeeps_get|]. intros s.
    destruct (existsb _ _); [apply skeeps_ret|].
    apply skeeps_bind; [apply skeeps_modify; intros; reflexivity|]. intros _.
    destruct (existsb _ _); [apply skeeps_ret|].
    apply skeeps_bind; [apply skeeps_modify; intros; reflexivity|]. intros _. apply skeeps_emit.
  Qed.
  Lemma skeeps_get_parent_block b : skeeps (get_parent_block b).
  Proof. unfold get_parent_block. destruct (qc_eqb _ _); [apply skeeps_ret|]. apply skeeps_bind; [apply skeeps_get|].
    intros s. destruct (store_get _ _); [apply skeeps_ret|]. apply skeeps_bind; [apply skeeps_sync_park|intro; apply skeeps_ret]. Qed.
  Lemma skeeps_make_vote b : skeeps (make_vote me b).
  Proof.
    unfold make_vote, increase_last_voted. gunf. apply skeeps_bind; [apply skeeps_get|]. intros s.
    apply skeeps_bind.
    { destruct (b_tc b); [|apply skeeps_ret]. destruct (list_max _); [apply skeeps_ret|apply skeeps_panic]. }
    intros r2. destruct (negb _); [apply skeeps_ret|].
    apply skeeps_bind; [apply skeeps_modify; intros; reflexivity|]. intros _.
    apply skeeps_bind; [apply skeeps_modify; intros; reflexivity|]. intros _. apply skeeps_ret.
  Qed.
  Lemma skeeps_handle_vote hint v : skeeps (handle_vote c me hint v).
  Proof.
    unfold handle_vote. gunf. apply skeeps_bind; [apply skeeps_get|]. intros s.
    destruct (_ <? _); [apply skeeps_ret|]. apply skeeps_bind; [apply skeeps_lift|]. intros _.
    destruct (qm_append _ _ _) as [m' r]. apply skeeps_bind; [apply skeeps_modify; intros; reflexivity|]. intros _.
    apply skeeps_bind; [apply skeeps_lift|]. intros [qc|]; [|apply skeeps_ret].
    apply skeeps_bind; [apply skeeps_process_qc|]. intros _. apply skeeps_bind; [apply skeeps_get|]. intros s'.
    destruct (_ =? _); [apply skeeps_generate_proposal|apply skeeps_ret].
  Qed.
  Lemma skeeps_handle_timeout hint t : skeeps (handle_timeout c me hint t).
  Proof.
    unfold handle_timeout. gunf. apply skeeps_bind; [apply skeeps_get|]. intros s.
    destruct (_ <? _); [apply skeeps_ret|]. apply skeeps_bind; [apply skeeps_lift|]. intros _.
    apply skeeps_bind; [apply skeeps_process_qc|]. intros _. apply skeeps_bind; [apply skeeps_get|]. intros s1.
    destruct (tm_append _ _ _) as [m' r]. apply skeeps_bind; [apply skeeps_modify; intros; reflexivity|]. intros _.
    apply skeeps_bind; [apply skeeps_lift|]. intros [tc|]; [|apply skeeps_ret].
    apply skeeps_bind; [apply skeeps_advance_round|]. intros _. apply skeeps_bind; [apply skeeps_emit|]. intros _.
    apply skeeps_bind; [apply skeeps_get|]. intros s'.
    destruct (_ =? _); [apply skeeps_generate_proposal|apply skeeps_ret].
  Qed.
  Lemma skeeps_local_timeout hint : skeeps (local_timeout c me hint).
  Proof.
    unfold local_timeout, increase_last_voted. apply skeeps_bind; [apply skeeps_get|]. intros s.
    apply skeeps_bind; [apply skeeps_modify; intros; reflexivity|]. intros _.
    apply skeeps_bind; [apply skeeps_modify; intros; reflexivity|]. intros _.
    apply skeeps_bind; [apply skeeps_emit|]. intros _. apply skeeps_handle_timeout.
  Qed.
  Lemma skeeps_handle_tc hint tc : skeeps (handle_tc c me hint tc).
  Proof.
    unfold handle_tc. gunf. apply skeeps_bind; [apply skeeps_lift|]. intros _. apply skeeps_bind; [apply skeeps_get|]. intros s.
    destruct (_ <? _); [apply skeeps_ret|]. apply skeeps_bind; [apply skeeps_advance_round|]. intros _.
    apply skeeps_bind; [apply skeeps_get|]. intros s'. destruct (_ =? _); [apply skeeps_generate_proposal|apply skeeps_ret].
  Qed.
  Lemma skeeps_pw_cleanup r : skeeps (pw_cleanup r).
  Proof. unfold pw_cleanup. apply skeeps_modify. intros; reflexivity. Qed.
  Lemma skeeps_mempool_verify b : skeeps (mempool_verify b).
  Proof.
    unfold mempool_verify. apply skeeps_bind; [apply skeeps_get|]. intros s.
    destruct (filter _ _); [apply skeeps_ret|].
    apply skeeps_bind; [apply skeeps_emit|]. intros _.
    apply skeeps_bind; [destruct (existsb _ _); [apply skeeps_ret|apply skeeps_modify; intros; reflexivity]|].
    intros _. apply skeeps_ret.
  Qed.
  Lemma skeeps_batch_stored d : skeeps (batch_stored d).
  Proof. unfold batch_stored. apply skeeps_modify. intros; reflexivity. Qed.
End KeepsStore.


Section NoPanic.
  Variable c : Committee.
  Variable me : N.
  Variable honest : N -> bool.
  Hypothesis members_nodup : NoDup (members c).
  Hypothesis me_honest : honest me = true.
  Variable w0 : world.
  Notation stk := (stk c).
  Notation mem := (members c).
  Hypothesis byz_bound : 3 * byz_stake stk mem honest < total stk mem.
  Notation Inv := (Inv c me honest w0).
  Notation vetted := (vetted c me honest w0).
  Local Notation "'$' lemma" := (lemma c me honest members_nodup me_honest w0 byz_bound) (at level 0, lemma at level 0).

  Definition has_parent (s : State) (b : Block) : Prop :=
    qc_eqb (b_qc b) qc_genesis = true \/ exists p, In (qc_hash (b_qc b), p) (s_store s).
  Definition Closed (s : State) : Prop := forall d b, In (d, b) (s_store s) -> has_parent s b.

  Lemma Closed_keep s s' : Closed s -> same_store s s' -> Closed s'.
  Proof. unfold Closed, has_parent, same_store. intros H E. rewrite E. exact H. Qed.
  Lemma has_parent_keep s s' b : has_parent s b -> same_store s s' -> has_parent s' b.
  Proof. unfold has_parent, same_store. intros H E. rewrite E. exact H. Qed.

  Lemma store_get_some d p st : In (d, p) st -> exists p', store_get d st = Some p'.
  Proof.
    induction st as [|[k v] st IH]; simpl; [tauto|].
    intros [Heq|Hin].
    - inversion Heq; subst. rewrite digest_eqb_refl. eauto.
    - destruct (digest_eqb d k); eauto.
  Qed.

  Lemma gpb_some b s :
    has_parent s b -> exists p, get_parent_block b s = (s, [], ROk (Some p)) /\ parent_of s b p.
  Proof.
    intros Hp. unfold get_parent_block. destruct (qc_eqb (b_qc b) qc_genesis) eqn:Eg.
    - exists block_genesis. split; [reflexivity|left; auto].
    - destruct Hp as [Hp|[p Hin]]; [congruence|].
      destruct (store_get_some _ _ _ Hin) as [p' Hg].
      exists p'. unfold bind, get, ret. simpl. rewrite Hg. simpl. split; [reflexivity|].
      right. apply (store_get_in c me honest members_nodup me_honest byz_bound). exact Hg.
  Qed.

  Lemma commit_walk_ok lcr : forall fuel parent acc s,
    Inv s -> Closed s -> has_parent s parent ->
    (ddepth (block_digest parent) < fuel)%nat ->
    exists acc', commit_walk src_dq fuel lcr parent acc s = (s, [], ROk acc').
  Proof.
    induction fuel as [|f IH]; intros parent acc s H Hc Hp Hf; [lia|]. simpl. gunfdq.
    destruct (lcr + 1 <? b_round parent); [|eexists; reflexivity].
    destruct (gpb_some parent s Hp) as [anc [Hg Hpar]].
    unfold bind at 1. rewrite Hg.
    destruct Hpar as [[_ ->]|Hin].
    - assert (E0 : (b_round block_genesis <=? lcr) = true) by (apply N.leb_le; simpl; lia).
      rewrite E0. eexists. reflexivity.
    - destruct (b_round anc <=? lcr); [eexists; reflexivity|].
      assert (Ed : block_digest anc = qc_hash (b_qc parent)) by (apply (i_store _ _ _ _ _ H); exact Hin).
      destruct (IH anc (anc :: acc) s H Hc (Hc _ _ Hin)) as [acc' E].
      + rewrite Ed. simpl in Hf. lia.
      + rewrite E. eexists. reflexivity.
  Qed.

  Lemma skeeps_deliver_all l : skeeps (deliver_all l).
  Proof.
    induction l as [|b l IH]; simpl; [apply skeeps_ret|].
    apply skeeps_bind; [apply skeeps_emit|]. intros _.
    apply skeeps_bind; [apply skeeps_modify; intros; reflexivity|]. intros _. exact IH.
  Qed.

  Lemma deliver_all_ok l : forall s, exists s' o, deliver_all l s = (s', o, ROk tt).
  Proof.
    induction l as [|b l IH]; intros s; simpl; [unfold ret; eauto|].
    unfold bind at 1. unfold emit at 1. unfold bind at 1. unfold modify at 1.
    destruct (IH (set_log s (block_digest b :: s_log s))) as [s' [o E]]. rewrite E. eauto.
  Qed.

  Lemma commit_ok b0 s :
    Inv s -> Closed s -> has_parent s b0 ->
    match commit src_dq b0 s with
    | (s', _, res) => res = ROk tt /\ same_store s s'
    end.
  Proof.
    intros H Hc Hp. unfold commit. gunfdq. unfold bind at 1. unfold get at 1.
    destruct (b_round b0 <=? s_last_committed s); [unfold ret; split; reflexivity|].
    destruct (commit_walk_ok (s_last_committed s) (S (S (ddepth (block_digest b0)))) b0 [] s H Hc Hp) as [anc E]; [lia|]. gunfdq.
    unfold bind at 1. rewrite E. unfold bind at 1. unfold modify at 1.
    pose proof (skeeps_deliver_all (anc ++ [b0]) (set_last_committed s (b_round b0))) as K.
    destruct (deliver_all_ok (anc ++ [b0]) (set_last_committed s (b_round b0))) as [s' [o E2]].
    rewrite E2 in *. unfold st in K. simpl in *. split; [reflexivity|exact K].
  Qed.

  Lemma sle_tr a b d : sle a b -> sle b d -> sle a d.
  Proof.
    intros [[p1 H1] [H2 H3]] [[p2 H4] [H5 H6]]. split; [|lia].
    exists (p2 ++ p1). rewrite H4, H1. apply app_assoc.
  Qed.

  Lemma has_parent_of_parent_of s b p : parent_of s b p -> has_parent s b.
  Proof. intros [[G _]|G]; [left; exact G|right; eauto]. Qed.

  Lemma make_vote_np b s :
    Inv s -> vetted s b -> forall k, snd (make_vote me b s) <> RPanic k.
  Proof.
    intros H [_ [Gt _]] k. unfold make_vote, increase_last_voted, bind, get, modify, ret, panic. simpl. gunf.
    destruct (b_tc b) as [tc|]; simpl.
    - simpl in Gt. destruct Gt as [_ Gn].
      destruct (list_max (tc_hqrs tc)) as [m|] eqn:Em; simpl.
      + destruct (negb _); simpl; discriminate.
      + exfalso. unfold list_max, tc_hqrs in Em. destruct (tc_votes tc); [congruence|discriminate].
    - destruct (negb _); simpl; discriminate.
  Qed.

  Lemma process_block_np hint b s :
    Inv s -> Closed s -> vetted s b ->
    match process_block c me src_dq hint b s with
    | (s', _, res) => (forall k, res <> RPanic k) /\ Closed s'
    end.
  Proof.
    intros H Hc Hv. unfold process_block. gunf. unfold bind at 1.
    pose proof ($get_parent_block_inv b s H Hv) as G. pose proof (skeeps_get_parent_block b s) as K.
    destruct (get_parent_block b s) as [[s1 o1] r1]. unfold st in K; simpl in K.
    destruct G as [I1 [L1 [_ [_ [_ [_ [_ G]]]]]]].
    destruct r1 as [[b1|]|e|k]; try contradiction.
    2:{ unfold ret. split; [intros k; discriminate|eapply Closed_keep; eauto]. }
    destruct G as [-> G1]. clear I1 L1 K.
    assert (Hp1 : has_parent s b1).
    { destruct G1 as [[_ ->]|G1]; [left; reflexivity|exact (Hc _ _ G1)]. }
    assert (Hv1 : vetted s b1).
    { destruct G1 as [[_ ->]|G1]; [apply ($vetted_genesis)|].
      apply (i_flight _ _ _ _ _ H). right. right. right. apply in_map_iff. exists (qc_hash (b_qc b), b1). auto. }
    destruct (gpb_some b1 s Hp1) as [b0 [Eg G0]].
    unfold bind at 1. rewrite Eg.
    assert (Hp0 : has_parent s b0).
    { destruct G0 as [[_ ->]|G0]; [left; reflexivity|exact (Hc _ _ G0)]. }
    assert (Hv0 : vetted s b0).
    { destruct G0 as [[_ ->]|G0]; [apply ($vetted_genesis)|].
      apply (i_flight _ _ _ _ _ H). right. right. right. apply in_map_iff. exists (qc_hash (b_qc b1), b0). auto. }
    unfold bind at 1.
    pose proof ($store_block_inv b s H Hv) as S.
    destruct (store_block b s) as [[s3 o3] r3].
    destruct S as [I3 [L3 [-> [F1 [F2 [F3 [F4 F5]]]]]]].
    assert (Hc3 : Closed s3).
    { intros d x Hin. rewrite F5 in Hin. unfold has_parent. rewrite F5. destruct Hin as [Hin|Hin].
      - inversion Hin; subst. destruct G1 as [[G1 _]|G1]; [left; exact G1|right; exists b1; right; exact G1].
      - destruct (Hc _ _ Hin) as [A|[p A]]; [left; exact A|right; exists p; right; exact A]. }
    assert (Hp03 : has_parent s3 b0).
    { destruct Hp0 as [A|[p A]]; [left; exact A|right; exists p; rewrite F5; right; exact A]. }
    unfold bind at 1.
    pose proof ($proposer_cleanup_inv (b_payload b0 ++ b_payload b1 ++ b_payload b) s3 I3) as P.
    pose proof (skeeps_proposer_cleanup (b_payload b0 ++ b_payload b1 ++ b_payload b) s3) as K4.
    destruct (proposer_cleanup _ s3) as [[s4 o4] r4]. unfold st in K4; simpl in K4.
    destruct P as [I4 [L4 [-> _]]].
    assert (Hc4 : Closed s4) by (eapply Closed_keep; eauto).
    assert (L04 : sle s s4) by (exact (sle_tr _ _ _ L3 L4)).
    match goal with |- context [bind ?M _ s4] => set (cm := M) end.
    assert (C : match cm s4 with
                | (s', _, res) => Inv s' /\ sle s4 s' /\ res = ROk tt /\ Closed s'
                end).
    { subst cm. destruct (b_round b0 + 1 =? b_round b1) eqn:E2c.
      2:{ unfold ret. split; [exact I4|]. split; [split; [exists []; reflexivity|lia]|]. split; [reflexivity|exact Hc4]. }
      unfold bind at 1. unfold emit at 1. unfold bind at 1.
      pose proof ($pw_cleanup_inv (b_round b0) s4 I4) as Wc. pose proof (skeeps_pw_cleanup (b_round b0) s4) as K5.
      destruct (pw_cleanup (b_round b0) s4) as [[s5 o5] r5]. unfold st in K5; simpl in K5.
      destruct Wc as [I5 [L5 [-> _]]].
      assert (Hc5 : Closed s5) by (eapply Closed_keep; eauto).
      assert (Hp05 : has_parent s5 b0).
      { eapply has_parent_keep; [eapply has_parent_keep; [exact Hp03|exact K4]|exact K5]. }
      pose proof (commit_ok b0 s5 I5 Hc5 Hp05) as CO.
      assert (Hv05 : vetted s5 b0) by (eapply ($vetted_sle); [exact Hv0|exact (sle_tr _ _ _ L04 L5)]).
      (* Inv after commit needs the dcommit fact; reuse commit_inv through process_block_inv's argument *)
      assert (Hd : s_last_committed s5 < b_round b0 -> dcommit stk mem honest (cw me w0 s5) (block_digest b0)).
      { intros Hlt. apply N.eqb_eq in E2c.
        assert (St : s_store s5 = (block_digest b, b) :: s_store s) by (unfold same_store in *; congruence).
        eapply ($dcommit_of_chain s5 b b1 b0); eauto.
        - eapply ($vetted_sle); [exact Hv|exact (sle_tr _ _ _ L04 L5)].
        - destruct G1 as [G1|G1]; [left; exact G1|right; rewrite St; right; exact G1].
        - destruct G0 as [G0|G0]; [left; exact G0|right; rewrite St; right; exact G0].
        - lia. }
      pose proof ($commit_inv b0 s5 I5 Hv05 Hd) as Kc.
      destruct (commit src_dq b0 s5) as [[s6 o6] r6]. destruct CO as [-> K6]. destruct Kc as [I6 [L6 _]].
      split; [exact I6|]. split; [exact (sle_tr _ _ _ L5 L6)|]. split; [reflexivity|eapply Closed_keep; eauto]. }
    unfold bind at 1.
    destruct (cm s4) as [[s7 o7] r7]. destruct C as [I7 [L7 [-> Hc7]]].
    assert (L07 : sle s s7) by (exact (sle_tr _ _ _ L04 L7)).
    unfold bind at 1. unfold get at 1.
    destruct (b_round b =? s_round s7) eqn:Eg2; simpl.
    2:{ unfold ret. split; [intros k; discriminate|exact Hc7]. }
    apply N.eqb_eq in Eg2.
    assert (Hv7 : vetted s7 b) by (eapply ($vetted_sle); eauto).
    unfold bind at 1.
    pose proof ($make_vote_inv b s7 I7 Hv7 Eg2) as V. pose proof (skeeps_make_vote me b s7) as K8.
    pose proof (make_vote_np b s7 I7 Hv7) as NP.
    destruct (make_vote me b s7) as [[s8 o8] r8]. unfold st in K8; simpl in K8, NP.
    destruct V as [I8 [L8 [V1 [V2 V3]]]].
    assert (Hc8 : Closed s8) by (eapply Closed_keep; eauto).
    destruct r8 as [[v|]|e|k]; try contradiction.
    - destruct V3 as [-> Hvoted].
      destruct (leader c (s_round s7 + 1) =? me).
      + assert (Hadm : sig_adm honest (cw me w0 s8) (v_sig (mkVote (block_digest b) (b_round b) me (SigOf me (CVote (block_digest b) (b_round b)))))).
        { simpl. intros _. split; [exact Hvoted|reflexivity]. }
        pose proof ($handle_vote_inv hint _ s8 I8 Hadm) as HV.
        pose proof (skeeps_handle_vote c me hint (mkVote (block_digest b) (b_round b) me (SigOf me (CVote (block_digest b) (b_round b)))) s8) as K9.
        destruct (handle_vote c me hint _ s8) as [[s9 o9] r9]. unfold st in K9; simpl in K9.
        destruct HV as [_ [_ N9]]. split; [exact N9|eapply Closed_keep; eauto].
      + unfold emit. split; [intros k; discriminate|exact Hc8].
    - unfold ret. split; [intros k; discriminate|exact Hc8].
    - exfalso. apply (NP k). reflexivity.
  Qed.

  Lemma handle_proposal_np hint b s :
    Inv s -> Closed s -> block_sound c me honest w0 s b ->
    match handle_proposal c me src_dq hint b s with
    | (s', _, res) => (forall k, res <> RPanic k) /\ Closed s'
    end.
  Proof.
    intros H Hc [Hq Ht]. unfold handle_proposal. unfold bind at 1.
    destruct (b_author b =? leader c (b_round b)).
    2:{ unfold fail. split; [intros k; discriminate|exact Hc]. }
    unfold ret at 1. unfold bind at 1. unfold lift at 1.
    destruct (block_verify c b) as [[]|e|k] eqn:Ev.
    2:{ split; [intros k; discriminate|exact Hc]. }
    2:{ exfalso. eapply block_verify_nopanic; eauto. }
    unfold block_verify in Ev.
    gunf; destruct (0 <? Node.stake c (b_author b)); [|discriminate]; cbn [negb] in *.
    destruct (negb _); [discriminate|].
    destruct (if qc_eqb (b_qc b) qc_genesis then ROk tt else qc_verify c (b_qc b)) as [[]|e|k] eqn:Eqv; try discriminate.
    assert (Gq : qc_good c me honest w0 s (b_qc b)) by (apply ($qc_good_of_verify); auto).
    assert (Gt : tc_good c me honest w0 s (b_tc b)).
    { destruct (b_tc b) as [tc|] eqn:Etc; [|exact I]. apply (Ht tc eq_refl). exact Ev. }
    unfold bind at 1.
    pose proof ($process_qc_inv (b_qc b) s H Gq) as P. pose proof (skeeps_process_qc (b_qc b) s) as K1.
    destruct (process_qc (b_qc b) s) as [[s1 o1] r1]. unfold st in K1; simpl in K1.
    destruct P as [I1 [L1 [-> [P1 _]]]].
    unfold bind at 1.
    assert (A : match (match b_tc b with Some tc => advance_round (tc_round tc) | None => ret tt end) s1 with
                | (s', _, res) => Inv s' /\ sle s1 s' /\ res = ROk tt /\ s_high_qc s' = s_high_qc s1 /\ same_store s1 s'
                end).
    { destruct (b_tc b) as [tc|].
      - pose proof ($advance_round_inv (tc_round tc) s1 I1) as A. pose proof (skeeps_advance_round (tc_round tc) s1) as K2.
        destruct (advance_round (tc_round tc) s1) as [[s2 o2] r2]. unfold st in K2; simpl in K2.
        destruct A as [I2 [L2 [-> [_ [E _]]]]]. split; [exact I2|]. split; [exact L2|]. split; [reflexivity|]. split; [exact E|exact K2].
      - unfold ret. split; [exact I1|]. split; [split; [exists []; reflexivity|lia]|]. split; [reflexivity|]. split; reflexivity. }
    destruct ((match b_tc b with Some tc => advance_round (tc_round tc) | None => ret tt end) s1) as [[s2 o2] r2].
    destruct A as [I2 [L2 [-> [E2 K2]]]].
    assert (L02 : sle s s2) by (exact (sle_tr _ _ _ L1 L2)).
    assert (Hv2 : vetted s2 b).
    { split; [eapply ($qc_good_sle); eauto|]. split; [eapply ($tc_good_sle); eauto|]. rewrite E2. exact P1. }
    unfold bind at 1.
    pose proof ($mempool_verify_inv b s2 I2 Hv2) as M. pose proof (skeeps_mempool_verify b s2) as K3.
    destruct (mempool_verify b s2) as [[s3 o3] r3]. unfold st in K3; simpl in K3.
    destruct M as [I3 [L3 [[ok ->] _]]].
    assert (Hc3 : Closed s3).
    { eapply Closed_keep; [|exact K3]. eapply Closed_keep; [|exact K2]. eapply Closed_keep; eauto. }
    destruct ok.
    - assert (Hv3 : vetted s3 b) by (eapply ($vetted_sle); eauto).
      pose proof (process_block_np hint b s3 I3 Hc3 Hv3) as B.
      destruct (process_block c me src_dq hint b s3) as [[s4 o4] r4]. exact B.
    - unfold ret. split; [intros k; discriminate|exact Hc3].
  Qed.

  Theorem step_np hint e s :
    Inv s -> Closed s -> ev_adm c me honest w0 s e ->
    match step c me src_dq hint e s with
    | (s', _, res) => (forall k, res <> RPanic k) /\ Closed s'
    end.
  Proof.
    intros H Hc Ha. destruct e as [b|v|t|tc|b| |d|d| ]; simpl in *.
    - apply handle_proposal_np; auto.
    - pose proof ($handle_vote_inv hint v s H Ha) as X. pose proof (skeeps_handle_vote c me hint v s) as K.
      destruct (handle_vote c me hint v s) as [[s1 o1] r1]. unfold st in K; simpl in K.
      destruct X as [_ [_ N1]]. split; [exact N1|eapply Closed_keep; eauto].
    - destruct Ha as [Ha1 Ha2]. pose proof ($handle_timeout_inv hint t s H Ha1 Ha2) as X.
      pose proof (skeeps_handle_timeout c me hint t s) as K.
      destruct (handle_timeout c me hint t s) as [[s1 o1] r1]. unfold st in K; simpl in K.
      destruct X as [_ [_ N1]]. split; [exact N1|eapply Closed_keep; eauto].
    - pose proof ($handle_tc_inv hint tc s H Ha) as X. pose proof (skeeps_handle_tc c me hint tc s) as K.
      destruct (handle_tc c me hint tc s) as [[s1 o1] r1]. unfold st in K; simpl in K.
      destruct X as [_ [_ N1]]. split; [exact N1|eapply Closed_keep; eauto].
    - unfold bind at 1. unfold get at 1.
      destruct (remove_first b (s_loopback s)) as [[x l]|] eqn:Er.
      2:{ unfold emit. split; [intros k; discriminate|exact Hc]. }
      destruct (remove_first_in c me honest members_nodup me_honest byz_bound _ _ _ _ Er) as [Hx Hl].
      unfold bind at 1. unfold modify at 1.
      set (s1 := set_loopback s l).
      assert (Hvx : vetted s x) by (apply (i_flight _ _ _ _ _ H); left; exact Hx).
      assert (I1 : Inv s1).
      { eapply ($Inv_frame s); eauto; try reflexivity; simpl.
        all: try (intros k y Hin; apply (i_store _ _ _ _ _ H); exact Hin).
        intros y Hy. left. unfold in_flight in *. simpl in *. destruct Hy as [Hy|Hy]; auto. }
      assert (L1 : sle s s1) by (split; [exists []; reflexivity|simpl; lia]).
      pose proof (process_block_np hint x s1 I1 Hc (($vetted_sle) _ _ _ Hvx L1)) as B.
      destruct (process_block c me src_dq hint x s1) as [[s2 o2] r2]. exact B.
    - pose proof ($local_timeout_inv hint s H) as X. pose proof (skeeps_local_timeout c me hint s) as K.
      destruct (local_timeout c me hint s) as [[s1 o1] r1]. unfold st in K; simpl in K.
      destruct X as [_ [_ N1]]. split; [exact N1|eapply Closed_keep; eauto].
    - unfold batch_stored, modify. split; [intros k; discriminate|exact Hc].
    - unfold modify. destruct (memN d (s_buffer s)); (split; [intros k; discriminate|exact Hc]).
    - unfold bind at 1. unfold get at 1. destruct (me =? leader c (s_round s)).
      + pose proof ($generate_proposal_inv hint None s H I) as G. pose proof (skeeps_generate_proposal me hint None s) as K.
        destruct (generate_proposal me hint None s) as [[s1 o1] r1]. unfold st in K; simpl in K.
        destruct G as [_ [_ [-> _]]]. split; [intros k; discriminate|eapply Closed_keep; eauto].
      + unfold ret. split; [intros k; discriminate|exact Hc].
  Qed.
End NoPanic.

