(* Tie lemma for `handle_timeout`: the statement skeleton REGENERATED from the Rust source (GenCore.v, tools/skel.py) computes, for every
   argument and every state, exactly what the hand-written model function does (same state, same outputs, same result). *)
From Coq Require Import List NArith Bool Lia ZArith.
From Coq Require Import ZifyN ZifyBool.
From HS Require Import TieTac GenCore.
Import ListNotations.
Open Scope N_scope.

Lemma tie_handle_timeout c me dq hint t s : gen_handle_timeout c me dq hint t s = handle_timeout c me hint t s.
Proof. unfold gen_handle_timeout, handle_timeout, agg_add_timeout. tie. Qed.
