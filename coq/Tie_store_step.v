(* Tie: the regenerated command loop of store/src/lib.rs (GenStore.v, per-key waiter queues) refines the model `sstep`
   (flat FIFO list of waiters) - same outputs in the same order, abstraction relation preserved - for every command and every state. *)
From Coq Require Import List NArith Bool Lia.
From HS Require Import StoreDefs StoreSkel GenStore.
Import ListNotations.
Open Scope N_scope.

Lemma sfor_notify q v c : sfor q (fun s => send_notify s v) c = (tt, c, map (fun id => ONotify id v) q).
Proof.
  induction q as [|x r IH]; [reflexivity|].
  cbn [sfor]. unfold sbind. unfold send_notify at 1. rewrite IH. reflexivity.
Qed.

Lemma queue_oremove_same k m : queue k (oremove k m) = [].
Proof.
  unfold queue. induction m as [|[k' l] r IH]; [reflexivity|].
  cbn [oremove filter fst]. destruct (k' =? k) eqn:E; cbn [negb]; [exact IH|].
  cbn [olookup]. rewrite N.eqb_sym, E. exact IH.
Qed.

Lemma queue_oremove_other k k0 m : k0 <> k -> queue k0 (oremove k m) = queue k0 m.
Proof.
  intros Hne. unfold queue. induction m as [|[k' l] r IH]; [reflexivity|].
  cbn [oremove filter fst olookup]. destruct (k' =? k) eqn:E; cbn [negb].
  - apply N.eqb_eq in E. subst k'. destruct (k0 =? k) eqn:E0; [apply N.eqb_eq in E0; contradiction|]. exact IH.
  - cbn [olookup]. destruct (k0 =? k'); [reflexivity|exact IH].
Qed.

Lemma queue_opush_same k id m : queue k (opush k id m) = queue k m ++ [id].
Proof.
  unfold queue. induction m as [|[k' l] r IH]; cbn [opush olookup].
  - rewrite N.eqb_refl. reflexivity.
  - destruct (k =? k') eqn:E; cbn [olookup]; rewrite E; [reflexivity|exact IH].
Qed.

Lemma queue_opush_other k k0 id m : k0 <> k -> queue k0 (opush k id m) = queue k0 m.
Proof.
  intros Hne. unfold queue. induction m as [|[k' l] r IH]; cbn [opush olookup].
  - destruct (k0 =? k) eqn:E0; [apply N.eqb_eq in E0; contradiction|reflexivity].
  - destruct (k =? k') eqn:E; cbn [olookup].
    + apply N.eqb_eq in E. subst k'. destruct (k0 =? k) eqn:E0; [apply N.eqb_eq in E0; contradiction|reflexivity].
    + destruct (k0 =? k'); [reflexivity|exact IH].
Qed.

Lemma waiters_filter_same k l : waiters k (filter (fun e => negb (fst e =? k)) l) = [].
Proof.
  unfold waiters. induction l as [|[k' i] r IH]; [reflexivity|].
  cbn [filter fst]. destruct (k' =? k) eqn:E; cbn [negb]; [exact IH|].
  cbn [filter fst]. rewrite E. exact IH.
Qed.

Lemma waiters_filter_other k k0 l : k0 <> k -> waiters k0 (filter (fun e => negb (fst e =? k)) l) = waiters k0 l.
Proof.
  intros Hne. unfold waiters. induction l as [|[k' i] r IH]; [reflexivity|].
  cbn [filter fst]. destruct (k' =? k) eqn:E; cbn [negb].
  - apply N.eqb_eq in E. subst k'. destruct (k =? k0) eqn:E0; [apply N.eqb_eq in E0; congruence|]. exact IH.
  - cbn [filter fst]. destruct (k' =? k0); cbn [map snd]; [f_equal|]; exact IH.
Qed.

Lemma waiters_app k l1 l2 : waiters k (l1 ++ l2) = waiters k l1 ++ waiters k l2.
Proof. unfold waiters. rewrite filter_app, map_app. reflexivity. Qed.

Lemma waiters_one_same k id : waiters k [(k, id)] = [id].
Proof. unfold waiters. cbn [filter fst]. rewrite N.eqb_refl. reflexivity. Qed.

Lemma waiters_one_other k k0 id : k0 <> k -> waiters k0 [(k, id)] = [].
Proof. intros Hne. unfold waiters. cbn [filter fst]. destruct (k =? k0) eqn:E0; [apply N.eqb_eq in E0; congruence|reflexivity]. Qed.

Lemma woken_waiters k v l :
  map (fun e : key * N => ONotify (snd e) v) (filter (fun e => fst e =? k) l) = map (fun id => ONotify id v) (waiters k l).
Proof. unfold waiters. rewrite map_map. reflexivity. Qed.

Theorem tie_store_step : forall cmd c s, SR c s ->
  let '(_, c', o) := gen_store_step cmd c in
  let '(s', o') := sstep s (to_cmd cmd) in
  o = o' /\ SR c' s'.
Proof.
  intros cmd c s [Hdb Hq]. destruct cmd as [k v|k id|k id]; cbn [gen_store_step to_cmd sstep].
  - (* Write *)
    unfold sbind, db_put, obl_remove. cbn [cdb cobl].
    rewrite woken_waiters, <- (Hq k). unfold queue.
    destruct (olookup k (cobl c)) as [senders|] eqn:El.
    + rewrite sfor_notify. split; [reflexivity|]. split; cbn [cdb cobl db obl]; [congruence|].
      intros k0. destruct (N.eq_dec k0 k) as [->|Hne].
      * rewrite queue_oremove_same, waiters_filter_same. reflexivity.
      * rewrite queue_oremove_other, waiters_filter_other by exact Hne. apply Hq.
    + unfold sret. split; [reflexivity|]. split; cbn [cdb cobl db obl]; [congruence|].
      intros k0. destruct (N.eq_dec k0 k) as [->|Hne].
      * rewrite queue_oremove_same, waiters_filter_same. reflexivity.
      * rewrite queue_oremove_other, waiters_filter_other by exact Hne. apply Hq.
  - (* Read *)
    unfold sbind, db_get, send_read. rewrite Hdb. split; [reflexivity|]. split; assumption.
  - (* NotifyRead *)
    unfold sbind, db_get. rewrite Hdb. destruct (get k (db s)) as [x|] eqn:Eg.
    + unfold send_notify. split; [reflexivity|]. split; assumption.
    + unfold obl_push. split; [reflexivity|]. split; cbn [cdb cobl db obl]; [exact Hdb|].
      intros k0. rewrite waiters_app. destruct (N.eq_dec k0 k) as [->|Hne].
      * rewrite queue_opush_same, Hq, waiters_one_same. reflexivity.
      * rewrite queue_opush_other, Hq, waiters_one_other by exact Hne. rewrite app_nil_r. reflexivity.
Qed.

(* run level: the regenerated loop over any command sequence yields exactly the outputs of the model run *)
Fixpoint gen_store_run (cs : list ccmd) (c : CSt) : CSt * list sout :=
  match cs with
  | [] => (c, [])
  | x :: r => let '(_, c1, o1) := gen_store_step x c in let '(c2, o2) := gen_store_run r c1 in (c2, o1 ++ o2)
  end.

Theorem tie_store_run : forall cs c s, SR c s ->
  snd (gen_store_run cs c) = snd (srun s (map to_cmd cs)) /\ SR (fst (gen_store_run cs c)) (fst (srun s (map to_cmd cs))).
Proof.
  induction cs as [|x r IH]; intros c s HR; cbn [gen_store_run map srun]; [split; [reflexivity|exact HR]|].
  pose proof (tie_store_step x c s HR) as H.
  destruct (gen_store_step x c) as [[u c1] o1]. destruct (sstep s (to_cmd x)) as [s1 o1'].
  destruct H as [-> HR1]. specialize (IH c1 s1 HR1).
  destruct (gen_store_run r c1) as [c2 o2]. destruct (srun s1 (map to_cmd r)) as [s2 o2'].
  cbn [fst snd] in *. destruct IH as [-> HR2]. split; [reflexivity|exact HR2].
Qed.

Example sr_init : SR (mkC [] []) (mkSt [] []).
Proof. split; [reflexivity|intros k; reflexivity]. Qed.
