(* Executable monitor for C06 (liveness of the proposer), definitions only (no proofs).

   In the implementation the Core sends [ProposerMessage::Make(round, qc, tc)] to the Proposer task, which builds the
   block, broadcasts it and waits for acknowledgements before it serves the next request. A proposer that wedges
   (for instance because it waits for acknowledgements that silent members never send) leaves later requests
   unserved: on the recorded trace there is a step whose outputs hold a [PMake r ...] and no [OPropose] of round r.

   The monitor is PER STEP (the harness lets the proposer run to quiescence inside the step that emitted the
   request): for every observation, every request [(r, q, t)] among the outputs is matched, among the blocks proposed
   in the SAME observation, by a block of round [r] that carries the same QC (the implementation's [PartialEq] for QC:
   hash and round, [qc_eqb] of Node.v) and a TC exactly when the request carried one. *)
From Coq Require Import List NArith Bool.
From HS Require Import GTac Node Corr Monitors.
Import ListNotations.
Open Scope N_scope.

(* same TC-presence *)
Definition tc_same_presence (t t' : option TC) : bool :=
  match t, t' with
  | None, None | Some _, Some _ => true
  | _, _ => false
  end.

(* block [b] is what the proposer builds for the request [(r, q, t)] *)
Definition block_serves (m : N * QC * option TC) (b : Block) : bool :=
  match m with
  | (r, q, t) => (b_round b =? r) && qc_eqb (b_qc b) q && tc_same_presence t (b_tc b)
  end.

(* the request is served by one of the blocks [ps] *)
Definition make_served (ps : list Block) (m : N * QC * option TC) : bool := existsb (block_serves m) ps.

(* every request among the outputs of one step is served among the outputs of that step *)
Definition c06_step_ok (os : list Out) : bool := forallb (make_served (proposes_of os)) (makes_of os).

Definition mon_c06_proposes (obs : list Obs) : bool := forallb (fun ob => c06_step_ok (ob_out ob)) obs.

(* how many requests the monitor examined (non-vacuity counter for the harness) *)
Definition c06_proposes_fired (obs : list Obs) : N := N.of_nat (length (makes_of (outs_of obs))).
