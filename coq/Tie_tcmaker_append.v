(* Tie lemma for `tcmaker_append`: the statement skeleton REGENERATED from the Rust source (GenAgg.v, tools/skelagg.py) computes, for every
   argument and every state, exactly what the hand-written model function does. *)
From Coq Require Import List NArith Bool Lia ZArith.
From Coq Require Import ZifyN ZifyBool.
From HS Require Import TieAggTac GenAgg.
Import ListNotations.
Open Scope N_scope.

Lemma tie_tcmaker_append c t m : gen_tcmaker_append c t m = tm_append c m t.
Proof.
  unfold gen_tcmaker_append, tm_append. destruct m as [w vs us].
  gmunf; gunf; unfold set_tm_weight, set_tm_votes, set_tm_used; cbn [tm_weight tm_votes tm_used fst snd].
  repeat (tsplit1; cbn [tm_weight tm_votes tm_used fst snd negb]); tdone; f_equal; tdone.
Qed.
