(* C12 model (definitions only): the inner acknowledgement loop of mempool/src/quorum_waiter.rs; the threshold
   test is regenerated from the source ([g_qw_threshold]). *)
From Coq Require Import List NArith Bool.
From HS Require Import Guards.
Import ListNotations.
Open Scope N_scope.

Section QWD.
  Variable stake : N -> N.
  Variable quorum : N.
  (* the inner `while let Some(stake) = wait_for_quorum.next().await` loop over acks in arrival order *)
  Fixpoint qw_go (total : N) (acks : list N) (i : nat) : option nat :=
    match acks with
    | [] => None
    | a :: r => let t := total + stake a in if g_qw_threshold t quorum then Some i else qw_go t r (S i)
    end.
  Definition qw (own : N) (acks : list N) : option nat := qw_go own acks 0.
  Fixpoint wsum (l : list N) : N := match l with [] => 0 | x :: r => stake x + wsum r end.
End QWD.
