(* The global model: honest nodes run Node.step under an adversarial network; refinement to Proto
   and agreement of the commit logs. *)
From Coq Require Import List NArith Lia Bool ZifyN ZifyBool.
From HS Require Import GTac Node Proto Link NodeInv.
Import ListNotations.
Open Scope N_scope.

Section Global.
  Variable c : Committee.
  Variable honest : N -> bool.
  Hypothesis members_nodup : NoDup (members c).
  Notation stk := (stk c).
  Notation mem := (members c).
  Hypothesis byz_bound : 3 * byz_stake stk mem honest < total stk mem.

  Definition gstate := N -> State.
  Definition gw (g : gstate) : world := fun a => s_hist (g a).
  Definition gupd (g : gstate) (a : N) (s : State) : gstate := fun x => if x =? a then s else g x.

  (* ---------- monotonicity of the node invariant in the surrounding world ---------- *)
  Lemma cw_wle2 me w0 w0' s :
    (forall x, x <> me -> forall e, In e (w0 x) -> In e (w0' x)) -> wle (cw me w0 s) (cw me w0' s).
  Proof.
    intros Hw x e He. unfold cw, upd in *. destruct (N.eqb_spec x me); auto.
  Qed.

  Lemma Inv_mono me w0 w0' s :
    (forall x, x <> me -> forall e, In e (w0 x) -> In e (w0' x)) ->
    Inv c me honest w0 s -> Inv c me honest w0' s.
  Proof.
    intros Hw H. assert (Hle := cw_wle2 me w0 w0' s Hw). destruct H.
    assert (Gq : forall q, qc_good c me honest w0 s q -> qc_good c me honest w0' s q).
    { intros q [G|G]; [left; exact G|right]. unfold Cert in *. eapply certified_mono; eauto. }
    assert (Gt : forall t, tc_good c me honest w0 s t -> tc_good c me honest w0' s t).
    { intros [tc|]; simpl; auto. intros [G1 G2]. split; auto. unfold VTC in *. eapply validtc_mono; eauto. }
    constructor; auto.
    - intros b Hb. destruct (i_flight b Hb) as [A [B C]]. split; [apply Gq; exact A|]. split; [apply Gt; exact B|exact C].
    - intros r h m Hin. destruct (i_qcm r h m Hin) as [A [B [C D]]].
      split; auto. split; auto. split; auto.
      intros a sg Ha. destruct (C a sg Ha) as [C1 C2]. split; [exact C1|]. intros Hh.
      destruct (C2 Hh) as [[q [j Hv]] Hr]. split; [|exact Hr]. exists q, j. apply Hle. exact Hv.
    - intros r m Hin. destruct (i_tcm r m Hin) as [A [B [C D]]].
      split; auto. split; auto. split; auto.
      intros a sg hq Ha. destruct (C a sg hq Ha) as [C1 C2]. split; [exact C1|]. intros Hh. apply Hle. auto.
    - eapply hist_ok_mono; eauto.
    - intros d Hd. eapply committed_mono; eauto.
  Qed.

  (* ---------- admissible events: honest signatures exist in the world ---------- *)
  Definition msg_adm (w : world) (e : Event) : Prop :=
    match e with
    | EvPropose b => qc_adm honest w (b_qc b) /\ (forall tc, b_tc b = Some tc -> tc_adm honest w tc)
    | EvVote v => sig_adm honest w (v_sig v)
    | EvTimeout t => sig_adm honest w (t_sig t) /\ qc_adm honest w (t_high_qc t)
    | EvTC tc => tc_adm honest w tc
    | _ => True
    end.

  Lemma sig_adm_mono w w' sg : wle w w' -> sig_adm honest w sg -> sig_adm honest w' sg.
  Proof.
    intros Hle H. destruct sg as [x [d|h r|r hq]|k]; simpl in *; auto.
    intros Hh. destruct (H Hh) as [[q [j Hv]] Hr]. split; auto. exists q, j. apply Hle. exact Hv.
  Qed.

  Definition GInv (g : gstate) : Prop :=
    forall a, honest a = true -> Inv c a honest (gw g) (g a).

  Lemma gw_cw_le g a : wle (gw g) (cw a (gw g) (g a)).
  Proof. intros x e He. unfold cw, upd, gw in *. destruct (N.eqb_spec x a); subst; auto. Qed.
  Lemma cw_gw_le g a : wle (cw a (gw g) (g a)) (gw g).
  Proof. intros x e He. unfold cw, upd, gw in *. destruct (N.eqb_spec x a); subst; auto. Qed.

  Lemma msg_adm_ev_adm g a e :
    msg_adm (gw g) e -> ev_adm c a honest (gw g) (g a) e.
  Proof.
    assert (Hle := gw_cw_le g a).
    destruct e as [b|v|t|tc|b| |d|d| ]; simpl; auto.
    - intros [Hq Ht]. split.
      + intros Hv. right. eapply (qc_verify_certified c honest members_nodup); eauto.
        intros x Hx. eapply sig_adm_mono; eauto.
      + intros tc Etc Hv. destruct (tc_verify_validtc c honest members_nodup (cw a (gw g) (g a)) tc Hv) as [A B].
        * intros x Hx. eapply sig_adm_mono; eauto. apply (Ht tc Etc). exact Hx.
        * split; auto.
    - intros H. eapply sig_adm_mono; eauto.
    - intros [Hs Hq]. split; [eapply sig_adm_mono; eauto|].
      intros Hv. right. eapply (qc_verify_certified c honest members_nodup); eauto.
      intros x Hx. eapply sig_adm_mono; eauto.
    - intros Ht Hv. destruct (tc_verify_validtc c honest members_nodup (cw a (gw g) (g a)) tc Hv) as [A B].
      + intros x Hx. eapply sig_adm_mono; eauto.
      + split; auto.
  Qed.

  (* ---------- the transition system ---------- *)
  Inductive gstep : gstate -> gstate -> Prop :=
  | GStep g a hint e :
      honest a = true -> msg_adm (gw g) e ->
      gstep g (gupd g a (fst (fst (step c a src_dq hint e (g a))))).

  Inductive greach : gstate -> Prop :=
  | greach_init : greach (fun _ => init c)
  | greach_step g g' : greach g -> gstep g g' -> greach g'.

  Lemma Inv_init a w0 : Inv c a honest w0 (init c).
  Proof.
    constructor; simpl; try (intros; contradiction); try lia.
    - left. auto.
    - intros b [[]|[[]|[[]|[]]]].
    - constructor.
  Qed.

  Lemma gstep_inv g g' : GInv g -> gstep g g' -> GInv g'.
  Proof.
    intros HG Hs. inversion Hs as [g0 a hint e Ha Hadm]; subst.
    pose proof (step_inv c a honest members_nodup Ha (gw g) byz_bound hint e (g a) (HG a Ha)
                  (msg_adm_ev_adm g a e Hadm)) as S.
    destruct (step c a src_dq hint e (g a)) as [[s' o] r]. simpl. destruct S as [I' [[pre Hp] _]].
    intros b Hb. unfold gupd at 2. destruct (N.eqb_spec b a) as [->|Hne].
    - eapply Inv_mono; [|exact I']. intros x Hx e0 He. unfold gw, gupd.
      destruct (N.eqb_spec x a); [contradiction|exact He].
    - eapply Inv_mono; [|exact (HG b Hb)]. intros x Hx e0 He. unfold gw, gupd in *.
      destruct (N.eqb_spec x a) as [->|]; [|exact He]. rewrite Hp. apply in_or_app. right. exact He.
  Qed.

  Theorem greach_inv g : greach g -> GInv g.
  Proof.
    induction 1 as [|g g' Hr IH Hs].
    - intros a Ha. apply Inv_init.
    - eapply gstep_inv; eauto.
  Qed.

  (* ---------- refinement to the abstract protocol and agreement ---------- *)
  Lemma GInv_winv g : GInv g -> winv stk mem honest (gw g).
  Proof.
    intros HG a Ha. eapply hist_ok_mono; [apply cw_gw_le|]. apply (i_hist _ _ _ _ _ (HG a Ha)).
  Qed.

  Theorem agreement_impl g a b d1 d2 :
    greach g -> honest a = true -> honest b = true ->
    In d1 (s_log (g a)) -> In d2 (s_log (g b)) ->
    ext d1 d2 \/ ext d2 d1.
  Proof.
    intros Hr Ha Hb H1 H2. assert (HG := greach_inv g Hr).
    apply (agreement_inv stk mem honest byz_bound (gw g)).
    - apply GInv_winv. exact HG.
    - eapply committed_mono; [apply cw_gw_le|]. apply (i_log _ _ _ _ _ (HG a Ha)). exact H1.
    - eapply committed_mono; [apply cw_gw_le|]. apply (i_log _ _ _ _ _ (HG b Hb)). exact H2.
  Qed.
End Global.

Check agreement_impl.
Print Assumptions agreement_impl.
