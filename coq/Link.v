(* Linking the executable verifiers of Node.v to the abstract predicates of Proto.v. *)
From Coq Require Import List NArith Lia Bool ZifyN ZifyBool.
From HS Require Import GTac Node Proto.
Import ListNotations.
Open Scope N_scope.

Lemma digest_eqb_eq d1 : forall d2, digest_eqb d1 d2 = true -> d1 = d2.
Proof.
  induction d1 as [|a r pl p IH|k]; intros [|a' r' pl' p'|k']; simpl; try discriminate; auto.
  - intros H. repeat (apply andb_true_iff in H; destruct H as [H ?]).
    apply N.eqb_eq in H. apply N.eqb_eq in H2. apply IH in H0. subst. f_equal.
    clear - H1. revert pl' H1. induction pl as [|x xs IHx]; intros [|y ys]; simpl; try discriminate; auto.
    intros H. apply andb_true_iff in H. destruct H as [H1 H2]. apply N.eqb_eq in H1. subst.
    f_equal. auto.
  - intros H. apply N.eqb_eq in H. subst. reflexivity.
Qed.

Lemma digest_eqb_refl d : digest_eqb d d = true.
Proof.
  induction d as [|a r pl p IH|k]; simpl; auto.
  - rewrite !N.eqb_refl, IH. simpl. rewrite andb_true_r.
    induction pl as [|x xs IHx]; simpl; auto. rewrite N.eqb_refl. exact IHx.
  - apply N.eqb_refl.
Qed.

Lemma sig_ok_inv a ct s :
  sig_ok a ct s = true -> exists ct', s = SigOf a ct' /\ content_eqb ct ct' = true.
Proof.
  destruct s as [x ct'|k]; simpl; [|discriminate].
  intros H. apply andb_true_iff in H. destruct H as [H1 H2]. apply N.eqb_eq in H1. subst.
  exists ct'. auto.
Qed.

Lemma memN_in a l : memN a l = true <-> In a l.
Proof.
  unfold memN. rewrite existsb_exists. split.
  - intros [x [Hx E]]. apply N.eqb_eq in E. subst. exact Hx.
  - intros H. exists a. split; auto. apply N.eqb_refl.
Qed.

(* ---------- the verifiers never panic ---------- *)
Lemma scan_signers_nopanic okst c names : forall used w k, scan_signers okst c names used w <> RPanic k.
Proof.
  induction names as [|a l IH]; simpl; intros used w k; [discriminate|].
  destruct (memN a used); [discriminate|]. destruct (negb _); [discriminate|]. apply IH.
Qed.
Lemma qc_verify_nopanic c q k : qc_verify c q <> RPanic k.
Proof.
  unfold qc_verify. destruct (scan_signers _ c _ _ _) eqn:E; try discriminate.
  - destruct (negb _); [discriminate|]. destruct (forallb _ _); discriminate.
  - exfalso. eapply scan_signers_nopanic; eauto.
Qed.
Lemma tc_verify_nopanic c t k : tc_verify c t <> RPanic k.
Proof.
  unfold tc_verify. destruct (scan_signers _ c _ _ _) eqn:E; try discriminate.
  - destruct (negb _); [discriminate|]. destruct (forallb _ _); discriminate.
  - exfalso. eapply scan_signers_nopanic; eauto.
Qed.
Lemma vote_verify_nopanic c v k : vote_verify c v <> RPanic k.
Proof. unfold vote_verify. destruct (negb _); [discriminate|]. destruct (sig_ok _ _ _); discriminate. Qed.
Lemma timeout_verify_nopanic c t k : timeout_verify c t <> RPanic k.
Proof.
  unfold timeout_verify. destruct (negb (g_timeout_stake _)); [discriminate|]. destruct (negb _); [discriminate|].
  destruct (qc_eqb _ _); [discriminate|]. apply qc_verify_nopanic.
Qed.
Lemma block_verify_nopanic c b k : block_verify c b <> RPanic k.
Proof.
  unfold block_verify. destruct (negb (g_block_stake _)); [discriminate|]. destruct (negb _); [discriminate|].
  destruct (qc_eqb _ _).
  - destruct (b_tc b); [apply tc_verify_nopanic|discriminate].
  - destruct (qc_verify c (b_qc b)) eqn:E; try discriminate.
    + destruct (b_tc b); [apply tc_verify_nopanic|discriminate].
    + exfalso. eapply qc_verify_nopanic; eauto.
Qed.

Section Link.
  Variable c : Committee.
  Variable honest : N -> bool.
  Definition members : list N := map fst (stakes c).
  Hypothesis members_nodup : NoDup members.
  Definition stk : N -> N := Node.stake c.

  Lemma alookup_in {V} k (v : V) l : alookup k l = Some v -> In (k, v) l.
  Proof.
    induction l as [|[k' v'] l IH]; simpl; [discriminate|].
    destruct (N.eqb_spec k k'); intros H.
    - inversion H; subst. left. reflexivity.
    - right. auto.
  Qed.

  Lemma stake_pos_member a : stk a <> 0 -> In a members.
  Proof.
    unfold stk, Node.stake, members. destruct (alookup a (stakes c)) eqn:E; [|congruence].
    intros _. apply alookup_in in E. apply in_map_iff. exists (a, n). auto.
  Qed.

  Lemma total_agree_aux l :
    NoDup (map fst l) ->
    fold_right (fun x acc => snd x + acc) 0 l =
    wsum (fun a => match alookup a l with Some s => s | None => 0 end) (map fst l).
  Proof.
    induction l as [|[k v] l IH]; simpl; intros Hnd; [reflexivity|].
    inversion Hnd; subst. rewrite N.eqb_refl. f_equal.
    rewrite IH by assumption.
    clear IH. revert H1. generalize (map fst l) as ks. intros ks Hk.
    induction ks as [|x xs IHx]; simpl; [reflexivity|].
    destruct (N.eqb_spec x k) as [->|Hne].
    - exfalso. apply Hk. left. reflexivity.
    - f_equal. apply IHx. intro Hin. apply Hk. right. exact Hin.
  Qed.

  Lemma total_agree : total_stake c = total stk members.
  Proof. unfold total_stake, total, stk, Node.stake, members. apply total_agree_aux. exact members_nodup. Qed.

  Lemma quorum_agree : Node.quorum c = Proto.quorum stk members.
  Proof. unfold Node.quorum, Proto.quorum. gunf. rewrite total_agree. reflexivity. Qed.

  Lemma quorum_pos : 0 < Node.quorum c.
  Proof. unfold Node.quorum. gunf. lia. Qed.

  (* [okst] is the regenerated voting-rights test; all the proof needs is that it rejects zero stake *)
  Lemma scan_signers_ok okst names : (forall s, okst s = true -> s <> 0) -> forall used w w',
    scan_signers okst c names used w = ROk w' ->
    NoDup names /\ (forall a, In a names -> ~ In a used /\ stk a <> 0) /\ w' = w + wsum stk names.
  Proof.
    intros Hok.
    induction names as [|a rest IH]; simpl; intros used w w' H.
    - inversion H; subst. split; [constructor|]. split; [intros ? []|]. lia.
    - destruct (memN a used) eqn:Em; [discriminate|].
      destruct (okst (Node.stake c a)) eqn:Es0; [|discriminate]. simpl in H.
      assert (Es : (Node.stake c a =? 0) = false) by (apply N.eqb_neq; apply Hok; exact Es0).
      apply IH in H. destruct H as [Hnd [Hall Hw]].
      assert (Hau : ~ In a used).
      { intro Hin. apply memN_in in Hin. congruence. }
      split; [|split].
      + constructor; auto. intro Hin. destruct (Hall a Hin) as [Hn _]. apply Hn. left. reflexivity.
      + intros x [<-|Hx].
        * split; [exact Hau|unfold stk; apply N.eqb_neq; exact Es].
        * destruct (Hall x Hx) as [Hn Hs]. split; auto. intro Hin. apply Hn. right. exact Hin.
      + unfold stk in *. lia.
  Qed.

  (* --- unforgeability, phrased on the world of recorded honest events --- *)
  Variable w : world.
  Definition sig_adm (s : sig) : Prop :=
    match s with
    | SigOf x (CVote h r) => honest x = true -> voted w x h /\ dround h = r
    | SigOf x (CTimeout r hq) => honest x = true -> In (HTimeout r hq) (w x)
    | _ => True
    end.
  Definition qc_adm (q : QC) : Prop := forall v, In v (qc_votes q) -> sig_adm (snd v).
  Definition tc_adm (tc : TC) : Prop := forall v, In v (tc_votes tc) -> sig_adm (snd (fst v)).

  Theorem qc_verify_certified q :
    qc_verify c q = ROk tt -> qc_adm q ->
    certified stk members honest w (qc_hash q) (qc_round q).
  Proof.
    unfold qc_verify. intros H Hadm.
    destruct (scan_signers _ c (map fst (qc_votes q)) [] 0) as [wt|e|k] eqn:Es; try discriminate.
    destruct (g_qc_weight wt (Node.quorum c)) eqn:Eq; [|discriminate]. simpl in H.
    destruct (forallb _ (qc_votes q)) eqn:Ef; [|discriminate].
    apply scan_signers_ok in Es; [|gunf; intros s0 Hs0; lia]. destruct Es as [Hnd [Hall Hw]].
    exists (map fst (qc_votes q)). split; [exact Hnd|]. split; [|split].
    - intros a Ha. apply stake_pos_member. apply (Hall a Ha).
    - rewrite <- quorum_agree. gunf. apply N.leb_le in Eq. lia.
    - intros s Hs Hh. apply in_map_iff in Hs. destruct Hs as [[s' sg] [Hfst Hin]]. simpl in Hfst. subst s'.
      rewrite forallb_forall in Ef. specialize (Ef _ Hin). simpl in Ef.
      apply sig_ok_inv in Ef. destruct Ef as [ct' [-> Hct]].
      specialize (Hadm _ Hin). simpl in Hadm.
      destruct ct' as [d|h r|r hq]; simpl in Hct; try discriminate.
      apply andb_true_iff in Hct. destruct Hct as [Hd Hr]. apply digest_eqb_eq in Hd. apply N.eqb_eq in Hr.
      subst. apply Hadm; auto.
  Qed.

  Lemma map_fst_entries tc : map fst (tc_entries tc) = map (fun x => fst (fst x)) (tc_votes tc).
  Proof. unfold tc_entries. rewrite map_map. reflexivity. Qed.

  Theorem tc_verify_validtc tc :
    tc_verify c tc = ROk tt -> tc_adm tc ->
    validtc stk members honest w (tc_round tc) (tc_entries tc) /\ tc_votes tc <> [].
  Proof.
    unfold tc_verify. intros H Hadm.
    destruct (scan_signers _ c (map (fun x => fst (fst x)) (tc_votes tc)) [] 0) as [wt|e|k] eqn:Es; try discriminate.
    destruct (g_tc_weight wt (Node.quorum c)) eqn:Eq; [|discriminate]. simpl in H.
    destruct (forallb _ (tc_votes tc)) eqn:Ef; [|discriminate].
    apply scan_signers_ok in Es; [|gunf; intros s0 Hs0; lia]. destruct Es as [Hnd [Hall Hw]].
    gunf. apply N.leb_le in Eq.
    split.
    - unfold validtc. rewrite map_fst_entries. split; [exact Hnd|]. split; [|split].
      + intros a Ha. apply stake_pos_member. apply (Hall a Ha).
      + rewrite <- quorum_agree. lia.
      + intros s hq Hin Hh. unfold tc_entries in Hin. apply in_map_iff in Hin.
        destruct Hin as [[[s' sg] hq'] [Heq Hin]]. simpl in Heq. inversion Heq; subst s' hq'.
        rewrite forallb_forall in Ef. specialize (Ef _ Hin). simpl in Ef.
        apply sig_ok_inv in Ef. destruct Ef as [ct' [-> Hct]].
        specialize (Hadm _ Hin). simpl in Hadm.
        destruct ct' as [d|h r|r hq2]; simpl in Hct; try discriminate.
        apply andb_true_iff in Hct. destruct Hct as [Hr Hq]. apply N.eqb_eq in Hr. apply N.eqb_eq in Hq.
        subst. apply Hadm; auto.
    - intro Hnil. rewrite Hnil in Hw. simpl in Hw. generalize quorum_pos. lia.
  Qed.
End Link.
Print Assumptions tc_verify_validtc.
