(* Correspondence for the Aggregator (C19): the model's makers (Node.qm_append / tm_append, keyed as in
   aggregator.rs) run on the operation sequence the real Aggregator was given. *)
From Coq Require Import List NArith Bool.
From HS Require Import GTac Node CorrComp.
Import ListNotations.
Open Scope N_scope.

Inductive AggOp := AVote (v : Vote) | ATimeout (t : Timeout) | ACleanup (r : N).
Inductive AggRes := ANone | AQC (q : QC) | ATC (t : TC) | AErr.

Definition sig_eqb (s1 s2 : sig) : bool :=
  match s1, s2 with
  | SigOf a c1, SigOf b c2 => (a =? b) && content_eqb c1 c2
  | SigJunk a, SigJunk b => a =? b
  | _, _ => false
  end.
Definition res_eqb (a b : AggRes) : bool :=
  match a, b with
  | ANone, ANone | AErr, AErr => true
  | AQC q1, AQC q2 => digest_eqb (qc_hash q1) (qc_hash q2) && (qc_round q1 =? qc_round q2) &&
                      forallb2 (fun x y => (fst x =? fst y) && sig_eqb (snd x) (snd y)) (qc_votes q1) (qc_votes q2)
  | ATC t1, ATC t2 => (tc_round t1 =? tc_round t2) &&
                      forallb2 (fun x y => (fst (fst x) =? fst (fst y)) && sig_eqb (snd (fst x)) (snd (fst y)) && (snd x =? snd y)) (tc_votes t1) (tc_votes t2)
  | _, _ => false
  end.

Definition agg_state := (list ((N * digest) * QCMaker) * list (N * TCMaker))%type.
Definition agg_step (c : Committee) (st : agg_state) (op : AggOp) : agg_state * AggRes :=
  let '(qcm, tcm) := st in
  match op with
  | AVote v =>
      let k := (v_round v, v_hash v) in
      let '(m', r) := qm_append c (qcm_get k qcm) v in
      ((qcm_put k m' qcm, tcm), match r with ROk (Some q) => AQC q | ROk None => ANone | _ => AErr end)
  | ATimeout t =>
      let '(m', r) := tm_append c (tcm_get (t_round t) tcm) t in
      ((qcm, tcm_put (t_round t) m' tcm), match r with ROk (Some x) => ATC x | ROk None => ANone | _ => AErr end)
  | ACleanup r => ((filter (fun e => g_agg_keep_votes (fst (fst e)) r) qcm, filter (fun e => g_agg_keep_timeouts (fst e) r) tcm), ANone)
  end.
Fixpoint agg_run (c : Committee) (st : agg_state) (ops : list AggOp) : list AggRes :=
  match ops with [] => [] | op :: r => let '(st', x) := agg_step c st op in x :: agg_run c st' r end.

(* monitors on the implementation's own certificates: distinct authors holding a quorum; one certificate per
   (round, hash) resp. round between two cleanups is checked through the model comparison *)
Fixpoint nodupb (l : list N) : bool := match l with [] => true | x :: r => negb (memN x r) && nodupb r end.
Definition cert_ok (c : Committee) (r : AggRes) : bool :=
  match r with
  | AQC q => nodupb (map fst (qc_votes q)) && (quorum c <=? fold_right (fun a acc => stake c a + acc) 0 (map fst (qc_votes q)))
  | ATC t => nodupb (map (fun x => fst (fst x)) (tc_votes t)) && (quorum c <=? fold_right (fun a acc => stake c a + acc) 0 (map (fun x => fst (fst x)) (tc_votes t)))
  | _ => true
  end.
(* a certificate is produced exactly by the operation that first brings the distinct stake to the quorum: the
   votes it carries minus the last one are below the quorum *)
Definition cert_minimal (c : Committee) (r : AggRes) : bool :=
  match r with
  | AQC q => fold_right (fun a acc => stake c a + acc) 0 (map fst (removelast (qc_votes q))) <? quorum c
  | ATC t => fold_right (fun a acc => stake c a + acc) 0 (map (fun x => fst (fst x)) (removelast (tc_votes t))) <? quorum c
  | _ => true
  end.
Definition agg_case (c : Committee) (ops : list AggOp) (obs : list AggRes) : list N :=
  verdict_of [ b2n (forallb2 res_eqb (agg_run c ([], []) ops) obs);
               b2n (forallb (cert_ok c) obs); b2n (forallb (cert_minimal c) obs) ].
