(* Tie lemma for `MempoolDriver::verify`: the statement skeleton REGENERATED from the Rust source (GenCore.v, tools/skel.py) computes, for
   every argument and every state, exactly what the hand-written model function does (same state, same outputs, same result). *)
From Coq Require Import List NArith Bool Lia ZArith.
From Coq Require Import ZifyN ZifyBool.
From HS Require Import TieTac GenCore.
Import ListNotations.
Open Scope N_scope.

(* a loop whose body only reads the state and appends the element when a test of (state, element) holds, is a filter *)
Lemma mfor_filter {X} (p : State -> X -> bool) (f : X -> list X -> M (list X)) :
  (forall x acc s, f x acc s = (s, [], ROk (if p s x then acc ++ [x] else acc))) ->
  forall l acc s, mfor l f acc s = (s, [], ROk (acc ++ filter (p s) l)).
Proof.
  intros Hf l; induction l as [|x l IH]; intros acc s; cbn [mfor filter].
  - unfold ret. rewrite app_nil_r. reflexivity.
  - unfold bind. rewrite Hf. rewrite IH. destruct (p s x); cbn [app]; rewrite <- ?app_assoc; reflexivity.
Qed.

Lemma tie_mempool_verify c me dq hint b s : gen_mempool_verify c me dq hint b s = mempool_verify b s.
Proof.
  unfold gen_mempool_verify, mempool_verify.
  unfold bind at 1.
  rewrite (mfor_filter (fun s x => negb (memN x (s_batches s)))).
  2:{ intros x acc s0. unfold batch_read. munf. cbn. destruct (memN x (s_batches s0)); reflexivity. }
  cbn [app]. unfold pw_wait. munf. cbn [app].
  destruct (filter _ (b_payload b)) as [|m ms]; [reflexivity|].
  cbn [app]. destruct (existsb _ (s_pw_pending s)); reflexivity.
Qed.
