(* Monitor soundness, part 8: the proposal part of mon_c09 and the whole of mon_c09.  A step asks the proposer for at
   most one block, together with broadcasting it, and -- except for the boot event -- only after the round moved
   within that step: the round of the request is above the round before the step and at most the round after it.
   Hence, when the core boots at most once and first ([boot_once]), request rounds and own-proposal rounds strictly
   increase along every run, whatever the messages. *)
From Coq Require Import List NArith Lia Bool.
From HS Require Import GTac Node Corr Monitors Proto Link Exact MonSoundDefs MonSound2 MonSound4 MonSound5 MonSound6.
Import ListNotations.
Open Scope N_scope.

Definition nomk (o : Out) : bool := match o with OProposer (PMake _ _ _) | OPropose _ => false | _ => true end.
Notation mq := (kle s_round nomk).
Lemma nomk_makes o : forallb nomk o = true -> makes_of o = [] /\ proposes_of o = [].
Proof.
  induction o as [|x r IH]; simpl; [auto|]. intros H. apply andb_true_iff in H. destruct H as [H1 H2].
  destruct (IH H2) as [A B]. destruct x; simpl in *; try discriminate; auto. destruct m; simpl in *; try discriminate; auto.
Qed.

Section Makes.
  Variable c : Committee. Variable me : N. Variable dq : DqCfg.

  Lemma mq_advance_round r : mq (advance_round r).
  Proof.
    intros s. unfold advance_round, bind, get, modify, ret. cbn [fst snd]. gunf.
    destruct (r <? s_round s) eqn:E; cbn; [split; [lia|reflexivity]|].
    apply N.ltb_ge in E. split; [lia|reflexivity].
  Qed.
  Hint Resolve mq_advance_round : kle.
  Lemma mq_update_high_qc q : mq (update_high_qc q).
  Proof. unfold update_high_qc. kle_go. Qed.
  Hint Resolve mq_update_high_qc : kle.
  Lemma mq_process_qc q : mq (process_qc q).
  Proof. unfold process_qc. kle_go. Qed.
  Hint Resolve mq_process_qc : kle.
  Lemma mq_proposer_cleanup ds : mq (proposer_cleanup ds).
  Proof. unfold proposer_cleanup. kle_go. Qed.
  Hint Resolve mq_proposer_cleanup : kle.
  Lemma mq_sync_park b : mq (sync_park b).
  Proof. unfold sync_park. kle_go. Qed.
  Hint Resolve mq_sync_park : kle.
  Lemma mq_get_parent_block b : mq (get_parent_block b).
  Proof. unfold get_parent_block. kle_go. Qed.
  Hint Resolve mq_get_parent_block : kle.
  Lemma mq_store_block b : mq (store_block b).
  Proof. unfold store_block. apply kle_modify. intros s. cbn. lia. Qed.
  Hint Resolve mq_store_block : kle.
  Lemma mq_commit_walk lcr : forall fuel parent acc, mq (commit_walk dq fuel lcr parent acc).
  Proof. induction fuel as [|f IH]; intros parent acc; simpl; kle_go; apply IH. Qed.
  Hint Resolve mq_commit_walk : kle.
  Lemma mq_deliver_all l : mq (deliver_all l).
  Proof. induction l as [|b l IH]; simpl; kle_go. Qed.
  Hint Resolve mq_deliver_all : kle.
  Lemma mq_commit b : mq (commit dq b).
  Proof. unfold commit. kle_go. Qed.
  Hint Resolve mq_commit : kle.
  Lemma mq_make_vote b : mq (make_vote me b).
  Proof. unfold make_vote, increase_last_voted. kle_go. Qed.
  Hint Resolve mq_make_vote : kle.
  Lemma mq_pw_cleanup r : mq (pw_cleanup r).
  Proof. unfold pw_cleanup. kle_go. Qed.
  Hint Resolve mq_pw_cleanup : kle.
  Lemma mq_mempool_verify b : mq (mempool_verify b).
  Proof. unfold mempool_verify. kle_go. Qed.
  Hint Resolve mq_mempool_verify : kle.
  Lemma mq_batch_stored d : mq (batch_stored d).
  Proof. unfold batch_stored. kle_go. Qed.

  (* [lo] = a round the request must exceed *)
  Definition one_make (lo : N) (s' : State) (o : list Out) : Prop :=
    (makes_of o = [] /\ proposes_of o = []) \/
    exists r q t b, makes_of o = [(r, q, t)] /\ proposes_of o = [b] /\ b_round b = r /\ lo < r /\ r <= s_round s'.
  Definition mspec {A} (m : M A) : Prop :=
    forall s, match m s with (s', o, _) => s_round s <= s_round s' /\ one_make (s_round s) s' o end.

  Lemma mspec_of_mq {A} (m : M A) : mq m -> mspec m.
  Proof.
    intros Q s. specialize (Q s). destruct (m s) as [[s' o] r]. destruct Q as [E F].
    split; [exact E|left; apply nomk_makes; exact F].
  Qed.
  Lemma mspec_bind_mq {A B} (m : M A) (k : A -> M B) : mq m -> (forall a, mspec (k a)) -> mspec (bind m k).
  Proof.
    intros Q Hk s. unfold bind. specialize (Q s). destruct (m s) as [[s1 o1] r1]. destruct Q as [E F].
    destruct (nomk_makes _ F) as [T1 T2].
    destruct r1 as [a|e|n]; [|split; [exact E|left; split; assumption]..].
    specialize (Hk a s1). destruct (k a s1) as [[s2 o2] r2]. destruct Hk as [E2 C].
    unfold one_make in *. rewrite makes_of_app, proposes_of_app, T1, T2. cbn [app]. split; [lia|].
    destruct C as [C|[r [q [t [b [C1 [C2 [C3 [C4 C5]]]]]]]]]; [left; exact C|right].
    exists r, q, t, b. repeat split; auto. lia.
  Qed.

  (* the one place a proposal is requested: at the node's current round, which it leaves unchanged *)
  Lemma generate_proposal_make hint tc s :
    match generate_proposal me hint tc s with
    | (s', o, _) => s_round s' = s_round s /\
                    exists q b, makes_of o = [(s_round s, q, tc)] /\ proposes_of o = [b] /\ b_round b = s_round s
    end.
  Proof.
    unfold generate_proposal, bind, get, emit, modify, ret. cbn [fst snd].
    destruct (same_set hint (s_buffer s)); cbn; (split; [reflexivity|]); eexists _, _; repeat split; reflexivity.
  Qed.
  (* ... called, outside boot, right after the round was pushed above [lo] *)
  Lemma maybe_propose_make hint tc lo s :
    lo < s_round s ->
    match (s <- get ;; if me =? leader c (s_round s) then generate_proposal me hint tc else ret tt) s with
    | (s', o, _) => s_round s' = s_round s /\ one_make lo s' o
    end.
  Proof.
    intros Hlo. unfold bind at 1. unfold get at 1. destruct (me =? leader c (s_round s)).
    - pose proof (generate_proposal_make hint tc s) as P.
      destruct (generate_proposal me hint tc s) as [[s1 o1] r1]. cbn [app].
      destruct P as [R [q [b [P1 [P2 P3]]]]]. split; [exact R|]. right.
      exists (s_round s), q, tc, b. repeat split; auto; lia.
    - cbn. split; [reflexivity|left; split; reflexivity].
  Qed.

  Lemma qm_append_round m v m' qc : qm_append c m v = (m', ROk (Some qc)) -> qc_round qc = v_round v.
  Proof.
    unfold qm_append. destruct (memN _ _); [discriminate|]. destruct (g_qcm_threshold _ _); [|discriminate].
    intros E. inversion E; subst. reflexivity.
  Qed.
  Lemma process_qc_round q s :
    match process_qc q s with
    | (s', o, _) => s_round s <= s_round s' /\ qc_round q < s_round s' /\ makes_of o = [] /\ proposes_of o = []
    end.
  Proof.
    pose proof (mq_process_qc q s) as Q.
    unfold process_qc, advance_round, update_high_qc, bind, get, modify, ret in *. cbn [fst snd] in *. gunf.
    destruct (qc_round q <? s_round s) eqn:E1; cbn in *.
    - apply N.ltb_lt in E1. destruct (_ <? _); cbn; repeat split; auto; lia.
    - apply N.ltb_ge in E1. destruct (_ <? _); cbn; repeat split; auto; lia.
  Qed.

  Lemma one_make_pre lo s' o1 o :
    makes_of o1 = [] -> proposes_of o1 = [] -> one_make lo s' o -> one_make lo s' (o1 ++ o).
  Proof. intros A B. unfold one_make. rewrite makes_of_app, proposes_of_app, A, B. auto. Qed.
  Lemma one_make_none lo s' : one_make lo s' [].
  Proof. left. split; reflexivity. Qed.

  Lemma mspec_handle_vote hint v : mspec (handle_vote c me hint v).
  Proof.
    intros s. unfold handle_vote. unfold bind at 1. unfold get at 1. unfold g_vote_stale.
    destruct (v_round v <? s_round s) eqn:Est; [cbn; split; [lia|apply one_make_none]|].
    apply N.ltb_ge in Est.
    unfold bind at 1. unfold lift at 1.
    destruct (vote_verify c v) as [[]|e|k]; [|cbn; split; [lia|apply one_make_none]..].
    cbv zeta. destruct (qm_append c (qcm_get (v_round v, v_hash v) (s_qcm s)) v) as [m' r] eqn:Ea.
    unfold bind at 1. unfold modify at 1. unfold bind at 1. unfold lift at 1.
    destruct r as [[qc|]|e|k]; cbn [app].
    2,3,4: (unfold ret; cbn; split; [lia|apply one_make_none]).
    pose proof (qm_append_round _ _ _ _ Ea) as Eq.
    set (s2 := set_qcm s (qcm_put (v_round v, v_hash v) m' (s_qcm s))).
    assert (R2 : s_round s2 = s_round s) by reflexivity.
    unfold bind at 1. pose proof (process_qc_round qc s2) as P.
    destruct (process_qc qc s2) as [[s3 o3] r3]. destruct P as [R3 [U3 [F3 F3']]].
    destruct r3 as [[]|e|k]; [|split; [lia|left; split; assumption]..].
    assert (Hlo : s_round s < s_round s3) by lia.
    pose proof (maybe_propose_make hint None (s_round s) s3 Hlo) as G.
    destruct ((s0 <- get;; (if me =? leader c (s_round s0) then generate_proposal me hint None else ret tt)) s3)
      as [[s4 o4] r4]. destruct G as [R4 G].
    split; [lia|]. apply one_make_pre; assumption.
  Qed.

  Lemma mspec_handle_timeout hint t : mspec (handle_timeout c me hint t).
  Proof.
    intros s. unfold handle_timeout. unfold bind at 1. unfold get at 1. unfold g_timeout_stale.
    destruct (t_round t <? s_round s) eqn:Est; [cbn; split; [lia|apply one_make_none]|].
    apply N.ltb_ge in Est.
    unfold bind at 1. unfold lift at 1.
    destruct (timeout_verify c t) as [[]|e|k]; [|cbn; split; [lia|apply one_make_none]..].
    unfold bind at 1. pose proof (process_qc_round (t_high_qc t) s) as P.
    destruct (process_qc (t_high_qc t) s) as [[s1 o1] r1]. destruct P as [R1 [_ [F1 F1']]].
    destruct r1 as [[]|e|k]; [|split; [lia|left; split; assumption]..].
    unfold bind at 1. unfold get at 1.
    destruct (tm_append c (tcm_get (t_round t) (s_tcm s1)) t) as [m' r] eqn:Ea.
    unfold bind at 1. unfold modify at 1. unfold bind at 1. unfold lift at 1.
    destruct r as [[tc|]|e|k]; cbn [app].
    2,3,4: (unfold ret; cbn [app]; rewrite ?app_nil_r; split; [exact R1|left; split; assumption]).
    pose proof (tm_append_round c _ _ _ _ Ea) as Etc.
    set (s2 := set_tcm s1 (tcm_put (t_round t) m' (s_tcm s1))).
    assert (R2 : s_round s2 = s_round s1) by reflexivity.
    unfold bind at 1.
    assert (A : match advance_round (tc_round tc) s2 with
                | (s3, o3, _) => s_round s2 <= s_round s3 /\ tc_round tc < s_round s3 /\ o3 = []
                end).
    { unfold advance_round, bind, get, modify, ret. cbn [fst snd]. gunf.
      destruct (tc_round tc <? s_round s2) eqn:E; subst s2; cbn in *.
      - apply N.ltb_lt in E. repeat split; auto; lia.
      - apply N.ltb_ge in E. repeat split; auto; lia. }
    destruct (advance_round (tc_round tc) s2) as [[s3 o3] r3]. destruct A as [R3 [U3 ->]].
    destruct r3 as [[]|e|k]; [|rewrite app_nil_r; split; [lia|left; split; assumption]..].
    unfold bind at 1. unfold emit at 1.
    assert (Hlo : s_round s < s_round s3) by lia.
    pose proof (maybe_propose_make hint (Some tc) (s_round s) s3 Hlo) as G.
    destruct ((s0 <- get;; (if me =? leader c (s_round s0) then generate_proposal me hint (Some tc) else ret tt)) s3)
      as [[s4 o4] r4]. destruct G as [R4 G].
    split; [lia|]. apply one_make_pre; [assumption..|]. cbn [app].
    apply (one_make_pre _ _ [OTC tc]); [reflexivity..|exact G].
  Qed.

  Lemma mspec_handle_tc hint tc : mspec (handle_tc c me hint tc).
  Proof.
    intros s. unfold handle_tc. unfold bind at 1. unfold lift at 1.
    destruct (tc_verify c tc) as [[]|e|k]; [|cbn; split; [lia|apply one_make_none]..].
    unfold bind at 1. unfold get at 1. unfold g_tc_stale.
    destruct (tc_round tc <? s_round s) eqn:Est; [cbn; split; [lia|apply one_make_none]|].
    apply N.ltb_ge in Est. unfold bind at 1.
    assert (A : match advance_round (tc_round tc) s with
                | (s3, o3, _) => s_round s <= s_round s3 /\ tc_round tc < s_round s3 /\ o3 = []
                end).
    { unfold advance_round, bind, get, modify, ret. cbn [fst snd]. gunf.
      destruct (tc_round tc <? s_round s) eqn:E; cbn in *.
      - apply N.ltb_lt in E. repeat split; auto; lia.
      - apply N.ltb_ge in E. repeat split; auto; lia. }
    destruct (advance_round (tc_round tc) s) as [[s3 o3] r3]. destruct A as [R3 [U3 ->]].
    destruct r3 as [[]|e|k]; [|cbn; split; [lia|apply one_make_none]..].
    assert (Hlo : s_round s < s_round s3) by lia.
    pose proof (maybe_propose_make hint (Some tc) (s_round s) s3 Hlo) as G.
    destruct ((s0 <- get;; (if me =? leader c (s_round s0) then generate_proposal me hint (Some tc) else ret tt)) s3)
      as [[s4 o4] r4]. destruct G as [R4 G]. cbn [app].
    split; [lia|exact G].
  Qed.

  Lemma mspec_process_block hint x : mspec (process_block c me dq hint x).
  Proof.
    unfold process_block.
    apply mspec_bind_mq; [auto with kle|]. intros [b1|]; [|apply mspec_of_mq, kle_ret].
    apply mspec_bind_mq; [auto with kle|]. intros [b0|]; [|apply mspec_of_mq, kle_panic].
    apply mspec_bind_mq; [auto with kle|]. intros _.
    apply mspec_bind_mq; [auto with kle|]. intros _.
    apply mspec_bind_mq; [kle_go|]. intros _.
    apply mspec_bind_mq; [apply kle_get|]. intros s.
    destruct (g_round_gate _ _ _ _ _ _); [apply mspec_of_mq, kle_ret|].
    apply mspec_bind_mq; [auto with kle|]. intros [v|]; [|apply mspec_of_mq, kle_ret].
    cbv zeta. destruct (_ =? me); [apply mspec_handle_vote|apply mspec_of_mq; kle_go].
  Qed.

  (* every event but boot *)
  Theorem step_makes hint e : e <> EvBoot -> mspec (step c me dq hint e).
  Proof.
    intros Hb. destruct e as [b|v|t|tc|b| |d|d| ]; cbn [step]; [..|congruence].
    - unfold handle_proposal.
      apply mspec_bind_mq; [kle_go|]. intros _. apply mspec_bind_mq; [kle_go|]. intros _.
      apply mspec_bind_mq; [auto with kle|]. intros _. apply mspec_bind_mq; [kle_go|]. intros _.
      apply mspec_bind_mq; [auto with kle|]. intros [|]; [apply mspec_process_block|apply mspec_of_mq, kle_ret].
    - apply mspec_handle_vote.
    - apply mspec_handle_timeout.
    - apply mspec_handle_tc.
    - apply mspec_bind_mq; [apply kle_get|]. intros s.
      destruct (remove_first b (s_loopback s)) as [[x l]|]; [|apply mspec_of_mq; kle_go].
      apply mspec_bind_mq; [kle_go|]. intros _. apply mspec_process_block.
    - unfold local_timeout, increase_last_voted.
      apply mspec_bind_mq; [apply kle_get|]. intros s.
      apply mspec_bind_mq; [kle_go|]. intros _. cbv zeta.
      apply mspec_bind_mq; [kle_go|]. intros _.
      apply mspec_bind_mq; [kle_go|]. intros _. apply mspec_handle_timeout.
    - apply mspec_of_mq, mq_batch_stored.
    - apply mspec_of_mq. kle_go.
  Qed.
  (* boot: the request is for the current round *)
  Lemma boot_makes hint s :
    match step c me dq hint EvBoot s with
    | (s', o, _) => s_round s' = s_round s /\
                    ((makes_of o = [] /\ proposes_of o = []) \/
                     exists q t b, makes_of o = [(s_round s, q, t)] /\ proposes_of o = [b] /\ b_round b = s_round s)
    end.
  Proof.
    cbn [step]. unfold bind at 1. unfold get at 1. destruct (me =? leader c (s_round s)).
    - pose proof (generate_proposal_make hint None s) as P.
      destruct (generate_proposal me hint None s) as [[s1 o1] r1]. cbn [app].
      destruct P as [R [q [b [P1 [P2 P3]]]]]. split; [exact R|]. right. exists q, None, b. auto.
    - cbn. split; [reflexivity|left; split; reflexivity].
  Qed.
End Makes.

Lemma strictly_inc_cons x l : (forall y, In y l -> x < y) -> strictly_inc l = true -> strictly_inc (x :: l) = true.
Proof.
  intros H S. destruct l as [|y r]; [reflexivity|].
  change (strictly_inc (x :: y :: r)) with ((x <? y) && strictly_inc (y :: r)). rewrite S, andb_true_r.
  apply N.ltb_lt. apply H. left. reflexivity.
Qed.

Section C09.
  Variable c : Committee. Variable me : N.
  Notation mrounds os := (map (fun x : N * QC * option TC => fst (fst x)) (makes_of os)).

  Definition no_boot (evs : list (list N * Event)) : bool :=
    forallb (fun x => match snd x with EvBoot => false | _ => true end) evs.

  Lemma makes_from evs : forall s,
    no_boot evs = true ->
    strictly_inc (mrounds (outs_of (obs_from c me evs s))) = true /\
    (forall r, In r (mrounds (outs_of (obs_from c me evs s))) -> s_round s < r) /\
    map b_round (proposes_of (outs_of (obs_from c me evs s))) = mrounds (outs_of (obs_from c me evs s)).
  Proof.
    induction evs as [|[h e] r IH]; intros s Hnb; cbn [obs_from].
    { cbn. repeat split; auto. intros x []. }
    cbn [no_boot forallb snd] in Hnb. apply andb_true_iff in Hnb. destruct Hnb as [Hb Hnb].
    assert (Hne : e <> EvBoot) by (intros ->; discriminate).
    pose proof (step_makes c me src_dq h e Hne s) as M.
    destruct (step c me src_dq h e s) as [[s1 o] res].
    destruct M as [R1 M]. destruct (IH s1 Hnb) as [S [LB PE]].
    unfold outs_of in *. cbn [flat_map ob_out].
    set (os := flat_map ob_out (obs_from c me r s1)) in *.
    rewrite makes_of_app, proposes_of_app, !map_app.
    destruct M as [[M1 M2]|[r0 [q [t [b [M1 [M2 [M3 [M4 M5]]]]]]]]]; rewrite M1, M2; cbn [map app fst].
    - split; [exact S|]. split; [|exact PE]. intros x Hx. specialize (LB x Hx). lia.
    - split; [|split].
      + apply strictly_inc_cons; [|exact S]. intros y Hy. specialize (LB y Hy). lia.
      + intros x [<-|Hx]; [exact M4|]. specialize (LB x Hx). lia.
      + rewrite M3, PE. reflexivity.
  Qed.

  Lemma proposes_from evs : forall s,
    WfInv c s ->
    forallb (fun b => (b_author b =? me) && (leader c (b_round b) =? me))
            (proposes_of (outs_of (obs_from c me evs s))) = true.
  Proof.
    induction evs as [|[h e] r IH]; intros s H; cbn [obs_from]; [reflexivity|].
    pose proof (step_wf c me src_dq h e s H) as W. unfold gat in W.
    destruct (step c me src_dq h e s) as [[s1 o] res]. destruct W as [H1 [_ F]].
    unfold outs_of in *. cbn [flat_map ob_out]. rewrite proposes_of_app, forallb_app, (IH s1 H1), andb_true_r.
    clear - F. induction F as [|x l Hx Hl IHl]; [reflexivity|]. destruct x; simpl in *; auto.
    destruct Hx as [A [B _]]. rewrite A, B, !N.eqb_refl. exact IHl.
  Qed.

  (* on every run of the node model in which the core boots at most once, as its first event, and loop-back selectors
     are exact; whatever the messages *)
  Theorem mon_c09_sound evs :
    boot_once evs = true -> along lb_exact c me evs (init c) ->
    mon_c09 c me evs (obs_of_run c me evs) = true.
  Proof.
    intros Hb HA. unfold mon_c09. rewrite (c09_votes_sound c me evs HA).
    unfold obs_of_run. rewrite (proposes_from evs (init c) (WfInv_init c)), andb_true_r. cbn [andb].
    destruct evs as [|[h e] r]; [reflexivity|]. unfold boot_once in Hb. cbn [tl] in Hb. fold (no_boot r) in Hb.
    cbn [obs_from].
    assert (F : match step c me src_dq h e (init c) with
                | (s1, o, _) => s_round (init c) <= s_round s1 /\
                    ((makes_of o = [] /\ proposes_of o = []) \/
                     exists r0 q t b, makes_of o = [(r0, q, t)] /\ proposes_of o = [b] /\ b_round b = r0 /\ r0 <= s_round s1)
                end).
    { destruct e.
      9:{ pose proof (boot_makes c me src_dq h (init c)) as B.
          destruct (step c me src_dq h EvBoot (init c)) as [[s1 o] res]. destruct B as [R B]. split; [lia|].
          destruct B as [B|[q0 [t0 [b0 [B1 [B2 B3]]]]]]; [left; exact B|right]. exists (s_round (init c)), q0, t0, b0.
          repeat split; auto. lia. }
      all: match goal with |- match step _ _ _ _ ?E _ with _ => _ end =>
             assert (Hne : E <> EvBoot) by discriminate;
             pose proof (step_makes c me src_dq h E Hne (init c)) as M;
             destruct (step c me src_dq h E (init c)) as [[s1 o] res]; destruct M as [R M]; split; [exact R|];
             destruct M as [M|[r0 [q0 [t0 [b0 [M1 [M2 [M3 [M4 M5]]]]]]]]]; [left; exact M|right];
             exists r0, q0, t0, b0; repeat split; auto end. }
    destruct (step c me src_dq h e (init c)) as [[s1 o] res]. destruct F as [_ F].
    destruct (makes_from r s1 Hb) as [S [LB PE]].
    unfold outs_of in *. cbn [flat_map ob_out].
    set (os := flat_map ob_out (obs_from c me r s1)) in *.
    rewrite makes_of_app, proposes_of_app, !map_app.
    destruct F as [[M1 M2]|[r0 [q [t [b [M1 [M2 [M3 M4]]]]]]]]; rewrite M1, M2; cbn [map app fst].
    - rewrite PE, S. reflexivity.
    - rewrite M3, PE. rewrite strictly_inc_cons; [reflexivity| |exact S].
      intros y Hy. specialize (LB y Hy). lia.
  Qed.
End C09.
Print Assumptions mon_c09_sound.

(* the boot proviso is needed: booting twice asks the proposer twice for a round-1 block *)
Example mon_c09_needs_boot_once :
  mon_c09 c4 1 [([], EvBoot); ([], EvBoot)] (obs_of_run c4 1 [([], EvBoot); ([], EvBoot)]) = false.
Proof. vm_compute. reflexivity. Qed.
Example mon_c09_good : mon_c09 c4 1 evs_good (obs_of_run c4 1 evs_good) = true.
Proof. vm_compute. reflexivity. Qed.
