(* C16 model (definitions only): store/src/lib.rs (the single task serialising commands) and its specification. *)
From Coq Require Import List NArith Bool.
Import ListNotations.
Open Scope N_scope.

Definition key := N.     (* the harness interns byte strings; equality is all the store uses *)
Definition value := N.

Inductive cmd :=
| Write (k : key) (v : value)
| Read (k : key) (id : N)
| NotifyRead (k : key) (id : N)
| Reopen                                   (* all handles dropped, database reopened *)
| Cancel (id : N).                         (* the notify-read with this id is abandoned: its future is dropped *)

Inductive sout := ORead (id : N) (v : option value) | ONotify (id : N) (v : value).

Record St := mkSt { db : list (key * value); obl : list (key * N) (* pending waiters, FIFO *) }.

Fixpoint get (k : key) (m : list (key * value)) : option value :=
  match m with [] => None | (k', v) :: r => if k =? k' then Some v else get k r end.

Definition sstep (s : St) (c : cmd) : St * list sout :=
  match c with
  | Write k v =>
      let woken := filter (fun e => fst e =? k) (obl s) in
      (mkSt ((k, v) :: db s) (filter (fun e => negb (fst e =? k)) (obl s)),
       map (fun e => ONotify (snd e) v) woken)
  | Read k id => (s, [ORead id (get k (db s))])
  | NotifyRead k id =>
      match get k (db s) with
      | Some v => (s, [ONotify id v])
      | None => (mkSt (db s) (obl s ++ [(k, id)]), [])
      end
  | Reopen => (mkSt (db s) [], [])
  (* the real store keeps the dead sender until the key is written, where the send fails silently: unobservable *)
  | Cancel id => (mkSt (db s) (filter (fun e => negb (snd e =? id)) (obl s)), [])
  end.

Fixpoint srun (s : St) (cs : list cmd) : St * list sout :=
  match cs with
  | [] => (s, [])
  | c :: r => let '(s1, o1) := sstep s c in let '(s2, o2) := srun s1 r in (s2, o1 ++ o2)
  end.

(* ---- specification: a map, and the set of waiters that must still be served ---- *)
Definition spec_map (cs : list cmd) (k : key) : option value :=
  fold_left (fun acc c => match c with Write k' v => if k =? k' then Some v else acc | _ => acc end) cs None.

