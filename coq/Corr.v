(* Correspondence support: executable comparison of a model run with an observed run. *)
From Coq Require Import List NArith Bool.
From HS Require Import GTac Node.
Import ListNotations.
Open Scope N_scope.

Definition content_eq := content_eqb.
Definition sig_eqb (s1 s2 : sig) : bool :=
  match s1, s2 with
  | SigOf a c1, SigOf b c2 => (a =? b) && content_eqb c1 c2
  | SigJunk a, SigJunk b => a =? b
  | _, _ => false
  end.
Definition pair_eqb {A B} (ea : A -> A -> bool) (eb : B -> B -> bool) (x y : A * B) : bool :=
  ea (fst x) (fst y) && eb (snd x) (snd y).
Definition opt_eqb {A} (e : A -> A -> bool) (x y : option A) : bool :=
  match x, y with Some a, Some b => e a b | None, None => true | _, _ => false end.

Definition qc_full_eqb (q1 q2 : QC) : bool :=
  digest_eqb (qc_hash q1) (qc_hash q2) && (qc_round q1 =? qc_round q2) &&
  list_eqb (pair_eqb N.eqb sig_eqb) (qc_votes q1) (qc_votes q2).
Definition tc_full_eqb (t1 t2 : TC) : bool :=
  (tc_round t1 =? tc_round t2) &&
  list_eqb (pair_eqb (pair_eqb N.eqb sig_eqb) N.eqb) (tc_votes t1) (tc_votes t2).
Definition block_full_eqb (b1 b2 : Block) : bool :=
  qc_full_eqb (b_qc b1) (b_qc b2) && opt_eqb tc_full_eqb (b_tc b1) (b_tc b2) &&
  (b_author b1 =? b_author b2) && (b_round b1 =? b_round b2) &&
  list_eqb N.eqb (b_payload b1) (b_payload b2) && sig_eqb (b_sig b1) (b_sig b2).
Definition vote_full_eqb (v1 v2 : Vote) : bool :=
  digest_eqb (v_hash v1) (v_hash v2) && (v_round v1 =? v_round v2) && (v_author v1 =? v_author v2) &&
  sig_eqb (v_sig v1) (v_sig v2).
Definition timeout_full_eqb (t1 t2 : Timeout) : bool :=
  qc_full_eqb (t_high_qc t1) (t_high_qc t2) && (t_round t1 =? t_round t2) &&
  (t_author t1 =? t_author t2) && sig_eqb (t_sig t1) (t_sig t2).

(* sets of numbers compared up to order (hash-map artefacts) *)
Definition set_eqb (l1 l2 : list N) : bool :=
  Nat.eqb (length l1) (length l2) && forallb (fun x => memN x l2) l1 && forallb (fun x => memN x l1) l2.

Definition pmsg_eqb (m1 m2 : PMsg) : bool :=
  match m1, m2 with
  | PMake r1 q1 t1, PMake r2 q2 t2 => (r1 =? r2) && qc_full_eqb q1 q2 && opt_eqb tc_full_eqb t1 t2
  | PCleanup d1, PCleanup d2 => set_eqb d1 d2
  | _, _ => false
  end.

Definition out_eqb (o1 o2 : Out) : bool :=
  match o1, o2 with
  | OVote a v1, OVote b v2 => (a =? b) && vote_full_eqb v1 v2
  | OTimeout t1, OTimeout t2 => timeout_full_eqb t1 t2
  | OTC t1, OTC t2 => tc_full_eqb t1 t2
  | OPropose b1, OPropose b2 => block_full_eqb b1 b2
  | OSyncReq a d1, OSyncReq b d2 => (a =? b) && digest_eqb d1 d2
  | OCommit b1, OCommit b2 => block_full_eqb b1 b2
  | OMemSync m1 t1, OMemSync m2 t2 => list_eqb N.eqb m1 m2 && (t1 =? t2)
  | OMemCleanup r1, OMemCleanup r2 => r1 =? r2
  | OProposer m1, OProposer m2 => pmsg_eqb m1 m2
  | OBadHint, OBadHint => true
  | _, _ => false
  end.

(* outputs of one step are compared in order (the harness records them per channel in a fixed
   channel order and the model is projected the same way) *)
Definition is_net (o : Out) := match o with OVote _ _ | OTimeout _ | OTC _ | OSyncReq _ _ | OPropose _ => true | _ => false end.
Definition is_commit (o : Out) := match o with OCommit _ => true | _ => false end.
Definition is_mem (o : Out) := match o with OMemSync _ _ | OMemCleanup _ => true | _ => false end.
Definition is_prop (o : Out) := match o with OProposer _ => true | _ => false end.
Definition is_bad (o : Out) := match o with OBadHint => true | _ => false end.
Definition canon (os : list Out) : list Out :=
  filter is_net os ++ filter is_commit os ++ filter is_mem os ++ filter is_prop os ++ filter is_bad os.

Inductive rkind := KOk | KErr | KPanic.
Definition rkind_of (r : res unit) : rkind := match r with ROk _ => KOk | RErr _ => KErr | RPanic _ => KPanic end.
Definition rkind_eqb (a b : rkind) := match a, b with KOk, KOk | KErr, KErr | KPanic, KPanic => true | _, _ => false end.

Record Obs := mkObs { ob_out : list Out; ob_res : rkind; ob_state : N * N * N * N (* round, last_voted, last_committed, high_qc.round *) }.

Definition snap (s : State) := (s_round s, s_last_voted s, s_last_committed s, qc_round (s_high_qc s)).
Definition snap_eqb (a b : N * N * N * N) : bool :=
  match a, b with (a1, a2, a3, a4), (b1, b2, b3, b4) => (a1 =? b1) && (a2 =? b2) && (a3 =? b3) && (a4 =? b4) end.

Definition b2n (b : bool) : N := if b then 1 else 0.

(* one step compared category by category: network outputs, commit channel, mempool channel, proposer
   channel, result kind, state snapshot, payload-hint bookkeeping *)
Definition step_cmp (o : list Out) (r : res unit) (s1 : State) (ob : Obs) : list bool :=
  [ list_eqb out_eqb (filter is_net o) (filter is_net (ob_out ob));
    list_eqb out_eqb (filter is_commit o) (filter is_commit (ob_out ob));
    list_eqb out_eqb (filter is_mem o) (filter is_mem (ob_out ob));
    list_eqb out_eqb (filter is_prop o) (filter is_prop (ob_out ob));
    rkind_eqb (rkind_of r) (ob_res ob);
    snap_eqb (snap s1) (ob_state ob);
    negb (existsb is_bad o) ].

Fixpoint andl (a b : list bool) : list bool :=
  match a, b with x :: xs, y :: ys => (x && y) :: andl xs ys | _, _ => [] end.

(* runs the model of the CURRENT source ([src_dq]) on the events the implementation was given; returns the
   per-category agreement flags over the whole run, the index (from 1) of the first step with any
   difference (0 = none) and the model's final state (for the ghost monitors) *)
Fixpoint agree_run (c : Committee) (me : N) (evs : list (list N * Event)) (obs : list Obs)
                   (s : State) (i : N) (acc : list bool) (first : N) : list bool * N * State :=
  match evs, obs with
  | [], [] => (acc, first, s)
  | (h, e) :: er, ob :: or =>
      match step c me src_dq h e s with
      | (s1, o, r) =>
          let f := step_cmp o r s1 ob in
          let first' := if (first =? 0) && negb (forallb (fun x => x) f) then i else first in
          agree_run c me er or s1 (i + 1) (andl acc f) first'
      end
  | _, _ => (map (fun _ => false) acc, (if first =? 0 then i else first), s)
  end.

Definition agree (c : Committee) (me : N) (evs : list (list N * Event)) (obs : list Obs) :=
  agree_run c me evs obs (init c) 1 [true; true; true; true; true; true; true] 0.
