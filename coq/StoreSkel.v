(* Primitives for the regenerated skeleton of the store task (store/src/lib.rs, the command loop of Store::new):
   the concrete state has the shape of the Rust locals - `db` (RocksDB: the last put of a key wins) and `obligations`
   (HashMap<Key, VecDeque<oneshot::Sender>>: one FIFO queue of waiters per key).  tools/skelstore.py writes GenStore.v over these. *)
From Coq Require Import List NArith Bool.
From HS Require Import StoreDefs.
Import ListNotations.
Open Scope N_scope.

Record CSt := mkC { cdb : list (key * value); cobl : list (key * list N) }.
Definition SM (A : Type) := CSt -> (A * CSt * list sout).
Definition sret {A} (a : A) : SM A := fun c => (a, c, []).
Definition sbind {A B} (m : SM A) (f : A -> SM B) : SM B :=
  fun c => let '(a, c1, o1) := m c in let '(b, c2, o2) := f a c1 in (b, c2, o1 ++ o2).
Notation "x <- m ;; k" := (sbind m (fun x => k)) (at level 61, m at next level, right associativity).

(* db.put(&k,&v) / db.get(&k): RocksDB errors are not modelled (get returns Ok(_)) *)
Definition db_put (k : key) (v : value) : SM unit := fun c => (tt, mkC ((k, v) :: cdb c) (cobl c), []).
Definition db_get (k : key) : SM (option value) := fun c => (get k (cdb c), c, []).

(* HashMap::remove(&k): the binding of k, which is taken out of the map *)
Fixpoint olookup (k : key) (m : list (key * list N)) : option (list N) :=
  match m with [] => None | (k', l) :: r => if k =? k' then Some l else olookup k r end.
Definition oremove (k : key) (m : list (key * list N)) := filter (fun e => negb (fst e =? k)) m.
Definition obl_remove (k : key) : SM (option (list N)) :=
  fun c => (olookup k (cobl c), mkC (cdb c) (oremove k (cobl c)), []).
(* entry(k).or_insert_with(VecDeque::new).push_back(id) *)
Fixpoint opush (k : key) (id : N) (m : list (key * list N)) : list (key * list N) :=
  match m with
  | [] => [(k, [id])]
  | (k', l) :: r => if k =? k' then (k', l ++ [id]) :: r else (k', l) :: opush k id r
  end.
Definition obl_push (k : key) (id : N) : SM unit := fun c => (tt, mkC (cdb c) (opush k id (cobl c)), []).

(* oneshot send on the sender of a Read / of a NotifyRead command (the result of a failed send is dropped by `let _ =`) *)
Definition send_read (id : N) (r : option value) : SM unit := fun c => (tt, c, [ORead id r]).
Definition send_notify (id : N) (v : value) : SM unit := fun c => (tt, c, [ONotify id v]).

(* `while let Some(s) = q.pop_front() { body }` *)
Fixpoint sfor (q : list N) (body : N -> SM unit) : SM unit :=
  match q with [] => sret tt | x :: r => _ <- body x ;; sfor r body end.

(* the commands the task receives from the channel (Reopen / Cancel of StoreDefs are events of the environment, not commands) *)
Inductive ccmd := CWrite (k : key) (v : value) | CRead (k : key) (id : N) | CNotifyRead (k : key) (id : N).
Definition to_cmd (c : ccmd) : cmd :=
  match c with CWrite k v => Write k v | CRead k id => Read k id | CNotifyRead k id => NotifyRead k id end.

(* abstraction: per-key queues <-> the model's flat FIFO list of (key, waiter) *)
Definition waiters (k : key) (l : list (key * N)) : list N := map snd (filter (fun e => fst e =? k) l).
Definition queue (k : key) (m : list (key * list N)) : list N := match olookup k m with Some l => l | None => [] end.
Definition SR (c : CSt) (s : St) : Prop := cdb c = db s /\ forall k, queue k (cobl c) = waiters k (obl s).
