(* C20 / C15 (decoding half): theorems about the wire model of WireDefs.v.
   - round trips `decode (encode m ++ rest) = Ok (m, rest)` for every wire type, for both settings of `exact`
   - no decoder panics under the exact key-length check; a witness that one does on the pinned tree
   - digest pre-images: injectivity at record level, kind separation, preservation through the wire *)
From Coq Require Import List NArith ZArith Arith Lia Bool ZifyN ZifyBool.
From HS Require Import Codec Base64Defs Base64 WireDefs.
Import ListNotations.
Open Scope N_scope.

Definition drt {A} (enc : A -> bytes) (p : dparser A) (wf : A -> Prop) :=
  forall a rest, wf a -> p (enc a ++ rest) = Ok (a, rest).

(* ---------- combinators ---------- *)
Lemma drt_lift {A} e (p : parser A) w : rt e p w -> drt e (d_lift p) w.
Proof. intros H a rest W. unfold d_lift. rewrite (H a rest W). reflexivity. Qed.
Lemma drt_take n : drt (fun b => b) (d_take n) (fun b => length b = n).
Proof. apply drt_lift, rt_take. Qed.
Lemma drt_int n : drt (le_bytes n) (d_int n) (fun x => x < 256 ^ N.of_nat n).
Proof. apply drt_lift, rt_int. Qed.

Definition wf_len (s : bytes) := N.of_nat (length s) < 256 ^ 8.
Lemma drt_str : drt enc_str d_str wf_len.
Proof.
  intros s rest W. unfold enc_str, d_str, d_bind. rewrite <- app_assoc, (drt_int 8 _ _ W).
  unfold d_takeN. rewrite app_length.
  destruct (N.of_nat (length s) <=? N.of_nat (length s + length rest)) eqn:E; [|lia].
  rewrite Nat2N.id. apply (drt_take (length s)). reflexivity.
Qed.

Definition wf_key (k : bytes) := length k = 32%nat /\ Forall (fun b => b < 256) k.
Definition wf_dig (d : bytes) := length d = 32%nat.
Definition wf_sig (s : bytes) := length s = 64%nat.
Definition wf_round (r : N) := r < 256 ^ 8.

Lemma drt_key exact : drt w_enc_key (d_key exact) wf_key.
Proof.
  intros k rest [Hl Hb]. unfold w_enc_key, d_key, d_bind.
  assert (W : wf_len (encode_key k)).
  { unfold wf_len, encode_key. rewrite (b64_len32 k Hl). vm_compute. reflexivity. }
  rewrite (drt_str _ rest W), (pubkey_rt exact k Hl Hb). reflexivity.
Qed.

Lemma drt_rep {A} e (p : dparser A) w : drt e p w ->
  forall l rest fuel, Forall w l -> (length l <= fuel)%nat ->
    d_rep p fuel (N.of_nat (length l)) (concat (map e l) ++ rest) = Ok (l, rest).
Proof.
  intros H. induction l as [|a r IH]; intros rest fuel F Hf.
  - destruct fuel; reflexivity.
  - inversion F; subst. destruct fuel as [|f]; [cbn [length] in Hf; lia|].
    cbn [d_rep length map concat]. destruct (N.of_nat (S (length r)) =? 0) eqn:E; [lia|].
    rewrite <- app_assoc, (H a _ H2).
    replace (N.of_nat (S (length r)) - 1) with (N.of_nat (length r)) by lia.
    rewrite (IH rest f H3) by (cbn [length] in Hf; lia). reflexivity.
Qed.

Lemma concat_len_ge {A} (e : A -> bytes) (w : A -> Prop) l :
  (forall a, w a -> (1 <= length (e a))%nat) -> Forall w l -> (length l <= length (concat (map e l)))%nat.
Proof.
  intros H F. induction F as [|a r Ha Hr IH]; cbn [map concat length]; [lia|].
  rewrite app_length. specialize (H a Ha). lia.
Qed.

Lemma drt_list {A} e (p : dparser A) w : drt e p w -> (forall a, w a -> (1 <= length (e a))%nat) ->
  drt (enc_list e) (d_list p) (fun l => Forall w l /\ N.of_nat (length l) < 256 ^ 8).
Proof.
  intros H Hne l rest [F Hl]. unfold enc_list, d_list, d_bind. rewrite <- app_assoc, (drt_int 8 _ _ Hl).
  apply (drt_rep e p w H l rest _ F). rewrite app_length. pose proof (concat_len_ge e w l Hne F). lia.
Qed.

Lemma drt_opt {A} e (p : dparser A) w : drt e p w ->
  drt (enc_opt e) (d_opt p) (fun o => match o with Some a => w a | None => True end).
Proof. intros H [a|] rest W; cbn [enc_opt d_opt app]; [rewrite (H a rest W)|]; reflexivity. Qed.

Lemma le_bytes_len_pos n x : (1 <= length (le_bytes (S n) x))%nat.
Proof. rewrite le_bytes_length. lia. Qed.

(* ---------- QC ---------- *)
Definition wf_qc_vote (e : bytes * bytes) := wf_key (fst e) /\ wf_sig (snd e).
Definition wf_qc (q : WQC) :=
  wf_dig (w_hash q) /\ wf_round (w_round q) /\ Forall wf_qc_vote (w_votes q) /\ N.of_nat (length (w_votes q)) < 256 ^ 8.

Lemma drt_qc_vote exact : drt w_enc_qc_vote (d_qc_vote exact) wf_qc_vote.
Proof.
  intros [k s] rest [Hk Hs]. unfold w_enc_qc_vote, d_qc_vote, d_bind, d_ret, d_sig. cbn [fst snd] in *.
  rewrite <- app_assoc, (drt_key exact k _ Hk), (drt_take 64 s rest Hs). reflexivity.
Qed.
Lemma qc_vote_len e : wf_qc_vote e -> (1 <= length (w_enc_qc_vote e))%nat.
Proof. intros [_ Hs]. unfold w_enc_qc_vote. rewrite app_length. unfold wf_sig in Hs. lia. Qed.

Theorem drt_qc exact : drt w_enc_qc (d_qc exact) wf_qc.
Proof.
  intros [h r vs] rest [Hh [Hr [Hv Hl]]]. unfold w_enc_qc, d_qc, d_bind, d_ret, d_digest.
  cbn [w_hash w_round w_votes] in *.
  rewrite <- !app_assoc, (drt_take 32 h _ Hh), (drt_int 8 r _ Hr).
  rewrite (drt_list _ _ _ (drt_qc_vote exact) qc_vote_len vs rest (conj Hv Hl)). reflexivity.
Qed.

(* ---------- TC ---------- *)
Definition wf_tc_vote (e : bytes * bytes * N) := wf_key (fst (fst e)) /\ wf_sig (snd (fst e)) /\ wf_round (snd e).
Definition wf_tc (t : WTC) :=
  wf_round (wt_round t) /\ Forall wf_tc_vote (wt_votes t) /\ N.of_nat (length (wt_votes t)) < 256 ^ 8.

Lemma drt_tc_vote exact : drt w_enc_tc_vote (d_tc_vote exact) wf_tc_vote.
Proof.
  intros [[k s] r] rest [Hk [Hs Hr]]. unfold w_enc_tc_vote, d_tc_vote, d_bind, d_ret, d_sig. cbn [fst snd] in *.
  rewrite <- !app_assoc, (drt_key exact k _ Hk), (drt_take 64 s _ Hs), (drt_int 8 r _ Hr). reflexivity.
Qed.
Lemma tc_vote_len e : wf_tc_vote e -> (1 <= length (w_enc_tc_vote e))%nat.
Proof. intros [_ [Hs _]]. unfold w_enc_tc_vote. rewrite !app_length. unfold wf_sig in Hs. lia. Qed.

Theorem drt_tc exact : drt w_enc_tc (d_tc exact) wf_tc.
Proof.
  intros [r vs] rest [Hr [Hv Hl]]. unfold w_enc_tc, d_tc, d_bind, d_ret. cbn [wt_round wt_votes] in *.
  rewrite <- !app_assoc, (drt_int 8 r _ Hr).
  rewrite (drt_list _ _ _ (drt_tc_vote exact) tc_vote_len vs rest (conj Hv Hl)). reflexivity.
Qed.

(* ---------- Vote ---------- *)
Definition wf_vote (v : WVote) :=
  wf_dig (wv_hash v) /\ wf_round (wv_round v) /\ wf_key (wv_author v) /\ wf_sig (wv_sig v).
Theorem drt_vote exact : drt w_enc_vote (d_vote exact) wf_vote.
Proof.
  intros [h r a s] rest [Hh [Hr [Ha Hs]]]. unfold w_enc_vote, d_vote, d_bind, d_ret, d_digest, d_sig.
  cbn [wv_hash wv_round wv_author wv_sig] in *.
  rewrite <- !app_assoc, (drt_take 32 h _ Hh), (drt_int 8 r _ Hr), (drt_key exact a _ Ha), (drt_take 64 s _ Hs).
  reflexivity.
Qed.

(* ---------- Timeout ---------- *)
Definition wf_timeout (t : WTimeout) :=
  wf_qc (wto_high_qc t) /\ wf_round (wto_round t) /\ wf_key (wto_author t) /\ wf_sig (wto_sig t).
Theorem drt_timeout exact : drt w_enc_timeout (d_timeout exact) wf_timeout.
Proof.
  intros [q r a s] rest [Hq [Hr [Ha Hs]]]. unfold w_enc_timeout, d_timeout, d_bind, d_ret, d_sig.
  cbn [wto_high_qc wto_round wto_author wto_sig] in *.
  rewrite <- !app_assoc, (drt_qc exact q _ Hq), (drt_int 8 r _ Hr), (drt_key exact a _ Ha), (drt_take 64 s _ Hs).
  reflexivity.
Qed.

(* ---------- Block ---------- *)
Definition wf_opt_tc (o : option WTC) := match o with Some t => wf_tc t | None => True end.
Definition wf_block (b : WBlock) :=
  wf_qc (wb_qc b) /\ wf_opt_tc (wb_tc b) /\ wf_key (wb_author b) /\ wf_round (wb_round b) /\
  (Forall wf_dig (wb_payload b) /\ N.of_nat (length (wb_payload b)) < 256 ^ 8) /\ wf_sig (wb_sig b).

Lemma dig_len d : wf_dig d -> (1 <= length d)%nat.
Proof. unfold wf_dig. lia. Qed.

Theorem drt_block exact : drt w_enc_block (d_block exact) wf_block.
Proof.
  intros [q t a r p s] rest [Hq [Ht [Ha [Hr [Hp Hs]]]]]. unfold w_enc_block, d_block, d_bind, d_ret, d_sig.
  cbn [wb_qc wb_tc wb_author wb_round wb_payload wb_sig] in *.
  rewrite <- !app_assoc, (drt_qc exact q _ Hq).
  rewrite (drt_opt _ _ _ (drt_tc exact) t _ Ht), (drt_key exact a _ Ha), (drt_int 8 r _ Hr).
  rewrite (drt_list _ _ _ (drt_take 32) dig_len p _ Hp), (drt_take 64 s _ Hs). reflexivity.
Qed.

(* ---------- ConsensusMessage ---------- *)
Definition wf_cmsg (m : WCMsg) :=
  match m with
  | CPropose b => wf_block b | CVote v => wf_vote v | CTimeout t => wf_timeout t | CTC t => wf_tc t
  | CSyncRequest d k => wf_dig d /\ wf_key k
  end.

Lemma tag_rt t rest : t < 256 ^ 4 -> d_int 4 (le_bytes 4 t ++ rest) = Ok (t, rest).
Proof. intros H. apply (drt_int 4 t rest). exact H. Qed.

Theorem drt_cmsg exact : drt w_enc_cmsg (d_cmsg exact) wf_cmsg.
Proof.
  intros m rest W. unfold d_cmsg, d_bind. destruct m as [b|v|t|t|d k]; cbn [w_enc_cmsg wf_cmsg] in *;
    rewrite <- ?app_assoc, tag_rt by (vm_compute; reflexivity); unfold d_ret.
  - rewrite (drt_block exact b rest W). reflexivity.
  - rewrite (drt_vote exact v rest W). reflexivity.
  - rewrite (drt_timeout exact t rest W). reflexivity.
  - rewrite (drt_tc exact t rest W). reflexivity.
  - destruct W as [Hd Hk]. unfold d_digest. rewrite (drt_take 32 d _ Hd), (drt_key exact k rest Hk). reflexivity.
Qed.

(* ---------- MempoolMessage ---------- *)
Definition wf_mmsg (m : WMMsg) :=
  match m with
  | MBatch txs => Forall wf_len txs /\ N.of_nat (length txs) < 256 ^ 8
  | MBatchRequest ds k => (Forall wf_dig ds /\ N.of_nat (length ds) < 256 ^ 8) /\ wf_key k
  end.
Lemma str_len s : wf_len s -> (1 <= length (enc_str s))%nat.
Proof. intros _. unfold enc_str. rewrite app_length, le_bytes_length. lia. Qed.

Theorem drt_mmsg exact : drt w_enc_mmsg (d_mmsg exact) wf_mmsg.
Proof.
  intros m rest W. unfold d_mmsg, d_bind. destruct m as [txs|ds k]; cbn [w_enc_mmsg wf_mmsg] in *;
    rewrite <- ?app_assoc, tag_rt by (vm_compute; reflexivity); unfold d_ret.
  - rewrite (drt_list _ _ _ drt_str str_len txs rest W). reflexivity.
  - destruct W as [Hd Hk]. unfold d_digest.
    rewrite (drt_list _ _ _ (drt_take 32) dig_len ds _ Hd), (drt_key exact k rest Hk). reflexivity.
Qed.

(* ---------- top level: `bincode::deserialize (bincode::serialize m)`, trailing bytes allowed ---------- *)
Theorem decode_cmsg_rt exact m rest : wf_cmsg m -> decode_cmsg exact (w_enc_cmsg m ++ rest) = Ok m.
Proof. intros W. unfold decode_cmsg, d_top. rewrite (drt_cmsg exact m rest W). reflexivity. Qed.
Theorem decode_mmsg_rt exact m rest : wf_mmsg m -> decode_mmsg exact (w_enc_mmsg m ++ rest) = Ok m.
Proof. intros W. unfold decode_mmsg, d_top. rewrite (drt_mmsg exact m rest W). reflexivity. Qed.
(* what `helper.rs` / `synchronizer.rs` do with a stored block *)
Theorem decode_block_rt exact b rest : wf_block b -> decode_block exact (w_enc_block b ++ rest) = Ok b.
Proof. intros W. unfold decode_block, d_top. rewrite (drt_block exact b rest W). reflexivity. Qed.

(* the encoders of this file are those of Codec.v (Section Wire) at the real base64 *)
Lemma enc_key_codec k : length k = 32%nat -> w_enc_key k = enc_key b64_encode k.
Proof. intros H. unfold w_enc_key, enc_key, enc_str, encode_key. rewrite (b64_len32 k H). reflexivity. Qed.
Lemma enc_qc_codec q : Forall (fun e => length (fst e) = 32%nat) (w_votes q) -> w_enc_qc q = enc_qc b64_encode q.
Proof.
  intros F. unfold w_enc_qc, enc_qc, enc_list.
  assert (M : map w_enc_qc_vote (w_votes q) = map (enc_vote_entry b64_encode) (w_votes q)).
  { apply map_ext_in. intros e He. unfold w_enc_qc_vote, enc_vote_entry.
    pose proof (proj1 (Forall_forall _ _) F e He) as L. cbv beta in L.
    rewrite (enc_key_codec (fst e) L). reflexivity. }
  rewrite M. reflexivity.
Qed.
Lemma enc_vote_codec v : length (wv_author v) = 32%nat -> w_enc_vote v = enc_vote b64_encode v.
Proof. intros H. unfold w_enc_vote, enc_vote. rewrite (enc_key_codec _ H). reflexivity. Qed.

(* the hypotheses are satisfiable *)
Example wf_block_example :
  let k := repeat 1 32 in let d := repeat 2 32 in let s := repeat 3 64 in
  let q := mkWQC d 5 [(k, s)] in
  wf_cmsg (CPropose (mkWBlock q (Some (mkWTC 6 [(k, s, 5)])) k 7 [d; d] s)) /\ wf_mmsg (MBatch [[1; 2]; []]) /\
  wf_mmsg (MBatchRequest [d] k) /\ wf_cmsg (CTimeout (mkWTimeout q 6 k s)).
Proof.
  cbv zeta. unfold wf_cmsg, wf_mmsg, wf_block, wf_timeout, wf_qc, wf_opt_tc, wf_tc, wf_key, wf_dig, wf_sig, wf_round, wf_len.
  cbn [w_hash w_round w_votes wb_qc wb_tc wb_author wb_round wb_payload wb_sig wt_round wt_votes
       wto_high_qc wto_round wto_author wto_sig].
  repeat match goal with
         | |- _ /\ _ => split
         | |- Forall _ _ => apply Forall_forall; intros ? HIn; cbn in HIn;
                            repeat (destruct HIn as [<-|HIn]; [|]); try contradiction
         | |- wf_qc_vote _ => split | |- wf_tc_vote _ => split
         | |- wf_key _ => split | |- wf_dig _ => reflexivity | |- wf_sig _ => reflexivity
         | |- wf_round _ => (vm_compute; reflexivity) | |- wf_len _ => (vm_compute; reflexivity)
         | |- length _ = _ => reflexivity
         | |- _ < _ => (vm_compute; reflexivity)
         end.
Qed.

(* ---------- the fuel of `d_rep` is never what stops a parse ----------
   `d_list` runs `d_rep` with the number of remaining bytes as fuel. For an element parser that consumes at least
   one byte whenever it succeeds and fails with an error on empty input (true of every element parser used in
   WireDefs.v, proved below), any larger fuel gives the same result: the model equals the unbounded loop of serde. *)
Definition consuming {A} (p : dparser A) :=
  forall l, match p l with Ok (_, r) => (length r < length l)%nat | Err => True | Panic => l <> [] end.

Lemma d_rep_fuel {A} (p : dparser A) : consuming p ->
  forall f1 f2 n l, (length l <= f1)%nat -> (length l <= f2)%nat -> d_rep p f1 n l = d_rep p f2 n l.
Proof.
  intros C. induction f1 as [|f1 IH]; intros f2 n l H1 H2.
  - destruct l; [|cbn [length] in H1; lia]. destruct f2 as [|f2]; [reflexivity|]. cbn [d_rep].
    destruct (n =? 0); [reflexivity|]. specialize (C []). destruct (p []) as [[a r]| |]; [cbn [length] in C; lia|reflexivity|congruence].
  - destruct f2 as [|f2].
    + destruct l; [|cbn [length] in H2; lia]. cbn [d_rep]. destruct (n =? 0); [reflexivity|].
      specialize (C []). destruct (p []) as [[a r]| |]; [cbn [length] in C; lia|reflexivity|congruence].
    + cbn [d_rep]. destruct (n =? 0); [reflexivity|]. pose proof (C l) as Cl.
      destruct (p l) as [[a r]| |]; [|reflexivity|reflexivity].
      rewrite (IH f2 (n - 1) r) by lia. reflexivity.
Qed.

Definition nonexpanding {A} (p : dparser A) :=
  forall l, match p l with Ok (_, r) => (length r <= length l)%nat | _ => True end.
Lemma consuming_bind {A B} (p : dparser A) (f : A -> dparser B) :
  consuming p -> (forall a, nonexpanding (f a)) -> consuming (d_bind p f).
Proof.
  intros Cp Nf l. unfold d_bind. pose proof (Cp l) as C. destruct (p l) as [[a r]| |]; [|exact I|exact C].
  pose proof (Nf a r) as N. destruct (f a r) as [[b r']| |]; [lia|exact I|].
  intros ->. cbn [length] in C. lia.
Qed.
Lemma nonexpanding_of_consuming {A} (p : dparser A) : consuming p -> nonexpanding p.
Proof. intros C l. specialize (C l). destruct (p l) as [[a r]| |]; [lia|exact I|exact I]. Qed.
Lemma nonexpanding_bind {A B} (p : dparser A) (f : A -> dparser B) :
  nonexpanding p -> (forall a, nonexpanding (f a)) -> nonexpanding (d_bind p f).
Proof.
  intros Np Nf l. unfold d_bind. pose proof (Np l) as C. destruct (p l) as [[a r]| |]; [|exact I|exact I].
  pose proof (Nf a r) as N. destruct (f a r) as [[b r']| |]; [lia|exact I|exact I].
Qed.
Lemma nonexpanding_ret {A} (a : A) : nonexpanding (d_ret a).
Proof. intros l. cbn. lia. Qed.
Lemma consuming_take n : consuming (d_take (S n)).
Proof.
  intros l. unfold d_take, d_lift, p_take. destruct (S n <=? length l)%nat eqn:E; [|exact I].
  apply Nat.leb_le in E. rewrite skipn_length. lia.
Qed.
Lemma consuming_int n : consuming (d_int (S n)).
Proof.
  intros l. unfold d_int, d_lift, p_int. pose proof (consuming_take n l) as C. unfold d_take, d_lift in C.
  destruct (p_take (S n) l) as [[b r]|]; [exact C|exact I].
Qed.
Lemma nonexpanding_takeN n : nonexpanding (d_takeN n).
Proof.
  intros l. unfold d_takeN. destruct (n <=? N.of_nat (length l)); [|exact I].
  unfold d_take, d_lift, p_take. destruct (N.to_nat n <=? length l)%nat; [|exact I]. rewrite skipn_length. lia.
Qed.
Lemma consuming_str : consuming d_str.
Proof. apply consuming_bind; [apply consuming_int|intros; apply nonexpanding_takeN]. Qed.
Lemma consuming_key exact : consuming (d_key exact).
Proof.
  intros l. unfold d_key, d_bind. pose proof (consuming_str l) as C.
  destruct (d_str l) as [[s r]| |]; [|exact I|exact C].
  destruct (decode_pubkey exact s); [exact C|exact I|intros ->; cbn [length] in C; lia].
Qed.
Lemma consuming_qc_vote exact : consuming (d_qc_vote exact).
Proof.
  apply consuming_bind; [apply consuming_key|]. intros k.
  apply nonexpanding_bind; [apply nonexpanding_of_consuming, consuming_take|]. intros; apply nonexpanding_ret.
Qed.
Lemma consuming_tc_vote exact : consuming (d_tc_vote exact).
Proof.
  apply consuming_bind; [apply consuming_key|]. intros k.
  apply nonexpanding_bind; [apply nonexpanding_of_consuming, consuming_take|]. intros s.
  apply nonexpanding_bind; [apply nonexpanding_of_consuming, consuming_int|]. intros; apply nonexpanding_ret.
Qed.
(* the four element parsers behind a `d_list`: votes of a QC, votes of a TC, digests, transactions *)
Theorem list_fuel_adequate exact :
  consuming (d_qc_vote exact) /\ consuming (d_tc_vote exact) /\ consuming d_digest /\ consuming d_str.
Proof. repeat split; [apply consuming_qc_vote|apply consuming_tc_vote|apply consuming_take|apply consuming_str]. Qed.

(* ---------- C15, decoding half: no panic under the exact length check ---------- *)
Definition np {A} (p : dparser A) := forall l, p l <> Panic.
Lemma np_lift {A} (p : parser A) : np (d_lift p).
Proof. intros l. unfold d_lift. destruct (p l); discriminate. Qed.
Lemma np_ret {A} (a : A) : np (d_ret a).
Proof. intros l. discriminate. Qed.
Lemma np_bind {A B} (p : dparser A) (f : A -> dparser B) : np p -> (forall a, np (f a)) -> np (d_bind p f).
Proof.
  intros Hp Hf l. unfold d_bind. destruct (p l) as [[a r]| |] eqn:E; [apply Hf|discriminate|exfalso; exact (Hp l E)].
Qed.
Lemma np_takeN n : np (d_takeN n).
Proof. intros l. unfold d_takeN. destruct (n <=? N.of_nat (length l)); [apply np_lift|discriminate]. Qed.
Lemma np_str : np d_str.
Proof. apply np_bind; [apply np_lift|apply np_takeN]. Qed.
Lemma np_rep {A} (p : dparser A) : np p -> forall fuel n, np (d_rep p fuel n).
Proof.
  intros Hp. induction fuel as [|f IH]; intros n l; cbn [d_rep]; destruct (n =? 0); try discriminate.
  destruct (p l) as [[a r]| |] eqn:E; [|discriminate|exfalso; exact (Hp l E)].
  destruct (d_rep p f (n - 1) r) as [[t r']| |] eqn:E2; [discriminate|discriminate|exfalso; exact (IH _ _ E2)].
Qed.
Lemma np_list {A} (p : dparser A) : np p -> np (d_list p).
Proof. intros Hp. apply np_bind; [apply np_lift|]. intros n l. apply np_rep. exact Hp. Qed.
Lemma np_opt {A} (p : dparser A) : np p -> np (d_opt p).
Proof.
  intros Hp l. unfold d_opt. destruct l as [|b r]; [discriminate|].
  destruct b as [|[?|?|]]; try discriminate. destruct (p r) as [[a r']| |] eqn:E; [discriminate|discriminate|exfalso; exact (Hp r E)].
Qed.
Lemma np_key : np (d_key true).
Proof.
  apply np_bind; [apply np_str|]. intros s r. unfold decode_pubkey.
  pose proof (key_exact_no_panic 32 s) as K. destruct (decode_key_n 32 true s); [discriminate|discriminate|contradiction].
Qed.
Ltac np_tac :=
  repeat first [ apply np_ret | apply np_lift | apply np_key | apply np_str
               | apply np_list | apply np_opt | (apply np_bind; [|intros ?]) ].
Lemma np_qc : np (d_qc true).
Proof. unfold d_qc, d_qc_vote, d_digest, d_sig, d_take, d_int. np_tac. Qed.
Lemma np_tc : np (d_tc true).
Proof. unfold d_tc, d_tc_vote, d_digest, d_sig, d_take, d_int. np_tac. Qed.
Lemma np_vote : np (d_vote true).
Proof. unfold d_vote, d_digest, d_sig, d_take, d_int. np_tac. Qed.
Lemma np_timeout : np (d_timeout true).
Proof. unfold d_timeout, d_digest, d_sig, d_take, d_int. np_tac; apply np_qc. Qed.
Lemma np_block : np (d_block true).
Proof. unfold d_block, d_digest, d_sig, d_take, d_int. np_tac; first [apply np_qc | apply np_tc]. Qed.

Theorem decode_cmsg_exact_no_panic l : decode_cmsg true l <> Panic.
Proof.
  unfold decode_cmsg, d_top. assert (H : np (d_cmsg true)).
  { unfold d_cmsg. apply np_bind; [apply np_lift|]. intros tag.
    destruct tag as [|[[[?|?|]|[?|?|]|]|[[?|?|]|[?|?|]|]|]]; try (intros ?; discriminate);
      unfold d_digest, d_take; np_tac;
      first [apply np_block | apply np_vote | apply np_timeout | apply np_tc]. }
  destruct (d_cmsg true l) as [[m r]| |] eqn:E; [discriminate|discriminate|exfalso; exact (H l E)].
Qed.
Theorem decode_mmsg_exact_no_panic l : decode_mmsg true l <> Panic.
Proof.
  unfold decode_mmsg, d_top. assert (H : np (d_mmsg true)).
  { unfold d_mmsg. apply np_bind; [apply np_lift|]. intros tag.
    destruct tag as [|[?|?|]]; try (intros ?; discriminate); unfold d_digest, d_take; np_tac. }
  destruct (d_mmsg true l) as [[m r]| |] eqn:E; [discriminate|discriminate|exfalso; exact (H l E)].
Qed.
Theorem decode_block_exact_no_panic l : decode_block true l <> Panic.
Proof.
  unfold decode_block, d_top. destruct (d_block true l) as [[m r]| |] eqn:E; [discriminate|discriminate|exfalso; exact (np_block l E)].
Qed.

(* refutation witness for the pinned tree: a SyncRequest (and a BatchRequest) whose key string is "AA==" *)
Definition short_key_sync_request : bytes := le_bytes 4 4 ++ repeat 0 32 ++ enc_str [65; 65; 61; 61].
Definition short_key_batch_request : bytes := le_bytes 4 1 ++ le_bytes 8 0 ++ enc_str [65; 65; 61; 61].
Theorem decode_slice_panic_witness :
  decode_cmsg false short_key_sync_request = Panic /\ decode_mmsg false short_key_batch_request = Panic /\
  decode_cmsg true short_key_sync_request = Err /\ decode_mmsg true short_key_batch_request = Err.
Proof. vm_compute. repeat split; reflexivity. Qed.

(* ---------- digest pre-images ---------- *)
Definition len32 (d : bytes) := length d = 32%nat.

(* C20: the three kinds of pre-image never coincide (lengths 72+32k / 40 / 16) *)
Theorem pre_kinds_disjoint a r p q h r' r1 r2 :
  len32 a -> Forall len32 p -> len32 q -> len32 h ->
  pre_block a r p q <> pre_vote h r' /\ pre_block a r p q <> pre_timeout r1 r2 /\ pre_vote h r' <> pre_timeout r1 r2.
Proof.
  intros Ha Hp Hq Hh.
  destruct (pre_lengths a r p q h r2 Ha Hp Hq Hh) as [Lb [_ _]].
  destruct (pre_lengths a r' p q h r2 Ha Hp Hq Hh) as [_ [Lv _]].
  destruct (pre_lengths a r1 p q h r2 Ha Hp Hq Hh) as [_ [_ Lt]].
  repeat split; intros E; apply (f_equal (@length N)) in E; unfold bytes in *; lia.
Qed.

(* record level *)
Theorem block_pre_inj b b' :
  wf_block b -> wf_block b' -> block_pre b = block_pre b' ->
  wb_author b = wb_author b' /\ wb_round b = wb_round b' /\ wb_payload b = wb_payload b' /\
  w_hash (wb_qc b) = w_hash (wb_qc b').
Proof.
  intros [[Hh _] [_ [[Ha _] [Hr [[Hp _] _]]]]] [[Hh' _] [_ [[Ha' _] [Hr' [[Hp' _] _]]]]] E.
  exact (pre_block_inj _ _ _ _ _ _ _ _ Ha Ha' Hr Hr' Hp Hp' Hh Hh' E).
Qed.
Theorem vote_pre_inj v v' :
  wf_vote v -> wf_vote v' -> vote_pre v = vote_pre v' -> wv_hash v = wv_hash v' /\ wv_round v = wv_round v'.
Proof. intros [Hh [Hr _]] [Hh' [Hr' _]] E. exact (pre_vote_inj _ _ _ _ Hh Hh' Hr Hr' E). Qed.
Theorem qc_pre_inj q q' :
  wf_qc q -> wf_qc q' -> qc_pre q = qc_pre q' -> w_hash q = w_hash q' /\ w_round q = w_round q'.
Proof. intros [Hh [Hr _]] [Hh' [Hr' _]] E. exact (pre_vote_inj _ _ _ _ Hh Hh' Hr Hr' E). Qed.
Theorem timeout_pre_inj t t' :
  wf_timeout t -> wf_timeout t' -> timeout_pre t = timeout_pre t' ->
  wto_round t = wto_round t' /\ w_round (wto_high_qc t) = w_round (wto_high_qc t').
Proof.
  intros [[_ [Hq _]] [Hr _]] [[_ [Hq' _]] [Hr' _]] E. exact (pre_timeout_inj _ _ _ _ Hr Hr' Hq Hq' E).
Qed.
(* a vote and the QC made of it sign the same bytes; a timeout and its TC entry too *)
Theorem vote_qc_same_pre v vs : qc_pre (mkWQC (wv_hash v) (wv_round v) vs) = vote_pre v.
Proof. reflexivity. Qed.
Theorem timeout_tc_same_pre t vs k s :
  In (k, s, w_round (wto_high_qc t)) vs -> In (timeout_pre t) (tc_pres (mkWTC (wto_round t) vs)).
Proof. intros H. unfold tc_pres. apply in_map_iff. exists (k, s, w_round (wto_high_qc t)). split; [reflexivity|exact H]. Qed.

(* kinds at record level: a block, a vote/QC and a timeout never hash the same bytes *)
Theorem record_pre_kinds_disjoint b v q t :
  wf_block b -> wf_vote v -> wf_qc q ->
  block_pre b <> vote_pre v /\ block_pre b <> qc_pre q /\ block_pre b <> timeout_pre t /\
  vote_pre v <> timeout_pre t /\ qc_pre q <> timeout_pre t.
Proof.
  intros [[Hh _] [_ [[Ha _] [_ [[Hp _] _]]]]] [Hv _] [Hq _].
  unfold block_pre, vote_pre, qc_pre, timeout_pre.
  pose proof (pre_kinds_disjoint (wb_author b) (wb_round b) (wb_payload b) (w_hash (wb_qc b)) (wv_hash v) (wv_round v)
                (wto_round t) (w_round (wto_high_qc t)) Ha Hp Hh Hv) as [A [B C]].
  pose proof (pre_kinds_disjoint (wb_author b) (wb_round b) (wb_payload b) (w_hash (wb_qc b)) (w_hash q) (w_round q)
                (wto_round t) (w_round (wto_high_qc t)) Ha Hp Hh Hq) as [A' [_ C']].
  repeat split; assumption.
Qed.

(* C20 corollary: whatever is computed from a message (its digest pre-images in particular, hence its digest
   and the outcome of `verify`) is the same before and after a wire or store round trip *)
Theorem wire_preserves {X} (f : WCMsg -> X) exact m rest :
  wf_cmsg m -> match decode_cmsg exact (w_enc_cmsg m ++ rest) with Ok m' => f m' = f m | _ => False end.
Proof. intros W. rewrite (decode_cmsg_rt exact m rest W). reflexivity. Qed.
Theorem wire_preserves_pres exact m rest :
  wf_cmsg m -> match decode_cmsg exact (w_enc_cmsg m ++ rest) with Ok m' => cmsg_pres m' = cmsg_pres m | _ => False end.
Proof. apply wire_preserves. Qed.
Theorem store_preserves_block_pre exact b :
  wf_block b -> match decode_block exact (w_enc_block b) with Ok b' => block_pre b' = block_pre b | _ => False end.
Proof. intros W. rewrite <- (app_nil_r (w_enc_block b)), (decode_block_rt exact b [] W). reflexivity. Qed.

(* encoders are injective on well-formed messages (two different messages never share a wire image) *)
Theorem enc_cmsg_inj m m' : wf_cmsg m -> wf_cmsg m' -> w_enc_cmsg m = w_enc_cmsg m' -> m = m'.
Proof.
  intros W W' E. pose proof (decode_cmsg_rt true m [] W) as R. rewrite E, (decode_cmsg_rt true m' [] W') in R.
  inversion R. reflexivity.
Qed.
Theorem enc_mmsg_inj m m' : wf_mmsg m -> wf_mmsg m' -> w_enc_mmsg m = w_enc_mmsg m' -> m = m'.
Proof.
  intros W W' E. pose proof (decode_mmsg_rt true m [] W) as R. rewrite E, (decode_mmsg_rt true m' [] W') in R.
  inversion R. reflexivity.
Qed.

Print Assumptions d_rep_fuel.
Print Assumptions list_fuel_adequate.
Print Assumptions drt_cmsg.
Print Assumptions drt_mmsg.
Print Assumptions decode_cmsg_rt.
Print Assumptions decode_mmsg_rt.
Print Assumptions decode_block_rt.
Print Assumptions decode_cmsg_exact_no_panic.
Print Assumptions decode_mmsg_exact_no_panic.
Print Assumptions decode_slice_panic_witness.
Print Assumptions pre_kinds_disjoint.
Print Assumptions record_pre_kinds_disjoint.
Print Assumptions block_pre_inj.
Print Assumptions enc_cmsg_inj.
