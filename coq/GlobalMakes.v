(* C09 (iv) at the global level: no honest node ever requests two proposals for one round. *)
From Coq Require Import List NArith Lia Bool Sorted ZifyN ZifyBool.
From HS Require Import GTac Node Proto Link NodeInv NodeLog NodeMakes Global.
Import ListNotations.
Open Scope N_scope.

Section GlobalMakes.
  Variable c : Committee.
  Variable honest : N -> bool.
  Hypothesis members_nodup : NoDup (members c).
  Hypothesis byz_bound : 3 * byz_stake (stk c) (members c) honest < total (stk c) (members c).

  (* as Global.gstep, with the main loop's "boot once, before anything else" made explicit *)
  Inductive gstepB : gstate -> gstate -> Prop :=
  | GStepB g a hint e :
      honest a = true -> msg_adm honest (gw g) e -> (e = EvBoot -> s_makes (g a) = []) ->
      gstepB g (gupd g a (fst (fst (step c a src_dq hint e (g a))))).
  Inductive greachB : gstate -> Prop :=
  | greachB_init : greachB (fun _ => init c)
  | greachB_step g g' : greachB g -> gstepB g g' -> greachB g'.

  Lemma greachB_greach g : greachB g -> greach c honest g.
  Proof.
    induction 1 as [|g g' Hr IH Hs]; [constructor|].
    inversion Hs; subst. eapply greach_step; [exact IH|]. constructor; auto.
  Qed.

  Theorem c09_no_equivocation g a :
    greachB g -> honest a = true -> StronglySorted N.gt (s_makes (g a)).
  Proof.
    intros Hr Ha.
    assert (G : forall a, honest a = true -> MkInv (g a)).
    { clear a Ha. induction Hr as [|g g' Hr IH Hs]; intros a Ha.
      - split; [constructor|intros r []].
      - inversion Hs as [g0 b hint e Hb Hadm Hboot]; subst. unfold gupd. destruct (N.eqb_spec a b) as [->|Hne]; [|apply IH; exact Ha].
        pose proof (step_mk c b honest members_nodup Hb (gw g) byz_bound hint e (g b)
                      (greach_inv c honest members_nodup byz_bound g (greachB_greach g Hr) b Hb) (IH b Hb)
                      (msg_adm_ev_adm c honest members_nodup g b e Hadm) Hboot) as S.
        unfold st in S. exact S. }
    apply (G a Ha).
  Qed.
End GlobalMakes.
Check c09_no_equivocation.
Print Assumptions c09_no_equivocation.
