(* Scratch prototype: abstract 2-chain HotStuff (Jolteon / DiemBFT v4 rules as implemented
   in consensus/src/core.rs) safety at the protocol level.  *)
From Coq Require Import List NArith Lia Bool.
From HS Require Import GTac Node.
Import ListNotations.
Open Scope N_scope.

Definition is_blk d := match d with DBlk _ _ _ _ => True | _ => False end.

Inductive ext : digest -> digest -> Prop :=
| ext_refl d : ext d d
| ext_step d a r pl p : ext d p -> ext d (DBlk a r pl p).

Lemma ext_trans a b c : ext a b -> ext b c -> ext a c.
Proof. intros Hab Hbc. induction Hbc; auto using ext_step. Qed.

Lemma ext_total a b d : ext a d -> ext b d -> ext a b \/ ext b a.
Proof.
  intros Ha. revert b. induction Ha as [d | d x r pl p Ha IH]; intros b Hb.
  - right. exact Hb.
  - inversion Hb; subst.
    + left. apply ext_step. exact Ha.
    + apply IH. assumption.
Qed.

Lemma ext_parent d0 d : is_blk d -> ext d0 (dparent d) -> ext d0 d.
Proof. destruct d; simpl; try tauto. intros _ H. apply ext_step. exact H. Qed.

(* ---------- weighted quorums ---------- *)
Fixpoint wsum (stake : N -> N) (l : list N) : N :=
  match l with [] => 0 | x :: xs => stake x + wsum stake xs end.

Lemma wsum_app st l1 l2 : wsum st (l1 ++ l2) = wsum st l1 + wsum st l2.
Proof. induction l1; simpl; lia. Qed.

Lemma wsum_filter_split st (f : N -> bool) l :
  wsum st l = wsum st (filter f l) + wsum st (filter (fun x => negb (f x)) l).
Proof. induction l as [|x xs IH]; simpl; [lia|]. destruct (f x); simpl; lia. Qed.

Lemma wsum_incl_nodup st l m :
  NoDup l -> incl l m -> wsum st l <= wsum st m.
Proof.
  revert m. induction l as [|x xs IH]; intros m Hnd Hin; simpl; [lia|].
  inversion Hnd; subst.
  assert (Hx : In x m) by (apply Hin; left; reflexivity).
  apply in_split in Hx. destruct Hx as [m1 [m2 ->]].
  rewrite wsum_app. simpl.
  assert (Hle : wsum st xs <= wsum st (m1 ++ m2)).
  { apply IH; auto. intros y Hy.
    assert (In y (m1 ++ x :: m2)) by (apply Hin; right; exact Hy).
    apply in_app_or in H. apply in_or_app. destruct H as [H|[H|H]]; auto.
    subst. contradiction. }
  rewrite wsum_app in Hle. lia.
Qed.


Lemma NoDup_app_intro {A} (l1 l2 : list A) :
  NoDup l1 -> NoDup l2 -> (forall x, In x l1 -> ~ In x l2) -> NoDup (l1 ++ l2).
Proof.
  induction l1 as [|x xs IH]; simpl; intros H1 H2 Hd; [exact H2|].
  inversion H1; subst. constructor.
  - intro Hin. apply in_app_or in Hin. destruct Hin as [Hin|Hin]; [contradiction|].
    apply (Hd x); auto.
  - apply IH; auto.
Qed.

Section Proto.
  Variable stake : N -> N.
  Variable members : list N.
  Variable honest : N -> bool.
  Hypothesis members_nodup : NoDup members.

  Definition total := wsum stake members.
  Definition quorum := 2 * total / 3 + 1.
  Definition byz_stake := wsum stake (filter (fun x => negb (honest x)) members).
  Hypothesis byz_bound : 3 * byz_stake < total.

  Lemma quorum_arith : total + byz_stake < 2 * quorum.
  Proof.
    unfold quorum. generalize byz_bound. generalize total byz_stake. intros t b Hb.
    assert (H := N.div_mod (2 * t) 3). assert (H3 : 3 <> 0) by lia. specialize (H H3).
    assert (Hm := N.mod_lt (2 * t) 3 H3). lia.
  Qed.

  (* Two quorums intersect in an honest member. *)
  Lemma quorum_intersect l1 l2 :
    NoDup l1 -> NoDup l2 -> incl l1 members -> incl l2 members ->
    quorum <= wsum stake l1 -> quorum <= wsum stake l2 ->
    exists x, In x l1 /\ In x l2 /\ honest x = true.
  Proof.
    intros N1 N2 I1 I2 Q1 Q2.
    destruct (existsb (fun x => honest x && existsb (N.eqb x) l2) l1) eqn:E.
    - apply existsb_exists in E. destruct E as [x [Hx Hb]].
      apply andb_true_iff in Hb. destruct Hb as [Hh Hb].
      apply existsb_exists in Hb. destruct Hb as [y [Hy Hxy]].
      apply N.eqb_eq in Hxy. subst y. exists x. auto.
    - exfalso.
      set (inl2 := fun x => existsb (N.eqb x) l2).
      assert (Hsplit1 := wsum_filter_split stake inl2 l1).
      assert (Hb : wsum stake (filter inl2 l1) <= byz_stake).
      { unfold byz_stake. apply wsum_incl_nodup.
        - apply NoDup_filter. exact N1.
        - intros x Hx. apply filter_In in Hx. destruct Hx as [Hx1 Hx2].
          apply filter_In. split; [apply I1; exact Hx1|].
          destruct (honest x) eqn:Hh; [|reflexivity].
          exfalso.
          assert (existsb (fun x => honest x && existsb (N.eqb x) l2) l1 = true).
          { apply existsb_exists. exists x. split; [exact Hx1|]. rewrite Hh. exact Hx2. }
          congruence. }
      assert (Hu : wsum stake (filter (fun x => negb (inl2 x)) l1 ++ l2) <= total).
      { unfold total. apply wsum_incl_nodup.
        - apply NoDup_app_intro; auto.
          + apply NoDup_filter. exact N1.
          + intros x Hx Hx2. apply filter_In in Hx. destruct Hx as [_ Hx].
            unfold inl2 in Hx. apply negb_true_iff in Hx.
            assert (existsb (N.eqb x) l2 = true).
            { apply existsb_exists. exists x. split; auto. apply N.eqb_refl. }
            congruence.
        - intros x Hx. apply in_app_or in Hx. destruct Hx as [Hx|Hx].
          + apply filter_In in Hx. apply I1. tauto.
          + apply I2. exact Hx. }
      rewrite wsum_app in Hu.
      generalize quorum_arith. lia.
  Qed.

  (* ---------- histories ---------- *)
  Definition evround e := match e with HVote d _ _ => dround d | HTimeout r _ => r end.
  Definition world := N -> list hev.   (* newest first *)

  Definition voted (w : world) (s : N) (h : digest) :=
    exists qcr j, In (HVote h qcr j) (w s).

  Definition certified (w : world) (h : digest) (r : N) :=
    exists signers, NoDup signers /\ incl signers members /\ quorum <= wsum stake signers /\
      forall s, In s signers -> honest s = true -> voted w s h /\ dround h = r.

  Definition validtc (w : world) (tcr : N) (entries : list (N * N)) :=
    NoDup (map fst entries) /\ incl (map fst entries) members /\
    quorum <= wsum stake (map fst entries) /\
    forall s hq, In (s, hq) entries -> honest s = true -> In (HTimeout tcr hq) (w s).

  Definition vote_guard (w : world) (a : N) (d : digest) (qcr : N) (j : justif) :=
    is_blk d /\
    (forall e, In e (w a) -> evround e < dround d) /\
    qcr < dround d /\
    ((dparent d = DZero /\ qcr = 0) \/ certified w (dparent d) qcr) /\
    match j with
    | JDirect => qcr + 1 = dround d
    | JTC tcr entries => validtc w tcr entries /\ tcr + 1 = dround d /\
                         forall s hq, In (s, hq) entries -> hq <= qcr
    end.

  Definition timeout_guard (w : world) (a : N) (r hqr : N) :=
    forall d qcr j, In (HVote d qcr j) (w a) -> qcr <= hqr.

  Definition upd (w : world) (a : N) (l : list hev) : world :=
    fun x => if N.eqb x a then l else w x.

  Inductive pstep : world -> world -> Prop :=
  | PVote w a d qcr j : honest a = true -> vote_guard w a d qcr j ->
      pstep w (upd w a (HVote d qcr j :: w a))
  | PTimeout w a r hqr : honest a = true -> timeout_guard w a r hqr ->
      pstep w (upd w a (HTimeout r hqr :: w a)).

  Inductive reach : world -> Prop :=
  | reach_init : reach (fun _ => [])
  | reach_step w w' : reach w -> pstep w w' -> reach w'.

  (* monotonicity *)
  Definition wle (w w' : world) := forall s e, In e (w s) -> In e (w' s).

  Lemma pstep_wle w w' : pstep w w' -> wle w w'.
  Proof.
    intros H s e He. inversion H; subst; unfold upd; destruct (N.eqb_spec s a); subst; auto;
      right; exact He.
  Qed.

  Lemma certified_mono w w' h r : wle w w' -> certified w h r -> certified w' h r.
  Proof.
    intros Hle [sg [H1 [H2 [H3 H4]]]]. exists sg. repeat split; auto.
    - destruct (H4 s H H0) as [[qcr [j Hv]] _]. exists qcr, j. apply Hle. exact Hv.
    - destruct (H4 s H H0) as [_ Hr]. exact Hr.
  Qed.

  Lemma validtc_mono w w' r es : wle w w' -> validtc w r es -> validtc w' r es.
  Proof.
    intros Hle [H1 [H2 [H3 H4]]]. repeat split; auto.
  Qed.

  (* ---------- the per-world invariant ---------- *)
  (* history of each honest authority is "well guarded": every event satisfied its guard in
     some earlier (smaller) world, and newer events dominate older ones as required. *)
  Inductive hist_ok (w : world) : list hev -> Prop :=
  | hok_nil : hist_ok w []
  | hok_vote d qcr j l :
      hist_ok w l ->
      is_blk d ->
      (forall e, In e l -> evround e < dround d) ->
      qcr < dround d ->
      ((dparent d = DZero /\ qcr = 0) \/ certified w (dparent d) qcr) ->
      match j with
      | JDirect => qcr + 1 = dround d
      | JTC tcr entries => validtc w tcr entries /\ tcr + 1 = dround d /\
                           forall s hq, In (s, hq) entries -> hq <= qcr
      end ->
      hist_ok w (HVote d qcr j :: l)
  | hok_timeout r hqr l :
      hist_ok w l ->
      (forall d qcr j, In (HVote d qcr j) l -> qcr <= hqr) ->
      hist_ok w (HTimeout r hqr :: l).

  Lemma hist_ok_mono w w' l : wle w w' -> hist_ok w l -> hist_ok w' l.
  Proof.
    intros Hle H. induction H as [| d qcr j l Hl IH Hb Hlt Hq Hc Hj | r hqr l Hl IH Hd].
    - constructor.
    - constructor; auto.
      + destruct Hc as [Hc|Hc]; [left; exact Hc|right; eapply certified_mono; eauto].
      + destruct j as [|tcr es]; auto. destruct Hj as [Ha [Hb' Hc']].
        split; [eapply validtc_mono; eauto | split; auto].
    - constructor; auto.
  Qed.

  Definition winv (w : world) := forall a, honest a = true -> hist_ok w (w a).

  Lemma reach_inv w : reach w -> winv w.
  Proof.
    induction 1 as [|w w' Hr IH Hs].
    - intros a _. constructor.
    - assert (Hle := pstep_wle _ _ Hs).
      intros b Hb. inversion Hs; subst; unfold upd; destruct (N.eqb_spec b a); subst.
      + destruct H0 as [G1 [G2 [G3 [G4 G5]]]].
        eapply hist_ok_mono; [exact Hle|].
        constructor; auto.
      + eapply hist_ok_mono; [exact Hle|]. apply IH. exact Hb.
      + eapply hist_ok_mono; [exact Hle|]. constructor; auto.
      + eapply hist_ok_mono; [exact Hle|]. apply IH. exact Hb.
  Qed.

  (* ---------- facts extracted from a well-guarded history ---------- *)
  Lemma hist_vote_unique w l d1 q1 j1 d2 q2 j2 :
    hist_ok w l -> In (HVote d1 q1 j1) l -> In (HVote d2 q2 j2) l ->
    dround d1 = dround d2 -> d1 = d2.
  Proof.
    intros H. induction H as [| d qcr j l Hl IH Hb Hlt Hq Hc Hj | r hqr l Hl IH Hd];
      intros H1 H2 Hr.
    - destruct H1.
    - destruct H1 as [H1|H1]; destruct H2 as [H2|H2].
      + congruence.
      + inversion H1; subst. specialize (Hlt _ H2). simpl in Hlt. lia.
      + inversion H2; subst. specialize (Hlt _ H1). simpl in Hlt. lia.
      + auto.
    - destruct H1 as [H1|H1]; [discriminate|]. destruct H2 as [H2|H2]; [discriminate|]. auto.
  Qed.

  Lemma hist_vote_timeout w l d qcr j r hqr :
    hist_ok w l -> In (HVote d qcr j) l -> In (HTimeout r hqr) l ->
    dround d <= r -> qcr <= hqr.
  Proof.
    intros H. induction H as [| d' qcr' j' l Hl IH Hb Hlt Hq Hc Hj | r' hqr' l Hl IH Hd];
      intros H1 H2 Hr.
    - destruct H1.
    - destruct H2 as [H2|H2]; [discriminate|].
      destruct H1 as [H1|H1].
      + inversion H1; subst. specialize (Hlt _ H2). simpl in Hlt. lia.
      + auto.
    - destruct H1 as [H1|H1]; [discriminate|].
      destruct H2 as [H2|H2].
      + inversion H2; subst. eapply Hd; eauto.
      + auto.
  Qed.

  Lemma hist_vote_facts w l d qcr j :
    hist_ok w l -> In (HVote d qcr j) l ->
    is_blk d /\ qcr < dround d /\
    ((dparent d = DZero /\ qcr = 0) \/ certified w (dparent d) qcr) /\
    match j with
    | JDirect => qcr + 1 = dround d
    | JTC tcr entries => validtc w tcr entries /\ tcr + 1 = dround d /\
                         forall s hq, In (s, hq) entries -> hq <= qcr
    end.
  Proof.
    intros H. induction H as [| d' qcr' j' l Hl IH Hb Hlt Hq Hc Hj | r' hqr' l Hl IH Hd];
      intros H1.
    - destruct H1.
    - destruct H1 as [H1|H1]; [inversion H1; subst; auto|auto].
    - destruct H1 as [H1|H1]; [discriminate|auto].
  Qed.

  (* ---------- protocol lemmas ---------- *)
  Lemma quorum_has_honest l :
    NoDup l -> incl l members -> quorum <= wsum stake l -> exists x, In x l /\ honest x = true.
  Proof.
    intros Hn Hi Hq. destruct (quorum_intersect l l Hn Hn Hi Hi Hq Hq) as [x [Hx [_ Hh]]].
    exists x. auto.
  Qed.

  Lemma certified_honest_voter w h r :
    certified w h r -> exists s, honest s = true /\ voted w s h /\ dround h = r.
  Proof.
    intros [sg [Hn [Hi [Hq Hv]]]].
    destruct (quorum_has_honest sg Hn Hi Hq) as [x [Hx Hh]].
    destruct (Hv x Hx Hh) as [Hvt Hr]. exists x. auto.
  Qed.

  Lemma certified_unique w h h' r :
    winv w -> certified w h r -> certified w h' r -> h = h'.
  Proof.
    intros Hinv [sg [Hn [Hi [Hq Hv]]]] [sg' [Hn' [Hi' [Hq' Hv']]]].
    destruct (quorum_intersect sg sg' Hn Hn' Hi Hi' Hq Hq') as [x [Hx [Hx' Hh]]].
    destruct (Hv x Hx Hh) as [[q1 [j1 H1]] Hr1].
    destruct (Hv' x Hx' Hh) as [[q2 [j2 H2]] Hr2].
    eapply hist_vote_unique; [apply (Hinv x Hh) | exact H1 | exact H2 | congruence].
  Qed.

  Lemma certified_is_blk w h r : winv w -> certified w h r -> is_blk h /\ 0 < r.
  Proof.
    intros Hinv Hc. destruct (certified_honest_voter _ _ _ Hc) as [s [Hh [[q [j Hv]] Hr]]].
    destruct (hist_vote_facts _ _ _ _ _ (Hinv s Hh) Hv) as [Hb [Hlt _]]. split; auto. lia.
  Qed.

  (* The 2-chain lock lemma. *)
  Lemma two_chain_lock w d0 d1 r0 :
    winv w ->
    certified w d0 r0 ->
    is_blk d1 -> dparent d1 = d0 -> certified w d1 (r0 + 1) ->
    forall r d, r0 <= r -> certified w d r -> ext d0 d.
  Proof.
    intros Hinv C0 B1 P1 C1 r.
    induction r as [r IH] using (well_founded_induction N.lt_wf_0).
    intros d Hr Cd.
    destruct (N.eq_dec r r0) as [->|Hne0].
    { rewrite (certified_unique _ _ _ _ Hinv C0 Cd). constructor. }
    destruct (N.eq_dec r (r0 + 1)) as [->|Hne1].
    { rewrite <- (certified_unique _ _ _ _ Hinv C1 Cd). apply ext_parent; auto.
      rewrite P1. constructor. }
    (* r > r0 + 1 : look at one honest voter of d *)
    destruct (certified_honest_voter _ _ _ Cd) as [s [Hh [[qcr [j Hv]] Hrd]]].
    destruct (hist_vote_facts _ _ _ _ _ (Hinv s Hh) Hv) as [Bd [Hlt [Hpar Hj]]].
    destruct (certified_is_blk _ _ _ Hinv C0) as [B0 Hr0pos].
    assert (Hqge : r0 <= qcr).
    { destruct j as [|tcr es].
      - lia.
      - destruct Hj as [Htc [Htr Hmax]].
        destruct Htc as [Tn [Ti [Tq Tv]]].
        destruct C1 as [sg1 [Hn1 [Hi1 [Hq1 Hv1]]]].
        destruct (quorum_intersect (map fst es) sg1 Tn Hn1 Ti Hi1 Tq Hq1) as [x [Hx [Hx1 Hhx]]].
        apply in_map_iff in Hx. destruct Hx as [[x' hq] [Hfst Hin]]. simpl in Hfst. subst x'.
        specialize (Tv _ _ Hin Hhx).
        destruct (Hv1 x Hx1 Hhx) as [[q1 [j1 Hvx]] Hr1].
        (* x voted d1 (round r0+1) with qc round q1; its qc certifies d0 so q1 = r0 *)
        destruct (hist_vote_facts _ _ _ _ _ (Hinv x Hhx) Hvx) as [_ [_ [Hpar1 _]]].
        assert (Hq1r0 : q1 = r0).
        { rewrite P1 in Hpar1. destruct Hpar1 as [[Hz _]|Hc1].
          - destruct d0; simpl in B0; try contradiction; discriminate.
          - destruct (certified_honest_voter _ _ _ Hc1) as [_ [_ [_ E1]]].
            destruct (certified_honest_voter _ _ _ C0) as [_ [_ [_ E0]]]. congruence. }
        assert (Hle : q1 <= hq).
        { eapply hist_vote_timeout; [apply (Hinv x Hhx) | exact Hvx | exact Tv | lia]. }
        specialize (Hmax _ _ Hin). lia. }
    assert (Cp : certified w (dparent d) qcr).
    { destruct Hpar as [[_ Hz]|Hc]; [lia|exact Hc]. }
    apply ext_parent; auto.
    apply (IH qcr); [lia | exact Hqge | exact Cp].
  Qed.

  (* Along the ancestry of a certified block everything is certified and rounds strictly increase. *)
  Lemma cert_round_eq w h r : certified w h r -> dround h = r.
  Proof. intros C. destruct (certified_honest_voter _ _ _ C) as [s [_ [_ E]]]. exact E. Qed.

  Lemma ext_zero d : ext d DZero -> d = DZero.
  Proof. intros H. inversion H. reflexivity. Qed.

  Lemma cert_ancestors w :
    winv w -> forall d' d, ext d' d -> forall r, certified w d r -> is_blk d' ->
    certified w d' (dround d') /\ dround d' <= dround d /\ (d' <> d -> dround d' < dround d).
  Proof.
    intros Hinv d' d He. induction He as [d|d' a r0 pl p He IH]; intros r C B.
    - rewrite (cert_round_eq _ _ _ C). split; [exact C|]. split; [lia|congruence].
    - destruct (certified_honest_voter _ _ _ C) as [s [Hh [[q [j Hv]] Hr]]].
      destruct (hist_vote_facts _ _ _ _ _ (Hinv s Hh) Hv) as [_ [Hlt [Hpar _]]]. simpl in Hlt, Hpar.
      destruct Hpar as [[Hz _]|Cp].
      + subst p. apply ext_zero in He. subst d'. contradiction.
      + destruct (IH q Cp B) as [A1 [A2 A3]]. rewrite (cert_round_eq _ _ _ Cp) in A2.
        split; [exact A1|]. simpl. split; [lia|intros _; lia].
  Qed.

  (* Direct commit: the 2-chain rule as checked in Core::process_block. *)
  Definition dcommit (w : world) (d0 : digest) :=
    exists d1, is_blk d1 /\ dparent d1 = d0 /\
      certified w d0 (dround d0) /\ certified w d1 (dround d0 + 1).

  Theorem agreement_direct w a0 b0 :
    reach w -> dcommit w a0 -> dcommit w b0 -> ext a0 b0 \/ ext b0 a0.
  Proof.
    intros Hr [a1 [Ba [Pa [Ca0 Ca1]]]] [b1 [Bb [Pb [Cb0 Cb1]]]].
    assert (Hinv := reach_inv _ Hr).
    destruct (N.le_ge_cases (dround a0) (dround b0)) as [Hle|Hle].
    - left. exact (two_chain_lock w a0 a1 (dround a0) Hinv Ca0 Ba Pa Ca1 (dround b0) b0 Hle Cb0).
    - right. exact (two_chain_lock w b0 b1 (dround b0) Hinv Cb0 Bb Pb Cb1 (dround a0) a0 Hle Ca0).
  Qed.

  Lemma dcommit_mono w w' d : wle w w' -> dcommit w d -> dcommit w' d.
  Proof.
    intros Hle [d1 [B1 [P1 [C0 C1]]]]. exists d1. repeat split; auto; eapply certified_mono; eauto.
  Qed.
  Theorem agreement_direct_inv w a0 b0 :
    winv w -> dcommit w a0 -> dcommit w b0 -> ext a0 b0 \/ ext b0 a0.
  Proof.
    intros Hinv [a1 [Ba [Pa [Ca0 Ca1]]]] [b1 [Bb [Pb [Cb0 Cb1]]]].
    destruct (N.le_ge_cases (dround a0) (dround b0)) as [Hle|Hle].
    - left. exact (two_chain_lock w a0 a1 (dround a0) Hinv Ca0 Ba Pa Ca1 (dround b0) b0 Hle Cb0).
    - right. exact (two_chain_lock w b0 b1 (dround b0) Hinv Cb0 Bb Pb Cb1 (dround a0) a0 Hle Ca0).
  Qed.

  (* A node's committed set is the set of ancestors of its direct commits. *)
  Definition committed (w : world) (c : digest) := exists d0, dcommit w d0 /\ ext c d0.

  Lemma committed_mono w w' d : wle w w' -> committed w d -> committed w' d.
  Proof. intros Hle [d0 [D E]]. exists d0. split; auto. eapply dcommit_mono; eauto. Qed.


  Theorem agreement w c1 c2 :
    reach w -> committed w c1 -> committed w c2 -> ext c1 c2 \/ ext c2 c1.
  Proof.
    intros Hr [d1 [D1 E1]] [d2 [D2 E2]].
    destruct (agreement_direct w d1 d2 Hr D1 D2) as [H|H].
    - eapply ext_total; [eapply ext_trans; eauto | eauto].
    - eapply ext_total; [eauto | eapply ext_trans; eauto].
  Qed.

  Theorem agreement_inv w c1 c2 :
    winv w -> committed w c1 -> committed w c2 -> ext c1 c2 \/ ext c2 c1.
  Proof.
    intros Hr [d1 [D1 E1]] [d2 [D2 E2]].
    destruct (agreement_direct_inv w d1 d2 Hr D1 D2) as [H|H].
    - eapply ext_total; [eapply ext_trans; eauto | eauto].
    - eapply ext_total; [eauto | eapply ext_trans; eauto].
  Qed.

End Proto.

Print Assumptions agreement_inv.
