(* Executable model of network/src/reliable_sender.rs `Connection` (one peer). Definitions only, no proofs:
   state, events, `step`, `run` over event lists, and the projections of a run's output that the
   correspondence check compares with the real sender (frames per connection, resolutions). The invariant
   and the C14 theorems are in Reliable.v.

   Reading guide (Rust -> model), reliable_sender.rs line numbers of the pinned tree:
   - `buffer` (l.128) = buf, `pending_replies` (l.194) = pend; a message is named by its hand-over index
     (the order in which the Connection task takes messages from its channel, which is the order of
     `ReliableSender::send` calls for this peer because the channel is FIFO).
   - `handler.is_closed()` (l.181, l.201) = membership in `cancelled` (the environment's ECancel events).
   - the send loop `while let Some(..) = self.buffer.pop_front()` (l.199-218) = `drain`: cancelled entries are
     skipped (dropped from the queue), every other entry is written and pushed at the back of pend; if the write
     fails the entry is pushed back in front of buf and the connection ends (`break 'connection`).
   - the code after the loop (l.249-251) moves pend back in front of buf: `after_drain` failed branch, EReadErr.
   - l.222-225 (message received while connected: push_back, then the send loop runs again) = ENew with up = true.
   - l.179-182 (message received while waiting to reconnect: push_back then retain(!is_closed)) = ENew with up = false.
     A message that sits in the channel while `TcpStream::connect` is in flight is taken by l.222 after the connect:
     that is the event order EConnOk; ENew.
   - l.226-243: a reply frame pops the head of pend (UnexpectedAck and down if pend is empty) and completes its
     handle (`let _ = handler.send(..)`: nothing happens if the handle was dropped) = EAck; end of stream or read
     error puts the popped head back and ends the connection = EReadErr.
   - l.150-186: connect ok = EConnOk (a fresh connection number), connect error = EConnFail (the back-off only
     delays; messages taken during the wait are ENew with up = false).
   The `f : option nat` carried by the three events that start a send loop is the index (within that loop, counting
   written frames only) of the write that fails, None if none fails. *)
From Coq Require Import List NArith Bool.
Import ListNotations.
Open Scope N_scope.
Definition memN (a : N) (l : list N) : bool := existsb (N.eqb a) l.

(* messages are named by their hand-over index *)
Record RS := mkRS {
  buf : list N;          (* `buffer`: still to (re)transmit, FIFO *)
  pend : list N;         (* `pending_replies`: written on this connection, no reply yet, FIFO *)
  up : bool;             (* inside keep_alive *)
  cancelled : list N;    (* handles dropped by the caller (environment) *)
  next : N;              (* next hand-over index *)
  conn : N               (* number of the current / last connection *)
}.

Inductive ev :=
| ENew (f : option nat)      (* a message arrives on the channel; f: the write that fails in the following drain *)
| EConnOk (f : option nat)   (* TcpStream::connect succeeded *)
| EConnFail
| EAck (f : option nat)      (* a reply frame was read *)
| EReadErr                   (* the stream ended or errored *)
| ECancel (id : N).          (* the caller dropped a handle *)

Inductive out := OFrame (c id : N) | OResolve (id : N).

(* the `while let Some(..) = self.buffer.pop_front()` loop; returns (buf, pend, frames, failed) *)
Fixpoint drain (f : option nat) (cn : list N) (b p : list N) (fr : list N) : list N * list N * list N * bool :=
  match b with
  | [] => (b, p, fr, false)
  | x :: r =>
      if memN x cn then drain f cn r p fr                 (* handler.is_closed(): skip *)
      else match f with
           | Some O => (x :: r, p, fr, true)               (* writer.send failed: push_front, break *)
           | Some (S k) => drain (Some k) cn r (p ++ [x]) (fr ++ [x])
           | None => drain None cn r (p ++ [x]) (fr ++ [x])
           end
  end.

Definition after_drain (s : RS) (f : option nat) (b p : list N) : RS * list out :=
  match drain f (cancelled s) b p [] with
  | (b', p', fr, failed) =>
      let o := map (OFrame (conn s)) fr in
      if failed
      then (mkRS (p' ++ b') [] false (cancelled s) (next s) (conn s), o)   (* pending pushed back in front *)
      else (mkRS b' p' true (cancelled s) (next s) (conn s), o)
  end.

Definition step (s : RS) (e : ev) : RS * list out :=
  match e with
  | ENew f =>
      let id := next s in
      let s1 := mkRS (buf s) (pend s) (up s) (cancelled s) (next s + 1) (conn s) in
      if up s then after_drain s1 f (buf s ++ [id]) (pend s)
      else (mkRS (filter (fun x => negb (memN x (cancelled s))) (buf s ++ [id])) (pend s) false
                 (cancelled s) (next s + 1) (conn s), [])
  | EConnOk f =>
      if up s then (s, [])
      else after_drain (mkRS (buf s) [] true (cancelled s) (next s) (conn s + 1)) f (buf s) []
  | EConnFail => (s, [])
  | EAck f =>
      if up s then
        match pend s with
        | [] => (mkRS (buf s) [] false (cancelled s) (next s) (conn s), [])     (* UnexpectedAck *)
        | x :: r =>
            let o := if memN x (cancelled s) then [] else [OResolve x] in
            let '(s', o') := after_drain s f (buf s) r in (s', o ++ o')
        end
      else (s, [])
  | EReadErr =>
      if up s then (mkRS (pend s ++ buf s) [] false (cancelled s) (next s) (conn s), []) else (s, [])
  | ECancel id => (mkRS (buf s) (pend s) (up s) (id :: cancelled s) (next s) (conn s), [])
  end.

Definition init : RS := mkRS [] [] false [] 0 0.

Fixpoint run (s : RS) (es : list ev) : RS * list out :=
  match es with
  | [] => (s, [])
  | e :: r => let '(s1, o1) := step s e in let '(s2, o2) := run s1 r in (s2, o1 ++ o2)
  end.

(* ---------- projections of an output trace ---------- *)
(* ids of all frames written, in order, whatever the connection *)
Fixpoint frame_ids (o : list out) : list N :=
  match o with
  | [] => []
  | OFrame _ x :: r => x :: frame_ids r
  | OResolve _ :: r => frame_ids r
  end.
(* ids of the frames written on connection c, in order *)
Fixpoint frames_on (c : N) (o : list out) : list N :=
  match o with
  | [] => []
  | OFrame c' x :: r => if c' =? c then x :: frames_on c r else frames_on c r
  | OResolve _ :: r => frames_on c r
  end.
(* handles resolved, in order *)
Fixpoint resolves (o : list out) : list N :=
  match o with
  | [] => []
  | OFrame _ _ :: r => resolves r
  | OResolve x :: r => x :: resolves r
  end.
(* frames of connections 1..n *)
Definition conn_frames (o : list out) (n : N) : list (list N) :=
  map (fun c => frames_on (N.of_nat c) o) (seq 1 (N.to_nat n)).
(* what an observer of the sockets and of the handles sees of a run *)
Definition run_obs (es : list ev) : list (list N) * list N :=
  let '(s, o) := run init es in (conn_frames o (conn s), resolves o).

(* first occurrences, in order (first transmissions) *)
Fixpoint firsts_acc (seen l : list N) : list N :=
  match l with
  | [] => []
  | x :: r => if memN x seen then firsts_acc seen r else x :: firsts_acc (x :: seen) r
  end.
Definition firsts (l : list N) : list N := firsts_acc [] l.

(* the reply consumed by an event: (connection, id at the head of pend, handle completed?) *)
Definition ack_of (s : RS) (e : ev) : list (N * N * bool) :=
  match e with
  | EAck _ => if up s then match pend s with
                           | x :: _ => [(conn s, x, negb (memN x (cancelled s)))]
                           | [] => []
                           end
              else []
  | _ => []
  end.
Fixpoint run_acks (s : RS) (es : list ev) : list (N * N * bool) :=
  match es with
  | [] => []
  | e :: r => ack_of s e ++ run_acks (fst (step s e)) r
  end.
Definition acked_on (c : N) (k : list (N * N * bool)) : list N :=
  map (fun a => snd (fst a)) (filter (fun a => fst (fst a) =? c) k).
Definition acked_resolved (k : list (N * N * bool)) : list N :=
  map (fun a => snd (fst a)) (filter (fun a => snd a) k).
