(* Correspondence for the Store (C16). *)
From Coq Require Import List NArith Bool.
From HS Require Import StoreDefs CorrComp.
Import ListNotations.
Open Scope N_scope.

Definition sout_eqb (a b : sout) : bool :=
  match a, b with
  | ORead i (Some v), ORead j (Some w) => (i =? j) && (v =? w)
  | ORead i None, ORead j None => i =? j
  | ONotify i v, ONotify j w => (i =? j) && (v =? w)
  | _, _ => false
  end.
Fixpoint srun_ev (s : St) (cs : list cmd) : list (list sout) :=
  match cs with [] => [] | c :: r => let '(s1, o) := sstep s c in o :: srun_ev s1 r end.
(* monitor on the observation alone: every read returns the latest earlier write of that key *)
Fixpoint reads_ok (hist : list cmd) (cs : list cmd) (obs : list (list sout)) : bool :=
  match cs, obs with
  | c :: r, o :: ro =>
      (match c with
       | Read k id => match o with [ORead id' v] => (id =? id') && match v, spec_map hist k with Some a, Some b => a =? b | None, None => true | _, _ => false end | _ => false end
       | _ => true
       end) && reads_ok (hist ++ [c]) r ro
  | _, _ => true
  end.
(* monitor on the observation alone: every notify-read that was not abandoned and whose key is written later (before any
   reopen) completes -- at issue time if the key was present, else at the first later write of its key -- with that value *)
Fixpoint notified (id : N) (obs : list (list sout)) : bool :=
  match obs with [] => false | o :: r => existsb (fun x => match x with ONotify i _ => i =? id | _ => false end) o || notified id r end.
Fixpoint cancelled_or_reopened (id : N) (cs : list cmd) : bool :=
  match cs with [] => false | Cancel i :: r => (i =? id) || cancelled_or_reopened id r | Reopen :: _ => true | _ :: r => cancelled_or_reopened id r end.
(* does a later write of key k happen before this waiter is cancelled / the store reopened? *)
Fixpoint written_before_gone (k id : N) (cs : list cmd) : bool :=
  match cs with
  | [] => false
  | Write k' _ :: r => (k =? k') || written_before_gone k id r
  | Cancel i :: r => if i =? id then false else written_before_gone k id r
  | Reopen :: _ => false
  | _ :: r => written_before_gone k id r
  end.
Fixpoint waiters_ok (hist : list cmd) (cs : list cmd) (obs : list (list sout)) : bool :=
  match cs, obs with
  | c :: r, o :: ro =>
      (match c with
       | NotifyRead k id =>
           match spec_map hist k with
           | Some _ => notified id (o :: ro)
           | None => negb (written_before_gone k id r) || notified id ro
           end
       | _ => true
       end) && waiters_ok (hist ++ [c]) r ro
  | _, _ => true
  end.
Definition store_case (cs : list cmd) (obs : list (list sout)) : list N :=
  verdict_of [ b2n (forallb2 (forallb2 sout_eqb) (srun_ev (mkSt [] []) cs) obs); b2n (reads_ok [] cs obs); b2n (waiters_ok [] cs obs) ].
