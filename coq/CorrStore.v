(* Correspondence for the Store (C16). *)
From Coq Require Import List NArith Bool.
From HS Require Import StoreDefs CorrComp.
Import ListNotations.
Open Scope N_scope.

Definition sout_eqb (a b : sout) : bool :=
  match a, b with
  | ORead i (Some v), ORead j (Some w) => (i =? j) && (v =? w)
  | ORead i None, ORead j None => i =? j
  | ONotify i v, ONotify j w => (i =? j) && (v =? w)
  | _, _ => false
  end.
Fixpoint srun_ev (s : St) (cs : list cmd) : list (list sout) :=
  match cs with [] => [] | c :: r => let '(s1, o) := sstep s c in o :: srun_ev s1 r end.
(* monitor on the observation alone: every read returns the latest earlier write of that key *)
Fixpoint reads_ok (hist : list cmd) (cs : list cmd) (obs : list (list sout)) : bool :=
  match cs, obs with
  | c :: r, o :: ro =>
      (match c with
       | Read k id => match o with [ORead id' v] => (id =? id') && match v, spec_map hist k with Some a, Some b => a =? b | None, None => true | _, _ => false end | _ => false end
       | _ => true
       end) && reads_ok (hist ++ [c]) r ro
  | _, _ => true
  end.
Definition store_case (cs : list cmd) (obs : list (list sout)) : list N :=
  verdict_of [ b2n (forallb2 (forallb2 sout_eqb) (srun_ev (mkSt [] []) cs) obs); b2n (reads_ok [] cs obs) ].
