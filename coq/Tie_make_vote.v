(* Tie lemma for `make_vote`: the statement skeleton REGENERATED from the Rust source (GenCore.v, tools/skel.py) computes, for every
   argument and every state, exactly what the hand-written model function does (same state, same outputs, same result). *)
From Coq Require Import List NArith Bool Lia ZArith.
From Coq Require Import ZifyN ZifyBool.
From HS Require Import TieTac GenCore.
Import ListNotations.
Open Scope N_scope.

Lemma tie_make_vote c me dq hint b s : gen_make_vote c me dq hint b s = make_vote me b s.
Proof. unfold gen_make_vote, make_vote, vote_new, increase_last_voted. tie. Qed.
