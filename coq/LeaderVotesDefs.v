(* C09 (iii): the author recorded in a symbolic block digest (model definition only, no proofs). *)
From Coq Require Import NArith.
From HS Require Import GTac Node.
Open Scope N_scope.

(* a block digest is the term [DBlk author round payload parent]; other digests name no block *)
Definition dauthor (d : digest) : N := match d with DBlk a _ _ _ => a | _ => 0 end.
