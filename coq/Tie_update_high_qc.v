(* Tie lemma for `update_high_qc`: the statement skeleton REGENERATED from the Rust source (GenCore.v, tools/skel.py) computes, for every
   argument and every state, exactly what the hand-written model function does (same state, same outputs, same result). *)
From Coq Require Import List NArith Bool Lia ZArith.
From Coq Require Import ZifyN ZifyBool.
From HS Require Import TieTac GenCore.
Import ListNotations.
Open Scope N_scope.

Lemma tie_update_high_qc c me dq hint q s : gen_update_high_qc c me dq hint q s = update_high_qc q s.
Proof. unfold gen_update_high_qc, update_high_qc. tie. Qed.
