(* C16 stated directly about the REGENERATED store loop (GenStore.v): after any sequence of commands handled by the loop read off
   store/src/lib.rs, a read answers with the latest earlier write, a notify-read on a present key is served at once with that value,
   a notify-read on an absent key is parked silently, and the next write of that key serves it. *)
From Coq Require Import List NArith Bool Lia.
From HS Require Import StoreDefs Store StoreSkel GenStore Tie_store_step.
Import ListNotations.
Open Scope N_scope.

Definition c_init : CSt := mkC [] [].
Definition s_init : St := mkSt [] [].

Lemma sinv_init : SInv [] s_init.
Proof. split; [intros k; reflexivity|intros k id []]. Qed.

Lemma srun_inv cs : forall hist s, SInv hist s -> SInv (hist ++ cs) (fst (srun s cs)).
Proof.
  induction cs as [|c r IH]; intros hist s HI; cbn [srun].
  - rewrite app_nil_r. exact HI.
  - pose proof (sstep_refines hist s c HI) as H. destruct (sstep s c) as [s1 o1]. destruct H as [HI1 _].
    specialize (IH _ _ HI1). destruct (srun s1 r) as [s2 o2]. cbn [fst] in *.
    replace (hist ++ c :: r) with ((hist ++ [c]) ++ r) by (rewrite <- app_assoc; reflexivity). exact IH.
Qed.

(* the state the regenerated loop is in after handling cs, and the model state it is related to *)
Definition c_after (cs : list ccmd) : CSt := fst (gen_store_run cs c_init).
Definition s_after (cs : list ccmd) : St := fst (srun s_init (map to_cmd cs)).

Lemma after_related cs : SR (c_after cs) (s_after cs) /\ SInv (map to_cmd cs) (s_after cs).
Proof.
  split.
  - apply (tie_store_run cs c_init s_init sr_init).
  - apply (srun_inv (map to_cmd cs) [] s_init sinv_init).
Qed.

Theorem c16_gen_read cs k id :
  snd (gen_store_step (CRead k id) (c_after cs)) = [ORead id (spec_map (map to_cmd cs) k)].
Proof.
  destruct (after_related cs) as [HR HI].
  pose proof (tie_store_step (CRead k id) _ _ HR) as HT.
  pose proof (sstep_refines _ _ (Read k id) HI) as HS.
  destruct (gen_store_step (CRead k id) (c_after cs)) as [[u c'] o]. cbn [to_cmd] in HT.
  destruct (sstep (s_after cs) (Read k id)) as [s' o']. destruct HT as [-> _]. destruct HS as [_ ->]. reflexivity.
Qed.

Theorem c16_gen_notify cs k id :
  snd (gen_store_step (CNotifyRead k id) (c_after cs)) =
  match spec_map (map to_cmd cs) k with Some v => [ONotify id v] | None => [] end.
Proof.
  destruct (after_related cs) as [HR HI].
  pose proof (tie_store_step (CNotifyRead k id) _ _ HR) as HT.
  pose proof (sstep_refines _ _ (NotifyRead k id) HI) as HS.
  destruct (gen_store_step (CNotifyRead k id) (c_after cs)) as [[u c'] o]. cbn [to_cmd] in HT.
  destruct (sstep (s_after cs) (NotifyRead k id)) as [s' o']. destruct HT as [-> _]. destruct HS as [_ HS].
  cbn [snd]. destruct (spec_map (map to_cmd cs) k); [exact HS|exact (proj1 HS)].
Qed.

(* a parked notify-read is served by the very next write of its key, with the written value, whatever else is handled in between on other keys
   (stated for the adjacent case; the general case is sstep_refines' FIFO clause through tie_store_run) *)
Theorem c16_gen_parked_then_written cs k id v :
  spec_map (map to_cmd cs) k = None ->
  In (ONotify id v) (snd (gen_store_step (CWrite k v) (c_after (cs ++ [CNotifyRead k id])))).
Proof.
  intros Hn.
  destruct (after_related (cs ++ [CNotifyRead k id])) as [HR HI].
  pose proof (tie_store_step (CWrite k v) _ _ HR) as HT.
  destruct (gen_store_step (CWrite k v) (c_after (cs ++ [CNotifyRead k id]))) as [[u c'] o]. cbn [to_cmd sstep] in HT.
  destruct HT as [-> _]. cbn [snd].
  (* the model state after cs ++ [NotifyRead k id] has (k,id) among its waiters *)
  assert (Hin : In (k, id) (obl (s_after (cs ++ [CNotifyRead k id])))).
  { unfold s_after. rewrite map_app. cbn [map to_cmd].
    destruct (after_related cs) as [_ HIc]. fold (s_after cs) in *.
    pose proof (sstep_refines _ _ (NotifyRead k id) HIc) as HS.
    assert (Hrun : forall s l c, fst (srun s (l ++ [c])) = fst (sstep (fst (srun s l)) c)).
    { intros s l. revert s. induction l as [|x l IHl]; intros s c0; cbn [app srun fst].
      - destruct (sstep s c0) as [s1 o1]. reflexivity.
      - destruct (sstep s x) as [s1 o1]. specialize (IHl s1 c0).
        destruct (srun s1 (l ++ [c0])) as [s2 o2]. destruct (srun s1 l) as [s3 o3]. cbn [fst] in *. exact IHl. }
    rewrite Hrun. fold (s_after cs).
    destruct (sstep (s_after cs) (NotifyRead k id)) as [s' o']. destruct HS as [_ HS]. rewrite Hn in HS. cbn [fst]. exact (proj2 HS). }
  apply in_map_iff. exists (k, id). split; [reflexivity|].
  apply filter_In. split; [exact Hin|]. cbn [fst]. apply N.eqb_refl.
Qed.

Example c16_gen_example :
  snd (gen_store_run [CNotifyRead 1 7; CRead 1 8; CWrite 2 5; CWrite 1 9; CNotifyRead 1 10; CRead 1 11] c_init)
  = [ORead 8 None; ONotify 7 9; ONotify 10 9; ORead 11 (Some 9)].
Proof. vm_compute. reflexivity. Qed.
