(* C15, consensus-core part: along every reachable global state no honest node's step panics. *)
From Coq Require Import List NArith Lia Bool ZifyN ZifyBool.
From HS Require Import GTac Node Proto Link NodeInv NodeLog NodePanic Global.
Import ListNotations.
Open Scope N_scope.

Section GlobalPanic.
  Variable c : Committee.
  Variable honest : N -> bool.
  Hypothesis members_nodup : NoDup (members c).
  Hypothesis byz_bound : 3 * byz_stake (stk c) (members c) honest < total (stk c) (members c).

  Definition GClosed (g : gstate) : Prop := forall a, honest a = true -> Closed (g a).

  Lemma gstep_closed g g' : GInv c honest g -> GClosed g -> gstep c honest g g' -> GClosed g'.
  Proof.
    intros HG HC Hs. inversion Hs as [g0 a hint e Ha Hadm]; subst.
    pose proof (step_np c a honest members_nodup Ha (gw g) byz_bound hint e (g a) (HG a Ha) (HC a Ha)
                  (msg_adm_ev_adm c honest members_nodup g a e Hadm)) as S.
    destruct (step c a src_dq hint e (g a)) as [[s' o] r]. simpl. destruct S as [_ Hc'].
    intros b Hb. unfold gupd. destruct (N.eqb_spec b a) as [->|Hne]; [exact Hc'|exact (HC b Hb)].
  Qed.

  Lemma greach_closed g : greach c honest g -> GClosed g.
  Proof.
    induction 1 as [|g g' Hr IH Hs].
    - intros a Ha d b [].
    - eapply gstep_closed; eauto. apply (greach_inv c honest members_nodup byz_bound). exact Hr.
  Qed.

  Theorem c15_core_no_panic g a hint e k :
    greach c honest g -> honest a = true -> msg_adm honest (gw g) e ->
    snd (step c a src_dq hint e (g a)) <> RPanic k.
  Proof.
    intros Hr Ha Hadm.
    pose proof (step_np c a honest members_nodup Ha (gw g) byz_bound hint e (g a)
                  (greach_inv c honest members_nodup byz_bound g Hr a Ha) (greach_closed g Hr a Ha)
                  (msg_adm_ev_adm c honest members_nodup g a e Hadm)) as S.
    destruct (step c a src_dq hint e (g a)) as [[s' o] r]. simpl. destruct S as [N _]. apply N.
  Qed.
End GlobalPanic.
Check c15_core_no_panic.
Print Assumptions c15_core_no_panic.
