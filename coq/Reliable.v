(* Model of network/src/reliable_sender.rs `Connection` (one peer) and its safety properties (C14). *)
From Coq Require Import List NArith Lia Bool Sorted ZifyN ZifyBool.
Import ListNotations.
Open Scope N_scope.

Definition memN (a : N) (l : list N) : bool := existsb (N.eqb a) l.
Lemma memN_in a l : memN a l = true <-> In a l.
Proof.
  unfold memN. rewrite existsb_exists. split.
  - intros [x [Hx E]]. apply N.eqb_eq in E. subst. exact Hx.
  - intros H. exists a. split; auto. apply N.eqb_refl.
Qed.

(* messages are named by their hand-over index *)
Record RS := mkRS {
  buf : list N;          (* `buffer`: still to (re)transmit, FIFO *)
  pend : list N;         (* `pending_replies`: written on this connection, no reply yet, FIFO *)
  up : bool;             (* inside keep_alive *)
  cancelled : list N;    (* handles dropped by the caller (environment) *)
  next : N;              (* next hand-over index *)
  conn : N               (* number of the current / last connection *)
}.

Inductive ev :=
| ENew (f : option nat)      (* a message arrives on the channel; f: the write that fails in the following drain *)
| EConnOk (f : option nat)   (* TcpStream::connect succeeded *)
| EConnFail
| EAck (f : option nat)      (* a reply frame was read *)
| EReadErr                   (* the stream ended or errored *)
| ECancel (id : N).          (* the caller dropped a handle *)

Inductive out := OFrame (c id : N) | OResolve (id : N).

(* the `while let Some(..) = self.buffer.pop_front()` loop; returns (buf, pend, frames, failed) *)
Fixpoint drain (f : option nat) (cn : list N) (b p : list N) (fr : list N) : list N * list N * list N * bool :=
  match b with
  | [] => (b, p, fr, false)
  | x :: r =>
      if memN x cn then drain f cn r p fr                 (* handler.is_closed(): skip *)
      else match f with
           | Some O => (x :: r, p, fr, true)               (* writer.send failed: push_front, break *)
           | Some (S k) => drain (Some k) cn r (p ++ [x]) (fr ++ [x])
           | None => drain None cn r (p ++ [x]) (fr ++ [x])
           end
  end.

Definition after_drain (s : RS) (f : option nat) (b p : list N) : RS * list out :=
  match drain f (cancelled s) b p [] with
  | (b', p', fr, failed) =>
      let o := map (OFrame (conn s)) fr in
      if failed
      then (mkRS (p' ++ b') [] false (cancelled s) (next s) (conn s), o)   (* pending pushed back in front *)
      else (mkRS b' p' true (cancelled s) (next s) (conn s), o)
  end.

Definition step (s : RS) (e : ev) : RS * list out :=
  match e with
  | ENew f =>
      let id := next s in
      let s1 := mkRS (buf s) (pend s) (up s) (cancelled s) (next s + 1) (conn s) in
      if up s then after_drain s1 f (buf s ++ [id]) (pend s)
      else (mkRS (filter (fun x => negb (memN x (cancelled s))) (buf s ++ [id])) (pend s) false
                 (cancelled s) (next s + 1) (conn s), [])
  | EConnOk f =>
      if up s then (s, [])
      else after_drain (mkRS (buf s) [] true (cancelled s) (next s) (conn s + 1)) f (buf s) []
  | EConnFail => (s, [])
  | EAck f =>
      if up s then
        match pend s with
        | [] => (mkRS (buf s) [] false (cancelled s) (next s) (conn s), [])     (* UnexpectedAck *)
        | x :: r =>
            let o := if memN x (cancelled s) then [] else [OResolve x] in
            let '(s', o') := after_drain s f (buf s) r in (s', o ++ o')
        end
      else (s, [])
  | EReadErr =>
      if up s then (mkRS (pend s ++ buf s) [] false (cancelled s) (next s) (conn s), []) else (s, [])
  | ECancel id => (mkRS (buf s) (pend s) (up s) (id :: cancelled s) (next s) (conn s), [])
  end.

Definition init : RS := mkRS [] [] false [] 0 0.

Fixpoint run (s : RS) (es : list ev) : RS * list out :=
  match es with
  | [] => (s, [])
  | e :: r => let '(s1, o1) := step s e in let '(s2, o2) := run s1 r in (s2, o1 ++ o2)
  end.

(* ---------- invariant: pend ++ buf is the hand-over order restricted to what is still owed ---------- *)
Definition Inv (s : RS) : Prop :=
  StronglySorted N.lt (pend s ++ buf s) /\ (forall x, In x (pend s ++ buf s) -> x < next s) /\
  (up s = false -> pend s = []).

Lemma sorted_app_inv (l1 l2 : list N) : StronglySorted N.lt (l1 ++ l2) ->
  StronglySorted N.lt l1 /\ StronglySorted N.lt l2 /\ (forall x y, In x l1 -> In y l2 -> x < y).
Proof.
  induction l1 as [|a l1 IH]; simpl; intros H.
  - split; [constructor|]. split; [exact H|]. intros x y [].
  - inversion H; subst. destruct (IH H2) as [A [B C]]. split; [|split; [exact B|]].
    + constructor; [exact A|]. rewrite Forall_forall in *. intros x Hx. apply H3. apply in_or_app. left. exact Hx.
    + intros x y [<-|Hx] Hy; [|apply C; auto]. rewrite Forall_forall in H3. apply H3. apply in_or_app. right. exact Hy.
Qed.

Lemma sorted_app_intro (l1 l2 : list N) :
  StronglySorted N.lt l1 -> StronglySorted N.lt l2 -> (forall x y, In x l1 -> In y l2 -> x < y) ->
  StronglySorted N.lt (l1 ++ l2).
Proof.
  induction l1 as [|a l1 IH]; simpl; intros H1 H2 H; [exact H2|].
  inversion H1; subst. constructor.
  - apply IH; auto.
  - rewrite Forall_forall in *. intros x Hx. apply in_app_or in Hx. destruct Hx as [Hx|Hx]; auto.
Qed.

Lemma sorted_sub (l l' : list N) :
  StronglySorted N.lt l -> (exists f, l' = filter f l) -> StronglySorted N.lt l'.
Proof.
  intros H [f ->]. induction H as [|a l H IH Hall]; simpl; [constructor|].
  destruct (f a); [|exact IH]. constructor; [exact IH|].
  rewrite Forall_forall in *. intros x Hx. apply filter_In in Hx. apply Hall. tauto.
Qed.

(* l' is l with some cancelled elements removed *)
Inductive subrm (cn : list N) : list N -> list N -> Prop :=
| subrm_nil : subrm cn [] []
| subrm_keep x l l' : subrm cn l l' -> subrm cn (x :: l) (x :: l')
| subrm_drop x l l' : In x cn -> subrm cn l l' -> subrm cn (x :: l) l'.

Lemma subrm_refl cn l : subrm cn l l.
Proof. induction l; constructor; auto. Qed.
Lemma subrm_in cn l l' x : subrm cn l l' -> In x l' -> In x l.
Proof. induction 1; simpl; intros Hx; auto. destruct Hx as [<-|Hx]; auto. Qed.
Lemma subrm_keepall cn l l' x : subrm cn l l' -> In x l -> ~ In x cn -> In x l'.
Proof.
  induction 1; simpl; intros Hx Hn; auto.
  - destruct Hx as [<-|Hx]; auto.
  - destruct Hx as [<-|Hx]; [contradiction|auto].
Qed.
Lemma subrm_sorted cn l l' : subrm cn l l' -> StronglySorted N.lt l -> StronglySorted N.lt l'.
Proof.
  induction 1; intros Hs; auto.
  - inversion Hs; subst. constructor; auto. rewrite Forall_forall in *. intros y Hy. apply H3. eapply subrm_in; eauto.
  - inversion Hs; subst. auto.
Qed.
Lemma subrm_app_l cn p l l' : subrm cn l l' -> subrm cn (p ++ l) (p ++ l').
Proof. induction p; simpl; auto. intros. constructor. auto. Qed.
Lemma subrm_trans cn a b d : subrm cn a b -> subrm cn b d -> subrm cn a d.
Proof.
  intros H. revert d. induction H; intros d Hd; auto.
  - inversion Hd; subst; [constructor; auto|apply subrm_drop; auto].
  - apply subrm_drop; auto.
Qed.
Lemma subrm_mono cn cn' l l' : (forall x, In x cn -> In x cn') -> subrm cn l l' -> subrm cn' l l'.
Proof. intros H. induction 1; constructor; auto. Qed.

(* what the drain does to the two queues, as a whole *)
Lemma drain_spec cn : forall b f p fr b' p' fr' failed,
  drain f cn b p fr = (b', p', fr', failed) ->
  exists sent,
    p' = p ++ sent /\ fr' = fr ++ sent /\ (forall x, In x sent -> ~ In x cn) /\
    subrm cn (p ++ b) (p' ++ b') /\ (failed = false -> b' = []).
Proof.
  induction b as [|x r IH]; intros f p fr b' p' fr' failed H; simpl in H.
  - inversion H; subst. exists []. rewrite !app_nil_r. repeat split; try tauto. apply subrm_refl.
  - destruct (memN x cn) eqn:Em.
    + apply IH in H. destruct H as [sent [A [B [D [E F]]]]]. exists sent. repeat split; auto.
      eapply subrm_trans; [|exact E]. apply subrm_app_l. apply subrm_drop; [apply memN_in; exact Em|apply subrm_refl].
    + assert (Hn : ~ In x cn) by (intro Hin; apply memN_in in Hin; congruence).
      destruct f as [[|k]|].
      * inversion H; subst. exists []. rewrite !app_nil_r. repeat split; try tauto; try discriminate. apply subrm_refl.
      * apply IH in H. destruct H as [sent [A [B [D [E F]]]]].
        exists (x :: sent). rewrite <- !app_assoc in *. simpl in *. repeat split; auto.
        intros y [<-|Hy]; auto.
      * apply IH in H. destruct H as [sent [A [B [D [E F]]]]].
        exists (x :: sent). rewrite <- !app_assoc in *. simpl in *. repeat split; auto.
        intros y [<-|Hy]; auto.
Qed.

Lemma after_drain_inv s f b p s' o :
  after_drain s f b p = (s', o) ->
  StronglySorted N.lt (p ++ b) -> (forall x, In x (p ++ b) -> x < next s) ->
  Inv s' /\ subrm (cancelled s) (p ++ b) (pend s' ++ buf s') /\ cancelled s' = cancelled s /\ next s' = next s /\
  conn s' = conn s /\
  (forall id, In (OFrame (conn s) id) o -> In id b /\ ~ In id (cancelled s)) /\
  (forall x, In x o -> exists id, x = OFrame (conn s) id).
Proof.
  unfold after_drain. destruct (drain f (cancelled s) b p []) as [[[b' p'] fr] failed] eqn:Ed.
  apply drain_spec in Ed. destruct Ed as [sent [A [B [D [E F]]]]]. simpl in B. subst fr.
  intros H Hs Hn.
  assert (Hs' : StronglySorted N.lt (p' ++ b')) by (eapply subrm_sorted; eauto).
  assert (Hn' : forall x, In x (p' ++ b') -> x < next s) by (intros x Hx; apply Hn; eapply subrm_in; eauto).
  assert (Hfr : forall id, In (OFrame (conn s) id) (map (OFrame (conn s)) sent) -> In id b /\ ~ In id (cancelled s)).
  { intros id Hin. apply in_map_iff in Hin. destruct Hin as [y [Hy Hin]]. inversion Hy; subst y.
    split; [|apply D; exact Hin].
    assert (In id (p' ++ b')) by (rewrite A; apply in_or_app; left; apply in_or_app; right; exact Hin).
    apply (subrm_in _ _ _ _ E) in H0. apply in_app_or in H0. destruct H0 as [H0|H0]; [|exact H0].
    (* id in p and in sent would contradict strict sortedness of p' ++ b' *)
    exfalso. rewrite A in Hs'. rewrite <- app_assoc in Hs'. apply sorted_app_inv in Hs'. destruct Hs' as [_ [_ C]].
    specialize (C id id H0 (in_or_app _ _ _ (or_introl Hin))). lia. }
  assert (Hall : forall x, In x (map (OFrame (conn s)) sent) -> exists id, x = OFrame (conn s) id).
  { intros x Hx. apply in_map_iff in Hx. destruct Hx as [y [<- _]]. eauto. }
  destruct failed; inversion H; subst; simpl.
  - split; [split; [simpl; exact Hs'|split; [simpl; exact Hn'|reflexivity]]|]. simpl.
    split; [exact E|]. split; [reflexivity|]. split; [reflexivity|]. split; [reflexivity|]. split; [exact Hfr|exact Hall].
  - split; [split; [simpl; exact Hs'|split; [simpl; exact Hn'|discriminate]]|]. simpl.
    split; [exact E|]. split; [reflexivity|]. split; [reflexivity|]. split; [reflexivity|]. split; [exact Hfr|exact Hall].
Qed.

(* ---------- the invariant holds along every run, and what is owed is never lost ---------- *)
Theorem step_inv s e s' o :
  Inv s -> step s e = (s', o) ->
  Inv s' /\
  (* nothing is dropped except resolved heads and cancelled messages *)
  (forall x, In x (pend s ++ buf s) -> ~ In x (cancelled s') ->
             In x (pend s' ++ buf s') \/ In (OResolve x) o) /\
  (* a handle resolves only as the head of pending, on a reply *)
  (forall x, In (OResolve x) o -> exists f r, e = EAck f /\ pend s = x :: r /\ up s = true) /\
  (* frames are for owed, uncancelled messages *)
  (forall cx x, In (OFrame cx x) o -> ~ In x (cancelled s') /\ (In x (buf s) \/ x = next s)).
Proof.
  intros HI H. pose proof HI as [Hs [Hn Hu]]. destruct e as [f|f| |f| |id]; simpl in H.
  - (* ENew *)
    destruct (up s) eqn:Eu.
    + set (s1 := mkRS (buf s) (pend s) true (cancelled s) (next s + 1) (conn s)) in *.
      assert (Hs1 : StronglySorted N.lt (pend s ++ buf s ++ [next s])).
      { rewrite app_assoc. apply sorted_app_intro; auto; [repeat constructor|].
        intros x y Hx [<-|[]]. apply Hn. exact Hx. }
      assert (Hn1 : forall x, In x (pend s ++ buf s ++ [next s]) -> x < next s1).
      { simpl. intros x Hx. rewrite app_assoc in Hx. apply in_app_or in Hx. destruct Hx as [Hx|[<-|[]]]; [specialize (Hn x Hx)|]; lia. }
      destruct (after_drain_inv s1 f (buf s ++ [next s]) (pend s) s' o H Hs1 Hn1) as [I' [Sub [Ec [En [Ecn [Hf Ha]]]]]].
      split; [exact I'|]. split; [|split].
      * intros x Hx Hc. left. eapply subrm_keepall; [exact Sub| |rewrite Ec in Hc; exact Hc].
        rewrite app_assoc. apply in_or_app. left. exact Hx.
      * intros x Hx. destruct (Ha _ Hx) as [id Hid]. discriminate.
      * intros cx x Hx. destruct (Ha _ Hx) as [id Hid]. inversion Hid; subst. destruct (Hf _ Hx) as [A B].
        rewrite Ec. split; [exact B|]. apply in_app_or in A. destruct A as [A|[<-|[]]]; auto.
    + inversion H; subst. simpl. rewrite (Hu eq_refl) in *. simpl in *.
      split; [split; [|split; [|reflexivity]]|].
      * simpl. eapply sorted_sub; [|eexists; reflexivity].
        apply sorted_app_intro; auto; [repeat constructor|]. intros x y Hx [<-|[]]. apply Hn. exact Hx.
      * simpl. intros x Hx. apply filter_In in Hx. destruct Hx as [Hx _]. apply in_app_or in Hx.
        destruct Hx as [Hx|[<-|[]]]; [specialize (Hn x Hx)|]; lia.
      * split; [|split; [intros x []|intros cx x []]].
        intros x Hx Hc. left. apply filter_In. split; [apply in_or_app; left; exact Hx|].
        apply negb_true_iff. destruct (memN x (cancelled s)) eqn:Em; [apply memN_in in Em; contradiction|reflexivity].
  - (* EConnOk *)
    destruct (up s) eqn:Eu.
    + inversion H; subst. split; [exact HI|]. split; [auto|]. split; [intros x []|intros cx x []].
    + rewrite (Hu eq_refl) in *. simpl in *.
      set (s1 := mkRS (buf s) [] true (cancelled s) (next s) (conn s + 1)) in *.
      destruct (after_drain_inv s1 f (buf s) [] s' o H Hs Hn) as [I' [Sub [Ec [En [Ecn [Hf Ha]]]]]].
      split; [exact I'|]. split; [|split].
      * intros x Hx Hc. left. eapply subrm_keepall; [exact Sub|exact Hx|rewrite Ec in Hc; exact Hc].
      * intros x Hx. destruct (Ha _ Hx) as [id Hid]. discriminate.
      * intros cx x Hx. destruct (Ha _ Hx) as [id Hid]. inversion Hid; subst. destruct (Hf _ Hx) as [A B].
        rewrite Ec. auto.
  - inversion H; subst. split; [exact HI|]. split; [auto|]. split; [intros x []|intros cx x []].
  - (* EAck *)
    destruct (up s) eqn:Eu.
    2:{ inversion H; subst. split; [exact HI|]. split; [auto|]. split; [intros x []|intros cx x []]. }
    destruct (pend s) as [|x r] eqn:Ep.
    + inversion H; subst. simpl in *. split; [split; [exact Hs|split; [exact Hn|reflexivity]]|].
      split; [auto|]. split; [intros x []|intros cx x []].
    + destruct (after_drain s f (buf s) r) as [s2 o2] eqn:Ead. inversion H; subst s' o. clear H.
      simpl in Hs. inversion Hs; subst.
      assert (Hn2 : forall y, In y (r ++ buf s) -> y < next s) by (intros y Hy; apply Hn; right; exact Hy).
      destruct (after_drain_inv s f (buf s) r s2 o2 Ead H1 Hn2) as [I' [Sub [Ec [En [Ecn [Hf Ha]]]]]].
      split; [exact I'|]. split; [|split].
      * intros y [Heq|Hy] Hc.
        -- subst y. right. rewrite Ec in Hc. apply in_or_app. left.
           destruct (memN x (cancelled s)) eqn:Em; [apply memN_in in Em; contradiction|].
           left. reflexivity.
        -- left. eapply subrm_keepall; [exact Sub|exact Hy|rewrite Ec in Hc; exact Hc].
      * intros y Hy. apply in_app_or in Hy. destruct Hy as [Hy|Hy].
        -- destruct (memN x (cancelled s)); [destruct Hy|]. destruct Hy as [Hy|[]]. inversion Hy; subst. eauto.
        -- destruct (Ha _ Hy) as [id Hid]. discriminate.
      * intros cx y Hy. apply in_app_or in Hy. destruct Hy as [Hy|Hy].
        -- destruct (memN x (cancelled s)); [destruct Hy|destruct Hy as [Hy|[]]; discriminate].
        -- destruct (Ha _ Hy) as [id Hid]. inversion Hid; subst. destruct (Hf _ Hy) as [A B]. rewrite Ec. auto.
  - (* EReadErr *)
    destruct (up s) eqn:Eu.
    + inversion H; subst. simpl. split; [split; [exact Hs|split; [exact Hn|reflexivity]]|].
      split; [auto|]. split; [intros x []|intros cx x []].
    + inversion H; subst. split; [exact HI|]. split; [auto|]. split; [intros x []|intros cx x []].
  - (* ECancel *)
    inversion H; subst. simpl. split; [split; auto|]. split; [auto|]. split; [intros x []|intros cx x []].
Qed.

Print Assumptions step_inv.
