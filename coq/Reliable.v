(* Invariant and theorems about the model of network/src/reliable_sender.rs (ReliableDefs.v): property C14. *)
From Coq Require Import List NArith Lia Bool Sorted ZifyN ZifyBool.
From HS Require Import ReliableDefs.
Import ListNotations.
Open Scope N_scope.

Lemma memN_in a l : memN a l = true <-> In a l.
Proof.
  unfold memN. rewrite existsb_exists. split.
  - intros [x [Hx E]]. apply N.eqb_eq in E. subst. exact Hx.
  - intros H. exists a. split; auto. apply N.eqb_refl.
Qed.


(* ---------- invariant: pend ++ buf is the hand-over order restricted to what is still owed ---------- *)
Definition Inv (s : RS) : Prop :=
  StronglySorted N.lt (pend s ++ buf s) /\ (forall x, In x (pend s ++ buf s) -> x < next s) /\
  (up s = false -> pend s = []).

Lemma sorted_app_inv (l1 l2 : list N) : StronglySorted N.lt (l1 ++ l2) ->
  StronglySorted N.lt l1 /\ StronglySorted N.lt l2 /\ (forall x y, In x l1 -> In y l2 -> x < y).
Proof.
  induction l1 as [|a l1 IH]; simpl; intros H.
  - split; [constructor|]. split; [exact H|]. intros x y [].
  - inversion H; subst. destruct (IH H2) as [A [B C]]. split; [|split; [exact B|]].
    + constructor; [exact A|]. rewrite Forall_forall in *. intros x Hx. apply H3. apply in_or_app. left. exact Hx.
    + intros x y [<-|Hx] Hy; [|apply C; auto]. rewrite Forall_forall in H3. apply H3. apply in_or_app. right. exact Hy.
Qed.

Lemma sorted_app_intro (l1 l2 : list N) :
  StronglySorted N.lt l1 -> StronglySorted N.lt l2 -> (forall x y, In x l1 -> In y l2 -> x < y) ->
  StronglySorted N.lt (l1 ++ l2).
Proof.
  induction l1 as [|a l1 IH]; simpl; intros H1 H2 H; [exact H2|].
  inversion H1; subst. constructor.
  - apply IH; auto.
  - rewrite Forall_forall in *. intros x Hx. apply in_app_or in Hx. destruct Hx as [Hx|Hx]; auto.
Qed.

Lemma sorted_sub (l l' : list N) :
  StronglySorted N.lt l -> (exists f, l' = filter f l) -> StronglySorted N.lt l'.
Proof.
  intros H [f ->]. induction H as [|a l H IH Hall]; simpl; [constructor|].
  destruct (f a); [|exact IH]. constructor; [exact IH|].
  rewrite Forall_forall in *. intros x Hx. apply filter_In in Hx. apply Hall. tauto.
Qed.

(* l' is l with some cancelled elements removed *)
Inductive subrm (cn : list N) : list N -> list N -> Prop :=
| subrm_nil : subrm cn [] []
| subrm_keep x l l' : subrm cn l l' -> subrm cn (x :: l) (x :: l')
| subrm_drop x l l' : In x cn -> subrm cn l l' -> subrm cn (x :: l) l'.

Lemma subrm_refl cn l : subrm cn l l.
Proof. induction l; constructor; auto. Qed.
Lemma subrm_in cn l l' x : subrm cn l l' -> In x l' -> In x l.
Proof. induction 1; simpl; intros Hx; auto. destruct Hx as [<-|Hx]; auto. Qed.
Lemma subrm_keepall cn l l' x : subrm cn l l' -> In x l -> ~ In x cn -> In x l'.
Proof.
  induction 1; simpl; intros Hx Hn; auto.
  - destruct Hx as [<-|Hx]; auto.
  - destruct Hx as [<-|Hx]; [contradiction|auto].
Qed.
Lemma subrm_sorted cn l l' : subrm cn l l' -> StronglySorted N.lt l -> StronglySorted N.lt l'.
Proof.
  induction 1; intros Hs; auto.
  - inversion Hs; subst. constructor; auto. rewrite Forall_forall in *. intros y Hy. apply H3. eapply subrm_in; eauto.
  - inversion Hs; subst. auto.
Qed.
Lemma subrm_app_l cn p l l' : subrm cn l l' -> subrm cn (p ++ l) (p ++ l').
Proof. induction p; simpl; auto. intros. constructor. auto. Qed.
Lemma subrm_trans cn a b d : subrm cn a b -> subrm cn b d -> subrm cn a d.
Proof.
  intros H. revert d. induction H; intros d Hd; auto.
  - inversion Hd; subst; [constructor; auto|apply subrm_drop; auto].
  - apply subrm_drop; auto.
Qed.
Lemma subrm_mono cn cn' l l' : (forall x, In x cn -> In x cn') -> subrm cn l l' -> subrm cn' l l'.
Proof. intros H. induction 1; constructor; auto. Qed.

(* what the drain does to the two queues, as a whole *)
Lemma drain_spec cn : forall b f p fr b' p' fr' failed,
  drain f cn b p fr = (b', p', fr', failed) ->
  exists sent,
    p' = p ++ sent /\ fr' = fr ++ sent /\ (forall x, In x sent -> ~ In x cn) /\
    subrm cn (p ++ b) (p' ++ b') /\ (failed = false -> b' = []).
Proof.
  induction b as [|x r IH]; intros f p fr b' p' fr' failed H; simpl in H.
  - inversion H; subst. exists []. rewrite !app_nil_r. repeat split; try tauto. apply subrm_refl.
  - destruct (memN x cn) eqn:Em.
    + apply IH in H. destruct H as [sent [A [B [D [E F]]]]]. exists sent. repeat split; auto.
      eapply subrm_trans; [|exact E]. apply subrm_app_l. apply subrm_drop; [apply memN_in; exact Em|apply subrm_refl].
    + assert (Hn : ~ In x cn) by (intro Hin; apply memN_in in Hin; congruence).
      destruct f as [[|k]|].
      * inversion H; subst. exists []. rewrite !app_nil_r. repeat split; try tauto; try discriminate. apply subrm_refl.
      * apply IH in H. destruct H as [sent [A [B [D [E F]]]]].
        exists (x :: sent). rewrite <- !app_assoc in *. simpl in *. repeat split; auto.
        intros y [<-|Hy]; auto.
      * apply IH in H. destruct H as [sent [A [B [D [E F]]]]].
        exists (x :: sent). rewrite <- !app_assoc in *. simpl in *. repeat split; auto.
        intros y [<-|Hy]; auto.
Qed.

Lemma after_drain_inv s f b p s' o :
  after_drain s f b p = (s', o) ->
  StronglySorted N.lt (p ++ b) -> (forall x, In x (p ++ b) -> x < next s) ->
  Inv s' /\ subrm (cancelled s) (p ++ b) (pend s' ++ buf s') /\ cancelled s' = cancelled s /\ next s' = next s /\
  conn s' = conn s /\
  (forall id, In (OFrame (conn s) id) o -> In id b /\ ~ In id (cancelled s)) /\
  (forall x, In x o -> exists id, x = OFrame (conn s) id).
Proof.
  unfold after_drain. destruct (drain f (cancelled s) b p []) as [[[b' p'] fr] failed] eqn:Ed.
  apply drain_spec in Ed. destruct Ed as [sent [A [B [D [E F]]]]]. simpl in B. subst fr.
  intros H Hs Hn.
  assert (Hs' : StronglySorted N.lt (p' ++ b')) by (eapply subrm_sorted; eauto).
  assert (Hn' : forall x, In x (p' ++ b') -> x < next s) by (intros x Hx; apply Hn; eapply subrm_in; eauto).
  assert (Hfr : forall id, In (OFrame (conn s) id) (map (OFrame (conn s)) sent) -> In id b /\ ~ In id (cancelled s)).
  { intros id Hin. apply in_map_iff in Hin. destruct Hin as [y [Hy Hin]]. inversion Hy; subst y.
    split; [|apply D; exact Hin].
    assert (In id (p' ++ b')) by (rewrite A; apply in_or_app; left; apply in_or_app; right; exact Hin).
    apply (subrm_in _ _ _ _ E) in H0. apply in_app_or in H0. destruct H0 as [H0|H0]; [|exact H0].
    (* id in p and in sent would contradict strict sortedness of p' ++ b' *)
    exfalso. rewrite A in Hs'. rewrite <- app_assoc in Hs'. apply sorted_app_inv in Hs'. destruct Hs' as [_ [_ C]].
    specialize (C id id H0 (in_or_app _ _ _ (or_introl Hin))). lia. }
  assert (Hall : forall x, In x (map (OFrame (conn s)) sent) -> exists id, x = OFrame (conn s) id).
  { intros x Hx. apply in_map_iff in Hx. destruct Hx as [y [<- _]]. eauto. }
  destruct failed; inversion H; subst; simpl.
  - split; [split; [simpl; exact Hs'|split; [simpl; exact Hn'|reflexivity]]|]. simpl.
    split; [exact E|]. split; [reflexivity|]. split; [reflexivity|]. split; [reflexivity|]. split; [exact Hfr|exact Hall].
  - split; [split; [simpl; exact Hs'|split; [simpl; exact Hn'|discriminate]]|]. simpl.
    split; [exact E|]. split; [reflexivity|]. split; [reflexivity|]. split; [reflexivity|]. split; [exact Hfr|exact Hall].
Qed.

(* ---------- the invariant holds along every run, and what is owed is never lost ---------- *)
Theorem step_inv s e s' o :
  Inv s -> step s e = (s', o) ->
  Inv s' /\
  (* nothing is dropped except resolved heads and cancelled messages *)
  (forall x, In x (pend s ++ buf s) -> ~ In x (cancelled s') ->
             In x (pend s' ++ buf s') \/ In (OResolve x) o) /\
  (* a handle resolves only as the head of pending, on a reply *)
  (forall x, In (OResolve x) o -> exists f r, e = EAck f /\ pend s = x :: r /\ up s = true) /\
  (* frames are for owed, uncancelled messages *)
  (forall cx x, In (OFrame cx x) o -> ~ In x (cancelled s') /\ (In x (buf s) \/ x = next s)).
Proof.
  intros HI H. pose proof HI as [Hs [Hn Hu]]. destruct e as [f|f| |f| |id]; simpl in H.
  - (* ENew *)
    destruct (up s) eqn:Eu.
    + set (s1 := mkRS (buf s) (pend s) true (cancelled s) (next s + 1) (conn s)) in *.
      assert (Hs1 : StronglySorted N.lt (pend s ++ buf s ++ [next s])).
      { rewrite app_assoc. apply sorted_app_intro; auto; [repeat constructor|].
        intros x y Hx [<-|[]]. apply Hn. exact Hx. }
      assert (Hn1 : forall x, In x (pend s ++ buf s ++ [next s]) -> x < next s1).
      { simpl. intros x Hx. rewrite app_assoc in Hx. apply in_app_or in Hx. destruct Hx as [Hx|[<-|[]]]; [specialize (Hn x Hx)|]; lia. }
      destruct (after_drain_inv s1 f (buf s ++ [next s]) (pend s) s' o H Hs1 Hn1) as [I' [Sub [Ec [En [Ecn [Hf Ha]]]]]].
      split; [exact I'|]. split; [|split].
      * intros x Hx Hc. left. eapply subrm_keepall; [exact Sub| |rewrite Ec in Hc; exact Hc].
        rewrite app_assoc. apply in_or_app. left. exact Hx.
      * intros x Hx. destruct (Ha _ Hx) as [id Hid]. discriminate.
      * intros cx x Hx. destruct (Ha _ Hx) as [id Hid]. inversion Hid; subst. destruct (Hf _ Hx) as [A B].
        rewrite Ec. split; [exact B|]. apply in_app_or in A. destruct A as [A|[<-|[]]]; auto.
    + inversion H; subst. simpl. rewrite (Hu eq_refl) in *. simpl in *.
      split; [split; [|split; [|reflexivity]]|].
      * simpl. eapply sorted_sub; [|eexists; reflexivity].
        apply sorted_app_intro; auto; [repeat constructor|]. intros x y Hx [<-|[]]. apply Hn. exact Hx.
      * simpl. intros x Hx. apply filter_In in Hx. destruct Hx as [Hx _]. apply in_app_or in Hx.
        destruct Hx as [Hx|[<-|[]]]; [specialize (Hn x Hx)|]; lia.
      * split; [|split; [intros x []|intros cx x []]].
        intros x Hx Hc. left. apply filter_In. split; [apply in_or_app; left; exact Hx|].
        apply negb_true_iff. destruct (memN x (cancelled s)) eqn:Em; [apply memN_in in Em; contradiction|reflexivity].
  - (* EConnOk *)
    destruct (up s) eqn:Eu.
    + inversion H; subst. split; [exact HI|]. split; [auto|]. split; [intros x []|intros cx x []].
    + rewrite (Hu eq_refl) in *. simpl in *.
      set (s1 := mkRS (buf s) [] true (cancelled s) (next s) (conn s + 1)) in *.
      destruct (after_drain_inv s1 f (buf s) [] s' o H Hs Hn) as [I' [Sub [Ec [En [Ecn [Hf Ha]]]]]].
      split; [exact I'|]. split; [|split].
      * intros x Hx Hc. left. eapply subrm_keepall; [exact Sub|exact Hx|rewrite Ec in Hc; exact Hc].
      * intros x Hx. destruct (Ha _ Hx) as [id Hid]. discriminate.
      * intros cx x Hx. destruct (Ha _ Hx) as [id Hid]. inversion Hid; subst. destruct (Hf _ Hx) as [A B].
        rewrite Ec. auto.
  - inversion H; subst. split; [exact HI|]. split; [auto|]. split; [intros x []|intros cx x []].
  - (* EAck *)
    destruct (up s) eqn:Eu.
    2:{ inversion H; subst. split; [exact HI|]. split; [auto|]. split; [intros x []|intros cx x []]. }
    destruct (pend s) as [|x r] eqn:Ep.
    + inversion H; subst. simpl in *. split; [split; [exact Hs|split; [exact Hn|reflexivity]]|].
      split; [auto|]. split; [intros x []|intros cx x []].
    + destruct (after_drain s f (buf s) r) as [s2 o2] eqn:Ead. inversion H; subst s' o. clear H.
      simpl in Hs. inversion Hs; subst.
      assert (Hn2 : forall y, In y (r ++ buf s) -> y < next s) by (intros y Hy; apply Hn; right; exact Hy).
      destruct (after_drain_inv s f (buf s) r s2 o2 Ead H1 Hn2) as [I' [Sub [Ec [En [Ecn [Hf Ha]]]]]].
      split; [exact I'|]. split; [|split].
      * intros y [Heq|Hy] Hc.
        -- subst y. right. rewrite Ec in Hc. apply in_or_app. left.
           destruct (memN x (cancelled s)) eqn:Em; [apply memN_in in Em; contradiction|].
           left. reflexivity.
        -- left. eapply subrm_keepall; [exact Sub|exact Hy|rewrite Ec in Hc; exact Hc].
      * intros y Hy. apply in_app_or in Hy. destruct Hy as [Hy|Hy].
        -- destruct (memN x (cancelled s)); [destruct Hy|]. destruct Hy as [Hy|[]]. inversion Hy; subst. eauto.
        -- destruct (Ha _ Hy) as [id Hid]. discriminate.
      * intros cx y Hy. apply in_app_or in Hy. destruct Hy as [Hy|Hy].
        -- destruct (memN x (cancelled s)); [destruct Hy|destruct Hy as [Hy|[]]; discriminate].
        -- destruct (Ha _ Hy) as [id Hid]. inversion Hid; subst. destruct (Hf _ Hy) as [A B]. rewrite Ec. auto.
  - (* EReadErr *)
    destruct (up s) eqn:Eu.
    + inversion H; subst. simpl. split; [split; [exact Hs|split; [exact Hn|reflexivity]]|].
      split; [auto|]. split; [intros x []|intros cx x []].
    + inversion H; subst. split; [exact HI|]. split; [auto|]. split; [intros x []|intros cx x []].
  - (* ECancel *)
    inversion H; subst. simpl. split; [split; auto|]. split; [auto|]. split; [intros x []|intros cx x []].
Qed.

Print Assumptions step_inv.

(* ====================================================================================================== *)
(* C14 theorems over all event sequences                                                                    *)
(* ====================================================================================================== *)

Definition owed (s : RS) : list N := pend s ++ buf s.
(* while connected, the send loop has emptied the buffer *)
Definition U (s : RS) : Prop := up s = true -> buf s = [].
Definition Good (s : RS) : Prop := Inv s /\ U s.

Lemma run_app s es1 es2 :
  run s (es1 ++ es2) =
  let '(s1, o1) := run s es1 in let '(s2, o2) := run s1 es2 in (s2, o1 ++ o2).
Proof.
  revert s. induction es1 as [|e r IH]; intros s; simpl.
  - destruct (run s es2) as [s2 o2]. reflexivity.
  - destruct (step s e) as [s1 o1]. rewrite IH. destruct (run s1 r) as [s2 o2].
    destruct (run s2 es2) as [s3 o3]. rewrite app_assoc. reflexivity.
Qed.

(* a sharper description of the send loop: the frames written are b minus cancelled entries, up to the failure *)
Lemma drain_spec2 cn : forall b f p fr b' p' fr' failed,
  drain f cn b p fr = (b', p', fr', failed) ->
  exists sent,
    p' = p ++ sent /\ fr' = fr ++ sent /\ (forall x, In x sent -> ~ In x cn) /\
    subrm cn b (sent ++ b') /\ (failed = false -> b' = []).
Proof.
  induction b as [|x r IH]; intros f p fr b' p' fr' failed H; simpl in H.
  - inversion H; subst. exists []. rewrite !app_nil_r. repeat split; try tauto. constructor.
  - destruct (memN x cn) eqn:Em.
    + apply IH in H. destruct H as [sent [A [B [D [E F]]]]]. exists sent. repeat split; auto.
      apply subrm_drop; [apply memN_in; exact Em|exact E].
    + assert (Hn : ~ In x cn) by (intro Hin; apply memN_in in Hin; congruence).
      destruct f as [[|k]|].
      * inversion H; subst. exists []. rewrite !app_nil_r. repeat split; try tauto; try discriminate. apply subrm_refl.
      * apply IH in H. destruct H as [sent [A [B [D [E F]]]]].
        exists (x :: sent). rewrite <- !app_assoc in *. simpl in *. repeat split; auto.
        -- intros y [<-|Hy]; auto.
        -- constructor. exact E.
      * apply IH in H. destruct H as [sent [A [B [D [E F]]]]].
        exists (x :: sent). rewrite <- !app_assoc in *. simpl in *. repeat split; auto.
        -- intros y [<-|Hy]; auto.
        -- constructor. exact E.
Qed.

(* state after a send loop: either still connected with everything written, or down with everything owed in buf *)
Definition Post (s' : RS) (p sent b' : list N) : Prop :=
  (up s' = true /\ pend s' = p ++ sent /\ buf s' = [] /\ b' = []) \/
  (up s' = false /\ pend s' = [] /\ buf s' = p ++ sent ++ b').

Lemma after_drain_spec s f b p s' o :
  after_drain s f b p = (s', o) ->
  exists sent b',
    o = map (OFrame (conn s)) sent /\ cancelled s' = cancelled s /\ next s' = next s /\ conn s' = conn s /\
    subrm (cancelled s) b (sent ++ b') /\ (forall x, In x sent -> ~ In x (cancelled s)) /\ Post s' p sent b'.
Proof.
  unfold after_drain. destruct (drain f (cancelled s) b p []) as [[[b' p'] fr] failed] eqn:Ed.
  apply drain_spec2 in Ed. destruct Ed as [sent [A [B [D [E F]]]]]. simpl in B. subst fr p'.
  intros H. exists sent, b'. destruct failed; inversion H; subst; simpl; repeat split; auto.
  - right. simpl. rewrite <- app_assoc. auto.
  - left. simpl. rewrite (F eq_refl). auto.
Qed.

(* ---------- every step has one of eight shapes ---------- *)
Inductive Shape (s : RS) : ev -> RS -> list out -> Prop :=
| ShNewUp f sent b' s' :
    up s = true -> buf s = [] ->
    subrm (cancelled s) [next s] (sent ++ b') -> (forall x, In x sent -> ~ In x (cancelled s)) ->
    cancelled s' = cancelled s -> next s' = next s + 1 -> conn s' = conn s ->
    Post s' (pend s) sent b' ->
    Shape s (ENew f) s' (map (OFrame (conn s)) sent)
| ShNewDown f :
    up s = false -> pend s = [] ->
    Shape s (ENew f)
          (mkRS (filter (fun x => negb (memN x (cancelled s))) (buf s ++ [next s])) [] false
                (cancelled s) (next s + 1) (conn s)) []
| ShConn f sent b' s' :
    up s = false -> pend s = [] ->
    subrm (cancelled s) (buf s) (sent ++ b') -> (forall x, In x sent -> ~ In x (cancelled s)) ->
    cancelled s' = cancelled s -> next s' = next s -> conn s' = conn s + 1 ->
    Post s' [] sent b' ->
    Shape s (EConnOk f) s' (map (OFrame (conn s + 1)) sent)
| ShNop e : ack_of s e = [] -> Shape s e s []
| ShAckEmpty f :
    up s = true -> pend s = [] -> buf s = [] ->
    Shape s (EAck f) (mkRS [] [] false (cancelled s) (next s) (conn s)) []
| ShAck f x r :
    up s = true -> pend s = x :: r -> buf s = [] ->
    Shape s (EAck f) (mkRS [] r true (cancelled s) (next s) (conn s))
          (if memN x (cancelled s) then [] else [OResolve x])
| ShReadErr :
    up s = true -> buf s = [] ->
    Shape s EReadErr (mkRS (pend s) [] false (cancelled s) (next s) (conn s)) []
| ShCancel id :
    Shape s (ECancel id) (mkRS (buf s) (pend s) (up s) (id :: cancelled s) (next s) (conn s)) [].

Lemma step_shape s e s' o : Good s -> step s e = (s', o) -> Shape s e s' o.
Proof.
  intros [[Hs [Hn Hu]] HU] H. destruct e as [f|f| |f| |id]; simpl in H.
  - destruct (up s) eqn:Eu.
    + pose proof (HU Eu) as Hb. rewrite Hb in H. simpl in H.
      apply after_drain_spec in H. simpl in H.
      destruct H as [sent [b' [-> [Ec [En [Ecn [Sub [Nc P]]]]]]]].
      eapply ShNewUp; eauto.
    + rewrite (Hu eq_refl) in H. inversion H; subst. apply ShNewDown; auto.
  - destruct (up s) eqn:Eu.
    + inversion H; subst. apply ShNop. reflexivity.
    + apply after_drain_spec in H. simpl in H.
      destruct H as [sent [b' [-> [Ec [En [Ecn [Sub [Nc P]]]]]]]].
      eapply ShConn; eauto.
  - inversion H; subst. apply ShNop. reflexivity.
  - destruct (up s) eqn:Eu.
    + pose proof (HU Eu) as Hb. destruct (pend s) as [|x r] eqn:Ep.
      * inversion H; subst. rewrite Hb. apply ShAckEmpty; auto.
      * rewrite Hb in H. unfold after_drain in H. simpl in H. rewrite app_nil_r in H.
        inversion H; subst. apply ShAck; auto.
    + inversion H; subst. apply ShNop. simpl. rewrite Eu. reflexivity.
  - destruct (up s) eqn:Eu.
    + pose proof (HU Eu) as Hb. inversion H; subst. rewrite Hb, app_nil_r. apply ShReadErr; auto.
    + inversion H; subst. apply ShNop. reflexivity.
  - inversion H; subst. apply ShCancel.
Qed.

Lemma good_init : Good init.
Proof. split; [split; [constructor|split; [intros x []|reflexivity]]|intros H; reflexivity]. Qed.

Lemma good_step s e s' o : Good s -> step s e = (s', o) -> Good s'.
Proof.
  intros G H. split; [eapply step_inv; [apply G|exact H]|].
  pose proof (step_shape _ _ _ _ G H) as Sh. destruct G as [_ HU].
  inversion Sh; subst; unfold U; simpl; auto; try discriminate.
  - destruct H7 as [[_ [_ [B _]]]|[B _]]; [auto|congruence].
  - destruct H7 as [[_ [_ [B _]]]|[B _]]; [auto|congruence].
Qed.

Lemma good_run es : forall s s' o, Good s -> run s es = (s', o) -> Good s'.
Proof.
  induction es as [|e r IH]; intros s s' o G H; simpl in H.
  - inversion H; subst. exact G.
  - destruct (step s e) as [s1 o1] eqn:E1. destruct (run s1 r) as [s2 o2] eqn:E2. inversion H; subst.
    eapply IH; [eapply good_step; eauto|exact E2].
Qed.

Theorem reachable_good es s o : run init es = (s, o) -> Good s.
Proof. apply good_run. exact good_init. Qed.

(* ---------- monotone parts of the state ---------- *)
Lemma step_mono s e s' o : Good s -> step s e = (s', o) ->
  next s <= next s' /\ (forall x, In x (cancelled s) -> In x (cancelled s')) /\ conn s <= conn s'.
Proof.
  intros G H. pose proof (step_shape _ _ _ _ G H) as Sh.
  clear H. destruct Sh as [f sent b' s' Hup Hbuf Sub Nc Ec En Ecn P | f Hup Hp | f sent b' s' Hup Hp Sub Nc Ec En Ecn P | e Hack | f Hup Hp Hbuf | f x0 r Hup Hp Hbuf | Hup Hbuf | id]; simpl; repeat split; auto; try lia; try (intros y Hy; congruence).
Qed.

Lemma run_mono es : forall s s' o, Good s -> run s es = (s', o) ->
  next s <= next s' /\ (forall x, In x (cancelled s) -> In x (cancelled s')) /\ conn s <= conn s'.
Proof.
  induction es as [|e r IH]; intros s s' o G H; simpl in H.
  - inversion H; subst. repeat split; auto; lia.
  - destruct (step s e) as [s1 o1] eqn:E1. destruct (run s1 r) as [s2 o2] eqn:E2. inversion H; subst.
    destruct (step_mono _ _ _ _ G E1) as [A [B C]].
    destruct (IH _ _ _ (good_step _ _ _ _ G E1) E2) as [A' [B' C']]. repeat split; auto; lia.
Qed.

(* a freshly handed-over id is owed unless already cancelled *)
Lemma step_new s e s' o : Good s -> step s e = (s', o) ->
  forall x, next s <= x -> x < next s' -> ~ In x (cancelled s') -> In x (owed s').
Proof.
  intros G H x H1 H2 Hc. pose proof (step_shape _ _ _ _ G H) as Sh. unfold owed. clear H.
  destruct Sh as [f sent b' s' Hup Hbuf Sub Nc Ec En Ecn P | f Hup Hp | f sent b' s' Hup Hp Sub Nc Ec En Ecn P | e Hack | f Hup Hp Hbuf | f x0 r Hup Hp Hbuf | Hup Hbuf | id]; simpl in *; try lia.
  - assert (x = next s) by lia. subst x.
    assert (Hin : In (next s) (sent ++ b')).
    { eapply subrm_keepall; [exact Sub|left; reflexivity|congruence]. }
    destruct P as [[_ [-> [-> ->]]]|[_ [-> ->]]].
    + rewrite !app_nil_r in *. apply in_or_app. right. exact Hin.
    + simpl. apply in_or_app. right. exact Hin.
  - assert (x = next s) by lia. subst x. apply filter_In. split; [apply in_or_app; right; left; reflexivity|].
    apply negb_true_iff. destruct (memN (next s) (cancelled s)) eqn:Em; [apply memN_in in Em; contradiction|reflexivity].
Qed.

(* ---------- (a) no loss ---------- *)
Lemma no_loss_gen es : forall s s' o, Good s -> run s es = (s', o) ->
  forall x, (In x (owed s) \/ next s <= x) -> x < next s' -> ~ In x (cancelled s') -> ~ In (OResolve x) o ->
  In x (owed s').
Proof.
  induction es as [|e r IH]; intros s s' o G H x Hx Hlt Hc Hr; simpl in H.
  - inversion H; subst. destruct Hx as [Hx|Hx]; [exact Hx|lia].
  - destruct (step s e) as [s1 o1] eqn:E1. destruct (run s1 r) as [s2 o2] eqn:E2. inversion H; subst.
    pose proof (good_step _ _ _ _ G E1) as G1.
    destruct (run_mono _ _ _ _ G1 E2) as [_ [Cm _]].
    assert (Hc1 : ~ In x (cancelled s1)) by (intro Hin; apply Hc; apply Cm; exact Hin).
    apply (IH _ _ _ G1 E2); auto.
    + destruct Hx as [Hx|Hx].
      * destruct (step_inv s e s1 o1 (proj1 G) E1) as [_ [Keep _]].
        destruct (Keep x Hx Hc1) as [K|K]; [left; exact K|].
        exfalso. apply Hr. apply in_or_app. left. exact K.
      * destruct (N.lt_ge_cases x (next s1)) as [L|L]; [left; exact (step_new s e s1 o1 G E1 x Hx L Hc1)|right; exact L].
    + intro Hin. apply Hr. apply in_or_app. right. exact Hin.
Qed.

Theorem c14_no_loss es s o : run init es = (s, o) ->
  forall x, x < next s -> ~ In x (cancelled s) -> ~ In (OResolve x) o -> In x (pend s ++ buf s).
Proof.
  intros H x Hlt Hc Hr. apply (no_loss_gen es init s o good_init H x); auto. right. simpl. lia.
Qed.

(* ---------- (d) nothing is written for an id after its cancel event ---------- *)
Lemma no_frame_cancelled es : forall s s' o, Good s -> run s es = (s', o) ->
  forall x, In x (cancelled s) -> forall c, ~ In (OFrame c x) o.
Proof.
  induction es as [|e r IH]; intros s s' o G H x Hx c Hin; simpl in H.
  - inversion H; subst. destruct Hin.
  - destruct (step s e) as [s1 o1] eqn:E1. destruct (run s1 r) as [s2 o2] eqn:E2. inversion H; subst.
    destruct (step_mono _ _ _ _ G E1) as [_ [Cm _]].
    apply in_app_or in Hin. destruct Hin as [Hin|Hin].
    + destruct (step_inv s e s1 o1 (proj1 G) E1) as [_ [_ [_ Fr]]].
      destruct (Fr c x Hin) as [Hn _]. apply Hn. apply Cm. exact Hx.
    + eapply (IH _ _ _ (good_step _ _ _ _ G E1) E2 x); eauto.
Qed.

Theorem c14_no_retransmit_after_cancel es1 x es2 s o :
  run init (es1 ++ ECancel x :: es2) = (s, o) ->
  exists s1 o1 s2 o2, run init es1 = (s1, o1) /\ run s1 (ECancel x :: es2) = (s2, o2) /\ o = o1 ++ o2 /\ s = s2 /\
    forall c, ~ In (OFrame c x) o2.
Proof.
  rewrite run_app. destruct (run init es1) as [s1 o1] eqn:E1.
  destruct (run s1 (ECancel x :: es2)) as [s2 o2] eqn:E2. intros H. inversion H; subst.
  exists s1, o1, s, o2. repeat split; auto. intros c.
  pose proof (reachable_good _ _ _ E1) as G1. simpl in E2.
  destruct (run _ es2) as [s3 o3] eqn:E3. inversion E2; subst. simpl.
  eapply (no_frame_cancelled es2 _ _ _ (good_step s1 (ECancel x) _ [] G1 eq_refl) E3 x). left. reflexivity.
Qed.

(* ---------- (c) pairing ---------- *)
Theorem c14_pairing es s o e s' o' x :
  run init es = (s, o) -> step s e = (s', o') -> In (OResolve x) o' ->
  exists f r, e = EAck f /\ up s = true /\ pend s = x :: r /\ ~ In x (cancelled s) /\ o' = [OResolve x] /\ pend s' = r.
Proof.
  intros H E Hin. pose proof (reachable_good _ _ _ H) as G.
  pose proof (step_shape _ _ _ _ G E) as Sh.
  clear E. destruct Sh as [f sent b' s' Hup Hbuf Sub Nc Ec En Ecn P | f Hup Hp | f sent b' s' Hup Hp Sub Nc Ec En Ecn P | e Hack | f Hup Hp Hbuf | f x0 r Hup Hp Hbuf | Hup Hbuf | id]; try (destruct Hin; fail);
    try (apply in_map_iff in Hin; destruct Hin as [y [Hy _]]; discriminate).
  destruct (memN x0 (cancelled s)) eqn:Em; [destruct Hin|]. destruct Hin as [Hin|[]]. inversion Hin; subst x0.
  exists f, r. repeat split; auto. intro Hc. apply memN_in in Hc. congruence.
Qed.

(* output projections distribute over concatenation *)
Lemma frames_on_app c o1 o2 : frames_on c (o1 ++ o2) = frames_on c o1 ++ frames_on c o2.
Proof.
  induction o1 as [|[c' x|x] r IH]; simpl; auto. destruct (c' =? c); simpl; rewrite IH; reflexivity.
Qed.
Lemma frame_ids_app o1 o2 : frame_ids (o1 ++ o2) = frame_ids o1 ++ frame_ids o2.
Proof. induction o1 as [|[c' x|x] r IH]; simpl; auto. rewrite IH. reflexivity. Qed.
Lemma resolves_app o1 o2 : resolves (o1 ++ o2) = resolves o1 ++ resolves o2.
Proof. induction o1 as [|[c' x|x] r IH]; simpl; auto. rewrite IH. reflexivity. Qed.
Lemma frames_on_map c c' l : frames_on c (map (OFrame c') l) = if c' =? c then l else [].
Proof.
  induction l as [|x r IH]; simpl; [destruct (c' =? c); reflexivity|].
  rewrite IH. destruct (c' =? c); reflexivity.
Qed.
Lemma frame_ids_map c l : frame_ids (map (OFrame c) l) = l.
Proof. induction l as [|x r IH]; simpl; auto. rewrite IH. reflexivity. Qed.
Lemma resolves_map c l : resolves (map (OFrame c) l) = [].
Proof. induction l; simpl; auto. Qed.
Lemma acked_on_app c k1 k2 : acked_on c (k1 ++ k2) = acked_on c k1 ++ acked_on c k2.
Proof. unfold acked_on. rewrite filter_app, map_app. reflexivity. Qed.
Lemma acked_resolved_app k1 k2 : acked_resolved (k1 ++ k2) = acked_resolved k1 ++ acked_resolved k2.
Proof. unfold acked_resolved. rewrite filter_app, map_app. reflexivity. Qed.

(* counting invariant: on each connection the replies consumed so far match the first frames written on it, and
   on the live connection what is left is exactly pend *)
Definition CInv (s : RS) (T : list out) (K : list (N * N * bool)) : Prop :=
  (forall c, exists rest, frames_on c T = acked_on c K ++ rest /\ (c = conn s -> up s = true -> rest = pend s)) /\
  (forall c, conn s < c -> frames_on c T = []) /\
  resolves T = acked_resolved K.

Lemma cinv_step s e s' o T K : Good s -> step s e = (s', o) -> CInv s T K -> CInv s' (T ++ o) (K ++ ack_of s e).
Proof.
  intros G H [C1 [C2 C3]]. pose proof (step_shape _ _ _ _ G H) as Sh.
  assert (Hacked0 : forall c, conn s < c -> acked_on c K = []).
  { intros c Hc. destruct (C1 c) as [rest [E _]]. rewrite (C2 c Hc) in E. symmetry in E.
    apply app_eq_nil in E. tauto. }
  clear H. destruct Sh as [f sent b' s' Hup Hbuf Sub Nc Ec En Ecn P | f Hup Hp | f sent b' s' Hup Hp Sub Nc Ec En Ecn P | e Hack | f Hup Hp Hbuf | f x0 r Hup Hp Hbuf | Hup Hbuf | id].
  - (* ENew while connected *)
    replace (ack_of s (ENew f)) with (@nil (N * N * bool)) by reflexivity. rewrite app_nil_r.
    split; [|split].
    + intros c. destruct (C1 c) as [rest [E Pr]]. rewrite frames_on_app, frames_on_map.
      destruct (conn s =? c) eqn:Eqc.
      * apply N.eqb_eq in Eqc. subst c. exists (rest ++ sent). rewrite E, app_assoc. split; [reflexivity|].
        intros _ Hup'. rewrite (Pr eq_refl Hup).
        destruct P as [[_ [-> _]]|[Hd _]]; [reflexivity|congruence].
      * exists rest. rewrite app_nil_r. split; [exact E|]. intros Hc. rewrite Ecn in Hc. subst c.
        rewrite N.eqb_refl in Eqc. discriminate.
    + intros c Hc. rewrite Ecn in Hc. rewrite frames_on_app, frames_on_map, (C2 c Hc).
      destruct (conn s =? c) eqn:Eqc; [apply N.eqb_eq in Eqc; lia|reflexivity].
    + rewrite resolves_app, resolves_map, app_nil_r. exact C3.
  - (* ENew while down *)
    replace (ack_of s (ENew f)) with (@nil (N * N * bool)) by reflexivity. rewrite !app_nil_r.
    split; [|split]; simpl; auto. intros c. destruct (C1 c) as [rest [E Pr]]. exists rest. split; [exact E|discriminate].
  - (* connect *)
    replace (ack_of s (EConnOk f)) with (@nil (N * N * bool)) by reflexivity. rewrite app_nil_r.
    split; [|split].
    + intros c. destruct (C1 c) as [rest [E Pr]]. rewrite frames_on_app, frames_on_map.
      destruct (conn s + 1 =? c) eqn:Eqc.
      * apply N.eqb_eq in Eqc. subst c. rewrite (C2 (conn s + 1)) in * by lia.
        rewrite (Hacked0 (conn s + 1)) in * by lia. exists sent. split; [reflexivity|].
        intros _ Hup'. destruct P as [[_ [-> _]]|[Hd _]]; [reflexivity|congruence].
      * exists rest. rewrite app_nil_r. split; [exact E|]. intros Hc. rewrite Ecn in Hc. subst c.
        rewrite N.eqb_refl in Eqc. discriminate.
    + intros c Hc. rewrite Ecn in Hc. rewrite frames_on_app, frames_on_map, (C2 c) by lia.
      destruct (conn s + 1 =? c) eqn:Eqc; [apply N.eqb_eq in Eqc; lia|reflexivity].
    + rewrite resolves_app, resolves_map, app_nil_r. exact C3.
  - (* no-op *)
    rewrite Hack, !app_nil_r. split; [|split]; auto.
  - (* unexpected reply *)
    simpl ack_of. rewrite Hup, Hp. rewrite !app_nil_r. split; [|split]; simpl; auto.
    intros c. destruct (C1 c) as [rest [E Pr]]. exists rest. split; [exact E|discriminate].
  - (* reply *)
    simpl ack_of. rewrite Hup, Hp. split; [|split]; simpl.
    + intros c. destruct (C1 c) as [rest [E Pr]]. rewrite frames_on_app, acked_on_app.
      unfold acked_on at 2. simpl. destruct (conn s =? c) eqn:Eqc.
      * apply N.eqb_eq in Eqc. subst c. rewrite (Pr eq_refl Hup), Hp in E. exists r. simpl. split.
        -- rewrite E. destruct (memN x0 (cancelled s)); simpl; rewrite ?app_nil_r, <- app_assoc; reflexivity.
        -- reflexivity.
      * exists rest. simpl. rewrite app_nil_r. split.
        -- rewrite E. destruct (memN x0 (cancelled s)); simpl; rewrite ?app_nil_r; reflexivity.
        -- intros Hc. subst c. rewrite N.eqb_refl in Eqc. discriminate.
    + intros c Hc. rewrite frames_on_app, (C2 c Hc). destruct (memN x0 (cancelled s)); reflexivity.
    + rewrite resolves_app, acked_resolved_app, C3. unfold acked_resolved at 2. simpl.
      destruct (memN x0 (cancelled s)); reflexivity.
  - (* read error *)
    replace (ack_of s EReadErr) with (@nil (N * N * bool)) by reflexivity. rewrite !app_nil_r.
    split; [|split]; simpl; auto.
    intros c. destruct (C1 c) as [rest [E Pr]]. exists rest. split; [exact E|discriminate].
  - (* cancel *)
    replace (ack_of s (ECancel id)) with (@nil (N * N * bool)) by reflexivity. rewrite !app_nil_r.
    split; [|split]; simpl; auto.
Qed.

Lemma cinv_run es : forall s s' o T K, Good s -> run s es = (s', o) -> CInv s T K ->
  CInv s' (T ++ o) (K ++ run_acks s es).
Proof.
  induction es as [|e r IH]; intros s s' o T K G H C; simpl in H.
  - inversion H; subst. simpl. rewrite !app_nil_r. exact C.
  - destruct (step s e) as [s1 o1] eqn:E1. destruct (run s1 r) as [s2 o2] eqn:E2. inversion H; subst.
    simpl. rewrite E1. simpl. rewrite !app_assoc. eapply IH; [eapply good_step; eauto|exact E2|].
    apply cinv_step; auto.
Qed.

(* counting form of the pairing: on every connection c the ids whose reply was consumed are, in order and
   without gap, the first frames written on c; the handles completed are exactly those consumed replies whose
   handle had not been dropped; on the live connection the frames not yet answered are exactly pend *)
Theorem c14_pairing_count es s o :
  run init es = (s, o) ->
  let K := run_acks init es in
  resolves o = acked_resolved K /\
  forall c, exists rest,
    frames_on c o = acked_on c K ++ rest /\ (c = conn s -> up s = true -> rest = pend s).
Proof.
  intros H K.
  assert (C0 : CInv init [] []).
  { split; [|split]; simpl; auto. intros c. exists []. split; [reflexivity|discriminate]. }
  pose proof (cinv_run es init s o [] [] good_init H C0) as [C1 [_ C3]]. simpl in *. split; auto.
Qed.

(* the k-th reply consumed on connection c is for the k-th frame written on c *)
Corollary c14_pairing_nth es s o c k x :
  run init es = (s, o) -> nth_error (acked_on c (run_acks init es)) k = Some x ->
  nth_error (frames_on c o) k = Some x.
Proof.
  intros H Hn. destruct (c14_pairing_count es s o H) as [_ P]. destruct (P c) as [rest [E _]].
  rewrite E. rewrite nth_error_app1; [exact Hn|]. apply nth_error_Some. congruence.
Qed.

(* ---------- (b) order ---------- *)
(* every transmission is a retransmission or carries an id greater than all ids transmitted before *)
Inductive FO : list N -> Prop :=
| FO_nil : FO []
| FO_snoc l x : FO l -> (In x l \/ forall y, In y l -> y < x) -> FO (l ++ [x]).

Lemma frames_on_in_ids c T x : In x (frames_on c T) -> In x (frame_ids T).
Proof.
  induction T as [|[c' y|y] r IH]; simpl; auto.
  destruct (c' =? c); simpl; intros H; [destruct H as [H|H]; auto|auto].
Qed.

Lemma order_extend : forall sent T p b',
  StronglySorted N.lt (p ++ sent ++ b') -> (forall y, In y p -> In y T) ->
  (forall x y, In x T -> In y (p ++ sent ++ b') -> y < x -> In y T) -> FO T ->
  FO (T ++ sent) /\ (forall x y, In x (T ++ sent) -> In y (p ++ sent ++ b') -> y < x -> In y (T ++ sent)).
Proof.
  induction sent as [|x r IH]; intros T p b' Hs H1 H2 HF.
  - rewrite app_nil_r. split; auto.
  - assert (Hlt : forall y, In y (p ++ (x :: r) ++ b') -> y < x -> In y p).
    { intros y Hy Hyx. apply in_app_or in Hy. destruct Hy as [Hy|Hy]; [exact Hy|exfalso].
      apply sorted_app_inv in Hs. destruct Hs as [_ [Hs _]]. simpl in Hs, Hy. inversion Hs; subst.
      destruct Hy as [<-|Hy]; [lia|]. rewrite Forall_forall in H4. specialize (H4 y Hy). lia. }
    assert (Hx : In x (p ++ (x :: r) ++ b')) by (apply in_or_app; right; left; reflexivity).
    replace (T ++ x :: r) with ((T ++ [x]) ++ r) by (rewrite <- app_assoc; reflexivity).
    replace (p ++ (x :: r) ++ b') with ((p ++ [x]) ++ r ++ b') in * by (rewrite <- app_assoc; reflexivity).
    apply IH.
    + exact Hs.
    + intros y Hy. apply in_or_app. apply in_app_or in Hy. destruct Hy as [Hy|[<-|[]]]; [left; auto|right; left; reflexivity].
    + intros x' y Hx' Hy Hlt'. apply in_or_app. apply in_app_or in Hx'. destruct Hx' as [Hx'|[<-|[]]].
      * left. eapply H2; eauto.
      * left. apply H1. apply Hlt; auto.
    + constructor; [exact HF|]. destruct (in_dec N.eq_dec x T) as [Hi|Hni]; [left; exact Hi|right].
      intros t Ht. destruct (N.lt_trichotomy t x) as [L|[L|L]]; [exact L|subst; contradiction|].
      exfalso. apply Hni. eapply H2; eauto.
Qed.

Definition OInv (s : RS) (T : list out) : Prop :=
  (forall x, In x (frame_ids T) -> x < next s) /\
  (forall y, In y (pend s) -> In y (frame_ids T)) /\
  (forall x y, In x (frame_ids T) -> In y (owed s) -> y < x -> In y (frame_ids T)) /\
  FO (frame_ids T) /\
  (forall c, StronglySorted N.lt (frames_on c T)) /\
  (forall c, conn s < c -> frames_on c T = []).

Lemma post_owed s' p sent b' : Post s' p sent b' -> owed s' = p ++ sent ++ b'.
Proof.
  unfold owed. intros [[_ [-> [-> ->]]]|[_ [-> ->]]]; [rewrite !app_nil_r|]; reflexivity.
Qed.
Lemma post_pend s' p sent b' y : Post s' p sent b' -> In y (pend s') -> In y (p ++ sent).
Proof. intros [[_ [-> _]]|[_ [-> _]]]; [auto|intros []]. Qed.

Lemma subrm_sub_sorted cn l sent b' : subrm cn l (sent ++ b') -> StronglySorted N.lt l -> StronglySorted N.lt sent.
Proof. intros H Hs. apply (subrm_sorted _ _ _ H) in Hs. apply sorted_app_inv in Hs. tauto. Qed.

Lemma oinv_step s e s' o T : Good s -> step s e = (s', o) -> OInv s T -> OInv s' (T ++ o).
Proof.
  intros G H [O0 [O1 [O2 [O3 [O4 O5]]]]]. pose proof (step_shape _ _ _ _ G H) as Sh.
  pose proof (good_step _ _ _ _ G H) as [[Hs' _] _]. destruct G as [[Hs [Hn Hu]] HU]. clear H.
  destruct Sh as [f sent b' s' Hup Hbuf Sub Nc Ec En Ecn P | f Hup Hp | f sent b' s' Hup Hp Sub Nc Ec En Ecn P
                 | e Hack | f Hup Hp Hbuf | f x0 r Hup Hp Hbuf | Hup Hbuf | id];
    unfold OInv; rewrite ?app_nil_r.
  - (* ENew while connected *)
    pose proof (post_owed _ _ _ _ P) as Eo. unfold owed in Eo. rewrite Eo in Hs'.
    assert (Hsub : forall y, In y (sent ++ b') -> y = next s).
    { intros y Hy. apply (subrm_in _ _ _ _ Sub) in Hy. destruct Hy as [<-|[]]. reflexivity. }
    rewrite frame_ids_app, frame_ids_map.
    destruct (order_extend sent (frame_ids T) (pend s) b' Hs' O1) as [F' K'].
    { intros x y Hx Hy Hlt. apply in_app_or in Hy. destruct Hy as [Hy|Hy].
      - apply (O2 x y Hx); auto. unfold owed. apply in_or_app. left. exact Hy.
      - apply Hsub in Hy. subst y. specialize (O0 x Hx). lia. }
    { exact O3. }
    split; [|split; [|split; [|split; [|split]]]].
    + intros x Hx. apply in_app_or in Hx. destruct Hx as [Hx|Hx]; [specialize (O0 x Hx); lia|].
      rewrite En. rewrite (Hsub x) by (apply in_or_app; left; exact Hx). lia.
    + intros y Hy. apply (post_pend _ _ _ _ _ P) in Hy. apply in_or_app. apply in_app_or in Hy.
      destruct Hy as [Hy|Hy]; auto.
    + unfold owed. rewrite Eo. exact K'.
    + exact F'.
    + intros c. rewrite frames_on_app, frames_on_map. destruct (conn s =? c); [|rewrite app_nil_r; apply O4].
      apply sorted_app_intro; [apply O4| |].
      * eapply subrm_sub_sorted; [exact Sub|]. repeat constructor.
      * intros x y Hx Hy. rewrite (Hsub y) by (apply in_or_app; left; exact Hy).
        apply O0. eapply frames_on_in_ids; eauto.
    + intros c Hc. rewrite Ecn in Hc. rewrite frames_on_app, frames_on_map, (O5 c Hc).
      destruct (conn s =? c) eqn:Eqc; [apply N.eqb_eq in Eqc; lia|reflexivity].
  - (* ENew while down *)
    split; [|split; [|split; [|split; [|split]]]]; simpl; auto.
    + intros x Hx. specialize (O0 x Hx). lia.
    + intros y [].
    + intros x y Hx Hy Hlt. unfold owed in Hy. simpl in Hy. apply filter_In in Hy. destruct Hy as [Hy _].
      apply in_app_or in Hy. destruct Hy as [Hy|[<-|[]]].
      * apply (O2 x y Hx); auto. unfold owed. apply in_or_app. right. exact Hy.
      * specialize (O0 x Hx). lia.
  - (* connect *)
    pose proof (post_owed _ _ _ _ P) as Eo. unfold owed in Eo. rewrite Eo in Hs'. simpl in Eo, Hs'.
    rewrite frame_ids_app, frame_ids_map.
    destruct (order_extend sent (frame_ids T) [] b' Hs') as [F' K'].
    { intros y []. }
    { intros x y Hx Hy Hlt. simpl in Hy. apply (subrm_in _ _ _ _ Sub) in Hy.
      apply (O2 x y Hx); auto. unfold owed. apply in_or_app. right. exact Hy. }
    { exact O3. }
    split; [|split; [|split; [|split; [|split]]]].
    + intros x Hx. rewrite En. apply in_app_or in Hx. destruct Hx as [Hx|Hx]; [apply O0; exact Hx|].
      apply Hn. apply in_or_app. right. apply (subrm_in _ _ _ _ Sub). apply in_or_app. left. exact Hx.
    + intros y Hy. apply (post_pend _ _ _ _ _ P) in Hy. simpl in Hy. apply in_or_app. right. exact Hy.
    + unfold owed. rewrite Eo. exact K'.
    + exact F'.
    + intros c. rewrite frames_on_app, frames_on_map. destruct (conn s + 1 =? c) eqn:Eqc; [|rewrite app_nil_r; apply O4].
      apply N.eqb_eq in Eqc. subst c. rewrite (O5 (conn s + 1)) by lia. simpl.
      eapply subrm_sub_sorted; [exact Sub|]. rewrite Hp in Hs. exact Hs.
    + intros c Hc. rewrite Ecn in Hc. rewrite frames_on_app, frames_on_map, (O5 c) by lia.
      destruct (conn s + 1 =? c) eqn:Eqc; [apply N.eqb_eq in Eqc; lia|reflexivity].
  - (* no-op *)
    repeat split; auto.
  - (* unexpected reply *)
    split; [|split; [|split; [|split; [|split]]]]; simpl; auto; try (intros y []; fail).
    intros x y Hx [].
  - (* reply *)
    assert (E : frame_ids (T ++ (if memN x0 (cancelled s) then [] else [OResolve x0])) = frame_ids T).
    { rewrite frame_ids_app. destruct (memN x0 (cancelled s)); simpl; rewrite app_nil_r; reflexivity. }
    assert (E2 : forall c, frames_on c (T ++ (if memN x0 (cancelled s) then [] else [OResolve x0])) = frames_on c T).
    { intros c. rewrite frames_on_app. destruct (memN x0 (cancelled s)); simpl; rewrite app_nil_r; reflexivity. }
    split; [|split; [|split; [|split; [|split]]]]; simpl; rewrite ?E; auto.
    + intros y Hy. apply O1. rewrite Hp. right. exact Hy.
    + intros x y Hx Hy Hlt. unfold owed in Hy. simpl in Hy. rewrite app_nil_r in Hy.
      apply (O2 x y Hx); auto. unfold owed. rewrite Hp. right. apply in_or_app. left. exact Hy.
    + intros c. rewrite E2. apply O4.
    + intros c Hc. rewrite E2. apply O5. exact Hc.
  - (* read error *)
    split; [|split; [|split; [|split; [|split]]]]; simpl; auto; try (intros y []; fail).
  - (* cancel *)
    split; [|split; [|split; [|split; [|split]]]]; simpl; auto.
Qed.

Lemma oinv_run es : forall s s' o T, Good s -> run s es = (s', o) -> OInv s T -> OInv s' (T ++ o).
Proof.
  induction es as [|e r IH]; intros s s' o T G H C; simpl in H.
  - inversion H; subst. rewrite app_nil_r. exact C.
  - destruct (step s e) as [s1 o1] eqn:E1. destruct (run s1 r) as [s2 o2] eqn:E2. inversion H; subst.
    rewrite app_assoc. eapply IH; [eapply good_step; eauto|exact E2|]. eapply oinv_step; eauto.
Qed.

(* from FO to the computable statement: the list of first occurrences is strictly increasing *)
Lemma firsts_acc_in seen : forall l y, In y (firsts_acc l seen) -> In y seen.
Proof.
  intros l. revert l. induction seen as [|a r IH]; intros l y; simpl; [tauto|].
  destruct (memN a l); [intros H; right; eapply IH; eauto|].
  intros [<-|H]; [left; reflexivity|right; eapply IH; eauto].
Qed.

Lemma firsts_acc_snoc : forall l seen x,
  firsts_acc seen (l ++ [x]) = firsts_acc seen l ++ (if memN x seen || memN x l then [] else [x]).
Proof.
  induction l as [|a r IH]; intros seen x; simpl.
  - rewrite orb_false_r. destruct (memN x seen); reflexivity.
  - destruct (memN a seen) eqn:Ea.
    + rewrite IH. f_equal. destruct (N.eqb_spec x a) as [->|Hne]; simpl; [rewrite Ea; reflexivity|reflexivity].
    + simpl. rewrite IH. f_equal. simpl.
      destruct (x =? a); simpl; [rewrite orb_true_r; reflexivity|reflexivity].
Qed.

Lemma FO_firsts l : FO l -> StronglySorted N.lt (firsts l).
Proof.
  induction 1 as [|l x HF IH Hx]; [constructor|].
  unfold firsts in *. rewrite firsts_acc_snoc. simpl.
  destruct (memN x l) eqn:Em; [rewrite app_nil_r; exact IH|].
  destruct Hx as [Hx|Hx]; [apply memN_in in Hx; congruence|].
  apply sorted_app_intro; [exact IH|repeat constructor|].
  intros a b Ha [<-|[]]. apply Hx. eapply firsts_acc_in. exact Ha.
Qed.

(* (b): on every connection the frames are for ids in increasing hand-over order (in particular no id twice on one
   connection); over the whole run, first transmissions are in hand-over order; no frame carries an id not yet
   handed over *)
Theorem c14_order es s o :
  run init es = (s, o) ->
  (forall c, StronglySorted N.lt (frames_on c o)) /\
  StronglySorted N.lt (firsts (frame_ids o)) /\
  (forall x, In x (frame_ids o) -> x < next s).
Proof.
  intros H.
  assert (O : OInv init []).
  { split; [|split; [|split; [|split; [|split]]]]; simpl; try tauto; try constructor. }
  pose proof (oinv_run es init s o [] good_init H O) as [O0 [_ [_ [O3 [O4 _]]]]]. simpl in *.
  split; [exact O4|]. split; [apply FO_firsts; exact O3|exact O0].
Qed.

(* the same in "no overtaking" form: once an id has been transmitted, a smaller id is never transmitted for the
   first time *)
Corollary c14_order_no_overtake es s o l1 x l2 :
  run init es = (s, o) -> frame_ids o = l1 ++ x :: l2 -> In x l1 \/ forall y, In y l1 -> y < x.
Proof.
  intros H E.
  assert (O : OInv init []).
  { split; [|split; [|split; [|split; [|split]]]]; simpl; try tauto; try constructor. }
  pose proof (oinv_run es init s o [] good_init H O) as [_ [_ [_ [O3 _]]]]. simpl in O3.
  revert l1 x l2 E. induction O3 as [|l z HF IH Hz]; intros l1 x l2 E.
  - destruct l1; discriminate.
  - destruct (rev l2) as [|w l2'] eqn:Er.
    + assert (l2 = []) by (rewrite <- (rev_involutive l2), Er; reflexivity). subst l2.
      apply app_inj_tail in E. destruct E as [-> ->]. exact Hz.
    + assert (E2 : l2 = rev l2' ++ [w]) by (rewrite <- (rev_involutive l2), Er; reflexivity). subst l2.
      replace (l1 ++ x :: rev l2' ++ [w]) with ((l1 ++ x :: rev l2') ++ [w]) in E by (rewrite <- app_assoc; reflexivity).
      apply app_inj_tail in E. destruct E as [E _]. eapply IH. exact E.
Qed.

(* ---------- (e) progress ---------- *)
Definition notcn (s : RS) (x : N) : bool := negb (memN x (cancelled s)).
(* ids still owed whose handle is kept *)
Definition live (s : RS) : list N := filter (notcn s) (pend s ++ buf s).

Lemma drain_none cn : forall b p fr,
  drain None cn b p fr =
  ([], p ++ filter (fun x => negb (memN x cn)) b, fr ++ filter (fun x => negb (memN x cn)) b, false).
Proof.
  induction b as [|x r IH]; intros p fr; simpl.
  - rewrite !app_nil_r. reflexivity.
  - destruct (memN x cn); simpl; [apply IH|]. rewrite IH, <- !app_assoc. reflexivity.
Qed.

Lemma filter_idem {A} (f : A -> bool) l : filter f (filter f l) = filter f l.
Proof.
  induction l as [|a r IH]; simpl; auto. destruct (f a) eqn:Ea; simpl; [rewrite Ea, IH; reflexivity|exact IH].
Qed.

(* one reply per frame still unanswered resolves them all, in order *)
Lemma acks_all : forall l s, up s = true -> buf s = [] -> pend s = l ->
  run s (repeat (EAck None) (length l)) =
  (mkRS [] [] true (cancelled s) (next s) (conn s), map OResolve (filter (notcn s) l)).
Proof.
  induction l as [|x r IH]; intros s Hup Hbuf Hp; simpl.
  - destruct s; simpl in *; subst; reflexivity.
  - rewrite Hup, Hp, Hbuf. unfold after_drain. simpl. rewrite app_nil_r.
    rewrite IH by reflexivity. simpl. unfold notcn. simpl.
    destruct (memN x (cancelled s)); reflexivity.
Qed.

(* From any reachable state: a successful connect whose writes all succeed, followed by one reply per frame then
   unanswered, completes the handle of every live id, in hand-over order, and leaves nothing owed. (If the
   connection is already up, the connect event is a no-op and the frames have been written already.) *)
Theorem c14_progress es s o :
  run init es = (s, o) ->
  let '(s1, o1) := step s (EConnOk None) in
  let '(s2, o2) := run s1 (repeat (EAck None) (length (pend s1))) in
  resolves (o1 ++ o2) = live s /\
  pend s2 ++ buf s2 = [] /\
  (forall x, In x (live s) -> (up s = true /\ In x (pend s)) \/ In (OFrame (conn s1) x) o1).
Proof.
  intros H. pose proof (reachable_good _ _ _ H) as [[Hs [Hn Hu]] HU]. simpl. unfold live.
  destruct (up s) eqn:Eu.
  - pose proof (HU Eu) as Hb. rewrite (acks_all (pend s) s Eu Hb eq_refl). simpl.
    assert (R : forall l, resolves (map OResolve l) = l) by (induction l; simpl; congruence).
    rewrite R, Hb, app_nil_r. repeat split; auto.
    intros x Hx. left. apply filter_In in Hx. tauto.
  - rewrite (Hu eq_refl). simpl. unfold after_drain. rewrite drain_none. simpl.
    set (l := filter (fun x => negb (memN x (cancelled s))) (buf s)).
    set (s1 := mkRS [] l true (cancelled s) (next s) (conn s + 1)).
    rewrite (acks_all l s1 eq_refl eq_refl eq_refl). simpl.
    assert (R : forall l, resolves (map OResolve l) = l) by (induction l0; simpl; congruence).
    rewrite resolves_app, resolves_map, R. simpl.
    assert (F : filter (notcn s1) l = l).
    { unfold l, notcn. simpl. apply filter_idem. }
    rewrite F. repeat split; auto.
    intros x Hx. right. apply in_map. exact Hx.
Qed.

(* hence: if from some point on one connection lives long enough, every id handed over and not cancelled is
   delivered and its handle resolves *)
Corollary c14_at_least_once es s o x :
  run init es = (s, o) -> x < next s -> ~ In x (cancelled s) -> ~ In (OResolve x) o ->
  let '(s1, o1) := step s (EConnOk None) in
  let '(s2, o2) := run s1 (repeat (EAck None) (length (pend s1))) in
  In x (resolves (o1 ++ o2)).
Proof.
  intros H Hlt Hc Hr. pose proof (c14_no_loss es s o H x Hlt Hc Hr) as Hin.
  pose proof (c14_progress es s o H) as P.
  destruct (step s (EConnOk None)) as [s1 o1]. destruct (run s1 _) as [s2 o2].
  destruct P as [-> _]. unfold live. apply filter_In. split; [exact Hin|].
  unfold notcn. destruct (memN x (cancelled s)) eqn:Em; [apply memN_in in Em; contradiction|reflexivity].
Qed.

(* hypotheses are satisfiable and the statements are not vacuous: two messages buffered while down, the second
   cancelled, connect, a third message, one reply, connection lost, reconnect *)
Example c14_example :
  run_obs [ENew None; ENew None; EConnFail; ECancel 1; EConnOk None; ENew None; EAck None; EReadErr; EConnOk None]
  = ([[0; 2]; [2]], [0]).
Proof. vm_compute. reflexivity. Qed.

Print Assumptions c14_no_loss.
Print Assumptions c14_order.
Print Assumptions c14_order_no_overtake.
Print Assumptions c14_pairing.
Print Assumptions c14_pairing_count.
Print Assumptions c14_pairing_nth.
Print Assumptions c14_no_retransmit_after_cancel.
Print Assumptions c14_progress.
Print Assumptions c14_at_least_once.

(* ---------- a write lost in the socket buffers is indistinguishable from a failed write ---------- *)
(* The scripted peer of the socket harness only knows which frames it RECEIVED before it closed a connection. Frames
   that the real sender wrote successfully into the socket buffer but that the peer never took are, for the model,
   writes that failed: the two differ only in cancelled entries left in `buf`, which no later behaviour depends on.
   `beq` is that equivalence, `step_congr`/`run_congr` show it is a bisimulation with equal outputs, and
   `c14_lost_write` relates the two explanations of an early close. *)
Definition beq (s t : RS) : Prop :=
  up s = up t /\ pend s = pend t /\ cancelled s = cancelled t /\ next s = next t /\ conn s = conn t /\
  filter (notcn s) (buf s) = filter (notcn t) (buf t).

Lemma beq_refl s : beq s s.
Proof. repeat split. Qed.

Definition ncl (cn : list N) (x : N) : bool := negb (memN x cn).

Lemma drain_filter cn : forall b f p fr,
  drain f cn (filter (ncl cn) b) p fr =
  let '(b', p', fr', fl) := drain f cn b p fr in (filter (ncl cn) b', p', fr', fl).
Proof.
  induction b as [|x r IH]; intros f p fr; simpl; [reflexivity|]. unfold ncl at 1.
  destruct (memN x cn) eqn:Em; simpl; [apply IH|]. rewrite Em.
  destruct f as [[|k]|]; [|apply IH|apply IH].
  simpl. unfold ncl. rewrite Em. reflexivity.
Qed.

Lemma drain_congr cn b1 b2 f p fr :
  filter (ncl cn) b1 = filter (ncl cn) b2 ->
  let '(b1', p1, fr1, fl1) := drain f cn b1 p fr in
  let '(b2', p2, fr2, fl2) := drain f cn b2 p fr in
  filter (ncl cn) b1' = filter (ncl cn) b2' /\ p1 = p2 /\ fr1 = fr2 /\ fl1 = fl2.
Proof.
  intros E. pose proof (drain_filter cn b1 f p fr) as H1. pose proof (drain_filter cn b2 f p fr) as H2.
  rewrite E in H1. rewrite H2 in H1.
  destruct (drain f cn b1 p fr) as [[[b1' p1] fr1] fl1]. destruct (drain f cn b2 p fr) as [[[b2' p2] fr2] fl2].
  inversion H1; subst. auto.
Qed.

Lemma after_drain_congr s t f b1 b2 p :
  cancelled s = cancelled t -> next s = next t -> conn s = conn t ->
  filter (ncl (cancelled s)) b1 = filter (ncl (cancelled s)) b2 ->
  beq (fst (after_drain s f b1 p)) (fst (after_drain t f b2 p)) /\
  snd (after_drain s f b1 p) = snd (after_drain t f b2 p).
Proof.
  intros Ec En Ecn E. unfold after_drain. rewrite <- Ec, <- En, <- Ecn.
  pose proof (drain_congr (cancelled s) b1 b2 f p [] E) as D.
  destruct (drain f (cancelled s) b1 p []) as [[[b1' p1] fr1] fl1].
  destruct (drain f (cancelled s) b2 p []) as [[[b2' p2] fr2] fl2].
  destruct D as [D1 [-> [-> ->]]]. destruct fl2; simpl; (split; [|reflexivity]); unfold beq, notcn; simpl; repeat split; auto.
  rewrite !filter_app. fold (ncl (cancelled s)). rewrite D1. reflexivity.
Qed.

Lemma filter_filter {A} (f g : A -> bool) l : filter f (filter g l) = filter (fun x => g x && f x) l.
Proof.
  induction l as [|a r IH]; simpl; auto. destruct (g a); simpl; [destruct (f a); rewrite IH; reflexivity|exact IH].
Qed.

Lemma step_congr s t e : beq s t ->
  beq (fst (step s e)) (fst (step t e)) /\ snd (step s e) = snd (step t e).
Proof.
  intros B. pose proof B as [Eu [Ep [Ec [En [Ecn Eb]]]]]. unfold notcn in Eb. rewrite <- Ec in Eb. fold (ncl (cancelled s)) in Eb.
  destruct e as [f|f| |f| |id]; simpl; rewrite <- ?Eu, <- ?Ep, <- ?Ec, <- ?En, <- ?Ecn.
  - destruct (up s).
    + apply after_drain_congr; simpl; auto. rewrite !filter_app. fold (ncl (cancelled s)). rewrite Eb. reflexivity.
    + split; [|reflexivity]. unfold beq, notcn; simpl. repeat split; auto.
      fold (ncl (cancelled s)). rewrite !filter_idem, !filter_app, Eb. reflexivity.
  - destruct (up s) eqn:Eus.
    + split; [exact B|reflexivity].
    + apply after_drain_congr; simpl; auto.
  - split; [exact B|reflexivity].
  - destruct (up s) eqn:Eus.
    + destruct (pend s) as [|x r].
      * split; [|reflexivity]. unfold beq, notcn; simpl. fold (ncl (cancelled s)). repeat split; auto.
      * pose proof (after_drain_congr s t f (buf s) (buf t) r Ec En Ecn Eb) as [A A2].
        destruct (after_drain s f (buf s) r) as [s1 o1]. destruct (after_drain t f (buf t) r) as [t1 o2].
        simpl in *. subst o2. split; auto.
    + split; [exact B|reflexivity].
  - destruct (up s) eqn:Eus.
    + split; [|reflexivity]. unfold beq, notcn; simpl. fold (ncl (cancelled s)). repeat split; auto.
      rewrite !filter_app, Eb. reflexivity.
    + split; [exact B|reflexivity].
  - split; [|reflexivity]. unfold beq, notcn; simpl. repeat split; auto.
    assert (F : forall l, filter (fun x => negb ((x =? id) || memN x (cancelled s))) l =
                          filter (fun x => negb (x =? id)) (filter (ncl (cancelled s)) l)).
    { intros l. rewrite filter_filter. apply filter_ext. intros a. unfold ncl.
      destruct (a =? id), (memN a (cancelled s)); reflexivity. }
    rewrite !F, Eb. reflexivity.
Qed.

Lemma run_congr es : forall s t, beq s t ->
  beq (fst (run s es)) (fst (run t es)) /\ snd (run s es) = snd (run t es).
Proof.
  induction es as [|e r IH]; intros s t B; simpl; [auto|].
  destruct (step_congr s t e B) as [B1 O1].
  destruct (step s e) as [s1 o1]. destruct (step t e) as [t1 o2]. simpl in *. subst o2.
  destruct (IH s1 t1 B1) as [B2 O2].
  destruct (run s1 r) as [s2 o3]. destruct (run t1 r) as [t2 o4]. simpl in *. subst o4. auto.
Qed.

Lemma subrm_filter cn l l' : subrm cn l l' -> filter (ncl cn) l = filter (ncl cn) l'.
Proof.
  induction 1; simpl; auto.
  - rewrite IHsubrm. reflexivity.
  - unfold ncl at 1. apply memN_in in H. rewrite H. simpl. exact IHsubrm.
Qed.

Lemma filter_all {A} (f : A -> bool) l : (forall x, In x l -> f x = true) -> filter f l = l.
Proof.
  induction l as [|a r IH]; simpl; intros H; auto. rewrite (H a (or_introl eq_refl)), IH; auto.
Qed.

(* the same send loop with a write failing at index k, or with no failing write: once the connection has ended the two
   states are equivalent, and the frames of the first are a prefix of the frames of the second *)
Lemma after_drain_lost s k b p :
  beq (fst (step (fst (after_drain s (Some k) b p)) EReadErr)) (fst (step (fst (after_drain s None b p)) EReadErr)) /\
  exists rest, snd (after_drain s None b p) = snd (after_drain s (Some k) b p) ++ map (OFrame (conn s)) rest.
Proof.
  destruct (after_drain s (Some k) b p) as [s1 o1] eqn:E1.
  apply after_drain_spec in E1. destruct E1 as [sent1 [b1 [-> [Ec1 [En1 [Ecn1 [Sub1 [Nc1 P1]]]]]]]].
  unfold after_drain at 1 2. rewrite drain_none. fold (ncl (cancelled s)). simpl.
  assert (F1 : filter (ncl (cancelled s)) b = sent1 ++ filter (ncl (cancelled s)) b1).
  { rewrite (subrm_filter _ _ _ Sub1), filter_app. f_equal. apply filter_all.
    intros x Hx. unfold ncl. destruct (memN x (cancelled s)) eqn:Em; [apply memN_in in Em; destruct (Nc1 x Hx Em)|reflexivity]. }
  split.
  - assert (G : forall l, filter (ncl (cancelled s)) l = filter (ncl (cancelled s)) (sent1 ++ b1) ->
                filter (ncl (cancelled s)) (p ++ l) = filter (ncl (cancelled s)) ((p ++ filter (ncl (cancelled s)) b) ++ [])).
    { intros l E. rewrite app_nil_r, !filter_app, filter_idem, E, (subrm_filter _ _ _ Sub1). reflexivity. }
    destruct P1 as [[U1 [Pp1 [Pb1 Eb1]]]|[U1 [Pp1 Pb1]]]; rewrite U1; unfold beq, notcn; simpl;
      rewrite ?Ec1, ?En1, ?Ecn1; fold (ncl (cancelled s)); repeat split; auto.
    + rewrite Pp1, Pb1, app_nil_r. apply G. subst b1. rewrite app_nil_r. reflexivity.
    + rewrite Pb1. apply G. reflexivity.
  - exists (filter (ncl (cancelled s)) b1). rewrite F1, map_app. reflexivity.
Qed.

Lemma run_then_readerr s e : run s [e; EReadErr] = (fst (step (fst (step s e)) EReadErr), snd (step s e)).
Proof. simpl. destruct (step s e) as [s1 o1]. simpl. destruct (up s1); simpl; rewrite ?app_nil_r; reflexivity. Qed.

(* the event e with its failing-write index replaced *)
Definition with_f (e : ev) (f : option nat) : ev :=
  match e with ENew _ => ENew f | EConnOk _ => EConnOk f | EAck _ => EAck f | _ => e end.

(* An event whose send loop has a failing write, followed by the end of the connection, leaves the sender in a state
   equivalent to the same event with all writes succeeding followed by the end of the connection; the frames of the
   first are a prefix of those of the second, the resolutions are the same, and every continuation produces the same
   output from both. *)
Theorem c14_lost_write s e k es :
  let '(s1, o1) := run s [with_f e (Some k); EReadErr] in
  let '(s2, o2) := run s [with_f e None; EReadErr] in
  beq s1 s2 /\
  resolves o1 = resolves o2 /\
  (forall c, exists rest, frames_on c o2 = frames_on c o1 ++ rest) /\
  snd (run s1 es) = snd (run s2 es).
Proof.
  assert (Main :
    beq (fst (step (fst (step s (with_f e (Some k)))) EReadErr)) (fst (step (fst (step s (with_f e None))) EReadErr)) /\
    resolves (snd (step s (with_f e (Some k)))) = resolves (snd (step s (with_f e None))) /\
    (forall c, exists rest, frames_on c (snd (step s (with_f e None))) = frames_on c (snd (step s (with_f e (Some k)))) ++ rest)).
  { destruct e as [f|f| |f| |id]; simpl with_f;
      try (split; [apply beq_refl|split; [reflexivity|intros c; exists []; rewrite app_nil_r; reflexivity]]).
    - (* ENew *)
      simpl. destruct (up s).
      + set (s0 := mkRS (buf s) (pend s) true (cancelled s) (next s + 1) (conn s)).
        destruct (after_drain_lost s0 k (buf s ++ [next s]) (pend s)) as [A [rest R]].
        split; [exact A|]. rewrite R. split.
        * rewrite resolves_app, resolves_map, app_nil_r. reflexivity.
        * intros c. rewrite frames_on_app. eexists. reflexivity.
      + split; [apply beq_refl|split; [reflexivity|intros c; exists []; reflexivity]].
    - (* EConnOk *)
      simpl. destruct (up s).
      + split; [apply beq_refl|split; [reflexivity|intros c; exists []; reflexivity]].
      + set (s0 := mkRS (buf s) [] true (cancelled s) (next s) (conn s + 1)).
        destruct (after_drain_lost s0 k (buf s) []) as [A [rest R]].
        split; [exact A|]. rewrite R. split.
        * rewrite resolves_app, resolves_map, app_nil_r. reflexivity.
        * intros c. rewrite frames_on_app. eexists. reflexivity.
    - (* EAck *)
      simpl. destruct (up s); [|split; [apply beq_refl|split; [reflexivity|intros c; exists []; reflexivity]]].
      destruct (pend s) as [|x r]; [split; [apply beq_refl|split; [reflexivity|intros c; exists []; reflexivity]]|].
      destruct (after_drain_lost s k (buf s) r) as [A [rest R]].
      destruct (after_drain s (Some k) (buf s) r) as [s1 o1]. destruct (after_drain s None (buf s) r) as [s2 o2].
      simpl in *. split; [exact A|]. rewrite R. split.
      * rewrite !resolves_app, resolves_map, app_nil_r. reflexivity.
      * intros c. eexists. rewrite !frames_on_app, <- app_assoc. reflexivity. }
  destruct Main as [A [R F]]. rewrite !run_then_readerr.
  split; [exact A|]. split; [exact R|]. split; [exact F|]. apply run_congr. exact A.
Qed.

Print Assumptions c14_lost_write.
