(* Tie lemma for `add_vote`: the statement skeleton REGENERATED from the Rust source (GenAgg.v, tools/skelagg.py) computes, for every
   argument and every state, exactly what the hand-written model function does. *)
From Coq Require Import List NArith Bool Lia ZArith.
From Coq Require Import ZifyN ZifyBool.
From HS Require Import TieAggTac GenAgg Tie_qcmaker_append.
Import ListNotations.
Open Scope N_scope.

Lemma tie_add_vote c v s : gen_add_vote c v s = agg_add_vote c v s.
Proof.
  unfold gen_add_vote, agg_add_vote, agg_entry_qc, vote_digest. cbn [fst snd].
  unfold bind, get. rewrite tie_qcmaker_append. reflexivity.
Qed.
