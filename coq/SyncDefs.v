(* C07 (catch-up), definitions only: names for the pieces of the consensus synchronizer model of Node.v, the
   executable catch-up script of the synchronizer/store layer, and a boolean form of the synchronizer invariant
   (evaluated on model states by the correspondence check). No proofs here: see NodeSync.v, GlobalSync.v and
   CatchUp.v. *)
From Coq Require Import List NArith Bool.
From HS Require Import GTac Node.
Import ListNotations.
Open Scope N_scope.

(* Block::parent() *)
Definition parent (b : Block) : digest := qc_hash (b_qc b).

(* the waiters a store write of digest [d] wakes / leaves parked (store_block of Node.v) *)
Definition woken (d : digest) (l : list Block) : list Block :=
  filter (fun p => digest_eqb (qc_hash (b_qc p)) d) l.
Definition kept (d : digest) (l : list Block) : list Block :=
  filter (fun p => negb (digest_eqb (qc_hash (b_qc p)) d)) l.
Definition drop_req (d : digest) (l : list digest) : list digest :=
  filter (fun x => negb (digest_eqb x d)) l.

(* the first-time sync request for the parent of [b]: addressed to the author of [b] *)
Definition req_of (b : Block) : Out := OSyncReq (b_author b) (parent b).
Definition sync_reqs (o : list Out) : list (N * digest) :=
  flat_map (fun x => match x with OSyncReq a d => [(a, d)] | _ => [] end) o.

Definition fstate {A} (x : State * list Out * res A) : State := fst (fst x).
Definition fouts {A} (x : State * list Out * res A) : list Out := snd (fst x).
Definition fres {A} (x : State * list Out * res A) : res A := snd x.

(* ---------- the catch-up script of the synchronizer/store layer ----------
   [park_all l]: Synchronizer::get_parent_block on each block of [l] in turn (the caller passes the chain newest
   first, as the sync replies arrive); [serve_one b]: the core takes [b] out of the loop-back pool and writes it
   to the store (the store/synchronizer effect of process_block on a block whose ancestors are present);
   [catch_up b1 rest]: the missing chain b1 :: rest (oldest first) is requested newest first, then b1 arrives and
   the woken blocks are served one after the other. *)
Fixpoint park_all (l : list Block) : M unit :=
  match l with
  | [] => ret tt
  | b :: r => get_parent_block b ;;; park_all r
  end.

Definition serve_one (b : Block) : M unit :=
  s <- get ;;
  match remove_first b (s_loopback s) with
  | None => emit OBadHint
  | Some (x, l) => modify (fun s => set_loopback s l) ;;; store_block x
  end.

Fixpoint serve (l : list Block) : M unit :=
  match l with
  | [] => ret tt
  | b :: r => serve_one b ;;; serve r
  end.

Definition catch_up (b1 : Block) (rest : list Block) : M unit :=
  park_all (rev rest) ;;; store_block b1 ;;; serve rest.

(* parent-linked list of blocks, oldest first: each block's QC names the digest of its predecessor *)
Fixpoint linked (l : list Block) : Prop :=
  match l with
  | b :: ((b' :: _) as r) => parent b' = block_digest b /\ linked r
  | _ => True
  end.
Fixpoint linkedb (l : list Block) : bool :=
  match l with
  | b :: ((b' :: _) as r) => digest_eqb (parent b') (block_digest b) && linkedb r
  | _ => true
  end.

(* ---------- boolean form of the synchronizer invariant (SyncInv of NodeSync.v) ---------- *)
Fixpoint nodup_digests (l : list digest) : bool :=
  match l with [] => true | d :: r => negb (existsb (digest_eqb d) r) && nodup_digests r end.
Definition is_none {A} (o : option A) : bool := match o with None => true | Some _ => false end.
Definition sync_invb (s : State) : bool :=
  forallb (fun p => is_none (store_get (parent p) (s_store s)) && negb (qc_eqb (b_qc p) qc_genesis)) (s_sync_pending s) &&
  nodup_digests (map block_digest (s_sync_pending s)) &&
  forallb (fun d => existsb (fun p => digest_eqb (parent p) d) (s_sync_pending s)) (s_sync_requests s) &&
  nodup_digests (s_sync_requests s) &&
  forallb (fun p => existsb (digest_eqb (parent p)) (s_sync_requests s)) (s_sync_pending s) &&
  forallb (fun e => digest_eqb (fst e) (block_digest (snd e)) &&
                    (qc_eqb (b_qc (snd e)) qc_genesis || negb (is_none (store_get (parent (snd e)) (s_store s)))))
          (s_store s).
Definition sync_idle (s : State) : bool :=
  match s_sync_pending s, s_sync_requests s with [], [] => true | _, _ => false end.
