(* C13, mempool synchronizer (mempool/src/synchronizer.rs): theorems about the model of MempoolSyncDefs.v, over
   every event sequence and every parameter value (own name, gc depth, retry delay, committee membership test).

   (a) ms_sync_output / ms_sync_asks_iff / ms_request_once : a digest is requested from the target by the first
       Synchronize that mentions it while it is not pending, and by no later Synchronize until it left `pending`
       (which only an arrival of that batch or a Cleanup can cause: ms_leaves_only_by);
   (b) ms_sync_pending / ms_arrived_pending / ms_retry_state / ms_pending_exact : `pending` holds exactly the digests
       asked for and neither arrived nor garbage-collected since, with the round and time of the asking;
   (c) ms_retry_output / ms_retry_covers / ms_retry_persistent : every retry tick re-requests every pending digest
       older than the delay, from each of the drawn peers, and keeps doing so (the timestamp is not refreshed);
   (d) ms_cleanup_exact : Cleanup(r) sets the round to r and drops exactly the entries with
       entry_round + gc_depth <= r. *)
From Coq Require Import List NArith Lia Bool.
From HS Require Import Guards MempoolSyncDefs.
Import ListNotations.
Open Scope N_scope.

Definition pending (d : N) (s : MS) : Prop := In d (map pe_digest (ms_pending s)).
Definition ms_wf (s : MS) : Prop := NoDup (map pe_digest (ms_pending s)).

Lemma pmem_in d p : pmem d p = true <-> In d (map pe_digest p).
Proof.
  unfold pmem. rewrite existsb_exists, in_map_iff. split; intros [e [H1 H2]]; exists e.
  - apply N.eqb_eq in H2. auto.
  - split; [exact H2 | apply N.eqb_eq; exact H1].
Qed.
Lemma pmem_false d p : pmem d p = false <-> ~ In d (map pe_digest p).
Proof. rewrite <- pmem_in. destruct (pmem d p); split; intro H; try reflexivity; try discriminate; try (intro; discriminate). exfalso; apply H; reflexivity. Qed.

(* ---------------------------------------------------------------- the Synchronize loop *)
Lemma sync_go_spec rd now ds : forall p,
  fst (sync_go rd now ds p) = p ++ map (fun d => mkPE d rd now) (snd (sync_go rd now ds p)) /\
  (forall d, In d (snd (sync_go rd now ds p)) <-> In d ds /\ ~ In d (map pe_digest p)) /\
  NoDup (snd (sync_go rd now ds p)).
Proof.
  induction ds as [|d r IH]; intro p; cbn [sync_go].
  - cbn. rewrite app_nil_r. repeat split; try tauto. constructor.
  - destruct (pmem d p) eqn:E.
    + destruct (IH p) as [H1 [H2 H3]]. split; [exact H1|split; [|exact H3]].
      intro x. rewrite H2. cbn [In]. split; [tauto|].
      intros [[->|Hin] Hn]; [|tauto]. apply pmem_in in E. contradiction.
    + destruct (IH (p ++ [mkPE d rd now])) as [H1 [H2 H3]].
      destruct (sync_go rd now r (p ++ [mkPE d rd now])) as [p' m]. cbn [fst snd] in *.
      apply pmem_false in E.
      assert (Hm : forall x, In x (map pe_digest (p ++ [mkPE d rd now])) <-> In x (map pe_digest p) \/ x = d).
      { intro x. rewrite map_app, in_app_iff. cbn. intuition. }
      split; [|split].
      * rewrite H1. rewrite <- app_assoc. reflexivity.
      * intro x. cbn [In]. rewrite H2, Hm. split.
        -- intros [->|[Hin Hn]]; [tauto|]. split; [tauto|]. intro; apply Hn; tauto.
        -- intros [[->|Hin] Hn]; [tauto|]. destruct (N.eq_dec d x) as [->|Hne]; [tauto|].
           right. split; [exact Hin|]. intros [H|H]; [tauto|]. apply Hne. symmetry; exact H.
      * constructor; [|exact H3]. intro Hin. apply H2 in Hin. apply (proj2 Hin). apply Hm. tauto.
Qed.

Section Thms.
  Variable me gc_depth delay : N.
  Variable known : N -> bool.
  Notation step := (msstep me gc_depth delay known).
  Notation state := (ms_state me gc_depth delay known).

  Lemma state_app s a b : state s (a ++ b) = state (state s a) b.
  Proof. unfold ms_state. apply fold_left_app. Qed.
  Lemma state_snoc s a e : state s (a ++ [e]) = fst (step (state s a) e).
  Proof. rewrite state_app. reflexivity. Qed.
  Lemma state_cons s e b : state s (e :: b) = state (fst (step s e)) b.
  Proof. reflexivity. Qed.

  (* -------------------------------------------------------------- (a), (b): Synchronize *)
  (* "the Synchronize command e mentions d while d is not pending" *)
  Definition sync_asks (s : MS) (e : msev) (d : N) : Prop :=
    match e with MSync ds _ _ => In d ds /\ ~ pending d s | _ => False end.

  (* the request sent by Synchronize(ds, target): one message, to the target, from me, listing without repetition
     exactly the digests of ds that were not pending; nothing is sent when the target is not a committee member *)
  Theorem ms_sync_output s ds target now :
    exists missing,
      snd (step s (MSync ds target now)) = (if known target then [mkReq target missing me] else []) /\
      NoDup missing /\
      (forall d, In d missing <-> sync_asks s (MSync ds target now) d) /\
      ms_pending (fst (step s (MSync ds target now))) =
        ms_pending s ++ map (fun d => mkPE d (ms_round s) now) missing /\
      ms_round (fst (step s (MSync ds target now))) = ms_round s.
  Proof.
    destruct (sync_go_spec (ms_round s) now ds (ms_pending s)) as [H1 [H2 H3]].
    cbn [msstep]. destruct (sync_go (ms_round s) now ds (ms_pending s)) as [p' m]. cbn [fst snd] in *.
    exists m. repeat split; auto; apply H2; auto.
  Qed.

  (* the emitted request names d  <->  this Synchronize mentions d while d is not pending (known target) *)
  Corollary ms_sync_asks_iff s ds target now d :
    known target = true ->
    ((exists q, In q (snd (step s (MSync ds target now))) /\ In d (rq_digests q)) <-> (In d ds /\ ~ pending d s)).
  Proof.
    intro K. destruct (ms_sync_output s ds target now) as [m [Ho [_ [Hm _]]]]. rewrite Ho, K. split.
    - intros [q [[<-|[]] Hd]]. apply Hm. exact Hd.
    - intro H. exists (mkReq target m me). split; [left; reflexivity|]. apply Hm. exact H.
  Qed.
  (* ... and goes to the target, from me, in a single message *)
  Corollary ms_sync_single s ds target now q :
    In q (snd (step s (MSync ds target now))) -> rq_dest q = target /\ rq_origin q = me /\ known target = true /\
    snd (step s (MSync ds target now)) = [q].
  Proof.
    destruct (ms_sync_output s ds target now) as [m [Ho _]]. rewrite Ho.
    destruct (known target); [|intros []]. intros [<-|[]]. auto.
  Qed.
  (* a pending digest is never part of a Synchronize request *)
  Corollary ms_pending_not_requested s ds target now q d :
    pending d s -> In q (snd (step s (MSync ds target now))) -> ~ In d (rq_digests q).
  Proof.
    intros Hp Hq Hd. destruct (ms_sync_output s ds target now) as [m [Ho [_ [Hm _]]]]. rewrite Ho in Hq.
    destruct (known target); [|destruct Hq]. destruct Hq as [<-|[]]. cbn in Hd. apply Hm in Hd. destruct Hd as [_ Hn]. exact (Hn Hp).
  Qed.

  (* effect on `pending`: afterwards pending = before + everything mentioned (whether or not the target is known) *)
  Theorem ms_sync_pending s ds target now d :
    pending d (fst (step s (MSync ds target now))) <-> pending d s \/ In d ds.
  Proof.
    destruct (ms_sync_output s ds target now) as [m [_ [_ [Hm [Hp _]]]]]. unfold pending. rewrite Hp, map_app, in_app_iff, map_map. cbn [pe_digest].
    rewrite map_id. rewrite Hm. cbn [sync_asks]. unfold pending.
    destruct (in_dec N.eq_dec d (map pe_digest (ms_pending s))); tauto.
  Qed.

  (* -------------------------------------------------------------- (d): Cleanup *)
  Theorem ms_cleanup_exact s r :
    snd (step s (MCleanup r)) = [] /\
    ms_round (fst (step s (MCleanup r))) = r /\
    (forall e, In e (ms_pending (fst (step s (MCleanup r)))) <-> In e (ms_pending s) /\ ~ (pe_round e + gc_depth <= r)).
  Proof.
    cbn [msstep]. unfold ms_gc_skip, ms_gc_keep, g_ms_gc_skip, g_ms_gc_keep, g_ms_gc_round. destruct (N.ltb_spec r gc_depth) as [Hlt|Hge]; cbn [fst snd ms_round ms_pending].
    - split; [reflexivity|]. split; [reflexivity|]. intro e. split; [intro H; split; [exact H|lia]|tauto].
    - split; [reflexivity|]. split; [reflexivity|]. intro e. rewrite filter_In, N.ltb_lt.
      split; intros [H1 H2]; (split; [exact H1|lia]).
  Qed.
  Lemma filter_all_true {A} (f : A -> bool) (l : list A) : (forall x, f x = true) -> filter f l = l.
  Proof. intro H. induction l as [|x l IH]; cbn; [reflexivity|]. rewrite H, IH. reflexivity. Qed.
  (* the order of the surviving entries is kept *)
  Lemma ms_cleanup_filter s r :
    ms_pending (fst (step s (MCleanup r))) = filter (fun e => negb (pe_round e + gc_depth <=? r)) (ms_pending s).
  Proof.
    cbn [msstep]. unfold ms_gc_skip, ms_gc_keep, g_ms_gc_skip, g_ms_gc_keep, g_ms_gc_round. destruct (N.ltb_spec r gc_depth) as [Hlt|Hge]; cbn [fst ms_pending].
    - symmetry. apply filter_all_true. intro e. apply negb_true_iff, N.leb_gt. lia.
    - apply filter_ext. intro e. destruct (N.ltb_spec (r - gc_depth) (pe_round e)); destruct (N.leb_spec (pe_round e + gc_depth) r); cbn; auto; lia.
  Qed.

  (* -------------------------------------------------------------- (b): arrival *)
  Theorem ms_arrived_pending s d :
    snd (step s (MArrived d)) = [] /\ ms_round (fst (step s (MArrived d))) = ms_round s /\
    (forall e, In e (ms_pending (fst (step s (MArrived d)))) <-> In e (ms_pending s) /\ pe_digest e <> d).
  Proof.
    cbn [msstep fst snd ms_round ms_pending]. split; [reflexivity|]. split; [reflexivity|].
    intro e. rewrite filter_In, negb_true_iff, N.eqb_neq. tauto.
  Qed.
  Corollary ms_arrived_not_pending s d : ~ pending d (fst (step s (MArrived d))).
  Proof.
    unfold pending. rewrite in_map_iff. intros [e [He Hin]]. apply (ms_arrived_pending s d) in Hin. tauto.
  Qed.

  (* -------------------------------------------------------------- (c): retry *)
  Theorem ms_retry_state s now pick : fst (step s (MRetry now pick)) = s.
  Proof. cbn [msstep]. destruct (retry_list delay now (ms_pending s)); reflexivity. Qed.

  Lemma retry_list_in now p d :
    In d (retry_list delay now p) <-> exists e, In e p /\ pe_digest e = d /\ pe_time e + delay < now.
  Proof.
    unfold retry_list, ms_retry_due, g_ms_retry_due. rewrite in_map_iff. split.
    - intros [e [He H]]. apply filter_In in H. destruct H as [H1 H2]. apply N.ltb_lt in H2. eauto.
    - intros [e [H1 [H2 H3]]]. exists e. split; [exact H2|]. apply filter_In. split; [exact H1|]. apply N.ltb_lt. exact H3.
  Qed.

  (* one request per drawn peer, all with the same list: the pending digests older than the delay, in the order
     of `pending`; nothing at all when no digest is due *)
  Theorem ms_retry_output s now pick :
    snd (step s (MRetry now pick)) = map (fun p => mkReq p (retry_list delay now (ms_pending s)) me)
                                         (if match retry_list delay now (ms_pending s) with [] => true | _ => false end then [] else pick).
  Proof. cbn [msstep]. destruct (retry_list delay now (ms_pending s)); reflexivity. Qed.

  (* every pending digest older than the delay is re-requested from EVERY drawn peer *)
  Theorem ms_retry_covers s now pick e p :
    In e (ms_pending s) -> pe_time e + delay < now -> In p pick ->
    exists q, In q (snd (step s (MRetry now pick))) /\ rq_dest q = p /\ rq_origin q = me /\ In (pe_digest e) (rq_digests q).
  Proof.
    intros He Hold Hp. rewrite ms_retry_output.
    assert (Hin : In (pe_digest e) (retry_list delay now (ms_pending s))) by (apply retry_list_in; eauto).
    destruct (retry_list delay now (ms_pending s)) as [|x l] eqn:E; [destruct Hin|].
    exists (mkReq p (x :: l) me). split; [|auto]. apply in_map_iff. eauto.
  Qed.
  (* and nothing else is requested: only pending digests older than the delay, only from drawn peers *)
  Theorem ms_retry_only s now pick q d :
    In q (snd (step s (MRetry now pick))) -> In d (rq_digests q) ->
    In (rq_dest q) pick /\ rq_origin q = me /\ exists e, In e (ms_pending s) /\ pe_digest e = d /\ pe_time e + delay < now.
  Proof.
    rewrite ms_retry_output. intros Hq Hd. apply in_map_iff in Hq. destruct Hq as [p [<- Hp]]. cbn in *.
    split; [|split; [reflexivity|apply retry_list_in; exact Hd]].
    destruct (retry_list delay now (ms_pending s)); [destruct Hp|exact Hp].
  Qed.
  (* the timestamp is not refreshed by a retry: a digest due at one tick is due at every later tick as long as its
     entry is still pending *)
  Theorem ms_retry_persistent s now now' pick pick' e p :
    In e (ms_pending s) -> pe_time e + delay < now -> now <= now' -> In p pick' ->
    exists q, In q (snd (step (fst (step s (MRetry now pick))) (MRetry now' pick'))) /\ rq_dest q = p /\ In (pe_digest e) (rq_digests q).
  Proof.
    intros He Hold Hle Hp. rewrite ms_retry_state.
    destruct (ms_retry_covers s now' pick' e p He) as [q [H1 [H2 [_ H3]]]]; [lia|exact Hp|]. eauto.
  Qed.

  (* -------------------------------------------------------------- well-formedness: `pending` is a map *)
  Lemma NoDup_map_filter {A} (f : A -> N) g (l : list A) : NoDup (map f l) -> NoDup (map f (filter g l)).
  Proof.
    induction l as [|x l IH]; cbn; intro H; [constructor|]. inversion H as [|? ? Hn Hd]; subst.
    destruct (g x); cbn; [constructor|]; auto. intro Hin. apply Hn. apply in_map_iff in Hin. destruct Hin as [y [Hy Hin]].
    apply filter_In in Hin. apply in_map_iff. exists y. tauto.
  Qed.
  Theorem ms_wf_step s e : ms_wf s -> ms_wf (fst (step s e)).
  Proof.
    unfold ms_wf. intro W. destruct e as [ds t now|r|d|now pick].
    - destruct (ms_sync_output s ds t now) as [m [_ [Hnd [Hm [Hp _]]]]]. rewrite Hp, map_app, map_map. cbn [pe_digest]. rewrite map_id.
      clear Hp. assert (Hdis : forall d, In d m -> ~ In d (map pe_digest (ms_pending s))) by (intros d Hd; apply Hm in Hd; apply Hd).
      clear Hm. induction (map pe_digest (ms_pending s)) as [|x l IH]; cbn; [exact Hnd|].
      inversion W as [|? ? Hn Hd]; subst. constructor.
      + rewrite in_app_iff. intros [H|H]; [tauto|]. apply (Hdis x H). left; reflexivity.
      + apply IH; auto. intros d Hdm Hin. apply (Hdis d Hdm). right; exact Hin.
    - rewrite ms_cleanup_filter. apply NoDup_map_filter. exact W.
    - cbn [msstep fst ms_pending]. apply NoDup_map_filter. exact W.
    - rewrite ms_retry_state. exact W.
  Qed.
  Theorem ms_wf_run evs : forall s, ms_wf s -> ms_wf (state s evs).
  Proof. induction evs as [|e r IH]; intros s W; [exact W|]. rewrite state_cons. apply IH, ms_wf_step, W. Qed.
  Lemma ms_wf_init : ms_wf ms_init.
  Proof. constructor. Qed.

  (* -------------------------------------------------------------- (b) over whole runs *)
  (* event e removes an entry of digest d registered in round rd *)
  Definition drops (e : msev) (d rd : N) : Prop :=
    e = MArrived d \/ exists r, e = MCleanup r /\ rd + gc_depth <= r.

  Lemma entry_kept s e x :
    In x (ms_pending s) -> ~ drops e (pe_digest x) (pe_round x) -> In x (ms_pending (fst (step s e))).
  Proof.
    intros Hin Hnd. destruct e as [ds t now|r|d|now pick].
    - destruct (ms_sync_output s ds t now) as [m [_ [_ [_ [Hp _]]]]]. rewrite Hp. apply in_app_iff. tauto.
    - apply ms_cleanup_exact. split; [exact Hin|]. intro H. apply Hnd. right. eauto.
    - apply ms_arrived_pending. split; [exact Hin|]. intro H. apply Hnd. left. congruence.
    - rewrite ms_retry_state. exact Hin.
  Qed.
  Lemma entry_origin s e x :
    In x (ms_pending (fst (step s e))) ->
    (In x (ms_pending s) /\ ~ drops e (pe_digest x) (pe_round x)) \/
    (exists ds t now, e = MSync ds t now /\ In (pe_digest x) ds /\ ~ pending (pe_digest x) s /\
                      pe_round x = ms_round s /\ pe_time x = now).
  Proof.
    intro Hin. destruct e as [ds t now|r|d|now pick].
    - destruct (ms_sync_output s ds t now) as [m [_ [_ [Hm [Hp _]]]]]. rewrite Hp in Hin. apply in_app_iff in Hin.
      destruct Hin as [Hin|Hin].
      + left. split; [exact Hin|]. intros [H|[r [H _]]]; discriminate.
      + right. apply in_map_iff in Hin. destruct Hin as [d [<- Hd]]. apply Hm in Hd. cbn in Hd. exists ds, t, now. cbn. tauto.
    - left. apply ms_cleanup_exact in Hin. split; [tauto|]. intros [H|[r' [H Hle]]]; [discriminate|]. injection H as <-. tauto.
    - left. apply ms_arrived_pending in Hin. split; [tauto|]. intros [H|[r' [H _]]]; [|discriminate]. injection H as H. symmetry in H. tauto.
    - left. rewrite ms_retry_state in Hin. split; [exact Hin|]. intros [H|[r' [H _]]]; discriminate.
  Qed.

  (* Started with nothing pending, after ANY event sequence the entry (d, rd, ts) is pending iff some Synchronize
     handled at time ts mentioned d while d was not pending and the round was rd, and since then neither the batch d
     arrived nor a Cleanup(r) with rd + gc_depth <= r was received. *)
  Theorem ms_pending_exact evs x :
    In x (ms_pending (state ms_init evs)) <->
    exists a ds t b, evs = a ++ MSync ds t (pe_time x) :: b /\
                     In (pe_digest x) ds /\ ~ pending (pe_digest x) (state ms_init a) /\
                     pe_round x = ms_round (state ms_init a) /\
                     Forall (fun e => ~ drops e (pe_digest x) (pe_round x)) b.
  Proof.
    induction evs as [|e evs IH] using rev_ind.
    - cbn. split; [intros []|]. intros [a [ds [t [b [H _]]]]]. destruct a; discriminate.
    - rewrite state_snoc. split.
      + intro Hin. apply entry_origin in Hin. destruct Hin as [[Hin Hnd]|[ds [t [now [-> [H1 [H2 [H3 H4]]]]]]]].
        * apply IH in Hin. destruct Hin as [a [ds [t [b [-> [H1 [H2 [H3 H4]]]]]]]].
          exists a, ds, t, (b ++ [e]). rewrite <- app_assoc. cbn. repeat split; auto.
          apply Forall_app. split; [exact H4|]. constructor; [exact Hnd|constructor].
        * exists evs, ds, t, []. subst now. repeat split; auto.
      + intros [a [ds [t [b [Heq [H1 [H2 [H3 H4]]]]]]]].
        destruct b as [|e' b'] using rev_ind.
        * apply app_inj_tail in Heq. destruct Heq as [-> ->].
          destruct (ms_sync_output (state ms_init a) ds t (pe_time x)) as [m [_ [_ [Hm [Hp _]]]]]. rewrite Hp.
          apply in_app_iff. right. apply in_map_iff. exists (pe_digest x). split.
          -- rewrite <- H3. destruct x; reflexivity.
          -- apply Hm. cbn. tauto.
        * clear IHb'. change (a ++ MSync ds t (pe_time x) :: b' ++ [e']) with (a ++ (MSync ds t (pe_time x) :: b') ++ [e']) in Heq.
          rewrite app_assoc in Heq. apply app_inj_tail in Heq. destruct Heq as [-> ->].
          apply Forall_app in H4. destruct H4 as [H4 H5]. inversion H5; subst.
          apply entry_kept; [|assumption]. apply IH. exists a, ds, t, b'. repeat split; auto.
  Qed.

  (* -------------------------------------------------------------- (a) over whole runs *)
  Lemma pending_dec d s : {pending d s} + {~ pending d s}.
  Proof. apply in_dec, N.eq_dec. Qed.

  (* a pending digest leaves `pending` only by its own arrival or by a Cleanup *)
  Lemma ms_leave_step s e d :
    pending d s -> ~ pending d (fst (step s e)) -> e = MArrived d \/ exists r, e = MCleanup r.
  Proof.
    intros Hp Hn. unfold pending in Hp. apply in_map_iff in Hp. destruct Hp as [x [<- Hin]].
    destruct e as [ds t now|r|d'|now pick]; eauto.
    - exfalso. apply Hn. apply ms_sync_pending. left. apply in_map. exact Hin.
    - destruct (N.eq_dec d' (pe_digest x)) as [->|Hne]; [tauto|]. exfalso. apply Hn. apply in_map.
      apply ms_arrived_pending. split; auto.
    - exfalso. apply Hn. rewrite ms_retry_state. apply in_map. exact Hin.
  Qed.
  Theorem ms_leaves_only_by mid : forall s d,
    pending d s -> ~ pending d (state s mid) ->
    exists m1 e m2, mid = m1 ++ e :: m2 /\ pending d (state s m1) /\ ~ pending d (fst (step (state s m1) e)) /\
                    (e = MArrived d \/ exists r, e = MCleanup r).
  Proof.
    induction mid as [|e mid IH]; intros s d Hp Hn; [contradiction|].
    rewrite state_cons in Hn. destruct (pending_dec d (fst (step s e))) as [Hp'|Hn'].
    - destruct (IH _ _ Hp' Hn) as [m1 [e' [m2 [-> [H1 [H2 H3]]]]]]. exists (e :: m1), e', m2. auto.
    - exists [], e, mid. cbn. repeat split; auto. eapply ms_leave_step; eauto.
  Qed.

  (* Between two Synchronize commands that each ask for d (mention it while it is not pending) there is an event at
     which d left `pending`: the batch arrived or a Cleanup was received. In other words d is requested by the first
     Synchronize that mentions it and by none of the following ones while it stays pending. *)
  Theorem ms_request_once s pre e1 mid e2 d :
    sync_asks (state s pre) e1 d ->
    sync_asks (state s (pre ++ e1 :: mid)) e2 d ->
    exists m1 e m2, mid = m1 ++ e :: m2 /\
      pending d (state s (pre ++ e1 :: m1)) /\ ~ pending d (state s (pre ++ e1 :: m1 ++ [e])) /\
      (e = MArrived d \/ exists r, e = MCleanup r).
  Proof.
    intros A1 A2. destruct e1 as [ds t now| | |]; try contradiction. destruct e2 as [ds' t' now'| | |]; try contradiction.
    cbn in A1, A2. destruct A1 as [Hd1 _]. destruct A2 as [_ Hn2].
    rewrite state_app, state_cons in Hn2.
    assert (Hp : pending d (fst (step (state s pre) (MSync ds t now)))) by (apply ms_sync_pending; tauto).
    destruct (ms_leaves_only_by mid _ d Hp Hn2) as [m1 [e [m2 [-> [H1 [H2 H3]]]]]].
    exists m1, e, m2. split; [reflexivity|]. split; [|split; [|exact H3]].
    - rewrite state_app, state_cons. exact H1.
    - rewrite state_app, state_cons, state_snoc. exact H2.
  Qed.
End Thms.

(* ---------------------------------------------------------------- hypotheses are satisfiable / worked example *)
(* me = 0, gc_depth = 2, delay = 0, members 0..3. d=7 asked at round 0; asked again: not re-requested; a retry tick
   re-requests it from the drawn peers; Cleanup 2 drops it (0 + 2 <= 2), Cleanup 1 would not; asked again afterwards:
   requested again. *)
Example ms_example :
  ms_run 0 2 0 (fun a => a <? 4) ms_init
    [MSync [7; 8; 7] 1 10; MSync [7; 9] 2 11; MSync [5] 77 11; MRetry 12 [2; 3]; MArrived 8; MCleanup 1; MRetry 13 [1];
     MCleanup 2; MRetry 14 [1]; MSync [7] 3 15]
  = [ [mkReq 1 [7; 8] 0]; [mkReq 2 [9] 0]; []; [mkReq 2 [7; 8; 9; 5] 0; mkReq 3 [7; 8; 9; 5] 0]; []; [];
      [mkReq 1 [7; 9; 5] 0]; []; []; [mkReq 3 [7] 0] ].
Proof. vm_compute. reflexivity. Qed.

Print Assumptions ms_sync_output.
Print Assumptions ms_pending_exact.
Print Assumptions ms_request_once.
Print Assumptions ms_cleanup_exact.
Print Assumptions ms_retry_covers.
Print Assumptions ms_retry_persistent.
Print Assumptions ms_wf_run.
