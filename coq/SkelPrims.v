(* Primitives used by the regenerated statement skeletons (GenCore.v, written by tools/skel.py).
   Each names one operation of the Rust code whose effect the node model (Node.v) writes in line: an aggregator call, a channel
   send to the proposer or the mempool, the signing of a vote or a timeout (with the model's ghost record), the timer.
   No proofs here. *)
From Coq Require Import List NArith Bool.
From HS Require Import GTac Node.
Import ListNotations.
Open Scope N_scope.

(* Timer::reset(): the node model has no clock (the run-loop smoke harness exercises the real timer) *)
Definition timer_reset : M unit := ret tt.

(* Aggregator::cleanup(&round) *)
Definition agg_cleanup (nr : N) : M unit :=
  modify (fun s => set_tcm (set_qcm s (filter (fun e => g_agg_keep_votes (fst (fst e)) nr) (s_qcm s)))
                           (filter (fun e => g_agg_keep_timeouts (fst e) nr) (s_tcm s))).

(* Aggregator::add_vote / add_timeout: the maker of the vote's (round, hash) / the timeout's round is created on demand,
   the vote appended, and the updated maker kept whatever the outcome *)
Definition agg_add_vote (c : Committee) (v : Vote) : M (option QC) :=
  s <- get ;;
  let k := (v_round v, v_hash v) in
  let '(m', r) := qm_append c (qcm_get k (s_qcm s)) v in
  modify (fun s => set_qcm s (qcm_put k m' (s_qcm s))) ;;;
  lift r.

Definition agg_add_timeout (c : Committee) (t : Timeout) : M (option TC) :=
  s <- get ;;
  let '(m', r) := tm_append c (tcm_get (t_round t) (s_tcm s)) t in
  modify (fun s => set_tcm s (tcm_put (t_round t) m' (s_tcm s))) ;;;
  lift r.

(* Synchronizer::get_ancestors *)
Definition get_ancestors (b : Block) : M (option (Block * Block)) :=
  p1 <- get_parent_block b ;;
  match p1 with
  | None => ret None
  | Some b1 =>
      p0 <- get_parent_block b1 ;;
      match p0 with
      | None => panic 147
      | Some b0 => ret (Some (b0, b1))
      end
  end.

(* MempoolDriver::cleanup(round): Cleanup to the mempool and to the payload waiter *)
Definition mempool_cleanup (r : N) : M unit := emit (OMemCleanup r) ;;; pw_cleanup r.

(* Vote::new(block, name, signature service): the signing point; the ghost history records the vote with its justification *)
Definition vote_new (me : N) (b : Block) : M Vote :=
  s <- get ;;
  let tcr := match b_tc b with Some tc => tc_round tc | None => 0 end in
  let rule2 := g_safety_rule_2 (b_round b) (qc_round (b_qc b)) tcr 0 (s_round s) (qc_round (s_high_qc s)) (s_last_voted s) (s_last_committed s) in
  modify (fun s => set_hist s (HVote (block_digest b) (qc_round (b_qc b))
            (if rule2 then JDirect
             else match b_tc b with Some tc => JTC (tc_round tc) (tc_entries tc) | None => JDirect end)
            :: s_hist s)) ;;;
  ret (mkVote (block_digest b) (b_round b) me (SigOf me (CVote (block_digest b) (b_round b)))).

(* Timeout::new(high_qc, round, name, signature service) *)
Definition timeout_new (me : N) (q : QC) (r : N) : M Timeout :=
  let t := mkTimeout q r me (SigOf me (CTimeout r (qc_round q))) in
  modify (fun s => set_hist s (HTimeout (t_round t) (qc_round (t_high_qc t)) :: s_hist s)) ;;;
  ret t.

(* tx_proposer.send(ProposerMessage::Make(round, qc, tc)): the model executes the proposer's make_block eagerly *)
Definition proposer_make (me : N) (hint : list N) (r : N) (q : QC) (tc : option TC) : M unit :=
  emit (OProposer (PMake r q tc)) ;;;
  modify (fun s => set_makes s (r :: s_makes s)) ;;;
  s <- get ;;
  (if same_set hint (s_buffer s) then ret tt else emit OBadHint) ;;;
  let pl := if same_set hint (s_buffer s) then hint else s_buffer s in
  let pre := mkBlock q tc me r pl (SigJunk 0) in
  let b := mkBlock q tc me r pl (SigOf me (CBlock (block_digest pre))) in
  modify (fun s => set_loopback (set_buffer s []) (s_loopback s ++ [b])) ;;;
  emit (OPropose b).

(* `for x in l { body }` in the node monad: the body updates the loop-carried locals [a] and may leave through `?` *)
Fixpoint mfor {X A} (l : list X) (f : X -> A -> M A) (a : A) : M A :=
  match l with
  | [] => ret a
  | x :: r => a' <- f x a ;; mfor r f a'
  end.

(* Synchronizer: self.store.read(parent) followed by the deserialisation of the block *)
Definition store_read_block (d : digest) : M (option Block) := s <- get ;; ret (store_get d (s_store s)).

(* MempoolDriver: self.store.read(digest) of a batch *)
Definition batch_read (x : N) : M (option unit) := s <- get ;; ret (if memN x (s_batches s) then Some tt else None).

(* tx_payload_waiter.send(Wait(missing, block)): the payload waiter parks the block unless it already waits for it *)
Definition pw_wait (missing : list N) (b : Block) : M unit :=
  s <- get ;;
  if existsb (fun e => block_eqb b (snd e)) (s_pw_pending s) then ret tt
  else modify (fun s => set_pw s (s_pw_pending s ++ [(missing, b)])).

(* `while cond { body }` whose body may `break`: [body] returns the loop-carried locals and whether the loop goes on; the fuel is the
   termination measure supplied per function (exhausted = the model's panic 900, shown unreachable by the no-panic theorem) *)
Fixpoint mwhile {A} (fuel : nat) (cond : A -> M bool) (body : A -> M (A * bool)) (a : A) : M A :=
  match fuel with
  | O => panic 900
  | S f => go <- cond a ;;
           if go then r <- body a ;; (if snd r then mwhile f cond body (fst r) else ret (fst r)) else ret a
  end.

(* termination measure of the ancestor walk of commit(): every step moves to the parent, a strict sub-term of the digest *)
Definition commit_fuel (b : Block) : nat := S (S (ddepth (block_digest b))).

(* tx_commit.send(block): the block reaches the application; the ghost log records it *)
Definition deliver_block (b : Block) : M unit :=
  emit (OCommit b) ;;; modify (fun s => set_log s (block_digest b :: s_log s)).
