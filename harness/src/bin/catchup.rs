// Catch-up harness (C07).
//
// mode `run`:   a valid chain of 3..12 blocks (TC-justified round gaps, no forks, payloads available) is delivered IN ORDER
//               to a fresh real node A (the reference) and then, in a LAGGING order, to a fresh real node B: the first j
//               blocks, the newest block (sometimes also an intermediate one), and from then on only what B asks for --
//               every SyncRequest B emits is put to the REAL `Helper` running over A's store and the helper's reply is fed
//               to B, in the order the requests arrive; the loop-back pool is served in between in seeded random order.
//               Both runs are replayed on the model (per-node correspondence) and the monitors of CorrCatchup.v are
//               evaluated on the observed traces. A few more requests are put to the helper (stored digest, unknown
//               digest, unknown origin, a key that holds a batch) and compared with the helper model of ReceiveDefs.v.
// mode `retry`: a real `Synchronizer` alone with sync_retry_delay = 0 on a paused clock: an unanswered request is re-sent to
//               ALL other members at every timer tick until the parent is stored, and never afterwards. Flags only.
use bytes::Bytes;
use consensus::verif::*;
use consensus::Committee;
use crypto::Hash as _;
use crypto::{Digest, PublicKey, SecretKey, Signature, SignatureService};
use futures::FutureExt;
use hsverif::*;
use rand::rngs::StdRng;
use rand::seq::SliceRandom;
use rand::Rng;
use serde_json::json;
use std::collections::{HashMap, VecDeque};
use std::fmt::Write as _;
use std::net::SocketAddr;
use store::Store;
use tokio::sync::mpsc::{channel, Receiver, Sender};

// ------------------------------------------------------------------------------------------ abstraction (as in step.rs)
struct Abs {
    keys: Vec<(PublicKey, SecretKey)>, // sorted by public key: index = authority id (rank)
    outsider: (PublicKey, SecretKey),   // a key that is not in the committee
    digests: HashMap<[u8; 32], String>,
    sigs: HashMap<Vec<u8>, String>,
    junk: u64,
    defs: String,
    nblk: usize,
    bnames: HashMap<Vec<u8>, String>,
}

fn sig_bytes(s: &Signature) -> Vec<u8> { bincode::serialize(s).unwrap() }
fn batch_digest(k: u8) -> Digest { Digest([k; 32]) }
fn batch_id(d: &Digest) -> Option<u8> { if d.0[0] != 0 && d.0.iter().all(|&x| x == d.0[0]) { Some(d.0[0]) } else { None } }

impl Abs {
    fn id(&self, pk: &PublicKey) -> usize { self.keys.iter().position(|(k, _)| k == pk).unwrap_or(99) }
    fn pay(&mut self, p: &[Digest]) -> String {
        coq_list(&p.iter().map(|d| match batch_id(d) { Some(k) => k.to_string(), None => "255".into() }).collect::<Vec<_>>())
    }
    fn dg(&mut self, d: &Digest) -> String {
        if d.0 == [0u8; 32] { return "DZero".into(); }
        if let Some(s) = self.digests.get(&d.0) { return s.clone(); }
        self.junk += 1; let s = format!("(DOther {})", self.junk); self.digests.insert(d.0, s.clone()); s
    }
    fn sg(&mut self, s: &Signature) -> String {
        if let Some(x) = self.sigs.get(&sig_bytes(s)) { return x.clone(); }
        self.junk += 1; let t = format!("(SigJunk {})", self.junk); self.sigs.insert(sig_bytes(s), t.clone()); t
    }
    fn qc(&mut self, q: &QC) -> String {
        for (pk, s) in &q.votes {
            if !self.sigs.contains_key(&sig_bytes(s)) {
                let v = Vote { hash: q.hash.clone(), round: q.round, author: *pk, signature: Signature::default() };
                if s.verify(&v.digest(), pk).is_ok() { let t = format!("(SigOf {} (CVote {} {}))", self.id(pk), self.dg(&q.hash), q.round); self.sigs.insert(sig_bytes(s), t); }
            }
        }
        let votes: Vec<String> = q.votes.iter().map(|(pk, s)| format!("({}, {})", self.id(pk), self.sg(s))).collect();
        format!("(mkQC {} {} {})", self.dg(&q.hash), q.round, coq_list(&votes))
    }
    fn tc(&mut self, t: &TC) -> String {
        for (pk, s, hq) in &t.votes {
            if !self.sigs.contains_key(&sig_bytes(s)) {
                let x = Timeout { high_qc: QC { hash: Digest::default(), round: *hq, votes: vec![] }, round: t.round, author: *pk, signature: Signature::default() };
                if s.verify(&x.digest(), pk).is_ok() { self.sigs.insert(sig_bytes(s), format!("(SigOf {} (CTimeout {} {}))", self.id(pk), t.round, hq)); }
            }
        }
        let votes: Vec<String> = t.votes.iter().map(|(pk, s, r)| format!("({}, {}, {})", self.id(pk), self.sg(s), r)).collect();
        format!("(mkTC {} {})", t.round, coq_list(&votes))
    }
    fn otc(&mut self, t: &Option<TC>) -> String { match t { Some(t) => format!("(Some {})", self.tc(t)), None => "None".into() } }
    // register a block: define its digest term and the block term by name
    fn block(&mut self, b: &Block) -> String {
        if b.author == PublicKey::default() && b.round == 0 && b.qc == QC::genesis() { return "block_genesis".into(); }
        let key = bincode::serialize(b).unwrap();
        if let Some(n) = self.bnames.get(&key) { return n.clone(); }
        let d = b.digest();
        if !self.digests.contains_key(&d.0) {
            let parent = self.dg(&b.qc.hash);
            let name = format!("d{}", self.nblk);
            let pl = self.pay(&b.payload);
            writeln!(self.defs, "Definition {} := DBlk {} {} {} {}.", name, self.id(&b.author), b.round, pl, parent).unwrap();
            self.digests.insert(d.0, name);
        }
        let dn = self.dg(&d);
        if b.signature.verify(&d, &b.author).is_ok() {
            let a = self.id(&b.author);
            self.sigs.insert(sig_bytes(&b.signature), format!("(SigOf {} (CBlock {}))", a, dn));
        }
        let name = format!("b{}", self.nblk); self.nblk += 1;
        let pl = self.pay(&b.payload);
        let term = format!("mkBlock {} {} {} {} {} {}", self.qc(&b.qc), self.otc(&b.tc), self.id(&b.author), b.round, pl, self.sg(&b.signature));
        writeln!(self.defs, "Definition {} := {}.", name, term).unwrap();
        self.bnames.insert(key, name.clone());
        name
    }
    fn vote(&mut self, v: &Vote) -> String {
        if v.signature.verify(&v.digest(), &v.author).is_ok() {
            let t = format!("(SigOf {} (CVote {} {}))", self.id(&v.author), self.dg(&v.hash), v.round);
            self.sigs.insert(sig_bytes(&v.signature), t);
        }
        format!("(mkVote {} {} {} {})", self.dg(&v.hash), v.round, self.id(&v.author), self.sg(&v.signature))
    }
    fn timeout(&mut self, t: &Timeout) -> String {
        if t.signature.verify(&t.digest(), &t.author).is_ok() {
            let s = format!("(SigOf {} (CTimeout {} {}))", self.id(&t.author), t.round, t.high_qc.round);
            self.sigs.insert(sig_bytes(&t.signature), s);
        }
        format!("(mkTimeout {} {} {} {})", self.qc(&t.high_qc), t.round, self.id(&t.author), self.sg(&t.signature))
    }
    fn key(&self, a: usize) -> (PublicKey, &SecretKey) { if a < self.keys.len() { (self.keys[a].0, &self.keys[a].1) } else { (self.outsider.0, &self.outsider.1) } }
    fn sign_vote(&mut self, a: usize, hash: &Digest, round: u64) -> Signature {
        let (pk, sk) = self.key(a);
        let v = Vote { hash: hash.clone(), round, author: pk, signature: Signature::default() };
        let s = Signature::new(&v.digest(), sk);
        let t = format!("(SigOf {} (CVote {} {}))", self.id(&pk), self.dg(hash), round);
        self.sigs.insert(sig_bytes(&s), t); s
    }
    fn sign_timeout(&mut self, a: usize, round: u64, hq: u64) -> Signature {
        let (pk, sk) = self.key(a);
        let t = Timeout { high_qc: QC { hash: Digest::default(), round: hq, votes: vec![] }, round, author: pk, signature: Signature::default() };
        let s = Signature::new(&t.digest(), sk);
        self.sigs.insert(sig_bytes(&s), format!("(SigOf {} (CTimeout {} {}))", self.id(&pk), round, hq)); s
    }
    fn mk_block_by(&mut self, a: usize, qc: QC, tc: Option<TC>, round: u64, payload: Vec<Digest>) -> Block {
        let (pk, _) = self.key(a);
        let b = Block { qc, tc, author: pk, round, payload, signature: Signature::default() };
        let signature = Signature::new(&b.digest(), self.key(a).1);
        let b = Block { signature, ..b };
        let _ = self.block(&b);
        b
    }
    fn mk_qc(&mut self, b: &Block, signers: &[usize]) -> QC {
        let d = b.digest();
        let votes = signers.iter().map(|&a| (self.key(a).0, self.sign_vote(a, &d, b.round))).collect();
        QC { hash: d, round: b.round, votes }
    }
    fn mk_tc(&mut self, round: u64, hqs: &[(usize, u64)]) -> TC {
        TC { round, votes: hqs.iter().map(|&(a, hq)| (self.key(a).0, self.sign_timeout(a, round, hq), hq)).collect() }
    }
}

struct Cfg { n: usize, quorum: u32 }
impl Cfg {
    fn quorum_set(&self, rng: &mut StdRng, extra: bool) -> Vec<usize> {
        let mut all: Vec<usize> = (0..self.n).collect();
        all.shuffle(rng);
        let mut w = 0u32; let mut out = vec![];
        for a in all { if w >= self.quorum && !(extra && rng.gen_bool(0.3)) { break; } w += 1; out.push(a); }
        out
    }
    fn leader(&self, r: u64) -> usize { (r as usize) % self.n }
}

// a valid chain: every block extends the previous one, round gaps are justified by a TC whose reported high-QC rounds do not
// exceed the block's QC round; payloads are drawn from 12 batches (all made available to the nodes beforehand)
fn gen_chain(rng: &mut StdRng, abs: &mut Abs, cfg: &Cfg, e: &mut Emit) -> Vec<Block> {
    let len = rng.gen_range(3, 13);
    let mut blocks: Vec<Block> = vec![];
    let mut round = 0u64;
    for _ in 0..len {
        let gap = if rng.gen_bool(0.35) { rng.gen_range(1, 4u64) } else { 0 };
        round += 1 + gap;
        let signers = cfg.quorum_set(rng, true);
        let (qc, qr) = match blocks.last() { Some(t) => { let t = t.clone(); (abs.mk_qc(&t, &signers), t.round) } None => (QC::genesis(), 0) };
        let tc = if gap > 0 {
            e.stat("tc_gap", 1);
            let s2 = cfg.quorum_set(rng, false);
            let hqs: Vec<(usize, u64)> = s2.iter().map(|&a| (a, if qr > 0 && rng.gen_bool(0.4) { rng.gen_range(0, qr + 1) } else { qr })).collect();
            Some(abs.mk_tc(round - 1, &hqs))
        } else { None };
        let k = if rng.gen_bool(0.5) { 0 } else { rng.gen_range(1, 4) };
        let mut pl: Vec<u8> = vec![]; for _ in 0..k { let x = rng.gen_range(1, 13u8); if !pl.contains(&x) { pl.push(x); } }
        let b = abs.mk_block_by(cfg.leader(round), qc, tc, round, pl.into_iter().map(batch_digest).collect());
        blocks.push(b);
    }
    blocks
}

// ------------------------------------------------------------------------------------------ a real node, one dispatch at a time
async fn settle() { for _ in 0..96 { tokio::task::yield_now().await; } }
fn drain<T>(rx: &mut Receiver<T>) -> Vec<T> { let mut v = vec![]; while let Ok(x) = rx.try_recv() { v.push(x); } v }

enum Feed { Propose(Block), Loop(usize), Batch(u8), Timer }

#[allow(dead_code)]
struct RealNode {
    me: usize,
    name: PublicKey,
    core: Core,
    store: Store,
    rx_loopback: Receiver<Block>,
    rx_proposer: Receiver<ProposerMessage>,
    tx_prop_real: Sender<ProposerMessage>,
    rx_mempool: Receiver<mempool::ConsensusMempoolMessage>,
    rx_commit: Receiver<Block>,
    _keep: (Sender<ConsensusMessage>, Sender<Block>, Sender<Digest>),
    pool: Vec<Block>,
    evs: Vec<String>,
    obs: Vec<String>,
    human: Vec<String>,
    commits: Vec<Block>,
    reqs: Vec<(usize, Digest)>,   // (destination authority, digest), in emission order
    votes: usize,
    panicked: bool,
    path: String,
}

impl RealNode {
    fn new(abs: &Abs, com: &Committee, me: usize, path: String) -> RealNode {
        let _ = std::fs::remove_dir_all(&path);
        let store = Store::new(&path).unwrap();
        let (name, secret) = (abs.keys[me].0, clone_secret(&abs.keys[me].1));
        let (tx_core, rx_core) = channel(10);
        let (tx_loopback, rx_loopback) = channel(10_000);
        let (tx_proposer, rx_proposer) = channel(10_000);
        let (tx_prop_real, rx_prop_real) = channel(10_000);
        let (tx_mempool, rx_mempool) = channel(10_000);
        let (tx_commit, rx_commit) = channel(10_000);
        let (tx_digest, rx_digest) = channel::<Digest>(10_000);
        let (tx_dummy, rx_dummy) = channel(10);
        let sigs = SignatureService::new(secret);
        let md = MempoolDriver::new(store.clone(), tx_mempool, tx_loopback.clone());
        let sy = Synchronizer::new(name, com.clone(), store.clone(), tx_loopback.clone(), 100_000_000);
        Proposer::spawn(name, com.clone(), sigs.clone(), rx_digest, rx_prop_real, tx_loopback);
        let core = Core::verif_new(name, com.clone(), sigs, store.clone(), LeaderElector::new(com.clone()), md, sy, 1_000_000_000, rx_core, rx_dummy, tx_proposer, tx_commit);
        RealNode { me, name, core, store, rx_loopback, rx_proposer, tx_prop_real, rx_mempool, rx_commit, _keep: (tx_core, tx_dummy, tx_digest),
                   pool: vec![], evs: vec![], obs: vec![], human: vec![], commits: vec![], reqs: vec![], votes: 0, panicked: false, path }
    }

    // one main-loop dispatch of the real core; returns the sync requests it sent: (digest, requester, destination address)
    async fn feed(&mut self, abs: &mut Abs, e: &mut Emit, f: Feed) -> Vec<(Digest, PublicKey, SocketAddr)> {
        let (term, human, ve): (String, String, Option<VerifEvent>) = match f {
            Feed::Propose(b) => { let nm = abs.block(&b); (format!("EvPropose {}", nm), format!("propose r{} by {}", b.round, abs.id(&b.author)), Some(VerifEvent::Message(ConsensusMessage::Propose(b)))) }
            Feed::Loop(i) => { let b = self.pool.remove(i); let nm = abs.block(&b); (format!("EvLoopback {}", nm), format!("loopback r{}", b.round), Some(VerifEvent::Loopback(b))) }
            Feed::Batch(k) => { self.store.write(batch_digest(k).to_vec(), vec![k]).await; (format!("EvBatch {}", k), format!("batch {}", k), None) }
            Feed::Timer => ("EvTimer".to_string(), "timer".to_string(), Some(VerifEvent::Timer)),
        };
        e.stat(&format!("ev:{}", human.split(' ').next().unwrap()), 1);
        let res: &str = match ve {
            Some(ve) => match std::panic::AssertUnwindSafe(self.core.verif_event(ve)).catch_unwind().await { Ok(Ok(())) => "KOk", Ok(Err(_)) => "KErr", Err(_) => "KPanic" },
            None => "KOk",
        };
        settle().await;
        let pms = drain(&mut self.rx_proposer);
        let mut prop_terms = vec![];
        for m in pms {
            match &m {
                ProposerMessage::Make(r, qc, tc) => prop_terms.push(format!("OProposer (PMake {} {} {})", r, abs.qc(qc), abs.otc(tc))),
                ProposerMessage::Cleanup(ds) => { let pl = abs.pay(ds); prop_terms.push(format!("OProposer (PCleanup {})", pl)) }
            }
            self.tx_prop_real.send(m).await.unwrap();
            settle().await;
        }
        settle().await;
        let mut net_terms: Vec<String> = vec![];
        let mut last: Option<(Vec<u8>, Vec<SocketAddr>)> = None;
        let mut hint = String::from("[]");
        let mut reqs = vec![];
        for (_rel, addr, bytes) in network::verif::tap_drain() {
            if let Some((lb, seen)) = &mut last { if lb[..] == bytes[..] && !seen.contains(&addr) { seen.push(addr); continue; } }
            last = Some((bytes.to_vec(), vec![addr]));
            match bincode::deserialize::<ConsensusMessage>(&bytes).unwrap() {
                ConsensusMessage::Vote(v) => { self.votes += 1; net_terms.push(format!("OVote {} {}", addr.port() - 9000, abs.vote(&v))) }
                ConsensusMessage::Timeout(t) => net_terms.push(format!("OTimeout {}", abs.timeout(&t))),
                ConsensusMessage::TC(tc) => net_terms.push(format!("OTC {}", abs.tc(&tc))),
                ConsensusMessage::Propose(b) => { e.stat("out:propose", 1); hint = abs.pay(&b.payload); let nm = abs.block(&b); net_terms.push(format!("OPropose {}", nm)) }
                ConsensusMessage::SyncRequest(d, origin) => {
                    e.stat("out:sync", 1);
                    net_terms.push(format!("OSyncReq {} {}", addr.port() - 9000, abs.dg(&d)));
                    self.reqs.push(((addr.port() - 9000) as usize, d.clone()));
                    reqs.push((d, origin, addr));
                }
            }
        }
        let commits: Vec<String> = drain(&mut self.rx_commit).iter().map(|b| { self.commits.push(b.clone()); format!("OCommit {}", abs.block(b)) }).collect();
        let mems: Vec<String> = drain(&mut self.rx_mempool).into_iter().map(|m| match m {
            mempool::ConsensusMempoolMessage::Cleanup(r) => format!("OMemCleanup {}", r),
            mempool::ConsensusMempoolMessage::Synchronize(ds, t) => { e.stat("out:memsync", 1); format!("OMemSync {} {}", abs.pay(&ds), abs.id(&t)) } }).collect();
        for b in drain(&mut self.rx_loopback) { self.pool.push(b); }
        let (r0, lv, lc, hq) = self.core.verif_state();
        let mut outs = net_terms; outs.extend(commits); outs.extend(mems); outs.extend(prop_terms);
        self.evs.push(format!("({}, {})", hint, term));
        self.obs.push(format!("mkObs {} {} ({}, {}, {}, {})", coq_list(&outs), res, r0, lv, lc, hq.round));
        self.human.push(format!("{} -> {} [{} outputs] state=({},{},{},{})", human, res, outs.len(), r0, lv, lc, hq.round));
        if res == "KPanic" { e.stat("panic", 1); self.panicked = true; }
        reqs
    }
}

// ------------------------------------------------------------------------------------------ the real helper over a store
struct RealHelper { tx: Sender<(Digest, PublicKey)> }
impl RealHelper {
    fn new(com: &Committee, store: Store) -> RealHelper { let (tx, rx) = channel(100); Helper::spawn(com.clone(), store, rx); RealHelper { tx } }
    // put one request to the helper task and collect what it hands to its network sender
    async fn ask(&self, d: &Digest, origin: &PublicKey) -> Vec<(SocketAddr, Bytes)> {
        let _ = network::verif::tap_drain();
        self.tx.send((d.clone(), *origin)).await.unwrap();
        settle().await;
        network::verif::tap_drain().into_iter().map(|(_, a, b)| (a, b)).collect()
    }
}

fn opt_bytes(b: &Option<Vec<u8>>) -> String { match b { Some(v) => format!("(Some {})", coq_bytes(v)), None => "None".into() } }

struct HelperCheck { terms: Vec<String>, impl_ok: bool, human: Vec<String> }
impl HelperCheck {
    // record one helper exchange: model side data (known origin?, stored bytes, reply bytes) and the implementation-only check
    fn record(&mut self, com: &Committee, what: &str, origin: &PublicKey, stored: &Option<Vec<u8>>, replies: &[(SocketAddr, Bytes)], in_coq: bool) {
        let known = com.address(origin).is_some();
        let reply: Option<Vec<u8>> = replies.first().map(|(_, b)| b.to_vec());
        let expected: Option<Vec<u8>> = if !known { None } else {
            stored.as_ref().and_then(|v| bincode::deserialize::<Block>(v).ok()).map(|b| bincode::serialize(&ConsensusMessage::Propose(b)).unwrap())
        };
        let addr_ok = match replies.first() { Some((a, _)) => Some(*a) == com.address(origin), None => true };
        let ok = replies.len() <= 1 && reply == expected && addr_ok;
        if !ok { self.impl_ok = false; }
        self.human.push(format!("helper {}: known={} stored={} reply={} ok={}", what, known, stored.as_ref().map(|v| v.len()).unwrap_or(0), reply.as_ref().map(|v| v.len()).unwrap_or(0), ok));
        if in_coq { self.terms.push(format!("({}, {}, {})", if known { "true" } else { "false" }, opt_bytes(stored), opt_bytes(&reply))); }
    }
}

// ------------------------------------------------------------------------------------------ one catch-up case
async fn run_case(seed: u64, case: usize, dbroot: &str, e: &mut Emit) -> (String, String, serde_json::Value, bool, String) {
    let mut rng = case_rng(seed, 7, case as u64);
    let n = match case % 5 { 0 => 4, 1 => rng.gen_range(5, 8), _ => rng.gen_range(4, 7) };
    let mut keys = sorted_keys(&mut rng, n + 1);
    let outsider = keys.remove(rng.gen_range(0, n + 1));
    let com = Committee::new(keys.iter().enumerate().map(|(i, (pk, _))| (*pk, 1, format!("127.0.0.1:{}", 9000 + i).parse().unwrap())).collect(), 1);
    let cfg = Cfg { n, quorum: com.quorum_threshold() };
    let mut abs = Abs { keys, outsider, digests: HashMap::new(), sigs: HashMap::new(), junk: 0, defs: String::new(), nblk: 0, bnames: HashMap::new() };
    e.stat(&format!("n={}", n), 1);
    let chain = gen_chain(&mut rng, &mut abs, &cfg, e);
    let len = chain.len();
    e.stat(&format!("len={}", len), 1);
    let j = rng.gen_range(0, len - 1);              // B holds c_1..c_j; c_{j+1}..c_{len-1} are the missing ancestors of c_len
    let gap = len - 1 - j;
    e.stat(&format!("gap={}", gap), 1);
    // sometimes B also hears an intermediate proposal before any reply arrives: two request chains that merge
    let extra: Option<usize> = if gap >= 3 && rng.gen_bool(0.4) { e.stat("extra_intermediate", 1); Some(rng.gen_range(j + 2, len - 1)) } else { None };
    let me_a = rng.gen_range(0, n);
    let me_b = rng.gen_range(0, n);
    let mut batches: Vec<u8> = vec![];
    for b in &chain { for d in &b.payload { let k = batch_id(d).unwrap(); if !batches.contains(&k) { batches.push(k); } } }

    network::verif::tap_start();
    // ---- node A: in order
    let mut a = RealNode::new(&abs, &com, me_a, format!("{}/db_a_{}_{}", dbroot, seed, case));
    for &k in &batches { a.feed(&mut abs, e, Feed::Batch(k)).await; }
    for b in &chain {
        if a.panicked { break; }
        a.feed(&mut abs, e, Feed::Propose(b.clone())).await;
        while !a.pool.is_empty() && !a.panicked { let i = rng.gen_range(0, a.pool.len()); a.feed(&mut abs, e, Feed::Loop(i)).await; }
    }
    // ---- the real helper over A's store
    let helper = RealHelper::new(&com, a.store.clone());
    let mut hc = HelperCheck { terms: vec![], impl_ok: true, human: vec![] };
    // ---- node B: lagging
    let mut b = RealNode::new(&abs, &com, me_b, format!("{}/db_b_{}_{}", dbroot, seed, case));
    for &k in &batches { b.feed(&mut abs, e, Feed::Batch(k)).await; }
    let mut reqq: VecDeque<(Digest, PublicKey, SocketAddr)> = VecDeque::new();
    for blk in chain.iter().take(j) {
        if b.panicked { break; }
        reqq.extend(b.feed(&mut abs, e, Feed::Propose(blk.clone())).await);
        while !b.pool.is_empty() && !b.panicked { let i = rng.gen_range(0, b.pool.len()); reqq.extend(b.feed(&mut abs, e, Feed::Loop(i)).await); }
    }
    let early = reqq.len();                        // must be 0: nothing is missing yet
    reqq.extend(b.feed(&mut abs, e, Feed::Propose(chain[len - 1].clone())).await);
    if let Some(m) = extra { reqq.extend(b.feed(&mut abs, e, Feed::Propose(chain[m].clone())).await); }
    let mut answered = 0usize; let mut unanswered = 0usize; let mut guard = 0usize;
    // while B waits for its missing ancestors its round timer may expire (an unresponsive first sync target means waiting longer than
    // the round timeout): in 40 % of the cases B's timer fires once right after the newest proposal, and sometimes again between replies
    let timers = rng.gen_bool(0.4);
    if timers { e.stat("b_timer_expires_while_syncing", 1); reqq.extend(b.feed(&mut abs, e, Feed::Timer).await); }
    while (!reqq.is_empty() || !b.pool.is_empty()) && !b.panicked && guard < 1000 {
        guard += 1;
        if timers && rng.gen_bool(0.15) { reqq.extend(b.feed(&mut abs, e, Feed::Timer).await); }
        if !b.pool.is_empty() && (reqq.is_empty() || rng.gen_bool(0.5)) {
            let i = rng.gen_range(0, b.pool.len());
            reqq.extend(b.feed(&mut abs, e, Feed::Loop(i)).await);
        } else if let Some((d, origin, _to)) = reqq.pop_front() {
            // whoever B asked, the answer is what a peer holding the chain (A) answers: the real helper over A's store
            let stored = a.store.read(d.to_vec()).await.unwrap();
            let replies = helper.ask(&d, &origin).await;
            hc.record(&com, "scenario", &origin, &stored, &replies, answered < 2);
            match replies.first() {
                Some((_, bytes)) => match bincode::deserialize::<ConsensusMessage>(bytes) {
                    Ok(ConsensusMessage::Propose(blk)) => { answered += 1; reqq.extend(b.feed(&mut abs, e, Feed::Propose(blk)).await); }
                    _ => { unanswered += 1; }
                },
                None => { unanswered += 1; }
            }
        }
    }
    e.stat("sync_replies", answered as u64);
    if unanswered > 0 { e.stat("unanswered", unanswered as u64); }
    // ---- more helper requests: an unknown digest, an unknown origin, a key holding a batch, a stored block again
    {
        let known = abs.keys[me_b].0;
        let unk = Digest({ let mut x = [0u8; 32]; for y in x.iter_mut() { *y = rng.gen(); } x[0] = 0xfe; x[1] = 0x01; x });
        let stored = a.store.read(unk.to_vec()).await.unwrap();
        let r = helper.ask(&unk, &known).await; hc.record(&com, "unknown-digest", &known, &stored, &r, true);
        let d = chain[rng.gen_range(0, len)].digest();
        let stored = a.store.read(d.to_vec()).await.unwrap();
        let r = helper.ask(&d, &abs.outsider.0).await; hc.record(&com, "unknown-origin", &abs.outsider.0, &stored, &r, true);
        if let Some(&k) = batches.first() {
            let d = batch_digest(k);
            let stored = a.store.read(d.to_vec()).await.unwrap();
            let r = helper.ask(&d, &known).await; hc.record(&com, "batch-key", &known, &stored, &r, true);
            e.stat("helper:batch_key", 1);
        }
        let d = chain[rng.gen_range(0, len)].digest();
        let stored = a.store.read(d.to_vec()).await.unwrap();
        let r = helper.ask(&d, &known).await; hc.record(&com, "stored", &known, &stored, &r, true);
    }
    let names: Vec<String> = chain.iter().map(|blk| abs.block(blk)).collect();
    let stakes: Vec<String> = (0..n).map(|i| format!("({},1)", i)).collect();
    let defs = format!("{}Definition cmt := mkCommittee {}.\nDefinition chain : list Block := {}.\nDefinition evsA : list (list N * Event) := {}.\nDefinition obsA : list Obs := {}.\nDefinition evsB : list (list N * Event) := {}.\nDefinition obsB : list Obs := {}.\nDefinition helper : list (bool * option (list N) * option (list N)) := {}.\n",
        abs.defs, coq_list(&stakes), coq_list(&names), coq_list(&a.evs), coq_list(&a.obs), coq_list(&b.evs), coq_list(&b.obs), coq_list(&hc.terms));
    let impl_ok = hc.impl_ok && early == 0 && unanswered == 0 && guard < 1000;
    let optional: Vec<String> = extra.iter().map(|&m| abs.dg(&chain[m].digest())).collect();
    let verdict = format!("catchup_verdict cmt {} {} evsA obsA evsB obsB chain {} {} helper {}", me_a, me_b, j, coq_list(&optional), if impl_ok { "true" } else { "false" });
    let nontrivial = !a.commits.is_empty() && !b.reqs.is_empty();
    e.stat("commits_a", a.commits.len() as u64); e.stat("commits_b", b.commits.len() as u64); e.stat("votes_b", b.votes as u64);
    let replay = json!({"case": case, "n": n, "me_a": me_a, "me_b": me_b, "len": len, "j": j, "extra": extra,
        "rounds": chain.iter().map(|x| x.round).collect::<Vec<_>>(),
        "events_a": a.human, "events_b": b.human, "helper": hc.human,
        "requests_b": b.reqs.iter().map(|(to, d)| format!("{}:{}", to, hex(&d.0[..4]))).collect::<Vec<_>>(),
        "commits_a": a.commits.iter().map(|x| x.round).collect::<Vec<_>>(), "commits_b": b.commits.iter().map(|x| x.round).collect::<Vec<_>>()});
    let key = format!("{}|{}|{}", a.evs.join(";"), b.evs.join(";"), j);
    let (pa, pb) = (a.path.clone(), b.path.clone());
    drop(helper); drop(a); drop(b);
    let _ = std::fs::remove_dir_all(&pa); let _ = std::fs::remove_dir_all(&pb);
    (defs, verdict, replay, nontrivial, key)
}

// ------------------------------------------------------------------------------------------ retry smoke test
// flags: [all; first request goes once to the author of the child; a block parked on an already requested digest sends nothing;
//         every tick re-sends each outstanding digest to ALL other members (and to nobody else); the request of a stored parent
//         stops while the other continues; the released blocks reach the loop-back channel; nothing is sent once nothing is missing]
async fn retry_case(seed: u64, case: usize, dbroot: &str, e: &mut Emit) -> (Vec<u8>, serde_json::Value) {
    use std::time::Duration;
    let mut rng = case_rng(seed, 8, case as u64);
    let n = rng.gen_range(4, 8);
    let mut keys = sorted_keys(&mut rng, n + 1);
    let outsider = keys.remove(rng.gen_range(0, n + 1));
    let com = Committee::new(keys.iter().enumerate().map(|(i, (pk, _))| (*pk, 1, format!("127.0.0.1:{}", 9000 + i).parse().unwrap())).collect(), 1);
    let cfg = Cfg { n, quorum: com.quorum_threshold() };
    let mut abs = Abs { keys, outsider, digests: HashMap::new(), sigs: HashMap::new(), junk: 0, defs: String::new(), nblk: 0, bnames: HashMap::new() };
    let me = rng.gen_range(0, n);
    let name = abs.keys[me].0;
    let all: Vec<usize> = (0..n).collect();
    // two parents that are NOT given to the node, two children of the first, one child of the second
    let p1 = abs.mk_block_by(cfg.leader(1), QC::genesis(), None, 1, vec![]);
    let q0 = abs.mk_qc(&p1, &all);
    let p2 = abs.mk_block_by(cfg.leader(2), q0, None, 2, vec![]);
    let q1 = abs.mk_qc(&p1, &all); let q2 = abs.mk_qc(&p2, &all);
    let x1 = abs.mk_block_by(cfg.leader(2), q1.clone(), None, 2, vec![batch_digest(1)]);
    let x2 = abs.mk_block_by(cfg.leader(3), q1, None, 3, vec![batch_digest(2)]);
    let y = abs.mk_block_by(cfg.leader(3), q2, None, 3, vec![]);
    let path = format!("{}/db_retry_{}_{}", dbroot, seed, case);
    let _ = std::fs::remove_dir_all(&path);
    let mut store = Store::new(&path).unwrap();
    let (tx_loopback, mut rx_loopback) = channel(100);
    network::verif::tap_start();
    let mut sy = Synchronizer::new(name, com.clone(), store.clone(), tx_loopback, 0);
    let others: Vec<SocketAddr> = { let mut v: Vec<SocketAddr> = com.broadcast_addresses(&name).into_iter().map(|(_, a)| a).collect(); v.sort(); v };
    let decode = |msgs: Vec<(bool, SocketAddr, Bytes)>| -> Vec<(SocketAddr, Digest, PublicKey)> {
        msgs.into_iter().filter_map(|(_, a, b)| match bincode::deserialize::<ConsensusMessage>(&b) { Ok(ConsensusMessage::SyncRequest(d, o)) => Some((a, d, o)), _ => None }).collect()
    };
    // is [msgs] exactly: for each digest of [ds], one request from [name] to each of the other members?
    let is_rebroadcast = |msgs: &Vec<(SocketAddr, Digest, PublicKey)>, ds: &[Digest]| -> bool {
        msgs.len() == ds.len() * others.len() && msgs.iter().all(|(_, _, o)| *o == name) &&
        ds.iter().all(|d| { let mut to: Vec<SocketAddr> = msgs.iter().filter(|(_, x, _)| x == d).map(|(a, _, _)| *a).collect(); to.sort(); to == others })
    };
    let mut flags: Vec<bool> = vec![];
    // 1. park x1: one request for p1, to the author of x1
    let r = sy.get_parent_block(&x1).await; settle().await;
    let m = decode(network::verif::tap_drain());
    flags.push(matches!(r, Ok(None)) && m.len() == 1 && m[0].0 == com.address(&x1.author).unwrap() && m[0].1 == p1.digest() && m[0].2 == name);
    // (3 s of virtual time pass: the later request for p2 is then issued in the middle of a retry period, and the tick due 5 s
    //  after the synchronizer started must still fire on time -- a fresh request must not postpone the retries of older ones)
    tokio::time::advance(Duration::from_millis(3_000)).await; settle().await;
    let early = decode(network::verif::tap_drain());
    // 2. park x2 (same parent) and x1 again: nothing is sent; park y: one request for p2 to the author of y
    let r2 = sy.get_parent_block(&x2).await; settle().await;
    let r3 = sy.get_parent_block(&x1).await; settle().await;
    let m2 = decode(network::verif::tap_drain());
    let r4 = sy.get_parent_block(&y).await; settle().await;
    let m3 = decode(network::verif::tap_drain());
    flags.push(matches!(r2, Ok(None)) && matches!(r3, Ok(None)) && m2.is_empty() && matches!(r4, Ok(None)) && m3.len() == 1 && m3[0].0 == com.address(&y.author).unwrap() && m3[0].1 == p2.digest());
    // 3. ticks: the synchronizer compares wall-clock milliseconds (delay 0): let real time pass, then advance the paused clock
    let ticks = rng.gen_range(2, 5);
    let mut ok3 = true;
    if !early.is_empty() { ok3 = false; }
    for t in 0..ticks {
        std::thread::sleep(Duration::from_millis(2));
        tokio::time::advance(Duration::from_millis(if t == 0 { 2_001 } else { 5_000 })).await; settle().await;
        let m = decode(network::verif::tap_drain());
        if !is_rebroadcast(&m, &[p1.digest(), p2.digest()]) { ok3 = false; }
    }
    flags.push(ok3);
    // 4. p1 arrives in the store: x1 and x2 are released, the request for p1 stops, the one for p2 continues
    store.write(p1.digest().to_vec(), bincode::serialize(&p1).unwrap()).await; settle().await;
    let mut released: Vec<Digest> = drain(&mut rx_loopback).iter().map(|b| b.digest()).collect(); released.sort();
    let mut expect = vec![x1.digest(), x2.digest()]; expect.sort();
    let quiet_on_release = decode(network::verif::tap_drain()).is_empty();
    let mut ok4 = true;
    for _ in 0..ticks {
        std::thread::sleep(Duration::from_millis(2));
        tokio::time::advance(Duration::from_millis(5_001)).await; settle().await;
        let m = decode(network::verif::tap_drain());
        if !is_rebroadcast(&m, &[p2.digest()]) { ok4 = false; }
    }
    flags.push(ok4 && quiet_on_release);
    // 5. p2 arrives: y is released
    store.write(p2.digest().to_vec(), bincode::serialize(&p2).unwrap()).await; settle().await;
    let rel2: Vec<Digest> = drain(&mut rx_loopback).iter().map(|b| b.digest()).collect();
    flags.push(released == expect && rel2 == vec![y.digest()]);
    // 6. nothing is missing: no message at any later tick; a block whose parent is stored is handed over at once
    let mut ok6 = true;
    for _ in 0..ticks + 1 {
        std::thread::sleep(Duration::from_millis(2));
        tokio::time::advance(Duration::from_millis(5_001)).await; settle().await;
        if !network::verif::tap_drain().is_empty() { ok6 = false; }
    }
    let r5 = sy.get_parent_block(&y).await; settle().await;
    ok6 = ok6 && matches!(r5, Ok(Some(ref b)) if b.digest() == p2.digest()) && network::verif::tap_drain().is_empty() && drain(&mut rx_loopback).is_empty();
    flags.push(ok6);
    e.stat(&format!("n={}", n), 1); e.stat("ticks", ticks as u64);
    let mut v: Vec<u8> = vec![if flags.iter().all(|&x| x) { 1 } else { 0 }];
    v.extend(flags.iter().map(|&x| if x { 1u8 } else { 0 }));
    drop(sy); drop(store);
    let _ = std::fs::remove_dir_all(&path);
    (v, json!({"case": case, "n": n, "me": me, "ticks": ticks, "flags": flags}))
}

fn main() {
    let o = opts();
    std::panic::set_hook(Box::new(|_| {}));
    let rt = tokio::runtime::Builder::new_current_thread().enable_all().start_paused(true).build().unwrap();
    let dbroot = format!("{}/db", o.out);
    std::fs::create_dir_all(&dbroot).unwrap();
    match o.mode.as_str() {
        "run" => {
            let shards = 4usize;
            let mut emits: Vec<Emit> = (0..shards).map(|_| Emit::new("GTac Node Corr Monitors SyncDefs CorrCatchup")).collect();
            let mut seen = std::collections::HashSet::new();
            rt.block_on(async {
                for k in 0..o.cases {
                    if let Some(only) = o.only { if only != k { continue; } }
                    let e = &mut emits[k % shards];
                    let (defs, verdict, replay, nontrivial, key) = run_case(o.seed, k, &dbroot, e).await;
                    if nontrivial && seen.insert(key) { e.stat("distinct_nontrivial", 1); }
                    e.case(k, &defs, &verdict, replay);
                }
            });
            for (i, e) in emits.into_iter().enumerate() { e.finish(&o.out, &format!("catchup_{}", i), o.seed); }
        }
        "retry" => {
            let mut e = Emit::new("GTac");
            let mut seen = std::collections::HashSet::new();
            rt.block_on(async {
                for k in 0..o.cases {
                    if let Some(only) = o.only { if only != k { continue; } }
                    let (v, replay) = retry_case(o.seed, k, &dbroot, &mut e).await;
                    if v[0] == 1 && seen.insert(replay.to_string()) { e.stat("distinct_nontrivial", 1); }
                    e.case(k, "", &coq_nlist(v.iter().map(|&x| x as u128)), replay);
                }
            });
            e.finish(&o.out, "catchup_retry", o.seed);
        }
        m => { eprintln!("unknown mode {:?}: use run | retry", m); std::process::exit(2); }
    }
    let _ = std::fs::remove_dir_all(&dbroot);
}
