// Correspondence harness for C13 (end-to-end batch pipeline). Three modes:
//
//   msync    the REAL `mempool::verif::Synchronizer` task (its command channel, a real Store, the network tap)
//            against `MempoolSyncDefs.msstep` on seeded event sequences. Coq side: CorrPipeline.msync_case.
//   mhelper  the REAL `mempool::verif::Helper` task against `ReceiveDefs.mempool_helper_answer`
//            (CorrPipeline.mhelper_case).
//   e2e      ONE real node's mempool (`Mempool::spawn`: receivers on real loopback TCP ports, BatchMaker, QuorumWaiter,
//            Processors, Synchronizer, Helper) + the consensus side `MempoolDriver`/`PayloadWaiter` on one Store, the
//            network tap standing for every peer. Monitors on the observed order of events (CorrPipeline.e2e_case).
//
// Verdicts (first element = 1 iff all the others are 1):
//   msync   [all; requests emitted after every event == model (Synchronize: exact list and order, retry: digest SET per
//            destination); the observed retry destinations are a legal draw (distinct other members, min(nodes, n-1) of
//            them) whenever the model has something to re-request; monitor: no digest named by two Synchronize requests
//            without its arrival or a Cleanup in between, requests go to the target from me; monitor (delay = 0): every
//            retry tick names every digest requested and not arrived / possibly collected since, to the right number of peers]
//   mhelper [all; replies == mempool_helper_answer on the store contents (order, bytes, destination); monitor: every
//            reply goes to the requestor and carries the stored value of a requested key; a non-member gets nothing; at
//            most one reply per requested key; the real Processor stored/announced under SHA-512/256 of the exact bytes]
//   e2e     [all; release points and BatchRequests == Node.mempool_verify/batch_stored + MempoolSyncDefs.msstep;
//            monitor: every transaction in exactly one sealed batch, in order; monitor: a digest is announced only when
//            readable from the store, every sealed batch is announced; monitor: a block is released only after all its
//            batches were announced, once, and none stays parked with all batches present; stored bytes == broadcast
//            bytes; every batch broadcast reliably to all n-1 peers; released block identical; no I/O failure; no panic]
// e2e option: `--port-base P` (default 26000; case k listens on P + 2*(k % 1000) and +1; one retry on P + 2000 + ...).
//
// Time. msync/mhelper run on a current-thread runtime with a PAUSED tokio clock. The synchronizer's retry timer is a
// tokio timer (1 s resolution, fired with `tokio::time::advance`) but the age test compares WALL-CLOCK milliseconds
// (`SystemTime::now()`), so the harness sleeps 2 ms of real time before every tick and runs the task with
// `sync_retry_delay = 0` (every entry registered before the sleep is then strictly older than the delay) or with a delay
// of 10^7 ms (no entry ever is). The model is evaluated on a virtual clock that advances by >= 1 at every tick.
use bytes::Bytes;
use crypto::{Digest, Hash as _};
use futures::{SinkExt, StreamExt};
use hsverif::*;
use mempool::verif::{Helper, MempoolMessage, Processor, Synchronizer};
use mempool::{ConsensusMempoolMessage, Mempool};
use rand::seq::SliceRandom;
use rand::Rng;
use serde_json::json;
use sha2::{Digest as _, Sha512};
use std::collections::{HashMap, HashSet};
use std::net::SocketAddr;
use std::time::Duration;
use store::Store;
use tokio::net::TcpStream;
use tokio::sync::mpsc::channel;
use tokio_util::codec::{Framed, LengthDelimitedCodec};

fn addr(p: usize) -> SocketAddr { format!("127.0.0.1:{}", 9000 + p).parse().unwrap() }
async fn settle() { for _ in 0..200 { tokio::task::yield_now().await; } }
fn paused_rt() -> tokio::runtime::Runtime { tokio::runtime::Builder::new_current_thread().enable_all().start_paused(true).build().unwrap() }
fn bool_coq(b: bool) -> &'static str { if b { "true" } else { "false" } }

// ------------------------------------------------------------------------------------------------ msync
#[derive(Clone, Debug)]
enum MEv { Sync(Vec<usize>, usize, u64), Cleanup(u64), Arrived(usize), Retry(u64, Vec<usize>) }

fn msync(o: &Opts) {
    let mut e = Emit::new("MempoolSyncDefs CorrComp CorrPipeline");
    let mut seen = HashSet::new();
    for k in 0..o.cases {
        if let Some(only) = o.only { if only != k { continue; } }
        let rt = paused_rt();
        let mut rng = case_rng(o.seed, 131, k as u64);
        let n = match k % 10 { 0 => 1, 1 | 2 => 2, _ => rng.gen_range(3, 8usize) };
        let keys = sorted_keys(&mut rng, n + 1); // the last key is not a member
        let me = rng.gen_range(0, n);
        let gc_depth: u64 = *[0u64, 1, 2, 3, 5, 50].choose(&mut rng).unwrap();
        let delay: u64 = if k % 4 == 3 { 10_000_000 } else { 0 };
        let nodes: usize = match k % 3 { 0 => rng.gen_range(0, n + 2), 1 => 1, _ => rng.gen_range(1, n + 1) };
        let com = mempool::Committee::new((0..n).map(|i| (keys[i].0, 1, addr(100 + i), addr(200 + i))).collect(), 1);
        let rank_of_addr: HashMap<SocketAddr, usize> = (0..n).map(|i| (addr(200 + i), i)).collect();
        let nd = rng.gen_range(3, 11usize);
        let digests: Vec<Digest> = (0..nd).map(|_| { let mut b = [0u8; 32]; rng.fill(&mut b); Digest(b) }).collect();
        let dig_idx: HashMap<[u8; 32], usize> = digests.iter().enumerate().map(|(i, d)| (d.0, i)).collect();
        let rank = |p: usize| if p == n { 99 } else { p };
        let dbpath = format!("{}/db_ms_{}_{}", o.out, o.seed, k);
        let _ = std::fs::remove_dir_all(&dbpath);

        let nev = rng.gen_range(4, 28);
        let (evs, obs): (Vec<MEv>, Vec<Vec<(usize, Vec<usize>, usize)>>) = rt.block_on(async {
            network::verif::tap_start();
            let mut store = Store::new(&dbpath).unwrap();
            let (tx, rx) = channel(1000);
            Synchronizer::spawn(keys[me].0, com.clone(), store.clone(), gc_depth, delay, nodes, rx);
            settle().await;
            let mut stored: HashSet<usize> = HashSet::new();
            let mut vt: u64 = 1; let mut last_round: u64 = 0; let mut force_retry = false;
            let mut evs: Vec<MEv> = vec![]; let mut obs = vec![];
            let drain = |retry: bool| {
                let mut v: Vec<(usize, Vec<usize>, usize)> = network::verif::tap_drain().into_iter().map(|(rel, a, b)| {
                    match bincode::deserialize::<MempoolMessage>(&b) {
                        Ok(MempoolMessage::BatchRequest(ds, origin)) if !rel =>
                            (*rank_of_addr.get(&a).unwrap_or(&997), ds.iter().map(|d| *dig_idx.get(&d.0).unwrap_or(&999)).collect(),
                             keys.iter().position(|(pk, _)| pk == &origin).map(|p| if p == n { 99 } else { p }).unwrap_or(996)),
                        _ => (998, vec![], 998),
                    }
                }).collect();
                if retry { v.sort(); }
                v
            };
            for i in 0..=nev {
                let x: f64 = if force_retry { force_retry = false; 0.0 } else { rng.gen() };
                if i == nev || x < 0.2 {
                    // retry tick: 2 ms of real time, then the 1 s tokio timer
                    std::thread::sleep(Duration::from_millis(2));
                    vt += rng.gen_range(1, 4);
                    tokio::time::advance(Duration::from_millis(1000)).await;
                    settle().await;
                    let out = drain(true);
                    evs.push(MEv::Retry(vt, out.iter().map(|q| q.0).collect())); obs.push(out);
                } else if x < 0.62 {
                    let len = rng.gen_range(1, 6);
                    let ds: Vec<usize> = (0..len).map(|_| rng.gen_range(0, nd)).collect();
                    let target = if rng.gen_bool(0.12) { n } else { rng.gen_range(0, n) };
                    tx.send(ConsensusMempoolMessage::Synchronize(ds.iter().map(|&d| digests[d].clone()).collect(), keys[target].0)).await.unwrap();
                    settle().await;
                    evs.push(MEv::Sync(ds.clone(), rank(target), vt)); obs.push(drain(false));
                    // a digest whose batch is already in the store: its waiter completes at once
                    let mut done = HashSet::new();
                    for d in ds { if stored.contains(&d) && done.insert(d) { evs.push(MEv::Arrived(d)); obs.push(vec![]); } }
                } else if x < 0.76 {
                    let d = rng.gen_range(0, nd);
                    store.write(digests[d].to_vec(), vec![d as u8, 1, 2, 3]).await; stored.insert(d);
                    settle().await;
                    evs.push(MEv::Arrived(d)); obs.push(drain(false));
                } else {
                    // half of the time right at the boundary of the entries registered since the last Cleanup
                    // (they carry `last_round`): last_round + gc_depth - 1 keeps them, last_round + gc_depth drops them
                    let r = if rng.gen_bool(0.5) { (last_round + gc_depth + rng.gen_range(0, 3)).saturating_sub(1) } else { rng.gen_range(0, gc_depth + 6) };
                    last_round = r; force_retry = rng.gen_bool(0.5);   // look at what survived
                    tx.send(ConsensusMempoolMessage::Cleanup(r)).await.unwrap();
                    settle().await;
                    evs.push(MEv::Cleanup(r)); obs.push(drain(false));
                }
            }
            (evs, obs)
        });
        drop(rt);
        let _ = std::fs::remove_dir_all(&dbpath);
        let evt: Vec<String> = evs.iter().map(|ev| match ev {
            MEv::Sync(ds, t, now) => format!("MSync {} {} {}", coq_nlist(ds.iter().map(|&d| d as u128)), t, now),
            MEv::Cleanup(r) => format!("MCleanup {}", r),
            MEv::Arrived(d) => format!("MArrived {}", d),
            MEv::Retry(now, pick) => format!("MRetry {} {}", now, coq_nlist(pick.iter().map(|&p| p as u128))),
        }).collect();
        let obt: Vec<String> = obs.iter().map(|o| coq_list(&o.iter().map(|(d, ds, or)| format!("mkReq {} {} {}", d, coq_nlist(ds.iter().map(|&x| x as u128)), or)).collect::<Vec<_>>())).collect();
        // input distribution
        let retries_nonempty = evs.iter().zip(obs.iter()).filter(|(ev, o)| matches!(ev, MEv::Retry(..)) && !o.is_empty()).count();
        let suppressed = evs.iter().zip(obs.iter()).filter(|(ev, o)| match ev { MEv::Sync(ds, t, _) if *t != 99 => { let u: HashSet<_> = ds.iter().collect(); o.len() == 1 && o[0].1.len() < u.len() } _ => false }).count();
        e.stat(&format!("n={}", n), 1); e.stat("events", evs.len() as u64);
        e.stat("retry_ticks_with_requests", retries_nonempty as u64); e.stat("syncs_with_suppressed_digest", suppressed as u64);
        e.stat("syncs_unknown_target", evs.iter().filter(|ev| matches!(ev, MEv::Sync(_, 99, _))).count() as u64);
        e.stat("cleanups", evs.iter().filter(|ev| matches!(ev, MEv::Cleanup(_))).count() as u64);
        e.stat(if delay == 0 { "delay=0" } else { "delay=huge" }, 1);
        if suppressed > 0 && (retries_nonempty > 0 || delay > 0) && seen.insert(evt.join(";")) { e.stat("distinct_nontrivial", 1); }
        e.case(k, "", &format!("msync_case {} {} {} {} {} {} {}", n, me, gc_depth, delay, nodes, coq_list(&evt), coq_list(&obt)),
               json!({"case": k, "n": n, "me": me, "gc_depth": gc_depth, "sync_retry_delay": delay, "sync_retry_nodes": nodes, "events": evt, "observed": obt}));
    }
    e.finish(&o.out, "msync", o.seed);
}

// ------------------------------------------------------------------------------------------------ mhelper
fn mhelper(o: &Opts) {
    let mut e = Emit::new("Codec ReceiveDefs CorrComp CorrPipeline");
    let mut seen = HashSet::new();
    for k in 0..o.cases {
        if let Some(only) = o.only { if only != k { continue; } }
        let rt = paused_rt();
        let mut rng = case_rng(o.seed, 132, k as u64);
        let n = rng.gen_range(1, 7usize);
        let keys = sorted_keys(&mut rng, n + 1);
        let com = mempool::Committee::new((0..n).map(|i| (keys[i].0, 1, addr(100 + i), addr(200 + i))).collect(), 1);
        let rank_of_addr: HashMap<SocketAddr, usize> = (0..n).map(|i| (addr(200 + i), i)).collect();
        let dbpath = format!("{}/db_mh_{}_{}", o.out, o.seed, k);
        let _ = std::fs::remove_dir_all(&dbpath);
        let nreq = rng.gen_range(3, 10);
        // (kind, key bytes): interned keys; writes: (key index, value), oldest first
        let (kinds, writes, reqs, obs, processor_ok): (Vec<&'static str>, Vec<(usize, Vec<u8>)>, Vec<(Vec<usize>, usize)>, Vec<Vec<(usize, Vec<u8>)>>, bool) = rt.block_on(async {
            network::verif::tap_start();
            let mut store = Store::new(&dbpath).unwrap();
            let (tx_req, rx_req) = channel(1000);
            Helper::spawn(com.clone(), store.clone(), rx_req);
            let (tx_batch, rx_batch) = channel(1000);
            let (tx_dig, mut rx_dig) = channel(1000);
            Processor::spawn(store.clone(), rx_batch, tx_dig);
            settle().await;
            let mut keyv: Vec<Vec<u8>> = vec![]; let mut kinds = vec![]; let mut writes = vec![]; let mut processor_ok = true;
            // batches, stored by the REAL Processor under the hash of their serialized bytes
            for _ in 0..rng.gen_range(1, 4) {
                let txs: Vec<Vec<u8>> = (0..rng.gen_range(0, 4)).map(|_| (0..rng.gen_range(0, 12)).map(|_| rng.gen()).collect()).collect();
                let ser = bincode::serialize(&MempoolMessage::Batch(txs)).unwrap();
                tx_batch.send(ser.clone()).await.unwrap(); settle().await;
                let d: Digest = match rx_dig.try_recv() { Ok(d) => d, Err(_) => { processor_ok = false; Digest::default() } };
                if d.0.to_vec() != Sha512::digest(&ser)[..32].to_vec() { processor_ok = false; }
                if !keyv.contains(&d.to_vec()) { keyv.push(d.to_vec()); kinds.push("batch"); }
                writes.push((keyv.iter().position(|x| x == &d.to_vec()).unwrap(), ser));
            }
            // consensus blocks share the store: key = block digest, value = serialized block
            for r in 0..rng.gen_range(1, 3u64) {
                let b = consensus::verif::Block { author: keys[rng.gen_range(0, n)].0, round: r + 1, payload: vec![Digest([r as u8 + 1; 32])], ..consensus::verif::Block::default() };
                let ser = bincode::serialize(&b).unwrap(); let d = b.digest();
                store.write(d.to_vec(), ser.clone()).await;
                keyv.push(d.to_vec()); kinds.push("block"); writes.push((keyv.len() - 1, ser));
            }
            // arbitrary values (also the empty one), one key written twice
            for j in 0..rng.gen_range(1, 4) {
                let mut kb = [0u8; 32]; rng.fill(&mut kb);
                let v: Vec<u8> = if j == 0 { vec![] } else { (0..rng.gen_range(1, 20)).map(|_| rng.gen()).collect() };
                store.write(kb.to_vec(), v.clone()).await; keyv.push(kb.to_vec()); kinds.push("junk"); writes.push((keyv.len() - 1, v));
                if j == 1 { let v2: Vec<u8> = vec![9, 9, 9]; store.write(kb.to_vec(), v2.clone()).await; writes.push((keyv.len() - 1, v2)); }
            }
            // digests nobody stored
            for _ in 0..2 { let mut kb = [0u8; 32]; rng.fill(&mut kb); keyv.push(kb.to_vec()); kinds.push("unknown"); }
            settle().await; network::verif::tap_drain();
            let mut reqs = vec![]; let mut obs = vec![];
            for _ in 0..nreq {
                let ds: Vec<usize> = (0..rng.gen_range(0, 7)).map(|_| rng.gen_range(0, keyv.len())).collect();
                let origin = if rng.gen_bool(0.2) { n } else { rng.gen_range(0, n) };
                let dl: Vec<Digest> = ds.iter().map(|&i| { let mut b = [0u8; 32]; b.copy_from_slice(&keyv[i]); Digest(b) }).collect();
                tx_req.send((dl, keys[origin].0)).await.unwrap(); settle().await;
                let out: Vec<(usize, Vec<u8>)> = network::verif::tap_drain().into_iter().map(|(rel, a, b)| (if rel { 998 } else { *rank_of_addr.get(&a).unwrap_or(&997) }, b.to_vec())).collect();
                reqs.push((ds, if origin == n { 99 } else { origin })); obs.push(out);
            }
            (kinds, writes, reqs, obs, processor_ok)
        });
        drop(rt);
        let _ = std::fs::remove_dir_all(&dbpath);
        let wt: Vec<String> = writes.iter().map(|(i, v)| format!("({}, {})", i, coq_bytes(v))).collect();
        let rq: Vec<String> = reqs.iter().map(|(ds, or)| format!("({}, {})", coq_nlist(ds.iter().map(|&x| x as u128)), or)).collect();
        let ob: Vec<String> = obs.iter().map(|o| coq_list(&o.iter().map(|(d, b)| format!("({}, {})", d, coq_bytes(b))).collect::<Vec<_>>())).collect();
        e.stat(&format!("n={}", n), 1); e.stat("requests", reqs.len() as u64); e.stat("replies", obs.iter().map(|o| o.len() as u64).sum());
        for (ds, or) in &reqs { if *or == 99 { e.stat("req_unknown_origin", 1); } for d in ds { e.stat(&format!("asked:{}", kinds[*d]), 1); } }
        if !processor_ok { e.stat("processor_mismatch", 1); }
        if obs.iter().any(|o| !o.is_empty()) && seen.insert(format!("{:?}{:?}", writes, reqs)) { e.stat("distinct_nontrivial", 1); }
        e.case(k, "", &format!("mhelper_case {} {} {} {} [{}]", n, coq_list(&wt), coq_list(&rq), coq_list(&ob), bool_coq(processor_ok)),
               json!({"case": k, "n": n, "key_kinds": kinds, "requests": reqs, "replies": obs.iter().map(|o| o.iter().map(|(d, b)| (d, hex(b))).collect::<Vec<_>>()).collect::<Vec<_>>() }));
    }
    e.finish(&o.out, "mhelper", o.seed);
}


// ------------------------------------------------------------------------------------------------ e2e
static PANICKED: std::sync::atomic::AtomicBool = std::sync::atomic::AtomicBool::new(false);

#[derive(Clone, Debug)]
enum XEv { Tx(usize), Sealed(usize, Vec<usize>), Announced(usize, bool), Verify(usize, u64, Vec<usize>, bool), Request(usize, Vec<usize>, usize), Delivered(usize), Released(u64) }
#[derive(Clone, Debug)]
enum Act { Verify(usize), Deliver(usize) }

async fn connect_retry(a: SocketAddr) -> Option<Framed<TcpStream, LengthDelimitedCodec>> {
    for _ in 0..600 {
        if let Ok(s) = TcpStream::connect(a).await { return Some(Framed::new(s, LengthDelimitedCodec::new())); }
        tokio::time::sleep(Duration::from_millis(5)).await;
    }
    None
}
fn sha(b: &[u8]) -> [u8; 32] { let mut d = [0u8; 32]; d.copy_from_slice(&Sha512::digest(b)[..32]); d }

fn e2e(o: &Opts) {
    use consensus::verif::{Block, MempoolDriver};
    let port_base: u16 = o.rest.iter().position(|x| x == "--port-base").map(|i| o.rest[i + 1].parse().unwrap()).unwrap_or(26000); // below the ephemeral range (32768..), apart from sock.rs (20000+) and wired.rs (30000+)
    let mut e = Emit::new("Node MempoolSyncDefs CorrComp CorrPipeline");
    let mut seen = HashSet::new();
    std::panic::set_hook(Box::new(|_| { PANICKED.store(true, std::sync::atomic::Ordering::SeqCst); }));
    for k in 0..o.cases {
        if let Some(only) = o.only { if only != k { continue; } }
      for attempt in 0..2 {   // a second attempt on other ports if the node's listeners could not be reached
        PANICKED.store(false, std::sync::atomic::Ordering::SeqCst);
        let rt = tokio::runtime::Builder::new_current_thread().enable_all().build().unwrap(); // real time: real sockets
        let mut rng = case_rng(o.seed, 133, k as u64);
        let n = 4usize;
        let keys = sorted_keys(&mut rng, n + 1);
        let me = rng.gen_range(0, n);
        let pb = port_base + 2 * (k % 1000) as u16 + if attempt == 1 { 2000 } else { 0 };
        let tx_addr = |i: usize| -> SocketAddr { if i == me { format!("127.0.0.1:{}", pb).parse().unwrap() } else { addr(100 + i) } };
        let mp_addr = |i: usize| -> SocketAddr { if i == me { format!("127.0.0.1:{}", pb + 1).parse().unwrap() } else { addr(200 + i) } };
        let com = mempool::Committee::new((0..n).map(|i| (keys[i].0, 1, tx_addr(i), mp_addr(i))).collect(), 1);
        let rank_of_addr: HashMap<SocketAddr, usize> = (0..n).map(|i| (mp_addr(i), i)).collect();
        let batch_size = match k % 4 { 0 => 1, 1 => rng.gen_range(20, 60), _ => rng.gen_range(60, 400usize) };
        let params = mempool::Parameters { gc_depth: 50, sync_retry_delay: 600_000, sync_retry_nodes: 3, batch_size, max_batch_delay: 30 };
        let dbpath = format!("{}/db_e2e_{}_{}", o.out, o.seed, k);
        let _ = std::fs::remove_dir_all(&dbpath);
        let ntx = rng.gen_range(1, 12usize);
        let txs: Vec<Vec<u8>> = (0..ntx).map(|i| { let len = rng.gen_range(2, 2 + batch_size.min(120) + 1); let mut t: Vec<u8> = (0..len).map(|_| rng.gen()).collect(); t[0] = 1 + (i / 250) as u8; t[1] = (i % 250) as u8; t }).collect();
        // phase B plan
        let nmiss = rng.gen_range(1, 4usize);
        let missing_batches: Vec<Vec<u8>> = (0..nmiss + 1).map(|j| bincode::serialize(&MempoolMessage::Batch(vec![vec![200 + j as u8; rng.gen_range(1, 30)], vec![j as u8]])).unwrap()).collect(); // the last one is in no payload
        let nblk = rng.gen_range(1, 3usize);

        let result: Option<(Vec<XEv>, Vec<bool>)> = rt.block_on(async {
            network::verif::tap_start();
            let mut store = Store::new(&dbpath).unwrap();
            let (tx_c2m, rx_c2m) = channel(1000);
            let (tx_m2c, mut rx_m2c) = channel::<Digest>(1000);
            Mempool::spawn(keys[me].0, com.clone(), params, store.clone(), rx_c2m, tx_m2c);
            let (tx_loop, mut rx_loop) = channel::<Block>(1000);
            let mut driver = MempoolDriver::new(store.clone(), tx_c2m.clone(), tx_loop);
            let mut txconn = connect_retry(tx_addr(me)).await?;
            let mut mpconn = connect_retry(mp_addr(me)).await?;

            let mut tr: Vec<XEv> = vec![];
            let mut batch_ids: HashMap<[u8; 32], usize> = HashMap::new();     // digest -> batch id
            let mut batch_bytes: Vec<Vec<u8>> = vec![];                        // id -> serialized bytes
            let mut stored_bytes_ok = true; let mut broadcast_ok = true; let mut released_identical = true; let mut io_ok = true;
            let tx_id: HashMap<Vec<u8>, usize> = txs.iter().enumerate().map(|(i, t)| (t.clone(), i)).collect();
            let mut sealed_tx = 0usize; let mut sealed: Vec<usize> = vec![]; let mut announced: Vec<usize> = vec![];

            // what the tap holds: reliable Batch broadcasts (phase A) and BatchRequests (phase B)
            macro_rules! drain_tap { () => {{
                let taps = network::verif::tap_drain();
                let mut groups: Vec<(Vec<u8>, Vec<SocketAddr>)> = vec![];
                for (rel, a, b) in taps {
                    match bincode::deserialize::<MempoolMessage>(&b) {
                        Ok(MempoolMessage::Batch(_)) => { if !rel { broadcast_ok = false; } match groups.iter_mut().find(|g| g.0 == b.to_vec()) { Some(g) => g.1.push(a), None => groups.push((b.to_vec(), vec![a])) } }
                        Ok(MempoolMessage::BatchRequest(ds, origin)) => {
                            if rel { broadcast_ok = false; }
                            tr.push(XEv::Request(*rank_of_addr.get(&a).unwrap_or(&997), ds.iter().map(|d| *batch_ids.get(&d.0).unwrap_or(&999)).collect(), keys.iter().position(|(pk, _)| pk == &origin).map(|p| if p == n { 99 } else { p }).unwrap_or(996)));
                        }
                        Err(_) => { broadcast_ok = false; }
                    }
                }
                for (b, addrs) in groups {
                    let mut want: Vec<SocketAddr> = (0..n).filter(|&i| i != me).map(|i| mp_addr(i)).collect(); want.sort();
                    let mut got = addrs.clone(); got.sort(); if got != want { broadcast_ok = false; }
                    let d = sha(&b);
                    if !batch_ids.contains_key(&d) {
                        let id = batch_bytes.len(); batch_ids.insert(d, id); batch_bytes.push(b.clone());
                        let ids: Vec<usize> = match bincode::deserialize::<MempoolMessage>(&b) { Ok(MempoolMessage::Batch(ts)) => ts.iter().map(|t| *tx_id.get(t).unwrap_or(&9999)).collect(), _ => vec![] };
                        sealed_tx += ids.len(); sealed.push(id);
                        tr.push(XEv::Sealed(id, ids));
                    }
                }
            }}; }
            macro_rules! on_digest { ($d:expr) => {{
                let d: Digest = $d;
                drain_tap!();
                let id = *batch_ids.get(&d.0).unwrap_or(&999);
                let ok = match store.read(d.to_vec()).await { Ok(Some(v)) => { if id < batch_bytes.len() && v != batch_bytes[id] { stored_bytes_ok = false; } sha(&v) == d.0 } _ => false };
                announced.push(id);
                tr.push(XEv::Announced(id, ok));
            }}; }

            // ---- phase A: client transactions
            for (i, t) in txs.iter().enumerate() {
                if txconn.send(Bytes::from(t.clone())).await.is_err() { io_ok = false; }
                tr.push(XEv::Tx(i));
                if rng.gen_bool(0.3) { tokio::time::sleep(Duration::from_millis(rng.gen_range(1, 45))).await; }
                for _ in 0..20 { tokio::task::yield_now().await; }
                while let Ok(d) = rx_m2c.try_recv() { on_digest!(d); }
            }
            let deadline = tokio::time::Instant::now() + Duration::from_millis(4000);
            while (sealed_tx < ntx || sealed.iter().any(|b| !announced.contains(b))) && tokio::time::Instant::now() < deadline {
                match tokio::time::timeout(Duration::from_millis(100), rx_m2c.recv()).await { Ok(Some(d)) => { on_digest!(d); } _ => { drain_tap!(); } }
            }
            drain_tap!();

            // ---- phase B: the consensus side
            let first_missing = batch_bytes.len();
            for b in &missing_batches { let d = sha(b); batch_ids.insert(d, batch_bytes.len()); batch_bytes.push(b.clone()); }
            let dig = |id: usize| Digest(sha(&batch_bytes[id]));
            let mut blocks: Vec<Block> = vec![]; let mut blk_ids: Vec<Vec<usize>> = vec![];
            for bi in 0..nblk {
                let mut pl: Vec<usize> = vec![];
                for &s_id in &sealed { if rng.gen_bool(0.4) { pl.push(s_id); } }
                if !rng.gen_bool(0.12) { let cnt = rng.gen_range(1, nmiss + 1); let mut ms: Vec<usize> = (0..nmiss).collect(); ms.shuffle(&mut rng); for &m in ms.iter().take(cnt) { pl.push(first_missing + m); } }
                pl.shuffle(&mut rng);
                let author = { let mut a = rng.gen_range(0, n); if rng.gen_bool(0.9) { while a == me { a = rng.gen_range(0, n); } } a };
                blocks.push(Block { author: keys[author].0, round: bi as u64 + 1, payload: pl.iter().map(|&id| dig(id)).collect(), ..Block::default() });
                blk_ids.push(pl);
            }
            let mut acts: Vec<Act> = (0..nmiss + 1).map(|m| Act::Deliver(first_missing + m)).collect();
            acts.shuffle(&mut rng);
            for bi in 0..nblk { let pos = rng.gen_range(0, acts.len().min(2 + bi) + 1).min(acts.len()); acts.insert(pos, Act::Verify(bi)); }
            if rng.gen_bool(0.4) { let pos = rng.gen_range(1, acts.len() + 1); acts.insert(pos, Act::Verify(0)); }   // a block verified twice
            let first_verify = acts.iter().position(|a| matches!(a, Act::Verify(_))).unwrap();
            if first_verify > 0 && rng.gen_bool(0.7) { let a = acts.remove(first_verify); acts.insert(0, a); }
            let mut parked: Vec<usize> = vec![]; let mut released: Vec<usize> = vec![];
            macro_rules! poll_release { ($grace:expr) => {{
                // wait (bounded) for the releases that are due, then a short grace in which nothing more may come
                let due = |parked: &Vec<usize>, released: &Vec<usize>, announced: &Vec<usize>| parked.iter().filter(|bi| !released.contains(bi) && blk_ids[**bi].iter().all(|id| announced.contains(id))).count();
                let deadline = tokio::time::Instant::now() + Duration::from_millis(2000);
                loop {
                    while let Ok(b) = rx_loop.try_recv() {
                        let bi = (b.round as usize).wrapping_sub(1);
                        if bi < blocks.len() { if bincode::serialize(&b).unwrap() != bincode::serialize(&blocks[bi]).unwrap() { released_identical = false; } released.push(bi); } else { released_identical = false; }
                        tr.push(XEv::Released(b.round));
                    }
                    if due(&parked, &released, &announced) == 0 || tokio::time::Instant::now() >= deadline { break; }
                    tokio::time::sleep(Duration::from_millis(1)).await;
                }
                tokio::time::sleep(Duration::from_millis($grace)).await;
                for _ in 0..50 { tokio::task::yield_now().await; }
                while let Ok(b) = rx_loop.try_recv() { let bi = (b.round as usize).wrapping_sub(1); if bi < blocks.len() { released.push(bi); } tr.push(XEv::Released(b.round)); }
            }}; }
            for a in &acts {
                match a {
                    Act::Verify(bi) => {
                        let b = blocks[*bi].clone();
                        let res = match driver.verify(b.clone()).await { Ok(r) => r, Err(_) => { io_ok = false; true } };
                        tr.push(XEv::Verify(keys.iter().position(|(pk, _)| pk == &b.author).unwrap(), b.round, blk_ids[*bi].clone(), res));
                        if !res {
                            if !parked.contains(bi) { parked.push(*bi); }
                            // the synchronizer's request: wait for it (bounded), then a grace
                            let before = tr.len();
                            let deadline = tokio::time::Instant::now() + Duration::from_millis(2000);
                            while tr.len() == before && tokio::time::Instant::now() < deadline { for _ in 0..50 { tokio::task::yield_now().await; } drain_tap!(); if tr.len() == before { tokio::time::sleep(Duration::from_millis(1)).await; } }
                        }
                        tokio::time::sleep(Duration::from_millis(3)).await; for _ in 0..50 { tokio::task::yield_now().await; }
                        drain_tap!();
                        poll_release!(3);
                    }
                    Act::Deliver(id) => {
                        if mpconn.send(Bytes::from(batch_bytes[*id].clone())).await.is_err() { io_ok = false; }
                        match tokio::time::timeout(Duration::from_millis(2000), mpconn.next()).await { Ok(Some(Ok(f))) if &f[..] == b"Ack" => {}, _ => { io_ok = false; } }
                        tr.push(XEv::Delivered(*id));
                        match tokio::time::timeout(Duration::from_millis(2000), rx_m2c.recv()).await { Ok(Some(d)) => { on_digest!(d); } _ => { io_ok = false; } }
                        poll_release!(3);
                    }
                }
            }
            poll_release!(30);
            while let Ok(d) = rx_m2c.try_recv() { on_digest!(d); }
            drain_tap!();
            Some((tr, vec![stored_bytes_ok, broadcast_ok, released_identical, io_ok]))
        });
        drop(rt);
        let _ = std::fs::remove_dir_all(&dbpath);
        let (tr, mut flags) = match result { Some(x) => x, None => { e.stat(if attempt == 0 { "retried(no connection)" } else { "inconclusive(no connection)" }, 1); continue; } };
        flags.push(!PANICKED.load(std::sync::atomic::Ordering::SeqCst));
        let trt: Vec<String> = tr.iter().map(|ev| match ev {
            XEv::Tx(i) => format!("XTx {}", i),
            XEv::Sealed(k, ts) => format!("XSealed {} {}", k, coq_nlist(ts.iter().map(|&x| x as u128))),
            XEv::Announced(k, ok) => format!("XAnnounced {} {}", k, bool_coq(*ok)),
            XEv::Verify(a, r, pl, res) => format!("XVerify {} {} {} {}", a, r, coq_nlist(pl.iter().map(|&x| x as u128)), bool_coq(*res)),
            XEv::Request(d, ds, or) => format!("XRequest {} {} {}", d, coq_nlist(ds.iter().map(|&x| x as u128)), or),
            XEv::Delivered(k) => format!("XDelivered {}", k),
            XEv::Released(r) => format!("XReleased {}", r),
        }).collect();
        e.stat("transactions", ntx as u64);
        e.stat("sealed_batches", tr.iter().filter(|x| matches!(x, XEv::Sealed(..))).count() as u64);
        e.stat("verify_false", tr.iter().filter(|x| matches!(x, XEv::Verify(_, _, _, false))).count() as u64);
        e.stat("verify_true", tr.iter().filter(|x| matches!(x, XEv::Verify(_, _, _, true))).count() as u64);
        e.stat("batch_requests", tr.iter().filter(|x| matches!(x, XEv::Request(..))).count() as u64);
        e.stat("releases", tr.iter().filter(|x| matches!(x, XEv::Released(..))).count() as u64);
        if tr.iter().any(|x| matches!(x, XEv::Released(..))) && seen.insert(trt.join(";")) { e.stat("distinct_nontrivial", 1); }
        e.case(k, "", &format!("e2e_case {} {} {} {}", n, me, coq_list(&trt), coq_list(&flags.iter().map(|b| bool_coq(*b)).collect::<Vec<_>>())),
               json!({"case": k, "me": me, "batch_size": batch_size, "trace": trt, "flags": flags}));
        break;
      }
    }
    e.finish(&o.out, "e2e", o.seed);
}

fn main() {
    let o = opts();
    match o.mode.as_str() {
        "msync" => msync(&o),
        "mhelper" => mhelper(&o),
        "e2e" => e2e(&o),
        m => { eprintln!("unknown mode {}", m); std::process::exit(2); }
    }
}

