// Socket-mode correspondence for C15 on a FULLY WIRED node: `Consensus::spawn` + `Mempool::spawn` on one store, real
// loopback TCP on the consensus, mempool and transaction ports (no network tap), a process-wide panic hook.
//
//   fuzz   each CASE = one fresh node in its own CHILD PROCESS (this executable re-invoked with `--only k --child`), so
//          that every panic is attributed to exactly one case and a dead task cannot influence another case. The parent
//          runs up to `--jobs` (default 12) children at a time and assembles `cases_wired.v` / `meta_wired.json`.
//
// Committee: authorities 0..3 with stake 1 (index = rank of the public key = the leader rotation order) plus authority 4
// with stake 0 (a member with an address but no voting right). The node under test is authority 0. Listeners stand for
// the consensus and mempool ports of authorities 1..4 and record every frame the node sends them (mempool listeners
// acknowledge every frame, consensus listeners acknowledge proposals, like the real receivers). Authority 3 is the
// BYZANTINE one: hostile well-formed messages are signed with its key only (plus garbage signatures), because a
// certificate carrying a quorum of honest signatures on absurd content is outside the property (C15 states the
// hypothesis "no verified certificate has round 2^64-1"). Honest keys sign only the probes' own traffic.
//
// A case: (a) four functional probes BEFORE any hostile input - a valid proposal (block 1 of leader 1) is processed
// (the node's vote reaches the next leader), a block sync request for it is answered, a batch stored via the mempool port
// is returned on a batch request, a client transaction is batched (the Batch broadcast reaches a peer's mempool port); one of them
// failing within its timeout makes the case `inconclusive` (counted, not emitted). (b) 5..30 hostile inputs, ONE AT A
// TIME: each is written on its own connection, the write half is closed, and the harness reads until the node closes the
// connection - which the receiver does after `dispatch` returned, failed or unwound. That is the synchronisation event
// (no sleep): when it is seen, a panic of the connection task (decoder, or `expect("Failed to send ...")` to a dead task)
// has already run the panic hook, so decode-site panics are attributed to frames EXACTLY. Panics of downstream tasks
// (helper, core, ...) are asynchronous; they are attributed to the input being handled when the hook ran (a short
// settle follows each input) - this attribution is only informative (JSON), the verdict uses "no panic at all".
// (c) the same four probes AFTER the hostile input (block 2 of leader 2 with a QC over block 1 as the proposal).
//
// Compared with the model (CorrWired.v): per frame, decode-site panic observed == `decode_cmsg/decode_mmsg` says Panic
// under the regenerated key-length discipline `g_pk_decode_exact`; and "Ack" received == the model's routing (consensus
// port: exactly a decodable Propose; mempool port: every delivered frame; transaction port: never).
// verdict = [all; decode-panic agreement; no panic; block sync / batch sync / tx batched / proposal processed AFTER;
//            the same four BEFORE; ack agreement].
//
// Options: `--no-tx-limit` (see themes), `--jobs J`, `--port-base P` (default 30000; case k uses P + 40*(k % 64) .. +39: consensus +0..4,
// transactions +10..14, mempool +20..24), `--exact-len` / `--slice-len` force the model's key-length discipline.
// Theme of case k (k % 6): 0 short-key frames (known finding: crypto decode_base64 slice), 1 cross-store sync request
// (known finding: consensus helper), 2,3 neither, 4 both, 5 neither plus a transaction within 20 bytes of the 8 MiB frame
// limit (observed on the pinned tree: the one-transaction batch exceeds the frame limit, reliable_sender.rs re-queues it
// and reconnects for ever, no later batch is disseminated: "tx batched" fails afterwards, no panic; `--no-tx-limit` turns
// theme 5 into a third theme without attack). In the themes without an attack every generated frame is first given to the REAL decoder in this process (under
// catch_unwind, hook muted) and redrawn if that panics, so that "no attack" is a fact about the tree under test and not
// an assumption of the generator.
use bytes::Bytes;
use consensus::verif::{Block, ConsensusMessage, Timeout, Vote, QC, TC};
use consensus::{Committee as CCommittee, Consensus, Parameters as CParams};
use crypto::{Digest, Hash as _, PublicKey, SecretKey, Signature, SignatureService};
use futures::{SinkExt, StreamExt};
use hsverif::*;
use mempool::verif::MempoolMessage;
use mempool::{Committee as MCommittee, Mempool, Parameters as MParams};
use rand::rngs::StdRng;
use rand::seq::SliceRandom;
use rand::Rng;
use serde_json::json;
use sha2::Digest as _;
use std::panic::{catch_unwind, AssertUnwindSafe};
use std::sync::atomic::{AtomicI64, AtomicU64, Ordering};
use std::sync::Mutex;
use std::time::{Duration, Instant};
use store::Store;
use tokio::io::{AsyncReadExt, AsyncWriteExt};
use tokio::net::{TcpListener, TcpStream};
use tokio::sync::mpsc::channel;
use tokio::time::{sleep, timeout};
use tokio_util::codec::{Framed, LengthDelimitedCodec};

const MAX_FRAME: usize = 8 * 1024 * 1024; // LengthDelimitedCodec default
const ALPHABET: &[u8; 64] = b"ABCDEFGHIJKLMNOPQRSTUVWXYZabcdefghijklmnopqrstuvwxyz0123456789+/";
const BYZ: usize = 3;
const ZERO: usize = 4;
const LOCAL_NAMES: [&str; 4] = ["value", "error", "panic", "n/a"];
const THEMES: [&str; 6] = ["short-key frames", "cross-store sync request", "no attack", "no attack", "short-key + cross-store", "transaction near the frame limit"];
const PROBE_TIMEOUT: Duration = Duration::from_millis(4000);

// ------------------------------------------------------------------------------------------ process-wide recorders
/// phase: -2 generation (hook muted), -1 boot and probes before, i >= 0 hostile input i, n = probes after
static PHASE: AtomicI64 = AtomicI64::new(-2);
static PANICS: Mutex<Vec<(i64, String, String)>> = Mutex::new(Vec::new());
static LOG_WARN: AtomicU64 = AtomicU64::new(0);
static LOG_ERROR: AtomicU64 = AtomicU64::new(0);
static LOG_LINES: Mutex<Vec<String>> = Mutex::new(Vec::new());

fn norm_site(file: &str, line: u32) -> String {
    let f = if let Some(i) = file.find("/repo/") { file[i + 6..].to_string() }
        else if let Some(i) = file.find("registry/src/") { let r = &file[i + 13..]; r.splitn(2, '/').nth(1).unwrap_or(r).to_string() }
        else if let Some(i) = file.find("/library/") { format!("std{}", &file[i..]) }
        else { file.to_string() };
    format!("{}:{}", f, line)
}
fn is_decode_site(site: &str) -> bool {
    site.starts_with("crypto/src/lib.rs") || site.starts_with("bincode-") || site.starts_with("base64-") || site.starts_with("serde-")
}
fn install_hook() {
    std::panic::set_hook(Box::new(|i| {
        let ph = PHASE.load(Ordering::SeqCst);
        if ph == -2 { return; }
        let site = i.location().map(|l| norm_site(l.file(), l.line())).unwrap_or_else(|| "?".into());
        let msg = if let Some(s) = i.payload().downcast_ref::<&str>() { s.to_string() } else if let Some(s) = i.payload().downcast_ref::<String>() { s.clone() } else { "?".into() };
        let msg: String = msg.chars().take(160).collect();
        PANICS.lock().unwrap_or_else(|e| e.into_inner()).push((ph, site, msg));
    }));
}
fn panics_snapshot() -> Vec<(i64, String, String)> { PANICS.lock().unwrap_or_else(|e| e.into_inner()).clone() }

/// The node logs through `log`; a production node formats these records (env_logger), so the harness does too (the
/// `Display`/`Debug` code of keys, blocks, ... runs as it would), counts warnings and errors and keeps a few lines.
struct FmtLog;
impl log::Log for FmtLog {
    fn enabled(&self, _: &log::Metadata) -> bool { true }
    fn log(&self, r: &log::Record) {
        let s = format!("{}", r.args());
        match r.level() {
            log::Level::Error => { LOG_ERROR.fetch_add(1, Ordering::Relaxed); }
            log::Level::Warn => { LOG_WARN.fetch_add(1, Ordering::Relaxed); }
            _ => return,
        }
        let mut l = LOG_LINES.lock().unwrap_or_else(|e| e.into_inner());
        if l.len() < 40 { l.push(format!("[{}] {} {}", PHASE.load(Ordering::SeqCst), r.level(), s.chars().take(140).collect::<String>())); }
    }
    fn flush(&self) {}
}
static FMT_LOG: FmtLog = FmtLog;

// ------------------------------------------------------------------------------------------ frames
#[derive(Clone, Copy, PartialEq, Eq, Debug)]
enum Port { C, M, T }
impl Port { fn n(self) -> usize { match self { Port::C => 0, Port::M => 1, Port::T => 2 } } fn name(self) -> &'static str { ["consensus", "mempool", "tx"][self.n()] } }

#[derive(Clone)]
enum Chunk { Lit(Vec<u8>), Rep(usize, u8) }
/// Frame body = chunks, optionally followed by `fill` bytes that the Coq side only knows the number of (abbreviation).
#[derive(Clone)]
struct Fb { chunks: Vec<Chunk>, fill: Option<(usize, u8)> }
impl Fb {
    fn lit(b: Vec<u8>) -> Fb { Fb { chunks: vec![Chunk::Lit(b)], fill: None } }
    fn len(&self) -> usize { self.chunks.iter().map(|c| match c { Chunk::Lit(b) => b.len(), Chunk::Rep(n, _) => *n }).sum::<usize>() + self.fill.map(|f| f.0).unwrap_or(0) }
    fn bytes(&self) -> Vec<u8> {
        let mut v = Vec::with_capacity(self.len());
        for c in &self.chunks { match c { Chunk::Lit(b) => v.extend_from_slice(b), Chunk::Rep(n, x) => v.resize(v.len() + n, *x) } }
        if let Some((n, x)) = self.fill { v.resize(v.len() + n, x); }
        v
    }
    fn coq_chunks(&self) -> String {
        coq_list(&self.chunks.iter().map(|c| match c { Chunk::Lit(b) => format!("Lit {}", coq_bytes(b)), Chunk::Rep(n, x) => format!("Rep {} {}", n, x) }).collect::<Vec<_>>())
    }
}
enum Wire {
    /// one length-delimited frame on its own connection
    Frame(Fb),
    /// raw bytes on `conns` connections, each closed abruptly before the announced frame is complete
    Partial { conns: usize, raw: Vec<u8> },
}
struct Item { port: Port, gen: &'static str, label: String, wire: Wire, attack: Option<&'static str>, local: u8 }
impl Item {
    fn delivered(&self) -> bool { match &self.wire { Wire::Frame(f) => f.len() <= MAX_FRAME, Wire::Partial { .. } => false } }
    fn coq(&self) -> String {
        match &self.wire {
            Wire::Frame(f) if self.delivered() && self.port != Port::T =>
                format!("mkWF {} true {} {}", self.port.n(), f.coq_chunks(), f.fill.map(|x| x.0).unwrap_or(0)),
            Wire::Frame(f) => format!("mkWF {} {} [] {}", self.port.n(), self.delivered(), f.len()),
            Wire::Partial { raw, .. } => format!("mkWF {} false [] {}", self.port.n(), raw.len()),
        }
    }
}

// ------------------------------------------------------------------------------------------ message construction
type Keys = Vec<(PublicKey, SecretKey)>;
fn rand_bytes(rng: &mut StdRng, n: usize) -> Vec<u8> { (0..n).map(|_| rng.gen::<u8>()).collect() }
fn rand_digest(rng: &mut StdRng) -> Digest { let mut d = [0u8; 32]; rng.fill(&mut d); Digest(d) }
fn sha(b: &[u8]) -> Digest { let h = sha2::Sha512::digest(b); let mut o = [0u8; 32]; o.copy_from_slice(&h[..32]); Digest(o) }
fn garbage_sig(rng: &mut StdRng) -> Signature { bincode::deserialize(&rand_bytes(rng, 64)).unwrap() }
/// u64::MAX - 2 is a round of which authority 3 is the leader (2^64 - 1 = 0 mod 5)
fn gen_round(rng: &mut StdRng) -> u64 {
    match rng.gen_range(0, 10) { 0 => 0, 1 => u64::MAX, 2 => u64::MAX - 2, 3 => u64::MAX - 1, 4 => rng.gen(), 5 => 3, 6 => 8, 7 => 1, 8 => 2, _ => rng.gen_range(0, 50) }
}
fn vote_digest(hash: &Digest, round: u64) -> Digest { Vote { hash: hash.clone(), round, author: PublicKey::default(), signature: Signature::default() }.digest() }
fn timeout_digest(round: u64, hqr: u64) -> Digest {
    Timeout { high_qc: QC { hash: Digest::default(), round: hqr, votes: vec![] }, round, author: PublicKey::default(), signature: Signature::default() }.digest()
}
fn mk_qc(keys: &Keys, hash: Digest, round: u64, signers: &[usize]) -> QC {
    let d = vote_digest(&hash, round);
    QC { hash, round, votes: signers.iter().map(|&i| (keys[i].0, Signature::new(&d, &keys[i].1))).collect() }
}
fn mk_block(keys: &Keys, author: usize, round: u64, qc: QC, tc: Option<TC>, payload: Vec<Digest>) -> Block {
    let b = Block { qc, tc, author: keys[author].0, round, payload, signature: Signature::default() };
    let s = Signature::new(&b.digest(), &keys[author].1);
    Block { signature: s, ..b }
}
struct Ctx { keys: Keys, outsider: PublicKey, block1: Block, block2: Block, batch_probe: Vec<u8>, batch_digest: Digest, case: usize }

/// what a Byzantine authority 3 can put into a QC / TC: its own signature, garbage for the others, nothing at all
fn hostile_qc(rng: &mut StdRng, c: &Ctx) -> QC {
    match rng.gen_range(0, 5) {
        0 | 1 => QC::genesis(),
        2 => QC { hash: rand_digest(rng), round: gen_round(rng), votes: vec![] },
        3 => { let (h, r) = (c.block1.digest(), 1); let mut q = mk_qc(&c.keys, h, r, &[BYZ]); q.votes.push((c.keys[1].0, garbage_sig(rng))); q.votes.push((c.keys[2].0, garbage_sig(rng))); q }
        _ => { let r = gen_round(rng); let mut q = mk_qc(&c.keys, rand_digest(rng), r, &[BYZ, BYZ]); if rng.gen_bool(0.5) { q.votes.push((c.keys[ZERO].0, garbage_sig(rng))); } q }
    }
}
fn hostile_tc(rng: &mut StdRng, c: &Ctx) -> TC {
    let round = gen_round(rng);
    let mut votes = vec![];
    for _ in 0..rng.gen_range(0, 4) {
        let hqr = gen_round(rng);
        let who = *[BYZ, BYZ, 1, ZERO].choose(rng).unwrap();
        let sig = if who == BYZ { Signature::new(&timeout_digest(round, hqr), &c.keys[BYZ].1) } else { garbage_sig(rng) };
        votes.push((c.keys[who].0, sig, hqr));
    }
    TC { round, votes }
}
fn some_digest(rng: &mut StdRng, c: &Ctx) -> Digest {
    match rng.gen_range(0, 5) { 0 => c.block1.digest(), 1 => c.batch_digest.clone(), 2 => Digest::default(), _ => rand_digest(rng) }
}
fn hostile_cmsg(rng: &mut StdRng, c: &Ctx, variant: usize) -> ConsensusMessage {
    match variant % 5 {
        0 => { let qc = hostile_qc(rng, c); let tc = if rng.gen_bool(0.4) { Some(hostile_tc(rng, c)) } else { None };
               let payload = (0..rng.gen_range(0, 4)).map(|_| some_digest(rng, c)).collect();
               ConsensusMessage::Propose(mk_block(&c.keys, BYZ, gen_round(rng), qc, tc, payload)) }
        1 => { let (h, r) = (some_digest(rng, c), gen_round(rng));
               ConsensusMessage::Vote(Vote { hash: h.clone(), round: r, author: c.keys[BYZ].0, signature: Signature::new(&vote_digest(&h, r), &c.keys[BYZ].1) }) }
        2 => { let q = hostile_qc(rng, c); let r = gen_round(rng); let s = Signature::new(&timeout_digest(r, q.round), &c.keys[BYZ].1);
               ConsensusMessage::Timeout(Timeout { high_qc: q, round: r, author: c.keys[BYZ].0, signature: s }) }
        3 => ConsensusMessage::TC(hostile_tc(rng, c)),
        _ => ConsensusMessage::SyncRequest(rand_digest(rng), c.keys[*[2usize, BYZ, ZERO, 0].choose(rng).unwrap()].0),
    }
}
fn hostile_mmsg(rng: &mut StdRng, c: &Ctx, variant: usize) -> MempoolMessage {
    if variant % 2 == 0 {
        MempoolMessage::Batch((0..rng.gen_range(0, 5)).map(|_| { let n = match rng.gen_range(0, 4) { 0 => 0, 1 => rng.gen_range(0, 4), _ => rng.gen_range(0, 80) }; rand_bytes(rng, n) }).collect())
    } else {
        MempoolMessage::BatchRequest((0..rng.gen_range(0, 4)).map(|_| rand_digest(rng)).collect(), c.keys[*[2usize, BYZ, ZERO, 0].choose(rng).unwrap()].0)
    }
}
/// serialized hostile-but-well-formed message of the given component
fn base_bytes(rng: &mut StdRng, c: &Ctx, consensus: bool) -> (Vec<u8>, String) {
    let v = rng.gen_range(0, 10);
    if consensus { let m = hostile_cmsg(rng, c, v); (bincode::serialize(&m).unwrap(), cname(&m).into()) }
    else { let m = hostile_mmsg(rng, c, v); (bincode::serialize(&m).unwrap(), if v % 2 == 0 { "Batch".into() } else { "BatchRequest".into() }) }
}
fn cname(m: &ConsensusMessage) -> &'static str {
    match m { ConsensusMessage::Propose(_) => "Propose", ConsensusMessage::Vote(_) => "Vote", ConsensusMessage::Timeout(_) => "Timeout", ConsensusMessage::TC(_) => "TC", ConsensusMessage::SyncRequest(..) => "SyncRequest" }
}
/// a message that has at least one key slot
fn keyed_bytes(rng: &mut StdRng, c: &Ctx, consensus: bool) -> (Vec<u8>, String) {
    loop {
        let (b, n) = if consensus { base_bytes(rng, c, true) } else { let m = hostile_mmsg(rng, c, 1); (bincode::serialize(&m).unwrap(), "BatchRequest".to_string()) };
        if !key_slots(&b).is_empty() { return (b, n); }
    }
}

// ---- corrupted key strings (as in codec.rs)
fn b64_of_len(rng: &mut StdRng, n: usize) -> Vec<u8> { base64::encode(rand_bytes(rng, n)).into_bytes() }
fn short_key_string(rng: &mut StdRng) -> Vec<u8> {
    if rng.gen_range(0, 4) == 0 { return b"AA==".to_vec(); }
    let l = match rng.gen_range(0, 3) { 0 => *[0usize, 1, 2, 3, 30, 31].choose(rng).unwrap(), _ => rng.gen_range(0, 32) };
    b64_of_len(rng, l)
}
fn bad_key_string(rng: &mut StdRng) -> (&'static str, Vec<u8>) {
    let len = 32;
    let good = b64_of_len(rng, len);
    match rng.gen_range(0, 11) {
        0 => { let l = *[len + 1, len + 2, len + 3, 2 * len].choose(rng).unwrap(); ("long", b64_of_len(rng, l)) }
        1 => { let l = rng.gen_range(len + 1, len + 40); ("long", b64_of_len(rng, l)) }
        2 => { let mut s = good; let i = rng.gen_range(0, s.len()); s[i] = *b"!-_ \n.=\x7f\x00*".choose(rng).unwrap(); ("bad symbol", s) }
        3 => { let mut s = good; let i = rng.gen_range(0, s.len()); s[i] = rng.gen_range(128, 256) as u8; ("non-ascii", s) }
        4 => { let mut s = good; while s.last() == Some(&b'=') { s.pop(); } ("padding stripped", s) }
        5 => { let mut s = good; for _ in 0..rng.gen_range(1, 5) { s.push(b'='); } ("extra padding", s) }
        6 => { let mut s = good; let p = s.iter().position(|&c| c == b'=').unwrap_or(s.len());
               if p > 0 { let v = ALPHABET.iter().position(|&c| c == s[p - 1]).unwrap(); s[p - 1] = ALPHABET[(v | 1) % 64]; } ("trailing bits", s) }
        7 => { let n = rng.gen_range(0, 100); ("random alphabet", (0..n).map(|_| if rng.gen_range(0, 30) == 0 { b'=' } else { ALPHABET[rng.gen_range(0, 64)] }).collect()) }
        8 => { let mut s = good; let cut = rng.gen_range(0, s.len()); s.truncate(cut); ("cut", s) }
        9 => { let mut s = good; let i = rng.gen_range(0, s.len() + 1); s.insert(i, b'='); ("inner padding", s) }
        _ => ("short", short_key_string(rng)),
    }
}
/// offsets of bincode strings that look like an encoded public key: u64 length 44 followed by 44 base64 characters
fn key_slots(b: &[u8]) -> Vec<usize> {
    let pat = 44u64.to_le_bytes();
    (0..b.len().saturating_sub(51)).filter(|&i| b[i..i + 8] == pat && b[i + 8..i + 52].iter().all(|c| ALPHABET.contains(c) || *c == b'=')).collect()
}
fn replace_key(b: &[u8], at: usize, s: &[u8]) -> Vec<u8> {
    let mut nb = b[..at].to_vec(); nb.extend_from_slice(&(s.len() as u64).to_le_bytes()); nb.extend_from_slice(s); nb.extend_from_slice(&b[at + 52..]); nb
}
fn odd_length(rng: &mut StdRng, remaining: usize) -> u64 {
    match rng.gen_range(0, 10) {
        0 => 0, 1 => 1, 2 => u64::MAX, 3 => 1 << 63, 4 => remaining as u64, 5 => remaining as u64 + 1,
        6 => rng.gen_range(0, 8), 7 => rng.gen_range(40, 50), 8 => rng.gen(), _ => rng.gen_range(0, 300),
    }
}
fn enc_key(k: &PublicKey) -> Vec<u8> { bincode::serialize(k).unwrap() }

/// the real decoder of the port, in this process: 0 value, 1 error, 2 panic, 3 nothing decoded there
fn local_decode(port: Port, delivered: bool, bytes: &[u8]) -> u8 {
    if !delivered { return 3; }
    match port {
        Port::C => match catch_unwind(AssertUnwindSafe(|| bincode::deserialize::<ConsensusMessage>(bytes).is_ok())) { Ok(true) => 0, Ok(false) => 1, Err(_) => 2 },
        Port::M => match catch_unwind(AssertUnwindSafe(|| bincode::deserialize::<MempoolMessage>(bytes).is_ok())) { Ok(true) => 0, Ok(false) => 1, Err(_) => 2 },
        Port::T => 3,
    }
}

// ------------------------------------------------------------------------------------------ hostile input generators
fn frame(port: Port, gen: &'static str, label: String, fb: Fb) -> Item { Item { port, gen, label, wire: Wire::Frame(fb), attack: None, local: 3 } }
fn own_port(consensus: bool) -> Port { if consensus { Port::C } else { Port::M } }
fn any_port(rng: &mut StdRng) -> Port { *[Port::C, Port::M, Port::T].choose(rng).unwrap() }

/// inputs that are not meant to be one of the known attacks (the caller still checks them with the real decoder)
fn gen_generic(rng: &mut StdRng, c: &Ctx, giant_left: &mut usize, many_left: &mut usize) -> Item {
    loop {
        let kind = rng.gen_range(0, 15);
        let item = match kind {
            0 => { // random bytes, sometimes behind a valid enum tag
                let port = any_port(rng);
                let n = match rng.gen_range(0, 3) { 0 => rng.gen_range(0, 8), 1 => rng.gen_range(0, 60), _ => rng.gen_range(0, 600) };
                let mut b = rand_bytes(rng, n);
                let tagged = rng.gen_bool(0.5) && b.len() >= 4;
                if tagged { let t: u32 = rng.gen_range(0, 5); b[..4].copy_from_slice(&t.to_le_bytes()); }
                frame(port, "random", format!("{} random bytes{}", b.len(), if tagged { " behind a valid tag" } else { "" }), Fb::lit(b))
            }
            1 | 2 | 3 => { // truncated / bit-flipped / length-corrupted valid message of every variant, on its own port
                let cons = rng.gen_bool(0.65);
                let (mut b, name) = base_bytes(rng, c, cons);
                let what = match rng.gen_range(0, 7) {
                    0 => { let cut = rng.gen_range(0, b.len()); b.truncate(cut); "truncated" }
                    1 => { let i = rng.gen_range(0, b.len()); b[i] ^= 1 << rng.gen_range(0, 8); "bit flip" }
                    2 => { let slots = key_slots(&b);
                           let at = if slots.is_empty() || rng.gen_range(0, 4) == 0 { rng.gen_range(0, b.len().saturating_sub(8).max(1)) } else { *slots.choose(rng).unwrap() };
                           let v = odd_length(rng, b.len().saturating_sub(at + 8));
                           for (j, x) in v.to_le_bytes().iter().enumerate() { if at + j < b.len() { b[at + j] = *x; } } "length field" }
                    3 => { let tag = b[0]; let known = if !cons { Some(4) } else if tag == 0 || tag == 2 { Some(44) } else if tag == 3 { Some(12) } else { None };
                           let at = match known { Some(a) if a + 8 <= b.len() && rng.gen_bool(0.6) => a, _ => rng.gen_range(0, b.len().saturating_sub(8).max(1)) };
                           let v = odd_length(rng, b.len().saturating_sub(at + 8));
                           for (j, x) in v.to_le_bytes().iter().enumerate() { if at + j < b.len() { b[at + j] = *x; } } "vec count / u64 window" }
                    4 => { let t: u32 = match rng.gen_range(0, 4) { 0 => rng.gen_range(0, 8), 1 => rng.gen(), 2 => 5, _ => rng.gen_range(2, 5) };
                           for (j, x) in t.to_le_bytes().iter().enumerate() { if j < b.len() { b[j] = *x; } } "enum tag" }
                    5 => { let n = rng.gen_range(1, 40); let g = rand_bytes(rng, n); b.extend_from_slice(&g); "trailing garbage" }
                    _ => { let i = rng.gen_range(0, b.len()); let j = rng.gen_range(i, b.len().min(i + 16)); for x in &mut b[i..=j] { *x = rng.gen(); } "window randomised" }
                };
                frame(own_port(cons), "mutated", format!("{} {}", name, what), Fb::lit(b))
            }
            4 => { // the other component's message, and both on the transaction port
                let cons = rng.gen_bool(0.5);
                let (b, name) = base_bytes(rng, c, cons);
                let port = if rng.gen_range(0, 4) == 0 { Port::T } else { own_port(!cons) };
                frame(port, "cross-port", format!("{} sent to the {} port", name, port.name()), Fb::lit(b))
            }
            5 | 6 => { // key strings of wrong length / alphabet / padding in a key slot
                let cons = rng.gen_bool(0.7);
                let (b, name) = keyed_bytes(rng, c, cons);
                let slots = key_slots(&b);
                let si = rng.gen_range(0, slots.len());
                let (l, s) = bad_key_string(rng);
                frame(own_port(cons), "key-slot", format!("{} key slot {}/{}: {}", name, si + 1, slots.len(), l), Fb::lit(replace_key(&b, slots[si], &s)))
            }
            7 => { // sync requests for data of the other kind, for unknown data, from unknown / zero-stake / own origins
                   // (a consensus SyncRequest for a stored BATCH from a committee member is the known helper finding:
                   //  only `gen_cross_store` makes it; here the batch digest is only asked for by an outsider)
                let origin_i = rng.gen_range(0, 5);
                let (origin, oname) = match origin_i { 0 => (c.outsider, "unknown origin"), 1 => (c.keys[ZERO].0, "zero-stake origin"), 2 => (c.keys[0].0, "the node itself as origin"), 3 => (c.keys[2].0, "member 2"), _ => (c.keys[BYZ].0, "member 3") };
                if rng.gen_bool(0.5) {
                    let (d, dname) = match rng.gen_range(0, 3) { 0 => (rand_digest(rng), "unknown digest"), 1 => (c.block1.digest(), "stored block"),
                        _ => if origin_i == 0 { (c.batch_digest.clone(), "stored BATCH") } else { (Digest::default(), "zero digest") } };
                    frame(Port::C, "sync", format!("SyncRequest {} from {}", dname, oname), Fb::lit(bincode::serialize(&ConsensusMessage::SyncRequest(d, origin)).unwrap()))
                } else {
                    let ds: Vec<Digest> = (0..rng.gen_range(1, 4)).map(|_| match rng.gen_range(0, 3) { 0 => rand_digest(rng), 1 => c.block1.digest(), _ => c.batch_digest.clone() }).collect();
                    frame(Port::M, "sync", format!("BatchRequest of {} digests (unknown / stored BLOCK / stored batch) from {}", ds.len(), oname), Fb::lit(bincode::serialize(&MempoolMessage::BatchRequest(ds, origin)).unwrap()))
                }
            }
            8 => { // BatchRequest with more than a thousand digests (the model's cost is quadratic in the count)
                if *giant_left == 0 { continue; }
                *giant_left -= 1;
                let n = rng.gen_range(1000, 2500usize);
                let x: u8 = rng.gen();
                let origin = *[c.outsider, c.keys[2].0, c.keys[ZERO].0].choose(rng).unwrap();
                let mut head = 1u32.to_le_bytes().to_vec(); head.extend_from_slice(&(n as u64).to_le_bytes());
                frame(Port::M, "many-digests", format!("BatchRequest with {} digests", n), Fb { chunks: vec![Chunk::Lit(head), Chunk::Rep(32 * n, x), Chunk::Lit(enc_key(&origin))], fill: None })
            }
            9 => frame(any_port(rng), "zero-length", "zero-length frame".into(), Fb::lit(vec![])),
            10 => { // frames at and just above the 8 MiB limit of LengthDelimitedCodec
                if *giant_left == 0 { continue; }
                *giant_left -= 1;
                let over = rng.gen_bool(0.5);
                let total = if over { MAX_FRAME + 1 + rng.gen_range(0, 3) } else { MAX_FRAME - rng.gen_range(0, 2) };
                let port = any_port(rng);
                let (head, hname): (Vec<u8>, &str) = match port {
                    Port::C => if rng.gen_bool(0.5) { (bincode::serialize(&hostile_cmsg(rng, c, 1)).unwrap(), "a Vote followed by zeros") } else { (vec![9, 0, 0, 0], "tag 9 followed by zeros") },
                    Port::M => if rng.gen_bool(0.5) { (bincode::serialize(&MempoolMessage::BatchRequest(vec![], c.outsider)).unwrap(), "an empty BatchRequest followed by zeros") } else { (vec![7, 0, 0, 0], "tag 7 followed by zeros") },
                    // on the transaction port the frame is a transaction; a delivered one must stay clear of the limit
                    // by more than the 20 bytes of batch overhead (closer = `gen_tx_limit`)
                    Port::T => (vec![1u8; 16], "a transaction"),
                };
                let total = if port == Port::T && !over { MAX_FRAME - 64 - rng.gen_range(0, 64) } else { total };
                let n = total - head.len();
                frame(port, "frame-limit", format!("{} bytes ({}): {}", total, if over { "above the limit" } else { "at / just below the limit" }, hname),
                      Fb { chunks: vec![Chunk::Lit(head)], fill: Some((n, 0)) })
            }
            11 => { // well-signed (by authority 3) messages with absurd rounds, empty vote lists, ...
                let v = rng.gen_range(0, 4); let m = hostile_cmsg(rng, c, v);
                frame(Port::C, "absurd-valid", format!("{} signed by authority 3", cname(&m)), Fb::lit(bincode::serialize(&m).unwrap()))
            }
            12 => { // transactions: empty, tiny, large
                let n = match rng.gen_range(0, 4) { 0 => 0, 1 => rng.gen_range(1, 9), 2 => rng.gen_range(9, 300), _ => rng.gen_range(100_000, 1_500_000) };
                frame(Port::T, "tx", format!("transaction of {} bytes", n), Fb { chunks: vec![], fill: Some((n, rng.gen())) })
            }
            13 => { // many connections opened and dropped in mid-frame
                if *many_left == 0 { continue; }
                *many_left -= 1;
                let port = any_port(rng);
                let conns = rng.gen_range(5, 60);
                let announced: u32 = match rng.gen_range(0, 3) { 0 => rng.gen_range(1, 200), 1 => MAX_FRAME as u32, _ => rng.gen() };
                let have = rng.gen_range(0, (announced as usize).min(120));
                let mut raw = announced.to_be_bytes().to_vec();
                if rng.gen_range(0, 5) == 0 { raw.truncate(rng.gen_range(0, 4)); } else { let (b, _) = base_bytes(rng, c, port != Port::M); raw.extend(b.iter().cycle().take(have)); }
                Item { port, gen: "dropped", label: format!("{} connections dropped after {} bytes of a frame announced as {}", conns, raw.len(), announced), wire: Wire::Partial { conns, raw }, attack: None, local: 3 }
            }
            _ => { // a stored-size batch: one transaction of 150..250 kB (Rep chunk) plus small ones
                if *giant_left == 0 { continue; }
                *giant_left -= 1;
                let n = rng.gen_range(150_000, 250_000usize);
                let mut head = 0u32.to_le_bytes().to_vec(); head.extend_from_slice(&2u64.to_le_bytes()); head.extend_from_slice(&(n as u64).to_le_bytes());
                let mut tail = 3u64.to_le_bytes().to_vec(); tail.extend_from_slice(&[1, 2, 3]);
                frame(Port::M, "big-batch", format!("Batch with a {} byte transaction", n), Fb { chunks: vec![Chunk::Lit(head), Chunk::Rep(n, rng.gen()), Chunk::Lit(tail)], fill: None })
            }
        };
        return item;
    }
}
/// known finding 1: a key string that decodes to fewer than 32 bytes, in a key slot of any message
fn gen_short_key(rng: &mut StdRng, c: &Ctx) -> Item {
    let cons = rng.gen_bool(0.7);
    let (b, name) = keyed_bytes(rng, c, cons);
    let slots = key_slots(&b);
    let si = rng.gen_range(0, slots.len());
    let s = short_key_string(rng);
    let mut it = frame(own_port(cons), "short-key", format!("{} key slot {}/{}: \"{}\"", name, si + 1, slots.len(), String::from_utf8_lossy(&s)), Fb::lit(replace_key(&b, slots[si], &s)));
    it.attack = Some("short_key"); it
}
/// known finding 2: consensus SyncRequest, from a committee member, for a digest under which the shared store holds a batch
fn gen_cross_store(rng: &mut StdRng, c: &Ctx) -> Item {
    let o = *[2usize, BYZ, ZERO, 0].choose(rng).unwrap();
    let mut it = frame(Port::C, "cross-store", format!("SyncRequest for the stored BATCH from member {}", o), Fb::lit(bincode::serialize(&ConsensusMessage::SyncRequest(c.batch_digest.clone(), c.keys[o].0)).unwrap()));
    it.attack = Some("cross_store_sync"); it
}
/// a client transaction that fits a frame but whose one-transaction batch (20 bytes of overhead) does not
fn gen_tx_limit(rng: &mut StdRng) -> Item {
    let n = MAX_FRAME - rng.gen_range(0, 20);
    let mut it = frame(Port::T, "tx-limit", format!("transaction of {} bytes (8 MiB - {})", n, MAX_FRAME - n), Fb { chunks: vec![], fill: Some((n, rng.gen())) });
    it.attack = Some("tx_near_frame_limit"); it
}

fn gen_items(rng: &mut StdRng, c: &Ctx, theme: usize) -> Vec<Item> {
    let n = rng.gen_range(5, 31usize);
    let (mut giant, mut many) = (2usize, 2usize);
    let mut items: Vec<Item> = vec![];
    let mut attacks: Vec<Item> = vec![];
    if theme == 0 || theme == 4 { for _ in 0..rng.gen_range(1, 4) { attacks.push(gen_short_key(rng, c)); } }
    if theme == 1 || theme == 4 { for _ in 0..rng.gen_range(1, 3) { attacks.push(gen_cross_store(rng, c)); } }
    if theme == 5 { attacks.push(gen_tx_limit(rng)); }
    while items.len() + attacks.len() < n {
        let mut it = gen_generic(rng, c, &mut giant, &mut many);
        if let Wire::Frame(f) = &it.wire { it.local = local_decode(it.port, it.delivered(), &f.bytes()); }
        // "no attack" must be a fact about the tree under test: a frame the real decoder panics on is redrawn
        if it.local == 2 { continue; }
        items.push(it);
    }
    for mut a in attacks {
        if let Wire::Frame(f) = &a.wire { a.local = local_decode(a.port, a.delivered(), &f.bytes()); }
        let at = rng.gen_range(0, items.len() + 1);
        items.insert(at, a);
    }
    items
}

// ------------------------------------------------------------------------------------------ listeners (the peers)
#[derive(Clone)]
struct Obs { auth: usize, mem: bool, bytes: Vec<u8> }
static OBS: Mutex<Vec<Obs>> = Mutex::new(Vec::new());
fn obs_len() -> usize { OBS.lock().unwrap().len() }
async fn serve(l: TcpListener, auth: usize, mem: bool) {
    loop {
        let (s, _) = match l.accept().await { Ok(x) => x, Err(_) => continue };
        tokio::spawn(async move {
            let mut fr = Framed::new(s, LengthDelimitedCodec::builder().max_frame_length(64 * 1024 * 1024).new_codec());
            while let Some(Ok(f)) = fr.next().await {
                let keep = f.len().min(1 << 16);
                OBS.lock().unwrap().push(Obs { auth, mem, bytes: f[..keep].to_vec() });
                // like the real receivers: the mempool acknowledges everything, the consensus acknowledges proposals
                if mem || (f.len() >= 4 && f[..4] == [0, 0, 0, 0]) { if fr.send(Bytes::from("Ack")).await.is_err() { break; } }
            }
        });
    }
}
/// wait (polling the record, no fixed sleep) until an observation made at or after index `from` satisfies `pred`
async fn wait_obs<F: Fn(&Obs) -> bool>(from: usize, dur: Duration, pred: F) -> bool {
    let t0 = Instant::now();
    loop {
        { let o = OBS.lock().unwrap(); if o[from.min(o.len())..].iter().any(|x| pred(x)) { return true; } }
        if t0.elapsed() > dur { return false; }
        sleep(Duration::from_millis(2)).await;
    }
}

// ------------------------------------------------------------------------------------------ talking to the node
#[derive(Default, Clone)]
struct SendObs { connected: bool, ack: bool, closed: bool, reply_len: usize }
/// One connection: write `raw`, close the write half, read until the node closes (or `wait` elapses).
async fn send_raw(port: u16, raw: &[u8], wait: Duration) -> SendObs {
    let mut o = SendObs::default();
    let mut s = match timeout(Duration::from_secs(2), TcpStream::connect(("127.0.0.1", port))).await { Ok(Ok(s)) => s, _ => return o };
    o.connected = true;
    let _ = s.set_nodelay(true);
    // the node may close while a large frame is still being written (frame above the limit): write errors are expected
    let _ = timeout(Duration::from_secs(5), s.write_all(raw)).await;
    let _ = s.shutdown().await;
    let mut buf = vec![];
    match timeout(wait, s.read_to_end(&mut buf)).await { Ok(_) => o.closed = true, Err(_) => o.closed = false }
    o.reply_len = buf.len();
    o.ack = buf.windows(7).any(|w| w == b"\x00\x00\x00\x03Ack");
    o
}
fn framed(body: &[u8]) -> Vec<u8> { let mut v = (body.len() as u32).to_be_bytes().to_vec(); v.extend_from_slice(body); v }
async fn send_msg(port: u16, body: &[u8]) -> SendObs { send_raw(port, &framed(body), Duration::from_secs(3)).await }

struct Ports { base: u16 }
impl Ports {
    fn cons(&self, i: usize) -> u16 { self.base + i as u16 }
    fn tx(&self, i: usize) -> u16 { self.base + 10 + i as u16 }
    fn mem(&self, i: usize) -> u16 { self.base + 20 + i as u16 }
    fn of(&self, p: Port) -> u16 { match p { Port::C => self.cons(0), Port::M => self.mem(0), Port::T => self.tx(0) } }
}

// ---- the four probes. Each returns true iff the expected reaction was OBSERVED at a listener within PROBE_TIMEOUT.
/// a valid proposal is processed: the node's vote for it reaches the next leader, or a sync request for its parent goes out
async fn probe_proposal(p: &Ports, b: &Block) -> bool {
    let from = obs_len();
    let d = b.digest();
    send_msg(p.cons(0), &bincode::serialize(&ConsensusMessage::Propose(b.clone())).unwrap()).await;
    wait_obs(from, PROBE_TIMEOUT, |o| !o.mem && match bincode::deserialize::<ConsensusMessage>(&o.bytes) {
        Ok(ConsensusMessage::Vote(v)) => v.hash == d, Ok(ConsensusMessage::SyncRequest(h, _)) => h == *b.parent(), _ => false }).await
}
/// a block sync request from authority 1 for block 1 is answered with that block at authority 1's consensus port
async fn probe_block_sync(p: &Ports, c: &Ctx) -> bool {
    let from = obs_len();
    let d = c.block1.digest();
    send_msg(p.cons(0), &bincode::serialize(&ConsensusMessage::SyncRequest(d.clone(), c.keys[1].0)).unwrap()).await;
    wait_obs(from, PROBE_TIMEOUT, |o| !o.mem && o.auth == 1 && matches!(bincode::deserialize::<ConsensusMessage>(&o.bytes), Ok(ConsensusMessage::Propose(b)) if b.digest() == d)).await
}
/// a batch request from authority 1 for the probe batch is answered with that batch at authority 1's mempool port. The
/// request is repeated (as a real synchronizer does) because storing the batch is asynchronous w.r.t. its acknowledgement.
async fn probe_batch_sync(p: &Ports, c: &Ctx) -> bool {
    let t0 = Instant::now();
    let req = bincode::serialize(&MempoolMessage::BatchRequest(vec![c.batch_digest.clone()], c.keys[1].0)).unwrap();
    while t0.elapsed() < PROBE_TIMEOUT {
        let from = obs_len();
        send_msg(p.mem(0), &req).await;
        if wait_obs(from, Duration::from_millis(300), |o| o.mem && o.auth == 1 && o.bytes == c.batch_probe).await { return true; }
    }
    false
}
/// a client transaction is batched: a Batch containing it reaches the mempool port of some peer. (Not "of authority 1":
/// the QuorumWaiter drops the cancel handles as soon as a quorum has acknowledged, which cancels the copies that a
/// connection task has not written yet - delivery to one particular peer is best effort by design.)
async fn probe_tx(p: &Ports, c: &Ctx, tag: &str) -> bool {
    let from = obs_len();
    let mut tx = format!("WIRED-PROBE-TX-{}-{}-", c.case, tag).into_bytes(); tx.resize(96, 0x55);
    send_msg(p.tx(0), &tx).await;
    wait_obs(from, PROBE_TIMEOUT, |o| o.mem && matches!(bincode::deserialize::<MempoolMessage>(&o.bytes), Ok(MempoolMessage::Batch(txs)) if txs.iter().any(|t| *t == tx))).await
}

// ------------------------------------------------------------------------------------------ one case (child process)
fn make_ctx(rng: &mut StdRng, k: usize) -> Ctx {
    let keys = sorted_keys(rng, 5);
    let outsider = crypto::generate_keypair(rng).0;
    let block1 = mk_block(&keys, 1, 1, QC::genesis(), None, vec![]);
    let qc1 = mk_qc(&keys, block1.digest(), 1, &[1, 2, 3]);
    let block2 = mk_block(&keys, 2, 2, qc1, None, vec![]);
    let mut t1 = format!("WIRED-PROBE-BATCH-{}-", k).into_bytes(); t1.resize(40, 0x11);
    let batch_probe = bincode::serialize(&MempoolMessage::Batch(vec![t1, rand_bytes(rng, 24)])).unwrap();
    let batch_digest = sha(&batch_probe);
    Ctx { keys, outsider, block1, block2, batch_probe, batch_digest, case: k }
}

fn child(o: &Opts, k: usize) {
    let port_base: u16 = o.rest.iter().position(|a| a == "--port-base").map(|i| o.rest[i + 1].parse().unwrap()).unwrap_or(30_000);
    let ports = Ports { base: port_base + 40 * (k % 64) as u16 };
    install_hook(); // muted while PHASE == -2
    let mut rng = case_rng(o.seed, 15, k as u64);
    let ctx = make_ctx(&mut rng, k);
    // `--no-tx-limit`: theme 5 without its special transaction (= a third "no attack" theme)
    let theme = if k % 6 == 5 && o.rest.iter().any(|a| a == "--no-tx-limit") { 2 } else { k % 6 };
    let items = gen_items(&mut rng, &ctx, theme);
    let _ = log::set_logger(&FMT_LOG).map(|()| log::set_max_level(log::LevelFilter::Debug));
    PHASE.store(-1, Ordering::SeqCst);
    let db = format!("{}/db_wired_{}", o.out, k);
    let _ = std::fs::remove_dir_all(&db);
    let rt = tokio::runtime::Builder::new_multi_thread().worker_threads(3).enable_all().build().unwrap();
    let t0 = Instant::now();
    let out = rt.block_on(run_case(&ctx, &ports, items, &db, theme));
    let mut out = out;
    out["wall_ms"] = json!(t0.elapsed().as_millis() as u64);
    out["case"] = json!(k); out["theme"] = json!(theme); out["port_base"] = json!(ports.base);
    std::fs::write(format!("{}/wired_child_{}.json", o.out, k), serde_json::to_string(&out).unwrap()).unwrap();
    // tasks of the node are still running: leave without waiting for them
    std::process::exit(0);
}

async fn run_case(c: &Ctx, p: &Ports, items: Vec<Item>, db: &str, theme: usize) -> serde_json::Value {
    // listeners first (bound before the node exists, so nothing the node sends can be missed)
    for i in 1..5 {
        for mem in [false, true] {
            let port = if mem { p.mem(i) } else { p.cons(i) };
            match TcpListener::bind(("127.0.0.1", port)).await { Ok(l) => { tokio::spawn(serve(l, i, mem)); }
                Err(e) => return json!({"inconclusive": format!("cannot bind listener port {}: {}", port, e)}) }
        }
    }
    // the node under test: authority 0, fully wired
    let addr = |port: u16| -> std::net::SocketAddr { format!("127.0.0.1:{}", port).parse().unwrap() };
    let stake = |i: usize| if i == ZERO { 0 } else { 1 };
    let ccom = CCommittee::new(c.keys.iter().enumerate().map(|(i, (pk, _))| (*pk, stake(i), addr(p.cons(i)))).collect(), 1);
    let mcom = MCommittee::new(c.keys.iter().enumerate().map(|(i, (pk, _))| (*pk, stake(i), addr(p.tx(i)), addr(p.mem(i)))).collect(), 1);
    let store = match Store::new(db) { Ok(s) => s, Err(e) => return json!({"inconclusive": format!("store: {}", e)}) };
    let (tx_commit, mut rx_commit) = channel(1000);
    let (tx_c2m, rx_c2m) = channel(1000);
    let (tx_m2c, rx_m2c) = channel(1000);
    Mempool::spawn(c.keys[0].0, mcom, MParams { batch_size: 64, max_batch_delay: 20, sync_retry_delay: 60_000, ..MParams::default() }, store.clone(), rx_c2m, tx_m2c);
    Consensus::spawn(c.keys[0].0, ccom, CParams { timeout_delay: 60_000, sync_retry_delay: 60_000 }, SignatureService::new(clone_secret(&c.keys[0].1)), store.clone(), rx_m2c, tx_c2m, tx_commit);
    tokio::spawn(async move { while rx_commit.recv().await.is_some() {} });
    // wait until the three ports accept connections (event, not sleep)
    for port in [p.cons(0), p.mem(0), p.tx(0)] {
        let t0 = Instant::now();
        loop {
            if let Ok(s) = TcpStream::connect(("127.0.0.1", port)).await { drop(s); break; }
            if t0.elapsed() > Duration::from_secs(5) { return json!({"inconclusive": format!("node port {} does not accept connections; panics: {:?}", port, panics_snapshot())}); }
            sleep(Duration::from_millis(5)).await;
        }
    }

    // ---- (a) probes before. Order matters: block 1 must be stored before it can be asked for.
    let prop_b = probe_proposal(p, &c.block1).await;
    let bs_b = probe_block_sync(p, c).await;
    let ack_batch = send_msg(p.mem(0), &c.batch_probe).await.ack;
    let batch_b = ack_batch && probe_batch_sync(p, c).await;
    let tx_b = probe_tx(p, c, "before").await;
    let before = [bs_b, batch_b, tx_b, prop_b];
    let panics_before = panics_snapshot();
    if before.iter().any(|x| !x) || !panics_before.is_empty() {
        let seen: Vec<String> = OBS.lock().unwrap().iter().map(|o| format!("{}{}:{}B", if o.mem { "mem" } else { "cons" }, o.auth, o.bytes.len())).collect();
        return json!({"inconclusive": format!("probes before hostile input [block sync, batch sync, tx batched, proposal] = {:?}, panics = {:?}", before, panics_before),
                      "listeners_saw": seen, "log_sample": LOG_LINES.lock().unwrap().clone()});
    }

    // ---- (b) hostile inputs, one at a time
    let n = items.len();
    let mut frames_json = vec![];
    let (mut impl_dp, mut impl_ack) = (vec![], vec![]);
    for (i, it) in items.iter().enumerate() {
        PHASE.store(i as i64, Ordering::SeqCst);
        let (obs, len, head_hex) = match &it.wire {
            Wire::Frame(f) => { let b = f.bytes(); let o = send_msg(p.of(it.port), &b).await; (o, b.len(), hex(&b[..b.len().min(200)])) }
            Wire::Partial { conns, raw } => {
                // abrupt: no half-close, the sockets are simply dropped; then one synchronised empty connection on the same
                // port (accepted after them) and a short settle
                let mut socks = vec![];
                for _ in 0..*conns { if let Ok(mut s) = TcpStream::connect(("127.0.0.1", p.of(it.port))).await { let _ = s.write_all(raw).await; socks.push(s); } }
                let made = socks.len();
                drop(socks);
                let mut o = send_raw(p.of(it.port), &[], Duration::from_secs(3)).await;
                o.connected = made == *conns;
                (o, raw.len(), hex(&raw[..raw.len().min(200)]))
            }
        };
        // decode-site panics of this input are already recorded (see header); give downstream tasks a moment so that
        // their panics, if any, are attributed to this input rather than the next
        sleep(Duration::from_millis(25)).await;
        let mine: Vec<(String, String)> = panics_snapshot().into_iter().filter(|x| x.0 == i as i64).map(|x| (x.1, x.2)).collect();
        let dp = mine.iter().any(|x| is_decode_site(&x.0));
        impl_dp.push(dp as u8); impl_ack.push(obs.ack as u8);
        frames_json.push(json!({"i": i, "port": it.port.name(), "gen": it.gen, "what": it.label, "len": len, "hex": head_hex, "delivered": it.delivered(),
            "attack": it.attack, "real_decoder_in_isolation": LOCAL_NAMES[it.local as usize],
            "connected": obs.connected, "ack": obs.ack, "closed_by_node": obs.closed, "decode_panic": dp,
            "panics": mine.iter().map(|x| format!("{} ({})", x.0, x.1)).collect::<Vec<_>>() }));
    }
    // ---- settle: until no new panic has been recorded for 100 ms (at most 1 s), still attributed to the last input
    let t0 = Instant::now(); let mut last = (PANICS.lock().unwrap().len(), Instant::now());
    while t0.elapsed() < Duration::from_secs(1) && last.1.elapsed() < Duration::from_millis(100) {
        sleep(Duration::from_millis(10)).await;
        let l = PANICS.lock().unwrap().len(); if l != last.0 { last = (l, Instant::now()); }
    }

    // ---- (c) probes after
    PHASE.store(n as i64, Ordering::SeqCst);
    let bs_a = probe_block_sync(p, c).await;
    let batch_a = probe_batch_sync(p, c).await;
    let tx_a = probe_tx(p, c, "after").await;
    let prop_a = probe_proposal(p, &c.block2).await;
    sleep(Duration::from_millis(50)).await;
    let all_panics = panics_snapshot();
    let mut sites: Vec<String> = all_panics.iter().map(|x| x.1.clone()).collect(); sites.sort(); sites.dedup();
    let after = [all_panics.is_empty(), bs_a, batch_a, tx_a, prop_a];
    let coq_frames = coq_list(&items.iter().map(|it| it.coq()).collect::<Vec<_>>());
    let mut attacks: Vec<&str> = items.iter().filter_map(|it| it.attack).collect(); attacks.sort(); attacks.dedup();
    let mut gens = std::collections::BTreeMap::new();
    for it in &items { *gens.entry(format!("gen={} port={}", it.gen, it.port.name())).or_insert(0u64) += 1; }
    let key: Vec<u8> = { let mut h = sha2::Sha512::new(); for f in &frames_json { h.update(f["hex"].as_str().unwrap().as_bytes()); h.update(f["len"].to_string().as_bytes()); } h.finalize()[..16].to_vec() };
    json!({
        "theme_meaning": THEMES[theme],
        "attacks_injected": attacks,
        "before": before.iter().map(|&b| b as u8).collect::<Vec<_>>(),
        "after": after.iter().map(|&b| b as u8).collect::<Vec<_>>(),
        "after_meaning": ["no panic", "block sync", "batch sync", "tx batched", "proposal processed"],
        "impl_decode_panic": impl_dp, "impl_ack": impl_ack,
        "panics": all_panics.iter().map(|x| json!({"during": if x.0 < 0 { "before".to_string() } else if x.0 as usize >= n { "probes after".to_string() } else { format!("input {}", x.0) }, "site": x.1, "message": x.2})).collect::<Vec<_>>(),
        "panic_sites": sites,
        "frames": frames_json,
        "coq_frames": coq_frames,
        "gens": gens,
        "key": hex(&key),
        "log_warnings": LOG_WARN.load(Ordering::Relaxed), "log_errors": LOG_ERROR.load(Ordering::Relaxed),
        "log_sample": LOG_LINES.lock().unwrap().clone(),
    })
}

// ------------------------------------------------------------------------------------------ parent
fn run_child(exe: &std::path::Path, o: &Opts, k: usize) -> serde_json::Value {
    let path = format!("{}/wired_child_{}.json", o.out, k);
    let _ = std::fs::remove_file(&path);
    let mut args: Vec<String> = vec!["fuzz".into(), "--seed".into(), o.seed.to_string(), "--out".into(), o.out.clone(), "--only".into(), k.to_string(), "--child".into()];
    for a in &o.rest { if a != "--child" { args.push(a.clone()); } }
    let mut ch = match std::process::Command::new(exe).args(&args).stdout(std::process::Stdio::null()).stderr(std::process::Stdio::null()).spawn() {
        Ok(c) => c, Err(e) => return json!({"case": k, "inconclusive": format!("cannot start the child process: {}", e)}) };
    let t0 = Instant::now();
    let status = loop {
        match ch.try_wait() { Ok(Some(s)) => break Some(s), Ok(None) => (), Err(_) => break None }
        if t0.elapsed() > Duration::from_secs(90) { let _ = ch.kill(); let _ = ch.wait(); break None; }
        std::thread::sleep(Duration::from_millis(20));
    };
    let _ = std::fs::remove_dir_all(format!("{}/db_wired_{}", o.out, k));
    let r = std::fs::read_to_string(&path).ok().and_then(|s| serde_json::from_str::<serde_json::Value>(&s).ok());
    let _ = std::fs::remove_file(&path);
    match r { Some(v) => v, None => json!({"case": k, "inconclusive": format!("child produced no result (exit status {:?}, {} ms)", status, t0.elapsed().as_millis())}) }
}

fn fuzz(o: &Opts) {
    std::fs::create_dir_all(&o.out).unwrap();
    if o.rest.iter().any(|a| a == "--child") { child(o, o.only.expect("--child needs --only")); return; }
    let jobs: usize = o.rest.iter().position(|a| a == "--jobs").map(|i| o.rest[i + 1].parse().unwrap()).unwrap_or(12).max(1);
    let exact = o.rest.iter().any(|a| a == "--exact-len");
    let slice = o.rest.iter().any(|a| a == "--slice-len");
    let cx = if exact { "true" } else if slice { "false" } else { "g_pk_decode_exact" };
    let exe = std::env::current_exe().unwrap();
    let todo: Vec<usize> = (0..o.cases).filter(|k| o.only.map(|x| x == *k).unwrap_or(true)).collect();
    let next = std::sync::atomic::AtomicUsize::new(0);
    let results: Mutex<Vec<serde_json::Value>> = Mutex::new(vec![]);
    let t0 = Instant::now();
    std::thread::scope(|s| {
        for _ in 0..jobs.min(todo.len().max(1)) {
            s.spawn(|| loop {
                let i = next.fetch_add(1, Ordering::SeqCst);
                if i >= todo.len() { break; }
                let v = run_child(&exe, o, todo[i]);
                results.lock().unwrap().push(v);
            });
        }
    });
    let mut results = results.into_inner().unwrap();
    results.sort_by_key(|v| v["case"].as_u64().unwrap_or(0));
    let mut e = Emit::new("Guards Codec Base64Defs WireDefs CorrWired");
    let mut seen = std::collections::HashSet::new();
    let mut all_sites = std::collections::BTreeSet::new();
    for mut v in results {
        let k = v["case"].as_u64().unwrap_or(0) as usize;
        if let Some(m) = v.get("inconclusive").and_then(|m| m.as_str()) {
            e.stat("inconclusive", 1);
            eprintln!("case {}: inconclusive ({})", k, m);
            e.cases.push(v);
            continue;
        }
        let frames = v["coq_frames"].as_str().unwrap().to_string();
        v.as_object_mut().unwrap().remove("coq_frames");
        let nl = |x: &serde_json::Value| coq_nlist(x.as_array().unwrap().iter().map(|y| y.as_u64().unwrap() as u128));
        let defs = format!("Definition frames : list wframe := {}.\n", frames);
        let verdict = format!("wired_case {} frames {} {} {} {}", cx, nl(&v["impl_decode_panic"]), nl(&v["impl_ack"]), nl(&v["after"]), nl(&v["before"]));
        let nframes = v["frames"].as_array().unwrap().len();
        if nframes >= 5 && seen.insert(v["key"].as_str().unwrap().to_string()) { e.stat("distinct_nontrivial", 1); }
        e.stat("cases emitted", 1);
        e.stat("hostile inputs", nframes as u64);
        e.stat(&format!("theme: {}", v["theme_meaning"].as_str().unwrap()), 1);
        for (g, n) in v["gens"].as_object().unwrap() { e.stat(g, n.as_u64().unwrap()); }
        for f in v["frames"].as_array().unwrap() {
            e.stat(&format!("real decoder in isolation: {}", f["real_decoder_in_isolation"].as_str().unwrap()), 1);
            if f["ack"].as_bool().unwrap() { e.stat("inputs acknowledged", 1); }
            if !f["closed_by_node"].as_bool().unwrap() { e.stat("inputs whose connection the node did not close within 3 s", 1); }
            if f["decode_panic"].as_bool().unwrap() { e.stat("inputs with a decode-site panic", 1); }
        }
        let after: Vec<u64> = v["after"].as_array().unwrap().iter().map(|x| x.as_u64().unwrap()).collect();
        for (i, name) in ["no panic", "block sync", "batch sync", "tx batched", "proposal processed"].iter().enumerate() { if after[i] == 0 { e.stat(&format!("monitor violated: {} (after)", name), 1); } }
        if after.iter().all(|&x| x == 1) { e.stat("cases with every monitor satisfied", 1); }
        for s in v["panic_sites"].as_array().unwrap() { all_sites.insert(s.as_str().unwrap().to_string()); e.stat(&format!("cases with a panic at {}", s.as_str().unwrap()), 1); }
        e.stat("max child wall_ms", 0);
        let w = v["wall_ms"].as_u64().unwrap_or(0);
        if w > *e.stats.get("max child wall_ms").unwrap() { e.stats.insert("max child wall_ms".into(), w); }
        e.case(k, &defs, &verdict, v);
    }
    e.stat("inconclusive", 0);
    e.stat("wall_ms", t0.elapsed().as_millis() as u64);
    eprintln!("wired fuzz: {} cases in {} ms; panic sites seen: {:?}", todo.len(), t0.elapsed().as_millis(), all_sites);
    e.finish(&o.out, "wired", o.seed);
}

fn main() {
    let o = opts();
    match o.mode.as_str() {
        "fuzz" => fuzz(&o),
        m => { eprintln!("unknown mode {} (fuzz [--jobs J] [--port-base P] [--no-tx-limit] [--exact-len | --slice-len])", m); std::process::exit(2); }
    }
}
