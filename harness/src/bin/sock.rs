// Socket-mode correspondence. Mode `reliable` (property C14): the REAL `network::ReliableSender` talks over loopback
// TCP to a scripted peer implemented here (tokio + LengthDelimitedCodec, the real framing). The in-process tap
// (`network::verif::tap_start`) is deliberately NOT started in this binary: it would short-circuit the sockets.
//
// One case = one sender, one peer address (port derived from the case number), one seeded script. The script is a
// sequence of "rounds", one per TCP connection the peer accepts:
//
//   down phase   (only while the peer is not listening, so the sender cannot connect): hand messages to the sender,
//                drop handles, optionally stay down long enough for a second connect attempt to fail; then bind.
//   accept       wait for the sender's connection.
//   full round   read every frame the sender owes (one per handle still held), then a random mix of
//                {send a message and read its frame, drop a handle, reply to the oldest unanswered frame and wait for
//                the handle to resolve}; end with one of {close, reply-and-close-at-once, a reply nobody asked for
//                (the sender must hang up)}, each with the listener kept (the sender reconnects at once) or dropped
//                first (its connects fail, back-off).
//   early-close  read only r of the owed frames (r < owed), reply to j <= r of them, close. The unread frames are
//   round        lost in the socket buffers or make the sender's writes fail, whichever the kernel decides.
//   last round   always full; every unanswered frame is answered, so every handle still held must resolve.
//
// Every wait is on an observable event (accept, frame arrival, handle resolution, end of stream) with a generous
// timeout; a timeout makes the case `inconclusive` (counted, never reported as a disagreement). Anything else that is
// unexpected (end of stream while a frame is awaited, a handle that fails) stops the script and the case is emitted
// with what was seen, so that the comparison shows the difference.
//
// HOW THE MODEL'S EVENT LIST IS DERIVED FROM THE OBSERVATION (model: /verif/coq/ReliableDefs.v)
//   send returned for message i ............ ENew None   (i = hand-over index = model id; ids are what the frames carry)
//   handle j dropped ....................... ECancel j
//   peer bound after being down ............ EConnFail   (at least one connect was refused; the model ignores the event,
//                                                         the number of refused connects is a matter of timing)
//   accept, full round ..................... EConnOk None; the peer received exactly the owed frames: `exact` comparison
//   accept, early close, no reply sent ..... EConnOk (Some r), r = number of frames the peer took before closing:
//                                            "the write of frame r failed" is INFERRED from what the peer received. In
//                                            the real sender those writes may well have succeeded into the socket
//                                            buffer and the failure surfaced later as a read error; both leave the
//                                            sender with the same messages owed (pending goes back in front of the
//                                            buffer), and the model speaks about frames RECEIVED by the peer. That the
//                                            two readings are indistinguishable from then on is a theorem
//                                            (Reliable.v, `c14_lost_write`: equivalent states, same resolutions, frames
//                                            of one a prefix of the other's, identical output for every continuation).
//   accept, early close, j>0 replies sent .. EConnOk None (the replies were consumed by the sender, so its send loop had
//                                            not failed), and the frames the peer took are compared as a PREFIX of the
//                                            frames the model wrote (`exact` = false).
//   reply sent ............................. EAck None (also for the unrequested reply: the model then goes down)
//   peer closed the connection ............. EReadErr  (a no-op in the model if the connection is already down)
// Ordering: the harness is sequential and only acts on the sender (send/drop) either while the sender cannot be in a
// send loop (peer not listening / all owed frames already received) or with a sync on the frame right after, so the
// order of the derived events is the order in which the real sender took them, up to commuting independent events.
// Between a close with the listener kept and the next accept the harness does nothing, because the sender reconnects
// at once and a send or drop there would race with its send loop. A message handed over just after the peer closed may
// still be written by the sender into the dead socket before it notices the end of stream; the peer never receives it
// and the event derived is ENew on a connection that is down: again the lost-write equivalence.
//
// Output: cases_reliable.v (one `reliable_case ...` per conclusive case, see /verif/coq/CorrReliable.v for the verdict
// layout) and meta_reliable.json (script, observations, statistics; the sender's own warnings are counted to show
// which of its error paths were taken). Options: `--port-base P` (default 20000; the port of case k is P + k).
use bytes::Bytes;
use futures::{FutureExt, SinkExt, StreamExt};
use hsverif::*;
use network::{CancelHandler, ReliableSender};
use rand::rngs::StdRng;
use rand::Rng;
use serde_json::json;
use std::future::Future;
use std::net::SocketAddr;
use std::pin::Pin;
use std::sync::atomic::{AtomicU64, Ordering};
use std::task::Poll;
use tokio::net::{TcpListener, TcpStream};
use tokio::time::{sleep, timeout, Duration};
use tokio_util::codec::{Framed, LengthDelimitedCodec};

const T_SYNC: Duration = Duration::from_secs(8);
const T_GRACE: Duration = Duration::from_millis(15);

#[derive(Clone, Copy, PartialEq)]
enum St { Held, Dropped, Resolved }
enum Stop { Inconclusive(String), Abort(String) }
type R<T> = Result<T, Stop>;

struct H {
    addr: SocketAddr,
    sender: ReliableSender,
    handles: Vec<Option<CancelHandler>>,
    st: Vec<St>,
    huge: Vec<bool>,         // message i has a 7 MB payload
    listener: Option<TcpListener>,
    conn: Option<Framed<TcpStream, LengthDelimitedCodec>>,
    frames: Vec<Vec<u32>>,   // per accepted connection: payload ids received
    exact: Vec<bool>,
    replied: usize,          // replies sent on the current connection
    events: Vec<String>,     // Coq `ev` terms
    tl: Vec<(u8, u32, u32)>, // observation time line
    res: Vec<(u32, (u32, u32, u32))>,
    script: Vec<String>,     // human-readable replay
    spawned: bool,
    n_unexpected: u64, n_failwrite: u64, n_early: u64, n_longdown: u64, n_replyclose: u64, n_huge: u64, n_flood: u64, flood: bool,
}

fn be(x: u32) -> [u8; 4] { x.to_be_bytes() }
fn rd(b: &[u8], i: usize) -> u32 { if b.len() >= 4 * i + 4 { u32::from_be_bytes([b[4 * i], b[4 * i + 1], b[4 * i + 2], b[4 * i + 3]]) } else { u32::MAX } }

impl H {
    fn held(&self) -> Vec<usize> { (0..self.st.len()).filter(|&i| self.st[i] == St::Held).collect() }
    fn cur(&self) -> usize { self.frames.len() - 1 }

    async fn send(&mut self, rng: &mut StdRng) -> R<()> { self.send_sized(rng, false).await }
    async fn send_sized(&mut self, rng: &mut StdRng, small: bool) -> R<()> {
        let id = self.handles.len() as u32;
        let mut p = be(id).to_vec();
        // Sizes: mostly tiny; some tens of kB; a few of 7 MB (the codec's limit is 8 MB). Two unread 7 MB frames exceed
        // what loopback socket buffers hold, so in an early-close round the real sender is then blocked inside
        // `writer.send` when the peer closes and takes its genuine write-error path (push_front, break).
        let x = if small { 50 } else { rng.gen_range(0, 100) };
        self.huge.push(x < 4);
        if x < 4 { p.resize(7_000_000, id as u8); self.n_huge += 1; }
        else { let pad = if x < 14 { rng.gen_range(1000, 40_000) } else { rng.gen_range(0, 64) }; p.extend((0..pad).map(|_| rng.gen::<u8>())); }
        let h = self.sender.send(self.addr, Bytes::from(p)).await;
        self.handles.push(Some(h)); self.st.push(St::Held); self.spawned = true;
        self.tl.push((1, id, 0)); self.events.push("ENew None".into()); self.script.push(format!("send {}", id));
        if self.conn.is_some() { self.read_frames(1).await?; }
        Ok(())
    }
    fn drop_handle(&mut self, j: usize) {
        self.handles[j] = None; self.st[j] = St::Dropped;
        self.tl.push((2, j as u32, 0)); self.events.push(format!("ECancel {}", j)); self.script.push(format!("drop {}", j));
    }
    async fn bind(&mut self) -> R<()> {
        match TcpListener::bind(self.addr).await {
            Ok(l) => { self.listener = Some(l); self.script.push("bind".into()); Ok(()) }
            Err(e) => Err(Stop::Inconclusive(format!("bind {}: {}", self.addr, e))),
        }
    }
    async fn accept(&mut self) -> R<()> {
        match timeout(T_SYNC, self.listener.as_ref().unwrap().accept()).await {
            Ok(Ok((sock, _))) => {
                self.conn = Some(Framed::new(sock, LengthDelimitedCodec::new()));
                self.frames.push(vec![]); self.exact.push(true); self.replied = 0;
                self.script.push(format!("accept -> connection {}", self.frames.len()));
                Ok(())
            }
            Ok(Err(e)) => Err(Stop::Inconclusive(format!("accept: {}", e))),
            Err(_) => Err(Stop::Inconclusive("timeout waiting for the sender to connect".into())),
        }
    }
    fn record_frame(&mut self, b: &[u8]) {
        let id = rd(b, 0); let c = self.cur();
        self.frames[c].push(id); self.tl.push((3, c as u32 + 1, id));
    }
    async fn read_frames(&mut self, n: usize) -> R<()> { self.read_frames_owed(n, &[]).await }
    /// `owed`: the ids the sender owes on this connection, in hand-over order (checked frame by frame when given: a frame
    /// with another id ends the script at once - the case is emitted with what was seen - instead of waiting for
    /// frames that will never come, which would only look like a time-out).
    async fn read_frames_owed(&mut self, n: usize, owed: &[usize]) -> R<()> {
        for i in 0..n {
            match timeout(T_SYNC, self.conn.as_mut().unwrap().next()).await {
                Err(_) => return Err(Stop::Inconclusive("timeout waiting for a frame".into())),
                Ok(Some(Ok(b))) => {
                    self.record_frame(&b);
                    if let Some(&exp) = owed.get(i) { let got = rd(&b, 0); if got != exp as u32 {
                        return Err(Stop::Abort(format!("frame with id {} received where id {} was owed (frame {} of {} on this connection)", got, exp, i, n))); } }
                }
                Ok(_) => return Err(Stop::Abort("end of stream while a frame was expected".into())),
            }
        }
        Ok(())
    }
    /// Look briefly for frames nobody expects (they are recorded, and will show as a disagreement).
    async fn grace(&mut self) -> R<()> {
        loop {
            match timeout(T_GRACE, self.conn.as_mut().unwrap().next()).await {
                Err(_) => return Ok(()),
                Ok(Some(Ok(b))) => { self.record_frame(&b); self.script.push("unexpected extra frame".into()); }
                Ok(_) => return Err(Stop::Abort("the sender closed a connection it should have kept".into())),
            }
        }
    }
    async fn wait_resolution(&mut self) -> R<()> {
        let hs = &mut self.handles;
        let r = timeout(T_SYNC, futures::future::poll_fn(|cx| {
            for (i, h) in hs.iter_mut().enumerate() {
                if let Some(rx) = h { if let Poll::Ready(r) = Pin::new(rx).poll(cx) { *h = None; return Poll::Ready((i, r)); } }
            }
            Poll::Pending
        })).await;
        match r {
            Err(_) => Err(Stop::Inconclusive("timeout waiting for a handle to resolve".into())),
            Ok((i, Ok(b))) => {
                let t = if b.len() == 12 { (rd(&b, 0), rd(&b, 1), rd(&b, 2)) } else { (0, 0, u32::MAX) };
                self.res.push((i as u32, t)); self.tl.push((4, i as u32, 0)); self.st[i] = St::Resolved;
                Ok(())
            }
            Ok((i, Err(_))) => { self.st[i] = St::Resolved; Err(Stop::Abort(format!("handle {} failed without a reply", i))) }
        }
    }
    /// Reply to the oldest unanswered frame of this connection with bytes naming (connection, index, payload id).
    async fn reply(&mut self, sync: bool) -> R<Option<usize>> {
        let c = self.cur(); let t = self.replied; let x = self.frames[c][t];
        let mut b = be(c as u32 + 1).to_vec(); b.extend(&be(t as u32)); b.extend(&be(x));
        if self.conn.as_mut().unwrap().send(Bytes::from(b)).await.is_err() { return Err(Stop::Abort("reply could not be written".into())); }
        self.replied += 1; self.events.push("EAck None".into()); self.script.push(format!("reply to frame {} (id {})", t, x));
        let waits = (x as usize) < self.st.len() && self.st[x as usize] == St::Held;
        if waits && sync { self.wait_resolution().await?; }
        Ok(if waits && !sync { Some(x as usize) } else { None })
    }
    fn close(&mut self) { self.conn = None; self.events.push("EReadErr".into()); self.script.push("close".into()); }
    async fn unexpected_reply(&mut self) -> R<()> {
        let c = self.cur();
        let mut b = be(c as u32 + 1).to_vec(); b.extend(&be(self.replied as u32)); b.extend(&be(u32::MAX));
        if self.conn.as_mut().unwrap().send(Bytes::from(b)).await.is_err() { return Err(Stop::Abort("reply could not be written".into())); }
        self.events.push("EAck None".into()); self.script.push("unrequested reply, wait for the sender to hang up".into());
        self.n_unexpected += 1;
        loop {
            match timeout(T_SYNC, self.conn.as_mut().unwrap().next()).await {
                Err(_) => return Err(Stop::Inconclusive("timeout waiting for the sender to hang up".into())),
                Ok(Some(Ok(b))) => { self.record_frame(&b); self.script.push("unexpected extra frame".into()); }
                Ok(_) => break,
            }
        }
        self.conn = None;
        Ok(())
    }
    /// Handles that resolved although nobody replied to them (recorded; they will show as a disagreement).
    fn stray_resolutions(&mut self) {
        for i in 0..self.handles.len() {
            if let Some(rx) = self.handles[i].as_mut() {
                if let Some(r) = rx.now_or_never() {
                    self.handles[i] = None; self.st[i] = St::Resolved;
                    let t = match r { Ok(b) if b.len() == 12 => (rd(&b, 0), rd(&b, 1), rd(&b, 2)), _ => (0, 0, u32::MAX) };
                    self.res.push((i as u32, t)); self.tl.push((4, i as u32, 0));
                }
            }
        }
    }
}

async fn script(h: &mut H, rng: &mut StdRng) -> R<()> {
    let rounds = rng.gen_range(2, 5);
    for round in 0..rounds {
        let last = round + 1 == rounds;
        if h.listener.is_none() {
            if round == 0 && rng.gen_bool(0.25) {
                // the peer listens before the first message: the sender connects as soon as it is spawned
                h.bind().await?;
                h.send(rng).await?;
            } else {
                if round == 0 { h.send(rng).await?; }
                for _ in 0..rng.gen_range(0, 6) {
                    let held = h.held();
                    if held.is_empty() || rng.gen_bool(0.65) { h.send(rng).await?; } else { let j = held[rng.gen_range(0, held.len())]; h.drop_handle(j); }
                }
                if h.flood && h.n_flood == 0 {
                    // flood: many small messages while the peer is unreachable, every handle kept: all of them are owed, in order
                    let n = [700usize, 1500, 3000][rng.gen_range(0, 3)];
                    for _ in 0..n { h.send_sized(rng, true).await?; }
                    h.script.push(format!("flood: {} more messages while the peer is down", n)); h.n_flood += 1;
                }
                if rng.gen_bool(0.15) { sleep(Duration::from_millis(250)).await; h.script.push("stay down 250 ms".into()); h.n_longdown += 1; }
                h.events.push("EConnFail".into());
                h.bind().await?;
            }
        }
        h.accept().await?;
        let live = h.held().len();
        let early = !last && live >= 1 && live < 500 && rng.gen_bool(0.3);
        if early {
            let r = rng.gen_range(0, live);
            h.read_frames(r).await?;
            h.n_early += 1;
            // No reply in this round if a 7 MB frame is among those left unread: the real sender is then blocked inside
            // `writer.send` (flow control) and does not look at replies until the write ends, i.e. until the close.
            let blocked = h.held()[r..].iter().any(|&i| h.huge[i]);
            let j = if r > 0 && !blocked && rng.gen_bool(0.5) { rng.gen_range(1, r + 1) } else { 0 };
            h.script.push(format!("early close after {} of {} frames, {} replies", r, live, j));
            if j == 0 { h.events.push(format!("EConnOk (Some {}%nat)", r)); h.n_failwrite += 1; }
            else { let c = h.cur(); h.exact[c] = false; h.events.push("EConnOk None".into()); for _ in 0..j { h.reply(true).await?; } }
            if !rng.gen_bool(0.4) { h.listener = None; h.script.push("stop listening".into()); }
            h.close();
        } else {
            h.events.push("EConnOk None".into());
            let owed = h.held();
            h.read_frames_owed(live, &owed).await?;
            for _ in 0..rng.gen_range(0, 7) {
                let held = h.held();
                let x = rng.gen_range(0, 10);
                if x < 4 { h.send(rng).await?; }
                else if x < 6 { if !held.is_empty() { let j = held[rng.gen_range(0, held.len())]; h.drop_handle(j); } }
                else if h.replied < h.frames[h.cur()].len() { h.reply(true).await?; }
            }
            if last {
                while h.replied < h.frames[h.cur()].len() { h.reply(true).await?; }
                h.grace().await?;
                return Ok(());
            }
            h.grace().await?;
            let keep = rng.gen_bool(0.4);
            if !keep { h.listener = None; h.script.push("stop listening".into()); }
            let all_answered = h.replied == h.frames[h.cur()].len();
            if all_answered && rng.gen_bool(0.4) { h.unexpected_reply().await?; }
            else if !all_answered && rng.gen_bool(0.35) {
                // a reply immediately followed by the close: the reply precedes the end of stream on the wire
                h.n_replyclose += 1;
                let pending = h.reply(false).await?;
                h.close();
                if pending.is_some() { h.wait_resolution().await?; }
            } else { h.close(); }
        }
    }
    Ok(())
}

struct CaseOut { k: usize, inconclusive: Option<String>, verdict: String, replay: serde_json::Value, stats: Vec<(String, u64)>, key: String, nontrivial: bool }

async fn reliable_case(seed: u64, k: usize, port_base: u16) -> CaseOut {
    let mut rng = case_rng(seed, 14, k as u64);
    let port = port_base + (k % 20_000) as u16;
    let addr: SocketAddr = format!("127.0.0.1:{}", port).parse().unwrap();
    let mut h = H { addr, sender: ReliableSender::new(), handles: vec![], st: vec![], huge: vec![], listener: None, conn: None, frames: vec![], exact: vec![],
                    replied: 0, events: vec![], tl: vec![], res: vec![], script: vec![], spawned: false,
                    n_unexpected: 0, n_failwrite: 0, n_early: 0, n_longdown: 0, n_replyclose: 0, n_huge: 0, n_flood: 0, flood: k % 10 == 3 };
    let t0 = std::time::Instant::now();
    let outcome = script(&mut h, &mut rng).await;
    h.stray_resolutions();
    let (complete, note) = match &outcome { Ok(()) => (true, String::new()), Err(Stop::Abort(m)) => (false, m.clone()), Err(Stop::Inconclusive(m)) => (false, m.clone()) };
    let inconclusive = if let Err(Stop::Inconclusive(m)) = &outcome { Some(m.clone()) } else { None };
    let obs: Vec<String> = h.frames.iter().zip(&h.exact).map(|(f, &e)| format!("({}, {})", e, coq_nlist(f.iter().map(|&x| x as u128)))).collect();
    let res: Vec<String> = h.res.iter().map(|(i, (c, t, p))| format!("({}, ({}, {}, {}))", i, c, t, p)).collect();
    let tl: Vec<String> = h.tl.iter().map(|(a, b, c)| format!("({}, {}, {})", a, b, c)).collect();
    let dropped: Vec<u128> = (0..h.st.len()).filter(|&i| h.st[i] == St::Dropped).map(|i| i as u128).collect();
    let verdict = format!("reliable_case {} {} {} {} {} {} {}", coq_list(&h.events), coq_list(&obs), coq_list(&res), coq_list(&tl), h.st.len(), coq_nlist(dropped.clone()), complete);
    let total_frames: usize = h.frames.iter().map(|f| f.len()).sum();
    let mut distinct: Vec<u32> = h.frames.iter().flatten().cloned().collect(); distinct.sort(); distinct.dedup();
    let retrans = total_frames - distinct.len();
    let stats = vec![
        ("connections".to_string(), h.frames.len() as u64), ("messages".to_string(), h.st.len() as u64), ("handles dropped".to_string(), dropped.len() as u64),
        ("frames received".to_string(), total_frames as u64), ("retransmitted frames".to_string(), retrans as u64), ("resolutions".to_string(), h.res.len() as u64),
        ("early-close connections".to_string(), h.n_early), ("inferred failed writes (EConnOk (Some r))".to_string(), h.n_failwrite),
        ("unrequested replies".to_string(), h.n_unexpected), ("long down periods".to_string(), h.n_longdown), ("reply-then-close".to_string(), h.n_replyclose), ("7 MB messages".to_string(), h.n_huge), ("floods (700..3000 messages while the peer is down)".to_string(), h.n_flood),
        ("aborted scripts".to_string(), if matches!(outcome, Err(Stop::Abort(_))) { 1 } else { 0 }),
    ];
    let replay = json!({"case": k, "port": port, "script": h.script, "events": h.events, "frames": h.frames, "exact": h.exact, "resolutions": h.res,
                        "complete": complete, "note": note, "inconclusive": inconclusive.is_some(), "ms": t0.elapsed().as_millis() as u64});
    CaseOut { k, inconclusive, verdict, replay, stats, key: h.events.join(";"), nontrivial: h.frames.len() >= 2 && retrans >= 1 }
}

// The sender's own log lines are counted (statistics only, never compared): they tell which of its error paths the
// scripts actually drove it through (write error, read error / end of stream, unrequested reply, refused connect).
static LOG_SEND: AtomicU64 = AtomicU64::new(0);
static LOG_RECV: AtomicU64 = AtomicU64::new(0);
static LOG_UNEXP: AtomicU64 = AtomicU64::new(0);
static LOG_CONN: AtomicU64 = AtomicU64::new(0);
struct CountLog;
impl log::Log for CountLog {
    fn enabled(&self, m: &log::Metadata) -> bool { m.level() <= log::Level::Warn }
    fn log(&self, r: &log::Record) {
        if !self.enabled(r.metadata()) { return; }
        let s = format!("{}", r.args());
        if s.starts_with("Failed to send message") { LOG_SEND.fetch_add(1, Ordering::Relaxed); }
        else if s.starts_with("Failed to receive ACK") { LOG_RECV.fetch_add(1, Ordering::Relaxed); }
        else if s.starts_with("Receive unexpected ACK") { LOG_UNEXP.fetch_add(1, Ordering::Relaxed); }
        else if s.starts_with("Failed to connect") { LOG_CONN.fetch_add(1, Ordering::Relaxed); }
    }
    fn flush(&self) {}
}
static COUNT_LOG: CountLog = CountLog;

fn reliable(o: &Opts) {
    let _ = log::set_logger(&COUNT_LOG).map(|()| log::set_max_level(log::LevelFilter::Warn));
    let port_base: u16 = o.rest.iter().position(|a| a == "--port-base").map(|i| o.rest[i + 1].parse().unwrap()).unwrap_or(20_000);
    let rt = tokio::runtime::Builder::new_multi_thread().worker_threads(4).enable_all().build().unwrap();
    let t0 = std::time::Instant::now();
    let mut outs: Vec<CaseOut> = rt.block_on(async {
        let mut js = vec![];
        for k in 0..o.cases {
            if let Some(only) = o.only { if only != k { continue; } }
            let seed = o.seed;
            js.push(tokio::spawn(async move { reliable_case(seed, k, port_base).await }));
        }
        let mut v = vec![];
        for j in js { v.push(j.await.expect("case task panicked")); }
        v
    });
    outs.sort_by_key(|c| c.k);
    let mut e = Emit::new("ReliableDefs CorrReliable");
    let mut seen = std::collections::HashSet::new();
    for c in outs {
        for (s, n) in &c.stats { e.stat(s, *n); }
        if let Some(m) = &c.inconclusive {
            e.stat("inconclusive", 1);
            eprintln!("case {}: inconclusive ({})", c.k, m);
            e.cases.push(c.replay);
            continue;
        }
        if c.nontrivial && seen.insert(c.key.clone()) { e.stat("distinct_nontrivial", 1); }
        e.stat("cases emitted", 1);
        e.case(c.k, "", &c.verdict, c.replay);
    }
    e.stat("wall_ms", t0.elapsed().as_millis() as u64);
    e.stat("inconclusive", 0);
    e.stat("sender log: write errors (FailedToSendMessage)", LOG_SEND.load(Ordering::Relaxed));
    e.stat("sender log: read errors (FailedToReceiveAck)", LOG_RECV.load(Ordering::Relaxed));
    e.stat("sender log: UnexpectedAck", LOG_UNEXP.load(Ordering::Relaxed));
    e.stat("sender log: refused connects (FailedToConnect)", LOG_CONN.load(Ordering::Relaxed));
    e.finish(&o.out, "reliable", o.seed);
}

fn main() {
    let o = opts();
    match o.mode.as_str() {
        "reliable" => reliable(&o),
        m => { eprintln!("unknown mode {}", m); std::process::exit(2); }
    }
}
