// Codec correspondence (C20, C18 encodings, decoding half of C15): runs the REAL serialisers / deserialisers
// (bincode on the real `ConsensusMessage` / `MempoolMessage`, `PublicKey::decode_base64`, `SecretKey::decode_base64`,
// `base64::{encode,decode}`, `digest()`) and writes Coq files in which the byte-level model (WireDefs.v, Base64Defs.v)
// is evaluated on the same inputs.
//   wire       random valid messages of every variant: model encode == real bytes, model decode == abstract value,
//              model pre-images == bytes assembled from the real fields (whose SHA-512 is checked against `digest()`)
//   malformed  truncated / bit-flipped / length-corrupted / key-string-corrupted / random byte strings through the real
//              decoders under catch_unwind: value / error / panic must match the model (`--exact-len` = repaired tree)
//   keys       key and arbitrary-length base64 round trips through the real functions vs `b64_encode` / `b64_decode`
use consensus::verif::{Block, ConsensusMessage, Timeout, Vote, QC, TC};
use consensus::Committee;
use crypto::{generate_keypair, Digest, Hash as _, PublicKey, SecretKey, Signature};
use ed25519_dalek::Signer as _;
use hsverif::*;
use mempool::verif::MempoolMessage;
use rand::rngs::StdRng;
use rand::Rng;
use serde_json::json;
use sha2::Digest as _;
use std::collections::HashSet;
use std::panic::{catch_unwind, AssertUnwindSafe};

const ALPHABET: &[u8; 64] = b"ABCDEFGHIJKLMNOPQRSTUVWXYZabcdefghijklmnopqrstuvwxyz0123456789+/";

fn addr(p: usize) -> std::net::SocketAddr { format!("127.0.0.1:{}", 9000 + p).parse().unwrap() }
fn sha(pre: &[u8]) -> [u8; 32] { let h = sha2::Sha512::digest(pre); let mut o = [0u8; 32]; o.copy_from_slice(&h[..32]); o }
fn sk_bytes(sk: &SecretKey) -> Vec<u8> { base64::decode(sk.encode_base64()).unwrap() }
/// Real `Signature` plus its 64 bytes obtained independently of serde (dalek, deterministic Ed25519).
fn sign(d: &Digest, sk: &SecretKey) -> (Signature, Vec<u8>) {
    let kp = ed25519_dalek::Keypair::from_bytes(&sk_bytes(sk)).unwrap();
    (Signature::new(d, sk), kp.sign(&d.0).to_bytes().to_vec())
}
fn b2n(b: bool) -> &'static str { if b { "1" } else { "0" } }
fn rand_bytes(rng: &mut StdRng, n: usize) -> Vec<u8> { (0..n).map(|_| rng.gen::<u8>()).collect() }
fn rand_digest(rng: &mut StdRng) -> Digest { let mut d = [0u8; 32]; rng.fill(&mut d); Digest(d) }
fn gen_round(rng: &mut StdRng) -> u64 {
    match rng.gen_range(0, 8) { 0 => 0, 1 => u64::MAX, 2 => rng.gen(), 3 => rng.gen_range(0, 1 << 40), 4 => 255 + rng.gen_range(0, 3), _ => rng.gen_range(0, 50) }
}

// ------------------------------------------------------------------------------------------ generators
type Keys = Vec<(PublicKey, SecretKey)>;
/// A generated value: the real one, its Gallina counterpart, and (pre-image bytes, real digest) pairs in the
/// order of `cmsg_pres`.
struct Gen<T> { real: T, coq: String, pres: Vec<(Vec<u8>, Digest)> }

fn pick_signers(rng: &mut StdRng, keys: &Keys, max: usize) -> Vec<usize> {
    let n = keys.len();
    match rng.gen_range(0, 3) {
        0 => { let q = 2 * n / 3 + 1; (0..q.min(max)).collect() }                       // the first quorum, distinct
        1 => { let k = rng.gen_range(0, max + 1); (0..k).map(|_| rng.gen_range(0, n)).collect() } // anything, repetitions allowed
        _ => { let k = rng.gen_range(0, n.min(max) + 1); let mut v: Vec<usize> = (0..n).collect(); for i in 0..k { let j = rng.gen_range(i, n); v.swap(i, j); } v.truncate(k); v }
    }
}
fn gen_qc(rng: &mut StdRng, keys: &Keys) -> Gen<QC> {
    let hash = if rng.gen_range(0, 6) == 0 { Digest::default() } else { rand_digest(rng) };
    let round = gen_round(rng);
    let base = QC { hash: hash.clone(), round, votes: vec![] };
    let d = base.digest();
    let mut votes = vec![]; let mut cv = vec![];
    for i in pick_signers(rng, keys, 7) {
        let (s, raw) = sign(&d, &keys[i].1);
        votes.push((keys[i].0, s)); cv.push(format!("({}, {})", coq_bytes(&keys[i].0 .0), coq_bytes(&raw)));
    }
    let mut pre = hash.0.to_vec(); pre.extend_from_slice(&round.to_le_bytes());
    let coq = format!("(mkWQC {} {} {})", coq_bytes(&hash.0), round, coq_list(&cv));
    Gen { real: QC { hash, round, votes }, coq, pres: vec![(pre, d)] }
}
fn timeout_digest(round: u64, hqr: u64, author: PublicKey) -> Digest {
    Timeout { high_qc: QC { hash: Digest::default(), round: hqr, votes: vec![] }, round, author, signature: Signature::default() }.digest()
}
fn gen_tc(rng: &mut StdRng, keys: &Keys) -> Gen<TC> {
    let round = gen_round(rng);
    let mut votes = vec![]; let mut cv = vec![]; let mut pres = vec![];
    for i in pick_signers(rng, keys, 7) {
        let hqr = gen_round(rng);
        let d = timeout_digest(round, hqr, keys[i].0);
        let (s, raw) = sign(&d, &keys[i].1);
        votes.push((keys[i].0, s, hqr)); cv.push(format!("({}, {}, {})", coq_bytes(&keys[i].0 .0), coq_bytes(&raw), hqr));
        let mut pre = round.to_le_bytes().to_vec(); pre.extend_from_slice(&hqr.to_le_bytes()); pres.push((pre, d));
    }
    Gen { real: TC { round, votes }, coq: format!("(mkWTC {} {})", round, coq_list(&cv)), pres }
}
fn gen_vote(rng: &mut StdRng, keys: &Keys) -> Gen<Vote> {
    let i = rng.gen_range(0, keys.len());
    let mut v = Vote { hash: rand_digest(rng), round: gen_round(rng), author: keys[i].0, signature: Signature::default() };
    let d = v.digest();
    let (s, raw) = sign(&d, &keys[i].1); v.signature = s;
    let mut pre = v.hash.0.to_vec(); pre.extend_from_slice(&v.round.to_le_bytes());
    let coq = format!("(mkWVote {} {} {} {})", coq_bytes(&v.hash.0), v.round, coq_bytes(&v.author.0), coq_bytes(&raw));
    Gen { real: v, coq, pres: vec![(pre, d)] }
}
fn gen_timeout(rng: &mut StdRng, keys: &Keys) -> Gen<Timeout> {
    let i = rng.gen_range(0, keys.len());
    let q = gen_qc(rng, keys);
    let mut t = Timeout { high_qc: q.real, round: gen_round(rng), author: keys[i].0, signature: Signature::default() };
    let d = t.digest();
    let (s, raw) = sign(&d, &keys[i].1); t.signature = s;
    let mut pre = t.round.to_le_bytes().to_vec(); pre.extend_from_slice(&t.high_qc.round.to_le_bytes());
    let coq = format!("(mkWTimeout {} {} {} {})", q.coq, t.round, coq_bytes(&t.author.0), coq_bytes(&raw));
    let mut pres = vec![(pre, d)]; pres.extend(q.pres);
    Gen { real: t, coq, pres }
}
fn gen_block(rng: &mut StdRng, keys: &Keys) -> Gen<Block> {
    let i = rng.gen_range(0, keys.len());
    let q = gen_qc(rng, keys);
    let tc = if rng.gen_bool(0.5) { Some(gen_tc(rng, keys)) } else { None };
    let payload: Vec<Digest> = (0..rng.gen_range(0, 6)).map(|_| rand_digest(rng)).collect();
    let (tc_real, tc_coq, tc_pres) = match tc { Some(g) => (Some(g.real), format!("(Some {})", g.coq), g.pres), None => (None, "None".to_string(), vec![]) };
    let mut b = Block { qc: q.real, tc: tc_real, author: keys[i].0, round: gen_round(rng), payload, signature: Signature::default() };
    let d = b.digest();
    let (s, raw) = sign(&d, &keys[i].1); b.signature = s;
    let mut pre = b.author.0.to_vec(); pre.extend_from_slice(&b.round.to_le_bytes());
    for x in &b.payload { pre.extend_from_slice(&x.0); }
    pre.extend_from_slice(&b.qc.hash.0);
    let pay: Vec<String> = b.payload.iter().map(|x| coq_bytes(&x.0)).collect();
    let coq = format!("(mkWBlock {} {} {} {} {} {})", q.coq, tc_coq, coq_bytes(&b.author.0), b.round, coq_list(&pay), coq_bytes(&raw));
    let mut pres = vec![(pre, d)]; pres.extend(q.pres); pres.extend(tc_pres);
    Gen { real: b, coq, pres }
}
fn gen_cmsg(rng: &mut StdRng, keys: &Keys, variant: usize) -> Gen<ConsensusMessage> {
    match variant % 5 {
        0 => { let g = gen_block(rng, keys); Gen { real: ConsensusMessage::Propose(g.real), coq: format!("(CPropose {})", g.coq), pres: g.pres } }
        1 => { let g = gen_vote(rng, keys); Gen { real: ConsensusMessage::Vote(g.real), coq: format!("(CVote {})", g.coq), pres: g.pres } }
        2 => { let g = gen_timeout(rng, keys); Gen { real: ConsensusMessage::Timeout(g.real), coq: format!("(CTimeout {})", g.coq), pres: g.pres } }
        3 => { let g = gen_tc(rng, keys); Gen { real: ConsensusMessage::TC(g.real), coq: format!("(CTC {})", g.coq), pres: g.pres } }
        _ => { let d = rand_digest(rng); let k = keys[rng.gen_range(0, keys.len())].0;
               let coq = format!("(CSyncRequest {} {})", coq_bytes(&d.0), coq_bytes(&k.0));
               Gen { real: ConsensusMessage::SyncRequest(d, k), coq, pres: vec![] } }
    }
}
fn gen_mmsg(rng: &mut StdRng, keys: &Keys, variant: usize) -> Gen<MempoolMessage> {
    if variant % 2 == 0 {
        let txs: Vec<Vec<u8>> = (0..rng.gen_range(0, 6)).map(|_| { let n = match rng.gen_range(0, 4) { 0 => 0, 1 => rng.gen_range(0, 4), _ => rng.gen_range(0, 60) }; rand_bytes(rng, n) }).collect();
        let coq = format!("(MBatch {})", coq_list(&txs.iter().map(|t| coq_bytes(t)).collect::<Vec<_>>()));
        Gen { real: MempoolMessage::Batch(txs), coq, pres: vec![] }
    } else {
        let ds: Vec<Digest> = (0..rng.gen_range(0, 6)).map(|_| rand_digest(rng)).collect();
        let k = keys[rng.gen_range(0, keys.len())].0;
        let coq = format!("(MBatchRequest {} {})", coq_list(&ds.iter().map(|d| coq_bytes(&d.0)).collect::<Vec<_>>()), coq_bytes(&k.0));
        Gen { real: MempoolMessage::BatchRequest(ds, k), coq, pres: vec![] }
    }
}
fn committee(keys: &Keys) -> Committee { Committee::new(keys.iter().enumerate().map(|(i, (pk, _))| (*pk, 1, addr(i))).collect(), 1) }
fn verify_str(m: &ConsensusMessage, c: &Committee) -> String {
    match m {
        ConsensusMessage::Propose(b) => format!("{:?}", b.verify(c)),
        ConsensusMessage::Vote(v) => format!("{:?}", v.verify(c)),
        ConsensusMessage::Timeout(t) => format!("{:?}", t.verify(c)),
        ConsensusMessage::TC(t) => format!("{:?}", t.verify(c)),
        ConsensusMessage::SyncRequest(..) => "-".into(),
    }
}
fn digests_of(m: &ConsensusMessage) -> Vec<Digest> {
    match m {
        ConsensusMessage::Propose(b) => vec![b.digest(), b.qc.digest()],
        ConsensusMessage::Vote(v) => vec![v.digest()],
        ConsensusMessage::Timeout(t) => vec![t.digest(), t.high_qc.digest()],
        _ => vec![],
    }
}
fn variant_name(m: &ConsensusMessage) -> &'static str {
    match m { ConsensusMessage::Propose(_) => "Propose", ConsensusMessage::Vote(_) => "Vote", ConsensusMessage::Timeout(_) => "Timeout", ConsensusMessage::TC(_) => "TC", ConsensusMessage::SyncRequest(..) => "SyncRequest" }
}

// ------------------------------------------------------------------------------------------ mode wire
fn wire(o: &Opts) {
    let mut e = Emit::new("Guards Codec Base64Defs WireDefs CorrComp CorrCodec");
    let mut seen = HashSet::new();
    for k in 0..o.cases {
        if let Some(only) = o.only { if only != k { continue; } }
        let mut rng = case_rng(o.seed, 20, k as u64);
        let n = rng.gen_range(1, 8);
        let keys = sorted_keys(&mut rng, n);
        let com = committee(&keys);
        if k % 7 < 5 {
            let g = gen_cmsg(&mut rng, &keys, k % 7);
            let bytes = bincode::serialize(&g.real).unwrap();
            // monitors on the real code alone
            let f_digest = g.pres.iter().all(|(pre, d)| sha(pre) == d.0);
            let back: ConsensusMessage = bincode::deserialize(&bytes).unwrap();
            let f_rt = bincode::serialize(&back).unwrap() == bytes && digests_of(&back) == digests_of(&g.real);
            let (v0, v1) = (verify_str(&g.real, &com), verify_str(&back, &com));
            let f_verify = v0 == v1;
            let name = variant_name(&g.real);
            e.stat(&format!("variant={}", name), 1);
            e.stat(&format!("verify={}", if v0 == "-" { "n/a" } else if v0 == "Ok(())" { "ok" } else { "rejected" }), 1);
            if let ConsensusMessage::Propose(b) = &g.real { e.stat(if b.tc.is_some() { "block tc=some" } else { "block tc=none" }, 1); e.stat(&format!("block payload={}", b.payload.len()), 1); }
            e.stat(&format!("bytes<{}", ((bytes.len() / 500) + 1) * 500), 1);
            if bytes.len() > 8 && seen.insert(bytes.clone()) { e.stat("distinct_nontrivial", 1); }
            let pres: Vec<String> = g.pres.iter().map(|(p, _)| coq_bytes(p)).collect();
            let defs = format!("Definition impl_bytes : list N := {}.\nDefinition msg : WCMsg := {}.\nDefinition impl_pres : list (list N) := {}.\n", coq_bytes(&bytes), g.coq, coq_list(&pres));
            let verdict = format!("codec_wire_cmsg impl_bytes msg impl_pres [{}; {}; {}]", b2n(f_digest), b2n(f_rt), b2n(f_verify));
            e.case(k, &defs, &verdict, json!({"case": k, "kind": name, "bytes": hex(&bytes), "verify": v0, "flags": [f_digest, f_rt, f_verify]}));
        } else {
            let g = gen_mmsg(&mut rng, &keys, k % 7 - 5);
            let bytes = bincode::serialize(&g.real).unwrap();
            let back: MempoolMessage = bincode::deserialize(&bytes).unwrap();
            let f_rt = bincode::serialize(&back).unwrap() == bytes;
            let name = match &g.real { MempoolMessage::Batch(_) => "Batch", MempoolMessage::BatchRequest(..) => "BatchRequest" };
            e.stat(&format!("variant={}", name), 1);
            if bytes.len() > 12 && seen.insert(bytes.clone()) { e.stat("distinct_nontrivial", 1); }
            let defs = format!("Definition impl_bytes : list N := {}.\nDefinition msg : WMMsg := {}.\n", coq_bytes(&bytes), g.coq);
            let verdict = format!("codec_wire_mmsg impl_bytes msg [{}]", b2n(f_rt));
            e.case(k, &defs, &verdict, json!({"case": k, "kind": name, "bytes": hex(&bytes), "flags": [f_rt]}));
        }
    }
    e.finish(&o.out, "codec_wire", o.seed);
}

// ------------------------------------------------------------------------------------------ corrupted key strings
fn b64_of_len(rng: &mut StdRng, n: usize) -> Vec<u8> { base64::encode(rand_bytes(rng, n)).into_bytes() }
/// A string for a key slot of `len` decoded bytes (32 or 64); returns (label, bytes).
fn bad_key_string(rng: &mut StdRng, len: usize) -> (&'static str, Vec<u8>) {
    let good = b64_of_len(rng, len);
    match rng.gen_range(0, 14) {
        0 => { let l = *[0usize, 1, 2, 3, len - 2, len - 1].get(rng.gen_range(0, 6)).unwrap(); ("short", b64_of_len(rng, l)) }
        1 => { let l = rng.gen_range(0, len); ("short", b64_of_len(rng, l)) }
        2 => { let l = *[len + 1, len + 2, len + 3, 2 * len].get(rng.gen_range(0, 4)).unwrap(); ("long", b64_of_len(rng, l)) }
        3 => { let l = rng.gen_range(len + 1, len + 40); ("long", b64_of_len(rng, l)) }
        4 => { let mut s = good; let i = rng.gen_range(0, s.len()); s[i] = *b"!-_ \n.=\x7f\x00*".get(rng.gen_range(0, 10)).unwrap(); ("bad symbol", s) }
        5 => { let mut s = good; let i = rng.gen_range(0, s.len()); s[i] = rng.gen_range(128, 256) as u8; ("non-ascii", s) }
        6 => { let mut s = good; while s.last() == Some(&b'=') { s.pop(); } ("padding stripped", s) }
        7 => { let mut s = good; for _ in 0..rng.gen_range(1, 5) { s.push(b'='); } ("extra padding", s) }
        8 => { let mut s = good; let p = s.iter().position(|&c| c == b'=').unwrap_or(s.len()); // non-zero discarded bits
               if p > 0 { let v = ALPHABET.iter().position(|&c| c == s[p - 1]).unwrap(); s[p - 1] = ALPHABET[(v | 1) % 64]; } ("trailing bits", s) }
        9 => { let n = rng.gen_range(0, 100); ("random alphabet", (0..n).map(|_| if rng.gen_range(0, 30) == 0 { b'=' } else { ALPHABET[rng.gen_range(0, 64)] }).collect()) }
        10 => { let mut s = good; let cut = rng.gen_range(0, s.len()); s.truncate(cut); ("cut", s) }
        11 => { let mut s = good; let i = rng.gen_range(0, s.len() + 1); s.insert(i, b'='); ("inner padding", s) }
        12 => { let n = rng.gen_range(0, 12); ("random alphabet", (0..n).map(|_| if rng.gen_range(0, 4) == 0 { b'=' } else { ALPHABET[rng.gen_range(0, 64)] }).collect()) }
        _ => ("valid", good),
    }
}
/// Offsets of bincode strings that look like an encoded public key: u64 length 44 followed by 44 base64 characters.
fn key_slots(b: &[u8]) -> Vec<usize> {
    let pat = 44u64.to_le_bytes();
    (0..b.len().saturating_sub(51)).filter(|&i| b[i..i + 8] == pat && b[i + 8..i + 52].iter().all(|c| ALPHABET.contains(c) || *c == b'=')).collect()
}
fn odd_length(rng: &mut StdRng, remaining: usize) -> u64 {
    match rng.gen_range(0, 10) {
        0 => 0, 1 => 1, 2 => u64::MAX, 3 => 1 << 63, 4 => remaining as u64, 5 => remaining as u64 + 1,
        6 => rng.gen_range(0, 8), 7 => rng.gen_range(40, 50), 8 => rng.gen(), _ => rng.gen_range(0, 300),
    }
}

fn run_cmsg(input: &[u8]) -> (u8, Vec<u8>) {
    match catch_unwind(AssertUnwindSafe(|| bincode::deserialize::<ConsensusMessage>(input))) {
        Ok(Ok(m)) => (0, bincode::serialize(&m).unwrap()), Ok(Err(_)) => (1, vec![]), Err(_) => (2, vec![]),
    }
}
fn run_mmsg(input: &[u8]) -> (u8, Vec<u8>) {
    match catch_unwind(AssertUnwindSafe(|| bincode::deserialize::<MempoolMessage>(input))) {
        Ok(Ok(m)) => (0, bincode::serialize(&m).unwrap()), Ok(Err(_)) => (1, vec![]), Err(_) => (2, vec![]),
    }
}
fn ascii_string(b: &[u8]) -> String { b.iter().map(|&c| if c < 128 { c as char } else { '?' }).collect() }

// ------------------------------------------------------------------------------------------ mode malformed
fn malformed(o: &Opts) {
    std::panic::set_hook(Box::new(|_| {}));
    let exact = o.rest.iter().any(|a| a == "--exact-len");
    // what the tree under test does with a one-byte key (recorded, not used to choose the model)
    let probe = match catch_unwind(|| PublicKey::decode_base64("AA==")) { Ok(Ok(_)) => "value", Ok(Err(_)) => "error", Err(_) => "panic" };
    let mut e = Emit::new("Guards Codec Base64Defs WireDefs CorrComp CorrCodec");
    e.stat(&format!("probe decode_base64(\"AA==\")={}", probe), 1);
    let mut seen = HashSet::new();
    // which key-length discipline the tree under test has is REGENERATED from crypto/src/lib.rs (Guards.v); `--exact-len`
    // / `--slice-len` force one model (used to tell the two apart in experiments)
    let slice = o.rest.iter().any(|a| a == "--slice-len");
    let cx = if exact { "true" } else if slice { "false" } else { "g_pk_decode_exact" };
    let cx64 = if exact { "true" } else if slice { "false" } else { "g_sk_decode_exact" };
    for k in 0..o.cases {
        if let Some(only) = o.only { if only != k { continue; } }
        let mut rng = case_rng(o.seed, 21, k as u64);
        let n = rng.gen_range(1, 8);
        let keys = sorted_keys(&mut rng, n);
        let kind = k % 12;
        if kind == 10 || kind == 11 {
            // key strings straight into PublicKey::decode_base64 / SecretKey::decode_base64 (+ raw base64::decode)
            let len = if kind == 10 { 32 } else { 64 };
            let (label, raw) = bad_key_string(&mut rng, len);
            let s = ascii_string(&raw);
            let (code, key): (u8, Vec<u8>) = if len == 32 {
                match catch_unwind(AssertUnwindSafe(|| PublicKey::decode_base64(&s))) { Ok(Ok(pk)) => (0, pk.0.to_vec()), Ok(Err(_)) => (1, vec![]), Err(_) => (2, vec![]) }
            } else {
                match catch_unwind(AssertUnwindSafe(|| SecretKey::decode_base64(&s))) { Ok(Ok(sk)) => (0, sk_bytes(&sk)), Ok(Err(_)) => (1, vec![]), Err(_) => (2, vec![]) }
            };
            let (raw_ok, raw_bytes) = match base64::decode(&s) { Ok(b) => (1, b), Err(_) => (0, vec![]) };
            e.stat(&format!("key{} {} -> {}", len, label, ["value", "error", "panic"][code as usize]), 1);
            e.stat(&format!("outcome={}", ["value", "error", "panic"][code as usize]), 1);
            if !s.is_empty() && seen.insert(s.clone().into_bytes()) { e.stat("distinct_nontrivial", 1); }
            let defs = format!("Definition input : list N := {}.\n", coq_bytes(s.as_bytes()));
            let verdict = format!("codec_bad_key {} {} input {} {} {} {}", if len == 64 { cx64 } else { cx }, len, code, coq_bytes(&key), raw_ok, coq_bytes(&raw_bytes));
            e.case(k, &defs, &verdict, json!({"case": k, "kind": format!("key{}", len), "corruption": label, "input": s, "impl_outcome": code, "raw_ok": raw_ok}));
            continue;
        }
        // message bytes
        let consensus_target = match kind { 9 => rng.gen_bool(0.5), _ => k % 24 < 12 || rng.gen_range(0, 3) == 0 };
        let variant = rng.gen_range(0, 7);
        let valid: Vec<u8> = if kind == 9 { vec![] }
            else if kind == 8 { // cross-type: the other component's message
                if consensus_target { bincode::serialize(&gen_mmsg(&mut rng, &keys, variant).real).unwrap() } else { bincode::serialize(&gen_cmsg(&mut rng, &keys, variant).real).unwrap() } }
            else if consensus_target { bincode::serialize(&gen_cmsg(&mut rng, &keys, variant).real).unwrap() }
            else { bincode::serialize(&gen_mmsg(&mut rng, &keys, variant).real).unwrap() };
        let mut b = valid.clone();
        let label: String = match kind {
            0 => { let cut = rng.gen_range(0, b.len()); b.truncate(cut); "truncated".into() }
            1 => { let i = rng.gen_range(0, b.len()); b[i] ^= 1 << rng.gen_range(0, 8); "bit flip".into() }
            2 | 3 => { // the key string of a random key slot replaced (length prefix adjusted: structure stays valid)
                let slots = key_slots(&b);
                if slots.is_empty() { let i = rng.gen_range(0, b.len()); b[i] ^= 1 << rng.gen_range(0, 8); "bit flip (no key slot)".into() }
                else { let at = slots[rng.gen_range(0, slots.len())]; let (l, s) = bad_key_string(&mut rng, 32);
                       let mut nb = b[..at].to_vec(); nb.extend_from_slice(&(s.len() as u64).to_le_bytes()); nb.extend_from_slice(&s); nb.extend_from_slice(&b[at + 52..]); b = nb;
                       format!("key string: {}", l) } }
            4 => { // a length prefix of a key string corrupted
                let slots = key_slots(&b);
                let at = if slots.is_empty() || rng.gen_range(0, 4) == 0 { rng.gen_range(0, b.len().saturating_sub(8).max(1)) } else { slots[rng.gen_range(0, slots.len())] };
                let v = odd_length(&mut rng, b.len().saturating_sub(at + 8));
                for (j, x) in v.to_le_bytes().iter().enumerate() { if at + j < b.len() { b[at + j] = *x; } }
                "length field".into() }
            5 => { // an 8-byte window overwritten with a length-like value: a Vec count at a known offset (Batch / BatchRequest
                   // at 4; QC votes of Propose / Timeout at 44; TC votes at 12), or anywhere (rounds, digests, signatures)
                let tag = if b.len() >= 4 { b[0] } else { 9 };
                let known = if !consensus_target { Some(4) } else if tag == 0 || tag == 2 { Some(44) } else if tag == 3 { Some(12) } else { None };
                let at = match known { Some(a) if a + 8 <= b.len() && rng.gen_range(0, 2) == 0 => a, _ => rng.gen_range(0, b.len().saturating_sub(8).max(1)) };
                let v = odd_length(&mut rng, b.len().saturating_sub(at + 8));
                for (j, x) in v.to_le_bytes().iter().enumerate() { if at + j < b.len() { b[at + j] = *x; } }
                if known == Some(at) { "vec count".into() } else { "u64 window".into() } }
            6 => { let t: u32 = match rng.gen_range(0, 4) { 0 => rng.gen_range(0, 8), 1 => rng.gen(), 2 => 5, _ => rng.gen_range(2, 5) };
                   for (j, x) in t.to_le_bytes().iter().enumerate() { if j < b.len() { b[j] = *x; } } "enum tag".into() }
            7 => { // Option<TC> tag of a proposal, or appended garbage for the others
                let blk = gen_block(&mut rng, &keys);
                let at = 4 + bincode::serialize(&blk.real.qc).unwrap().len();
                b = bincode::serialize(&ConsensusMessage::Propose(blk.real)).unwrap();
                b[at] = match rng.gen_range(0, 4) { 0 => 2, 1 => 255, 2 => 1 - b[at].min(1), _ => rng.gen() };
                "option tag".into() }
            8 => "other component's message".into(),
            _ => { let n = match rng.gen_range(0, 4) { 0 => rng.gen_range(0, 12), _ => rng.gen_range(0, 200) }; b = rand_bytes(&mut rng, n);
                   if rng.gen_bool(0.6) && b.len() >= 4 { b[0] = rng.gen_range(0, 6); b[1] = 0; b[2] = 0; b[3] = 0; } "random bytes".into() }
        };
        let target_consensus = if kind == 7 { true } else { consensus_target };
        let (code, reser) = if target_consensus { run_cmsg(&b) } else { run_mmsg(&b) };
        let oc = ["value", "error", "panic"][code as usize];
        e.stat(&format!("{} {} -> {}", if target_consensus { "consensus" } else { "mempool" }, label, oc), 1);
        e.stat(&format!("outcome={}", oc), 1);
        if b != valid && !b.is_empty() && seen.insert(b.clone()) { e.stat("distinct_nontrivial", 1); }
        let defs = format!("Definition input : list N := {}.\nDefinition impl_reser : list N := {}.\n", coq_bytes(&b), coq_bytes(&reser));
        let verdict = format!("{} {} input {} impl_reser", if target_consensus { "codec_bad_cmsg" } else { "codec_bad_mmsg" }, cx, code);
        e.case(k, &defs, &verdict, json!({"case": k, "kind": if target_consensus { "consensus" } else { "mempool" }, "corruption": label, "input": hex(&b), "impl_outcome": code}));
    }
    let _ = std::panic::take_hook();
    e.finish(&o.out, "codec_malformed", o.seed);
}

// ------------------------------------------------------------------------------------------ mode keys
fn keys_mode(o: &Opts) {
    std::panic::set_hook(Box::new(|_| {}));
    let mut e = Emit::new("Guards Codec Base64Defs WireDefs CorrComp CorrCodec");
    let mut seen = HashSet::new();
    for k in 0..o.cases {
        if let Some(only) = o.only { if only != k { continue; } }
        let mut rng = case_rng(o.seed, 22, k as u64);
        let (label, data, s, flag): (&str, Vec<u8>, String, bool) = match k % 4 {
            0 | 1 => {
                // the key bytes come from dalek directly (same PRNG state), not from the functions under test
                let mut r2 = rng.clone();
                let kp = ed25519_dalek::Keypair::generate(&mut r2);
                let (pk, sk) = generate_keypair(&mut rng);
                if k % 4 == 0 {
                    let s = pk.encode_base64();
                    let ok = matches!(catch_unwind(AssertUnwindSafe(|| PublicKey::decode_base64(&s))), Ok(Ok(p)) if p == pk) && pk.0 == kp.public.to_bytes();
                    ("public key", kp.public.to_bytes().to_vec(), s, ok)
                } else {
                    let s = sk.encode_base64();
                    let ok = matches!(catch_unwind(AssertUnwindSafe(|| SecretKey::decode_base64(&s))), Ok(Ok(q)) if q.encode_base64() == s);
                    ("secret key", kp.to_bytes().to_vec(), s, ok)
                }
            }
            _ => { let n = if k % 4 == 2 { rng.gen_range(0, 12) } else { rng.gen_range(0, 100) }; let d = rand_bytes(&mut rng, n); let s = base64::encode(&d);
                   let ok = base64::decode(&s).map(|x| x == d).unwrap_or(false); ("bytes", d, s, ok) }
        };
        e.stat(&format!("kind={}", label), 1);
        e.stat(&format!("len%3={}", data.len() % 3), 1);
        if !data.is_empty() && seen.insert(data.clone()) { e.stat("distinct_nontrivial", 1); }
        let defs = format!("Definition data : list N := {}.\nDefinition impl_str : list N := {}.\n", coq_bytes(&data), coq_bytes(s.as_bytes()));
        e.case(k, &defs, &format!("codec_keys_case data impl_str [{}]", b2n(flag)), json!({"case": k, "kind": label, "data": hex(&data), "impl_str": s, "flags": [flag]}));
    }
    let _ = std::panic::take_hook();
    e.finish(&o.out, "codec_keys", o.seed);
}

fn main() {
    let o = opts();
    match o.mode.as_str() {
        "wire" => wire(&o),
        "malformed" => malformed(&o),
        "keys" => keys_mode(&o),
        m => { eprintln!("unknown mode {} (wire | malformed [--exact-len] | keys)", m); std::process::exit(2); }
    }
}
