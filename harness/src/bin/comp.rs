// Component-mode correspondence: drives public entry points of single components of the real code
// and writes Coq files in which the executable model is evaluated on the same inputs.
use hsverif::*;
use rand::Rng;
use serde_json::json;

fn addr(p: usize) -> std::net::SocketAddr { format!("127.0.0.1:{}", 9000 + p).parse().unwrap() }

// ---------------------------------------------------------------- C17: quorum_threshold / stake
fn stake_vectors(rng: &mut rand::rngs::StdRng, k: usize) -> Vec<u32> {
    let n = match k % 6 { 0 => 1, 1 => 4, _ => rng.gen_range(1, 11) };
    let max: u64 = (1u64 << 31) - 1;
    let mut v: Vec<u32> = match k % 8 {
        0 => vec![1; n],                                                     // equal
        1 => (0..n).map(|_| rng.gen_range(0, 5)).collect(),                   // small, zeros allowed
        2 => { let mut v = vec![1u32; n]; v[0] = rng.gen_range(1, 1_000_000); v } // single dominant
        3 => { let t = max - rng.gen_range(0, 7); let mut v = vec![0u32; n]; let mut left = t; // just below 2^31
               for i in 0..n { let x = if i + 1 == n { left } else { rng.gen_range(0, left + 1) }; v[i] = x as u32; left -= x; } v }
        4 => { let t: u64 = 3 * rng.gen_range(1, 1000) + rng.gen_range(0, 3); let mut v = vec![0u32; n]; let mut left = t; // around multiples of 3
               for i in 0..n { let x = if i + 1 == n { left } else { rng.gen_range(0, left + 1) }; v[i] = x as u32; left -= x; } v }
        _ => (0..n).map(|_| rng.gen_range(0, 100_000)).collect(),
    };
    if v.iter().map(|&x| x as u64).sum::<u64>() == 0 { v[0] = 1; }
    v
}
fn quorum(o: &Opts) {
    let mut e = Emit::new("Guards QuorumDefs CorrComp");
    let mut seen = std::collections::HashSet::new();
    for k in 0..o.cases {
        if let Some(only) = o.only { if only != k { continue; } }
        let mut rng = case_rng(o.seed, 17, k as u64);
        let stakes = stake_vectors(&mut rng, k);
        let n = stakes.len();
        let keys = sorted_keys(&mut rng, n + 1); // the last key is a non-member
        let cc = consensus::Committee::new((0..n).map(|i| (keys[i].0, stakes[i], addr(i))).collect(), 1);
        let mc = mempool::Committee::new((0..n).map(|i| (keys[i].0, stakes[i], addr(i), addr(100 + i))).collect(), 1);
        let (qc, qm) = (cc.quorum_threshold(), mc.quorum_threshold());
        let sc: Vec<u32> = (0..=n).map(|i| cc.stake(&keys[i].0)).collect();
        let sm: Vec<u32> = (0..=n).map(|i| mc.stake(&keys[i].0)).collect();
        let total: u64 = stakes.iter().map(|&x| x as u64).sum();
        if (n > 1 || total >= 4) && seen.insert(stakes.clone()) { e.stat("distinct_nontrivial", 1); }
        e.stat(&format!("n={}", n), 1);
        e.stat(if total % 3 == 0 { "total%3=0" } else if total % 3 == 1 { "total%3=1" } else { "total%3=2" }, 1);
        if total > (1u64 << 31) - 8 { e.stat("total near 2^31", 1); }
        if stakes.iter().any(|&x| x == 0) { e.stat("has zero stake", 1); }
        let st = coq_nlist(stakes.iter().map(|&x| x as u128));
        let verdict = format!("quorum_case {} {} {} {} {}", st, qc, qm, coq_nlist(sc.iter().map(|&x| x as u128)), coq_nlist(sm.iter().map(|&x| x as u128)));
        e.case(k, "", &verdict, json!({"case": k, "stakes": stakes, "impl_quorum_consensus": qc, "impl_quorum_mempool": qm, "impl_stake_consensus": sc, "impl_stake_mempool": sm}));
    }
    e.finish(&o.out, "quorum", o.seed);
}

fn main() {
    let o = opts();
    match o.mode.as_str() {
        "quorum" => quorum(&o),
        m => { eprintln!("unknown mode {}", m); std::process::exit(2); }
    }
}
