// Component-mode correspondence: drives public entry points of single components of the real code
// and writes Coq files in which the executable model is evaluated on the same inputs.
use hsverif::*;
use rand::Rng;
use serde_json::json;

fn addr(p: usize) -> std::net::SocketAddr { format!("127.0.0.1:{}", 9000 + p).parse().unwrap() }

// ---------------------------------------------------------------- C17: quorum_threshold / stake
fn stake_vectors(rng: &mut rand::rngs::StdRng, k: usize) -> Vec<u32> {
    let n = match k % 6 { 0 => 1, 1 => 4, _ => rng.gen_range(1, 11) };
    let max: u64 = (1u64 << 31) - 1;
    let mut v: Vec<u32> = match k % 8 {
        0 => vec![1; n],                                                     // equal
        1 => (0..n).map(|_| rng.gen_range(0, 5)).collect(),                   // small, zeros allowed
        2 => { let mut v = vec![1u32; n]; v[0] = rng.gen_range(1, 1_000_000); v } // single dominant
        3 => { let t = max - rng.gen_range(0, 7); let mut v = vec![0u32; n]; let mut left = t; // just below 2^31
               for i in 0..n { let x = if i + 1 == n { left } else { rng.gen_range(0, left + 1) }; v[i] = x as u32; left -= x; } v }
        4 => { let t: u64 = 3 * rng.gen_range(1, 1000) + rng.gen_range(0, 3); let mut v = vec![0u32; n]; let mut left = t; // around multiples of 3
               for i in 0..n { let x = if i + 1 == n { left } else { rng.gen_range(0, left + 1) }; v[i] = x as u32; left -= x; } v }
        _ => (0..n).map(|_| rng.gen_range(0, 100_000)).collect(),
    };
    if v.iter().map(|&x| x as u64).sum::<u64>() == 0 { v[0] = 1; }
    v
}
fn quorum(o: &Opts) {
    let mut e = Emit::new("Guards QuorumDefs CorrComp");
    let mut seen = std::collections::HashSet::new();
    for k in 0..o.cases {
        if let Some(only) = o.only { if only != k { continue; } }
        let mut rng = case_rng(o.seed, 17, k as u64);
        let stakes = stake_vectors(&mut rng, k);
        let n = stakes.len();
        let keys = sorted_keys(&mut rng, n + 1); // the last key is a non-member
        let cc = consensus::Committee::new((0..n).map(|i| (keys[i].0, stakes[i], addr(i))).collect(), 1);
        let mc = mempool::Committee::new((0..n).map(|i| (keys[i].0, stakes[i], addr(i), addr(100 + i))).collect(), 1);
        let (qc, qm) = (cc.quorum_threshold(), mc.quorum_threshold());
        let sc: Vec<u32> = (0..=n).map(|i| cc.stake(&keys[i].0)).collect();
        let sm: Vec<u32> = (0..=n).map(|i| mc.stake(&keys[i].0)).collect();
        let total: u64 = stakes.iter().map(|&x| x as u64).sum();
        if (n > 1 || total >= 4) && seen.insert(stakes.clone()) { e.stat("distinct_nontrivial", 1); }
        e.stat(&format!("n={}", n), 1);
        e.stat(if total % 3 == 0 { "total%3=0" } else if total % 3 == 1 { "total%3=1" } else { "total%3=2" }, 1);
        if total > (1u64 << 31) - 8 { e.stat("total near 2^31", 1); }
        if stakes.iter().any(|&x| x == 0) { e.stat("has zero stake", 1); }
        let st = coq_nlist(stakes.iter().map(|&x| x as u128));
        let verdict = format!("quorum_case {} {} {} {} {}", st, qc, qm, coq_nlist(sc.iter().map(|&x| x as u128)), coq_nlist(sm.iter().map(|&x| x as u128)));
        e.case(k, "", &verdict, json!({"case": k, "stakes": stakes, "impl_quorum_consensus": qc, "impl_quorum_mempool": qm, "impl_stake_consensus": sc, "impl_stake_mempool": sm}));
    }
    e.finish(&o.out, "quorum", o.seed);
}

// ---------------------------------------------------------------- C09: LeaderElector
fn leader(o: &Opts) {
    use consensus::verif::LeaderElector;
    let mut e = Emit::new("Guards LeaderDefs CorrComp");
    let mut seen = std::collections::HashSet::new();
    for k in 0..o.cases {
        if let Some(only) = o.only { if only != k { continue; } }
        let mut rng = case_rng(o.seed, 9, k as u64);
        let n = rng.gen_range(1, 11usize);
        let mut keys: Vec<crypto::PublicKey> = (0..n).map(|_| crypto::generate_keypair(&mut rng).0).collect();
        // insertion order is random (the model is given the keys in this order and sorts them itself)
        use rand::seq::SliceRandom; keys.shuffle(&mut rng);
        let com = consensus::Committee::new(keys.iter().enumerate().map(|(i, pk)| (*pk, 1 + (i as u32 % 3), addr(i))).collect(), 1);
        let el = LeaderElector::new(com);
        let base: u64 = match k % 4 { 0 => 0, 1 => rng.gen_range(0, 1000), 2 => rng.gen_range(0, u32::MAX as u64), _ => u64::MAX - 30 - rng.gen_range(0, 50) };
        let rounds: Vec<u64> = (0..(2 * n as u64 + 1)).map(|i| base.wrapping_add(i)).collect();
        let leaders: Vec<crypto::PublicKey> = rounds.iter().map(|&r| el.get_leader(r)).collect();
        e.stat(&format!("n={}", n), 1);
        if n > 1 && seen.insert(keys.iter().map(|k| k.0.to_vec()).collect::<Vec<_>>()) { e.stat("distinct_nontrivial", 1); }
        let kl = coq_list(&keys.iter().map(|k| coq_bytes(&k.0)).collect::<Vec<_>>());
        let rl = coq_nlist(rounds.iter().map(|&r| r as u128));
        let ll = coq_list(&leaders.iter().map(|k| coq_bytes(&k.0)).collect::<Vec<_>>());
        e.case(k, "", &format!("leader_case {} {} {}", kl, rl, ll), json!({"case": k, "n": n, "base_round": base}));
    }
    e.finish(&o.out, "leader", o.seed);
}

// ---------------------------------------------------------------- C19: Aggregator
fn aggregator(o: &Opts) {
    use consensus::verif::{Aggregator, Timeout, Vote, QC};
    use crypto::{Digest, Signature};
    let mut e = Emit::new("GTac Node CorrComp CorrAgg");
    let mut seen = std::collections::HashSet::new();
    for k in 0..o.cases {
        if let Some(only) = o.only { if only != k { continue; } }
        let mut rng = case_rng(o.seed, 19, k as u64);
        let n = rng.gen_range(1, 9usize);
        let stakes: Vec<u32> = if k % 2 == 0 { vec![1; n] } else { (0..n).map(|_| rng.gen_range(0, 5)).collect() };
        let stakes: Vec<u32> = if stakes.iter().all(|&x| x == 0) { vec![1; n] } else { stakes };
        let keys = sorted_keys(&mut rng, n + 1); // last = outsider
        let com = consensus::Committee::new((0..n).map(|i| (keys[i].0, stakes[i], addr(i))).collect(), 1);
        let mut agg = Aggregator::new(com);
        let digs: Vec<Digest> = (1..4u8).map(|x| Digest([x; 32])).collect();
        let mut ops: Vec<String> = vec![]; let mut res: Vec<String> = vec![]; let mut human: Vec<String> = vec![];
        let mut sigtab: std::collections::HashMap<Vec<u8>, usize> = std::collections::HashMap::new();
        let nops = rng.gen_range(3, 30);
        let mut made = 0;
        for i in 0..nops {
            let a = rng.gen_range(0, n + 1); let aid = if a == n { 99 } else { a };
            let sig = Signature::new(&Digest([(i % 250) as u8 + 1; 32]), &keys[a].1);
            sigtab.insert(bincode::serialize(&sig).unwrap(), i);
            let x: f64 = rng.gen();
            if x < 0.6 {
                let round = rng.gen_range(1, 4u64); let h = rng.gen_range(0, if k % 3 == 0 { 1 } else { 3 });
                let v = Vote { hash: digs[h].clone(), round, author: keys[a].0, signature: sig };
                ops.push(format!("AVote (mkVote (DOther {}) {} {} (SigJunk {}))", h + 1, round, aid, i));
                human.push(format!("vote h{} r{} by {}", h + 1, round, aid));
                match agg.add_vote(v) {
                    Ok(None) => res.push("ANone".into()),
                    Ok(Some(qc)) => { made += 1; let hn = digs.iter().position(|d| d == &qc.hash).unwrap() + 1;
                        let vs: Vec<String> = qc.votes.iter().map(|(pk, s)| format!("({}, SigJunk {})", keys.iter().position(|kk| &kk.0 == pk).map(|p| if p == n { 99 } else { p }).unwrap(), sigtab[&bincode::serialize(s).unwrap()])).collect();
                        res.push(format!("AQC (mkQC (DOther {}) {} {})", hn, qc.round, coq_list(&vs))) }
                    Err(_) => res.push("AErr".into()),
                }
            } else if x < 0.9 {
                let round = rng.gen_range(1, 4u64); let hq = rng.gen_range(0, 3u64);
                let t = Timeout { high_qc: QC { hash: Digest::default(), round: hq, votes: vec![] }, round, author: keys[a].0, signature: sig };
                ops.push(format!("ATimeout (mkTimeout (mkQC DZero {} []) {} {} (SigJunk {}))", hq, round, aid, i));
                human.push(format!("timeout r{} hq{} by {}", round, hq, aid));
                match agg.add_timeout(t) {
                    Ok(None) => res.push("ANone".into()),
                    Ok(Some(tc)) => { made += 1;
                        let vs: Vec<String> = tc.votes.iter().map(|(pk, s, r)| format!("({}, SigJunk {}, {})", keys.iter().position(|kk| &kk.0 == pk).map(|p| if p == n { 99 } else { p }).unwrap(), sigtab[&bincode::serialize(s).unwrap()], r)).collect();
                        res.push(format!("ATC (mkTC {} {})", tc.round, coq_list(&vs))) }
                    Err(_) => res.push("AErr".into()),
                }
            } else {
                let r = rng.gen_range(1, 4u64);
                agg.cleanup(&r); ops.push(format!("ACleanup {}", r)); res.push("ANone".into()); human.push(format!("cleanup {}", r));
            }
        }
        e.stat(&format!("n={}", n), 1); e.stat("certificates", made);
        if made > 0 && seen.insert(ops.join(";")) { e.stat("distinct_nontrivial", 1); }
        let st: Vec<String> = (0..n).map(|i| format!("({},{})", i, stakes[i])).collect();
        e.case(k, "", &format!("agg_case (mkCommittee {}) {} {}", coq_list(&st), coq_list(&ops), coq_list(&res)), json!({"case": k, "stakes": stakes, "ops": human}));
    }
    e.finish(&o.out, "aggregator", o.seed);
}

// ---------------------------------------------------------------- C11: BatchMaker + Processor
async fn settle() { for _ in 0..64 { tokio::task::yield_now().await; } }
// a fresh runtime per case: when it is dropped every task of the case is gone (no leftovers firing on the next case's clock or tap)
fn fresh_rt() -> tokio::runtime::Runtime { tokio::runtime::Builder::new_current_thread().enable_all().start_paused(true).build().unwrap() }
fn batchmaker(o: &Opts) {
    use mempool::verif::{BatchMaker, MempoolMessage, Processor, QuorumWaiterMessage};
    use sha2::{Digest as _, Sha512};
    let bench = cfg!(feature = "bench");
    let mut e = Emit::new("Guards BatchMakerDefs CorrComp CorrBatch");
    let mut seen = std::collections::HashSet::new();
    std::panic::set_hook(Box::new(|_| {}));
    for k in 0..o.cases {
        if let Some(only) = o.only { if only != k { continue; } }
        let rt = fresh_rt();
        let mut rng = case_rng(o.seed, 11, k as u64);
        let batch_size: usize = match k % 5 { 0 => 1, 1 => rng.gen_range(2, 10), 2 => 100, _ => rng.gen_range(10, 60) };
        let delay: u64 = 100;
        // events: Some(tx) | None = the batch timer fires
        let nev = rng.gen_range(1, 25);
        let mut evs: Vec<Option<Vec<u8>>> = vec![];
        for _ in 0..nev {
            if rng.gen_bool(0.25) { evs.push(None); continue; }
            let len = match rng.gen_range(0, 10) { 0 => 0, 1 => 1, 2 => batch_size.saturating_sub(1), 3 => batch_size, 4 => batch_size + 1, 5 => 9, _ => rng.gen_range(0, 2 * batch_size + 2) };
            let mut tx: Vec<u8> = (0..len).map(|_| rng.gen()).collect();
            if len > 0 && rng.gen_bool(0.3) { tx[0] = 0; }  // "sample" transactions of the benchmark build start with 0
            evs.push(Some(tx));
        }
        // "simultaneous" pairs: a transaction that is already in the channel when the batch timer expires (the task sees both branches of its
        // select! ready at once and may serve them in either order); the pair is handed over without letting the task run in between
        let mut simul: std::collections::HashSet<usize> = std::collections::HashSet::new();
        if k % 3 == 1 {
            let mut i = 0;
            while i + 1 < evs.len() {
                if evs[i].is_some() && rng.gen_bool(0.35) { evs.insert(i + 1, None); simul.insert(i); i += 2; } else { i += 1; }
            }
        }
        let mut evs_emitted: Vec<Option<Vec<u8>>> = vec![];
        let dbpath = format!("{}/db_bm_{}_{}", o.out, o.seed, k);
        let _ = std::fs::remove_dir_all(&dbpath);
        let (sealed, stored_ok, digests_ok, panicked, net_ok, pairing_ok) = rt.block_on(async {
            network::verif::tap_start();
            let store = store::Store::new(&dbpath).unwrap();
            let (tx_tx, rx_tx) = tokio::sync::mpsc::channel(1000);
            let (tx_msg, mut rx_msg) = tokio::sync::mpsc::channel::<QuorumWaiterMessage>(1000);
            let (tx_batch, rx_batch) = tokio::sync::mpsc::channel(1000);
            let (tx_dig, mut rx_dig) = tokio::sync::mpsc::channel(1000);
            let peers = sorted_keys(&mut rng, 2);
            BatchMaker::spawn(batch_size, delay, rx_tx, tx_msg, vec![(peers[0].0, addr(1)), (peers[1].0, addr(2))]);
            Processor::spawn(store.clone(), rx_batch, tx_dig);
            settle().await;
            let mut sealed: Vec<Vec<String>> = vec![]; let mut stored_ok = true; let mut digests_ok = true; let mut panicked = false; let mut net_ok = true; let mut pairing_ok = true;
            let addr_of = |pk: &crypto::PublicKey| if *pk == peers[0].0 { addr(1) } else { addr(2) };
            let mut st = store.clone();
            let mut open: Vec<Vec<u8>> = vec![];          // received and not yet seen in a sealed batch (harness bookkeeping for the simultaneous pairs)
            let mut idx = 0;
            while idx < evs.len() {
                let ev = &evs[idx];
                let both = simul.contains(&idx);
                let before = open.clone();
                match ev {
                    Some(tx) => {
                        if tx_tx.send(tx.clone()).await.is_err() { panicked = true; }
                        open.push(tx.clone());
                        if both { tokio::time::advance(std::time::Duration::from_millis(delay)).await; }
                    }
                    None => { tokio::time::advance(std::time::Duration::from_millis(delay)).await; }
                }
                settle().await;
                let mut out_now: Vec<String> = vec![];
                let mut raw_now: Vec<Vec<Vec<u8>>> = vec![];
                while let Ok(m) = rx_msg.try_recv() {
                    // the sealed batch as broadcast and as handed on: its exact serialized bytes
                    let taps = network::verif::tap_drain();
                    // the i-th handler is the handle of the i-th transmission: it must carry the name of the peer that transmission went to
                    if m.handlers.len() != taps.len() || m.handlers.iter().zip(taps.iter()).any(|((pk, _), (_, a, _))| addr_of(pk) != *a) { pairing_ok = false; }
                    if taps.len() != 2 || taps.iter().any(|(rel, _, b)| !*rel || b[..] != m.batch[..]) { net_ok = false; if std::env::var("HSDBG").is_ok() { eprintln!("taps {:?}", taps.iter().map(|(r,a,b)| (*r,*a,b.len())).collect::<Vec<_>>()); } }
                    match bincode::deserialize::<MempoolMessage>(&m.batch) { Ok(MempoolMessage::Batch(b)) => { out_now.push(coq_list(&b.iter().map(|t| coq_bytes(t)).collect::<Vec<_>>())); for _ in 0..b.len().min(open.len()) { open.remove(0); } raw_now.push(b); }, _ => { out_now.push("[]".into()); raw_now.push(vec![]); } }
                    // Processor: stored and announced under the hash of exactly these bytes
                    let expect = Sha512::digest(&m.batch)[..32].to_vec();
                    tx_batch.send(m.batch.clone()).await.unwrap(); settle().await;
                    match rx_dig.try_recv() { Ok(d) => if d.0.to_vec() != expect { digests_ok = false; }, Err(_) => digests_ok = false }
                    match st.read(expect.clone()).await { Ok(Some(v)) => if v != m.batch { stored_ok = false; }, _ => stored_ok = false }
                }
                if tx_tx.is_closed() { panicked = true; }
                if both {
                    // which of the two ready branches was served first? (either is correct; the observation is split accordingly)
                    let tx = ev.clone().unwrap();
                    let mut with_tx = before.clone(); with_tx.push(tx.clone());
                    let size: usize = with_tx.iter().map(|t| t.len()).sum();
                    let pred_a = vec![with_tx.clone()];
                    let mut pred_b: Vec<Vec<Vec<u8>>> = vec![];
                    if !before.is_empty() { pred_b.push(before.clone()); }
                    if tx.len() >= batch_size { pred_b.push(vec![tx.clone()]); }
                    if raw_now != pred_a && raw_now == pred_b {
                        let nb = if before.is_empty() { 0 } else { 1 };
                        evs_emitted.push(None); evs_emitted.push(Some(tx));
                        sealed.push(out_now[..nb].to_vec()); sealed.push(out_now[nb..].to_vec());
                    } else {
                        evs_emitted.push(Some(tx)); evs_emitted.push(None);
                        if size >= batch_size { sealed.push(out_now); sealed.push(vec![]); } else { sealed.push(vec![]); sealed.push(out_now); }
                    }
                    idx += 2;
                } else {
                    evs_emitted.push(ev.clone());
                    sealed.push(out_now);
                    idx += 1;
                }
                if panicked { break; }
            }
            (sealed, stored_ok, digests_ok, panicked, net_ok, pairing_ok)
        });
        let _ = std::fs::remove_dir_all(&dbpath);
        if !simul.is_empty() { e.stat("simultaneous_tx_and_timer", simul.len() as u64); }
        let evs = evs_emitted;
        let evt: Vec<String> = evs.iter().map(|x| match x { Some(t) => format!("BTx {}", coq_bytes(t)), None => "BTimer".into() }).collect();
        let obs: Vec<String> = sealed.iter().map(|bs| coq_list(bs)).collect();
        e.stat(&format!("batch_size={}", if batch_size == 1 { "1" } else if batch_size < 10 { "2-9" } else { "10+" }), 1);
        e.stat("sealed", sealed.iter().map(|x| x.len() as u64).sum());
        if evs.iter().any(|x| matches!(x, Some(t) if t.is_empty())) { e.stat("has_empty_tx", 1); }
        if panicked { e.stat("impl_panicked", 1); }
        if sealed.iter().any(|x| !x.is_empty()) && seen.insert(evt.join(";")) { e.stat("distinct_nontrivial", 1); }
        e.case(k, "", &format!("batch_case {} {} {} {} {} {}", if bench { "true" } else { "false" }, batch_size, coq_list(&evt), coq_list(&obs), if panicked { "true" } else { "false" },
               coq_list(&[stored_ok, digests_ok, net_ok, pairing_ok].iter().map(|b| if *b { "true" } else { "false" }).collect::<Vec<_>>())),
               json!({"case": k, "bench": bench, "batch_size": batch_size, "events": evs.iter().map(|x| match x { Some(t) => format!("tx {}", hex(t)), None => "timer".into() }).collect::<Vec<_>>(), "impl_panicked": panicked, "empty_tx": evs.iter().any(|x| matches!(x, Some(t) if t.is_empty()))}));
    }
    e.finish(&o.out, "batchmaker", o.seed);
}

// ---------------------------------------------------------------- C12: QuorumWaiter
fn quorumwaiter(o: &Opts) {
    use mempool::verif::{QuorumWaiter, QuorumWaiterMessage};
    let mut e = Emit::new("Guards QuorumWaiterDefs CorrComp CorrQW");
    let mut seen = std::collections::HashSet::new();
    std::panic::set_hook(Box::new(|_| {}));
    for k in 0..o.cases {
        if let Some(only) = o.only { if only != k { continue; } }
        let rt = fresh_rt();
        let mut rng = case_rng(o.seed, 12, k as u64);
        let n = rng.gen_range(1, 9usize);
        let stakes: Vec<u32> = if k % 2 == 0 { vec![1; n] } else { (0..n).map(|_| rng.gen_range(0, 6)).collect() };
        let stakes: Vec<u32> = if stakes.iter().all(|&x| x == 0) { vec![1; n] } else { stakes };
        let keys = sorted_keys(&mut rng, n + 1);
        let com = mempool::Committee::new((0..n).map(|i| (keys[i].0, stakes[i], addr(i), addr(100 + i))).collect(), 1);
        let me = rng.gen_range(0, n);
        let nb = rng.gen_range(1, 4);
        // per batch: the order in which peers acknowledge (a permutation of a subset of the others, plus possibly an unknown peer)
        let mut batches: Vec<Vec<usize>> = vec![];
        for _ in 0..nb {
            let mut others: Vec<usize> = (0..n).filter(|&i| i != me).collect();
            use rand::seq::SliceRandom; others.shuffle(&mut rng);
            if rng.gen_bool(0.2) { others.insert(rng.gen_range(0, others.len() + 1), n); } // unknown authority: stake 0
            batches.push(others);
        }
        let observed: Vec<Option<usize>> = rt.block_on(async {
            let (tx_msg, rx_msg) = tokio::sync::mpsc::channel(100);
            let (tx_batch, mut rx_batch) = tokio::sync::mpsc::channel::<Vec<u8>>(100);
            QuorumWaiter::spawn(com.clone(), stakes[me], rx_msg, tx_batch);
            let mut obs = vec![];
            for (bi, order) in batches.iter().enumerate() {
                let mut senders = vec![]; let mut handlers = vec![];
                for &p in order { let (s, r) = tokio::sync::oneshot::channel::<bytes::Bytes>(); senders.push(Some(s)); handlers.push((keys[p].0, r)); }
                // hand the handlers over in a shuffled order: only the acknowledgement order may matter
                let mut idx: Vec<usize> = (0..handlers.len()).collect(); use rand::seq::SliceRandom; idx.shuffle(&mut rng);
                let mut hs: Vec<Option<(crypto::PublicKey, network::CancelHandler)>> = handlers.into_iter().map(Some).collect();
                let shuffled: Vec<(crypto::PublicKey, network::CancelHandler)> = idx.iter().map(|&i| hs[i].take().unwrap()).collect();
                tx_msg.send(QuorumWaiterMessage { batch: vec![bi as u8], handlers: shuffled }).await.unwrap();
                settle().await;
                let mut at: Option<usize> = None;
                if rx_batch.try_recv().is_ok() { at = Some(usize::MAX); } // forwarded before any acknowledgement
                for (j, s) in senders.iter_mut().enumerate() {
                    let _ = s.take().unwrap().send(bytes::Bytes::from("Ack"));
                    settle().await;
                    if let Ok(b) = rx_batch.try_recv() { if at.is_none() && b == vec![bi as u8] { at = Some(j); } else { at = Some(usize::MAX - 1); } }
                }
                obs.push(at);
            }
            obs
        });
        e.stat(&format!("n={}", n), 1);
        let forwarded = observed.iter().filter(|x| x.is_some()).count();
        e.stat("forwarded", forwarded as u64); e.stat("never_forwarded", (observed.len() - forwarded) as u64);
        let st: Vec<String> = (0..n).map(|i| format!("({},{})", i, stakes[i])).collect();
        let bl: Vec<String> = batches.iter().map(|o| coq_nlist(o.iter().map(|&p| if p == n { 99u128 } else { p as u128 }))).collect();
        let ol: Vec<String> = observed.iter().map(|x| match x { Some(j) if *j >= usize::MAX - 1 => "Some 999999".into(), Some(j) => format!("Some {}", j), None => "None".into() }).collect();
        if n > 1 && seen.insert(format!("{:?}{:?}", stakes, batches)) { e.stat("distinct_nontrivial", 1); }
        e.case(k, "", &format!("qw_case {} {} {} {}", coq_list(&st), me, coq_list(&bl), coq_list(&ol)), json!({"case": k, "stakes": stakes, "me": me, "ack_orders": batches, "forwarded_at": observed.iter().map(|x| x.map(|j| j as i64)).collect::<Vec<_>>() }));
    }
    e.finish(&o.out, "quorumwaiter", o.seed);
}

// ---------------------------------------------------------------- C16: Store
fn store_mode(o: &Opts) {
    use std::cell::RefCell; use std::rc::Rc;
    std::panic::set_hook(Box::new(|_| {}));
    let mut e = Emit::new("StoreDefs CorrComp CorrStore");
    let mut seen = std::collections::HashSet::new();
    for k in 0..o.cases {
        if let Some(only) = o.only { if only != k { continue; } }
        let rt = fresh_rt();
        let mut rng = case_rng(o.seed, 16, k as u64);
        let nkeys = rng.gen_range(1, 5u64);
        let ncmd = rng.gen_range(3, 40);
        let path = format!("{}/db_store_{}_{}", o.out, o.seed, k);
        let _ = std::fs::remove_dir_all(&path);
        let local = tokio::task::LocalSet::new();
        // a panic inside the store task surfaces as a panic of the handle that next talks to it: recorded, not fatal for the harness
        let shared_cmds: Rc<RefCell<Vec<String>>> = Rc::new(RefCell::new(vec![]));
        let sc = shared_cmds.clone();
        let attempt = std::panic::catch_unwind(std::panic::AssertUnwindSafe(|| local.block_on(&rt, async {
            let shared_cmds = sc;
            let mut handles: Vec<store::Store> = vec![];
            let s0 = store::Store::new(&path).unwrap();
            for _ in 0..3 { handles.push(s0.clone()); }
            drop(s0);
            let done: Rc<RefCell<Vec<String>>> = Rc::new(RefCell::new(vec![]));
            let mut tasks: Vec<(usize, tokio::task::JoinHandle<()>)> = vec![];
            let mut cmds = vec![]; let mut outs = vec![];
            let mut bursted = false;
            for id in 0..ncmd {
                let key = rng.gen_range(0, nkeys); let kb = vec![key as u8, 7, 7];
                let h = rng.gen_range(0, handles.len());
                let x: f64 = rng.gen();
                if k % 4 == 2 && !bursted && rng.gen_bool(0.12) {
                    bursted = true;
                    // a burst: more writes than the command channel holds (100), issued back to back through one handle, the reader right behind
                    // (on a key of its own, so that no waiter is woken in the middle of the burst: one observation entry per command)
                    // (more than twice the capacity: writes that could not be queued at once must not be overtaken by what is issued after them)
                    let n = rng.gen_range(205, 290u64);
                    let key = nkeys; let kb = vec![key as u8, 7, 7];
                    for j in 0..n { let v = (j % 200) as u64; handles[h].write(kb.clone(), vec![v as u8]).await; cmds.push(format!("Write {} {}", key, v)); outs.push(coq_list(&Vec::<String>::new())); }
                    let r = handles[h].read(kb).await.unwrap(); cmds.push(format!("Read {} {}", key, id));
                    done.borrow_mut().push(format!("ORead {} {}", id, match r { Some(v) => format!("(Some {})", v[0]), None => "None".into() }));
                } else if x < 0.35 {
                    let v = rng.gen_range(0, 200u64);
                    handles[h].write(kb, vec![v as u8]).await; cmds.push(format!("Write {} {}", key, v));
                } else if x < 0.6 {
                    let r = handles[h].read(kb).await.unwrap(); cmds.push(format!("Read {} {}", key, id));
                    done.borrow_mut().push(format!("ORead {} {}", id, match r { Some(v) => format!("(Some {})", v[0]), None => "None".into() }));
                } else if x < 0.85 {
                    let mut st = handles[h].clone(); let d = done.clone();
                    tasks.push((id, tokio::task::spawn_local(async move { if let Ok(v) = st.notify_read(kb).await { d.borrow_mut().push(format!("ONotify {} {}", id, v[0])); } })));
                    cmds.push(format!("NotifyRead {} {}", key, id));
                } else if x < 0.93 {
                    // abandon a notify-read (its future is dropped, as the payload waiter and the mempool synchronizer do on cleanup);
                    // an already completed one is a no-op in both the model and the store
                    if tasks.is_empty() { cmds.push(format!("Cancel {}", 999_999)); }
                    else { let i = rng.gen_range(0, tasks.len()); let (wid, t) = tasks.remove(i); t.abort(); let _ = t.await; cmds.push(format!("Cancel {}", wid)); }
                } else {
                    // drop every handle and pending waiter, reopen the database
                    for (_, t) in tasks.drain(..) { t.abort(); }
                    handles.clear(); settle().await; settle().await;
                    let mut s1 = None;
                    for _ in 0..200 { match store::Store::new(&path) { Ok(s) => { s1 = Some(s); break; } Err(_) => { settle().await; std::thread::sleep(std::time::Duration::from_millis(5)); } } }
                    let s1 = s1.expect("reopen");
                    for _ in 0..3 { handles.push(s1.clone()); }
                    cmds.push("Reopen".into());
                }
                *shared_cmds.borrow_mut() = cmds.clone();
                settle().await;
                outs.push(coq_list(&done.borrow_mut().drain(..).collect::<Vec<_>>()));
            }
            for (_, t) in tasks.drain(..) { t.abort(); }
            handles.clear(); settle().await;
            (cmds, outs)
        })));
        let (cmds, outs, panicked): (Vec<String>, Vec<String>, bool) = match attempt {
            Ok((c, o)) => (c, o, false),
            Err(_) => { let c = shared_cmds.borrow().clone(); (c, vec![], true) }
        };
        if panicked { e.stat("impl_panicked", 1); }
        let _ = std::fs::remove_dir_all(&path);
        e.stat("commands", cmds.len() as u64);
        for c in &cmds { e.stat(&format!("cmd:{}", c.split(' ').next().unwrap()), 1); }
        if cmds.iter().any(|c| c.starts_with("NotifyRead")) && seen.insert(cmds.join(";")) { e.stat("distinct_nontrivial", 1); }
        if panicked {
            // the store (or a handle) panicked: no model comparison possible; the three flags are all 0 and the commands issued so far are the replay
            e.case(k, "", "verdict_of [0; 0; 0]", json!({"case": k, "commands": cmds, "impl_panicked": true}));
        } else {
            e.case(k, "", &format!("store_case {} {}", coq_list(&cmds), coq_list(&outs)), json!({"case": k, "commands": cmds}));
        }
    }
    e.finish(&o.out, "store", o.seed);
}

// ---------------------------------------------------------------- C18: signatures (differential only: Ed25519 is not modelled)
fn sigs(o: &Opts) {
    use crypto::{Digest, Signature};
    let mut e = Emit::new("CorrComp");
    let flip = |b: &mut [u8], bit: usize| { b[bit / 8] ^= 1 << (bit % 8); };
    let sig_bytes = |s: &Signature| -> Vec<u8> { bincode::serialize(s).unwrap() };
    let sig_from = |b: &[u8]| -> Signature { bincode::deserialize(b).unwrap() };
    let mut seen = 0u64;
    // every call into the verifier is panic-safe here: a panic is an observation (flag 6 and a rejected answer), not a harness failure
    let panicked = std::cell::Cell::new(false);
    let safe = |f: &mut dyn FnMut() -> bool| -> bool {
        match std::panic::catch_unwind(std::panic::AssertUnwindSafe(|| f())) { Ok(b) => b, Err(_) => { panicked.set(true); false } }
    };
    for k in 0..o.cases {
        if let Some(only) = o.only { if only != k { continue; } }
        let mut rng = case_rng(o.seed, 18, k as u64);
        let m = rng.gen_range(1, 6usize);
        let keys = sorted_keys(&mut rng, m + 1);
        let mut d = [0u8; 32]; for x in d.iter_mut() { *x = rng.gen(); }
        let digest = Digest(d);
        let honest: Vec<(crypto::PublicKey, Signature)> = (0..m).map(|i| (keys[i].0, Signature::new(&digest, &keys[i].1))).collect();
        // f1, f2: honest signatures verify, alone and as a batch (also the empty batch: vacuously all members verify)
        panicked.set(false);
        let f1 = honest.iter().all(|(pk, s)| safe(&mut || s.verify(&digest, pk).is_ok()));
        let f2 = safe(&mut || Signature::verify_batch(&digest, &honest).is_ok()) && safe(&mut || Signature::verify_batch(&digest, &Vec::<(crypto::PublicKey, Signature)>::new()).is_ok());
        // f3: single-bit flips of signature, digest or key are rejected individually
        let mut f3 = true; let mut flips = vec![];
        for _ in 0..24 {
            let i = rng.gen_range(0, m); let (pk, s) = honest[i].clone();
            let what = rng.gen_range(0, 3);
            let ok = match what {
                0 => { let mut b = sig_bytes(&s); let bit = if rng.gen_bool(0.3) { 509 + rng.gen_range(0, 3) } else { rng.gen_range(0, 512) }; flip(&mut b, bit); flips.push(format!("sig bit {}", bit)); let sg = sig_from(&b); safe(&mut || sg.verify(&digest, &pk).is_ok()) }
                1 => { let mut dd = digest.0; let bit = rng.gen_range(0, 256); flip(&mut dd, bit); flips.push(format!("digest bit {}", bit)); safe(&mut || s.verify(&Digest(dd), &pk).is_ok()) }
                _ => { let mut kk = pk.0; let bit = rng.gen_range(0, 256); flip(&mut kk, bit); flips.push(format!("key bit {}", bit)); safe(&mut || s.verify(&digest, &crypto::PublicKey(kk)).is_ok()) }
            };
            if ok { f3 = false; }
        }
        // f4: a batch with corrupted members is accepted exactly when every member verifies individually
        let mut f4 = true; let mut corrs = vec![];
        for _ in 0..16 {
            let mut batch = honest.clone();
            let ncorr = if rng.gen_bool(0.2) { 0 } else if rng.gen_bool(0.15) { m } else { 1 };
            let mut pos: Vec<usize> = (0..m).collect(); use rand::seq::SliceRandom; pos.shuffle(&mut rng);
            for &p in pos.iter().take(ncorr) {
                let kind = rng.gen_range(0, 6);
                corrs.push(format!("pos {} kind {}", p, ["sig bit", "sig top bits (malformed scalar)", "key bit (possibly not a curve point)", "signature over another digest", "signature by another key", "all-zero signature"][kind]));
                match kind {
                    0 => { let mut b = sig_bytes(&batch[p].1); flip(&mut b, rng.gen_range(0, 512)); batch[p].1 = sig_from(&b); }
                    1 => { let mut b = sig_bytes(&batch[p].1); flip(&mut b, 509 + rng.gen_range(0, 3)); batch[p].1 = sig_from(&b); }
                    2 => { flip(&mut batch[p].0 .0, rng.gen_range(0, 256)); }
                    3 => { let mut dd = digest.0; dd[0] ^= 1; batch[p].1 = Signature::new(&Digest(dd), &keys[p].1); }
                    4 => { batch[p].1 = Signature::new(&digest, &keys[m].1); }
                    _ => { batch[p].1 = Signature::default(); }
                }
            }
            let each = batch.iter().all(|(pk, s)| safe(&mut || s.verify(&digest, pk).is_ok()));
            let all = safe(&mut || Signature::verify_batch(&digest, &batch).is_ok());
            if each != all { f4 = false; }
        }
        // f5: the signature service signs what Signature::new signs (Ed25519 is deterministic), and it verifies
        let rt = fresh_rt();
        // ... also when several holders of the service (core, proposer) ask concurrently and some requests are abandoned half-way
        // (a dropped future): every answer is the signature of the digest THAT caller asked for
        let nreq = rng.gen_range(2, 7usize);
        let abandon: Vec<bool> = (0..nreq).map(|_| rng.gen_bool(0.35)).collect();
        let pk0 = keys[0].0;
        let f5 = rt.block_on(async { let mut svc = crypto::SignatureService::new(clone_secret(&keys[0].1)); let s = svc.request_signature(digest.clone()).await;
                                     let mut ok = s.verify(&digest, &keys[0].0).is_ok() && sig_bytes(&s) == sig_bytes(&honest[0].1);
                                     let mut tasks = vec![];
                                     for i in 0..nreq {
                                         let mut c = svc.clone(); let mut dd = digest.0; dd[1] = dd[1].wrapping_add(1 + i as u8); let di = Digest(dd);
                                         if abandon[i] {
                                             // polled once (the request is queued), then dropped: the losing branch of a select!, an aborted task
                                             tokio::select! { biased; _ = c.request_signature(di.clone()) => (), _ = std::future::ready(()) => () }
                                         } else {
                                             tasks.push(tokio::spawn(async move { let s = c.request_signature(di.clone()).await; s.verify(&di, &pk0).is_ok() }));
                                         }
                                     }
                                     for t in tasks.into_iter() { match t.await { Ok(v) => if !v { ok = false; }, Err(_) => { ok = false; } } }
                                     let mut dd = digest.0; dd[2] ^= 0x55; let dl = Digest(dd);
                                     let s = svc.request_signature(dl.clone()).await; if s.verify(&dl, &pk0).is_err() { ok = false; }
                                     ok });
        let f6 = !panicked.get();
        e.stat(&format!("batch size {}", m), 1); seen += 1;
        let fl = |b: bool| if b { "1" } else { "0" };
        e.case(k, "", &format!("verdict_of [{}; {}; {}; {}; {}; {}]", fl(f1), fl(f2), fl(f3), fl(f4), fl(f5), fl(f6)), json!({"case": k, "batch_size": m, "bit_flips": flips, "batch_corruptions": corrs, "flags": [f1, f2, f3, f4, f5, f6], "flags_meaning": ["honest signatures verify", "honest batch (and the empty batch) verifies", "every single-bit flip is rejected", "a batch is accepted iff every member verifies", "the signature service signs like Signature::new, also under concurrent and abandoned requests", "no verification call panicked"]}));
    }
    e.stat("distinct_nontrivial", seen);
    e.finish(&o.out, "sigs", o.seed);
}

fn main() {
    let o = opts();
    match o.mode.as_str() {
        "sigs" => sigs(&o),
        "quorum" => quorum(&o),
        "leader" => leader(&o),
        "aggregator" => aggregator(&o),
        "batchmaker" => batchmaker(&o),
        "quorumwaiter" => quorumwaiter(&o),
        "store" => store_mode(&o),
        m => { eprintln!("unknown mode {}", m); std::process::exit(2); }
    }
}
