// Receiver-side contract of the reliable channel (property C14, also used by C12): the REAL `network::Receiver` (one runner per
// connection) serves the REAL `network::ReliableSender` over loopback TCP. `ReliableSender` pairs replies with messages purely by
// position, so the receiver must answer every message it keeps the connection open for: a message its handler REJECTS (dispatch
// returns Err before replying) must end the connection, otherwise every later reply on that connection is attributed to the wrong
// message.
//
// mode `pair`: one case = one receiver (port derived from the case number) whose handler replies "ack"+id to ordinary messages and
// rejects poisoned ones (as the consensus handler does with an undecodable frame), one sender, a seeded sequence of 3..10 messages
// of which about a quarter are poisoned, all handles kept. After a pause the handles of the poisoned messages are inspected (none may
// have resolved) and dropped (the sender then stops re-sending them), and every ordinary message must be acknowledged with the reply
// to ITSELF. Monitors only (no model evaluation): [pairing, no poisoned handle resolved, every ordinary message reached the handler,
// every ordinary handle resolved]. A time-out makes the case inconclusive unless a wrong pairing was already seen.
use async_trait::async_trait;
use bytes::Bytes;
use futures::sink::SinkExt as _;
use futures::FutureExt;
use hsverif::*;
use network::{MessageHandler, Receiver, ReliableSender, Writer};
use rand::Rng;
use serde_json::json;
use std::error::Error;
use std::net::SocketAddr;
use std::sync::{Arc, Mutex};
use std::time::Duration;
use tokio::time::{sleep, timeout};

#[derive(Clone)]
struct H { seen: Arc<Mutex<Vec<u32>>> }
#[derive(Debug)]
struct Rejected;
impl std::fmt::Display for Rejected { fn fmt(&self, f: &mut std::fmt::Formatter) -> std::fmt::Result { write!(f, "rejected") } }
impl Error for Rejected {}

#[async_trait]
impl MessageHandler for H {
    async fn dispatch(&self, writer: &mut Writer, message: Bytes) -> Result<(), Box<dyn Error>> {
        if message.len() < 5 || message[4] == 0xEE { return Err(Box::new(Rejected)); }
        let id = u32::from_be_bytes([message[0], message[1], message[2], message[3]]);
        self.seen.lock().unwrap().push(id);
        let mut r = b"ack".to_vec(); r.extend_from_slice(&message[0..4]);
        let _ = writer.send(Bytes::from(r)).await;
        Ok(())
    }
}

struct Out { k: usize, inconclusive: Option<String>, flags: [bool; 4], replay: serde_json::Value, poisoned: u64, n: u64 }

async fn one_case(seed: u64, k: usize, port_base: u16) -> Out {
    let mut rng = case_rng(seed, 24, k as u64);
    let addr: SocketAddr = format!("127.0.0.1:{}", port_base + (k % 20_000) as u16).parse().unwrap();
    let seen = Arc::new(Mutex::new(vec![]));
    Receiver::spawn(addr, H { seen: seen.clone() });
    sleep(Duration::from_millis(30)).await;
    let mut sender = ReliableSender::new();
    let n = rng.gen_range(3, 11usize);
    // the first message is ordinary in half of the cases; at least one poisoned message in three quarters of them
    let mut poison: Vec<bool> = (0..n).map(|i| if i == 0 { rng.gen_bool(0.5) } else { rng.gen_bool(0.25) }).collect();
    if rng.gen_bool(0.75) && !poison.iter().any(|&p| p) { let i = rng.gen_range(0, n - 1); poison[i] = true; }
    let mut handles = vec![];
    let mut script = vec![];
    for i in 0..n {
        let mut m = (i as u32).to_be_bytes().to_vec(); m.push(if poison[i] { 0xEE } else { 0x01 });
        let pad = rng.gen_range(0, 40); m.extend((0..pad).map(|_| rng.gen::<u8>()));
        handles.push(Some(sender.send(addr, Bytes::from(m)).await));
        script.push(format!("send {}{}", i, if poison[i] { " (rejected by the handler)" } else { "" }));
        if rng.gen_bool(0.3) { sleep(Duration::from_millis(rng.gen_range(1, 15))).await; }
    }
    sleep(Duration::from_millis(200)).await;
    // poisoned messages: their handles must not have resolved; drop them so that the sender stops re-sending
    let mut poison_resolved = vec![];
    let mut wrong = vec![];
    for i in 0..n {
        if poison[i] {
            if let Some(mut h) = handles[i].take() {
                if let Some(r) = (&mut h).now_or_never() { poison_resolved.push((i, r.map(|b| b.to_vec()).unwrap_or_default())); }
            }
        }
    }
    script.push("drop the handles of the rejected messages".into());
    let mut unresolved = vec![];
    let mut inconclusive = None;
    for i in 0..n {
        if let Some(h) = handles[i].take() {
            match timeout(Duration::from_secs(20), h).await {
                Ok(Ok(b)) => { let mut exp = b"ack".to_vec(); exp.extend_from_slice(&(i as u32).to_be_bytes()); if b.to_vec() != exp { wrong.push((i, b.to_vec())); } }
                Ok(Err(_)) => unresolved.push(i),
                Err(_) => { unresolved.push(i); inconclusive = Some(format!("timeout waiting for the acknowledgement of message {}", i)); break; }
            }
        }
    }
    let seen_ids: Vec<u32> = seen.lock().unwrap().clone();
    let delivered = (0..n).all(|i| poison[i] || seen_ids.contains(&(i as u32)));
    let pairing = wrong.is_empty();
    let flags = [pairing, poison_resolved.is_empty(), delivered || inconclusive.is_some(), unresolved.is_empty() || inconclusive.is_some()];
    // a wrong pairing or a resolved poisoned handle is conclusive whatever else timed out
    if !pairing || !poison_resolved.is_empty() { inconclusive = None; }
    let replay = json!({"case": k, "port": addr.port(), "messages": n, "rejected": poison, "script": script,
        "wrong_pairings": wrong.iter().map(|(i, b)| format!("handle {} resolved with {:?}", i, String::from_utf8_lossy(&b[..3.min(b.len())]).to_string() + &format!("{:?}", &b[3.min(b.len())..]))).collect::<Vec<_>>(),
        "rejected_handles_resolved": poison_resolved.iter().map(|(i, _)| *i).collect::<Vec<_>>(), "handler_saw": seen_ids, "unresolved": unresolved,
        "flags_meaning": ["every resolved handle got the reply to its own message", "no handle of a rejected message resolved", "every ordinary message reached the handler", "every ordinary handle resolved"],
        "inconclusive": inconclusive.is_some()});
    Out { k, inconclusive, flags, replay, poisoned: poison.iter().filter(|&&p| p).count() as u64, n: n as u64 }
}

fn main() {
    let o = opts();
    let port_base: u16 = o.rest.iter().position(|a| a == "--port-base").map(|i| o.rest[i + 1].parse().unwrap()).unwrap_or(24_000);
    let rt = tokio::runtime::Builder::new_multi_thread().worker_threads(4).enable_all().build().unwrap();
    let mut outs: Vec<Out> = rt.block_on(async {
        let mut js = vec![];
        for k in 0..o.cases {
            if let Some(only) = o.only { if only != k { continue; } }
            let seed = o.seed;
            js.push(tokio::spawn(async move { one_case(seed, k, port_base).await }));
        }
        let mut v = vec![]; for j in js { v.push(j.await.expect("case task panicked")); } v
    });
    outs.sort_by_key(|c| c.k);
    let mut e = Emit::new("CorrReliable");
    for c in outs {
        e.stat("messages", c.n); e.stat("rejected messages", c.poisoned);
        if c.inconclusive.is_some() { e.stat("inconclusive", 1); e.cases.push(c.replay); continue; }
        if c.poisoned > 0 { e.stat("distinct_nontrivial", 1); }
        let fl = |b: bool| if b { "1" } else { "0" };
        e.case(c.k, "", &format!("rverdict_of [{}; {}; {}; {}]", fl(c.flags[0]), fl(c.flags[1]), fl(c.flags[2]), fl(c.flags[3])), c.replay);
    }
    e.finish(&o.out, "recvpair", o.seed);
}
