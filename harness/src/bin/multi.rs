// Multi-node adversarial harness for agreement (C01). One scenario = a committee of n in 4..7 with equal stakes,
// f = (n-1)/3 Byzantine members chosen by the seed, and one REAL `Core` (+ real Proposer, Synchronizer,
// MempoolDriver/PayloadWaiter, Store, SignatureService) per honest member, all on one current-thread runtime with
// a paused clock and the network tap. The harness is the network and the Byzantine members: every message an honest
// node emits goes into a pool of in-flight (destination, message) pairs and a seeded adversarial scheduler decides
// what happens next (deliver any in-flight message, again or never; fire a timer; let a node take a block from its
// loop-back pool; let the Byzantine members send something). Byzantine members sign with their own keys only and
// otherwise reuse honest signatures that were already observed on the wire (`Kb`).
// Per honest node the abstract event list and the observations are recorded exactly as in step.rs and judged by
// `step_verdict`; the scenario as a whole is judged by `multi_verdict` (coq/CorrMulti.v).
//
// Usage:  multi run --seed S --cases K --out DIR [--only k] [--script fair|equivocation|double_vote|stale_tc|nonconsecutive|partition|random] [--hex]
// Scenario k uses strategy STRATS[k mod 8] unless --script forces one. Output: cases_multi_{0..7}.v, meta_multi_{0..7}.json.
// Case numbers: 10*k + rank = the step-mode case of honest node `rank` of scenario k (layout of step_verdict);
//               10*k + 9    = the scenario verdict [all; per-node correspondence; agreement; own logs are chains; one wire vote per round]
//               (followed in the Coq output by a (CONFLICT, 10*k+9, [round; author; round; author]) line naming two conflicting commits).
// The meta entry of case 10*k+9 holds the readable schedule (who received what, when, from whom, and what it did), the commit
// logs, and the serialized messages the Byzantine members crafted (all messages with --hex); every random choice derives from
// case_rng(seed, 11, k), so `--only k` replays scenario k exactly.
use consensus::verif::*;
use consensus::Committee;
use crypto::Hash as _;
use crypto::{Digest, PublicKey, SecretKey, Signature, SignatureService};
use futures::FutureExt;
use hsverif::*;
use rand::rngs::StdRng;
use rand::seq::SliceRandom;
use rand::Rng;
use serde_json::json;
use std::collections::{BTreeMap, BTreeSet, HashMap};
use std::fmt::Write as _;
use store::Store;
use tokio::sync::mpsc::{channel, Receiver, Sender};

// ------------------------------------------------------------------------------------------ abstraction
// (as in step.rs; one instance is shared by all nodes of a scenario, so a block/digest/signature has one name)
struct Abs {
    keys: Vec<(PublicKey, SecretKey)>, // sorted by public key: index = authority id (rank)
    byz: Vec<usize>,                   // the only ranks the harness may sign for
    digests: HashMap<[u8; 32], String>,
    sigs: HashMap<Vec<u8>, String>,
    junk: u64,
    defs: String,
    nblk: usize,
    bnames: HashMap<Vec<u8>, String>,
}

fn sig_bytes(s: &Signature) -> Vec<u8> { bincode::serialize(s).unwrap() }
fn batch_digest(k: u8) -> Digest { Digest([k; 32]) }
fn batch_id(d: &Digest) -> Option<u8> { if d.0[0] != 0 && d.0.iter().all(|&x| x == d.0[0]) { Some(d.0[0]) } else { None } }
fn is_genesis(b: &Block) -> bool { b.author == PublicKey::default() && b.round == 0 && b.qc == QC::genesis() }

impl Abs {
    fn id(&self, pk: &PublicKey) -> usize { self.keys.iter().position(|(k, _)| k == pk).unwrap_or(99) }
    fn pay(&mut self, p: &[Digest]) -> String {
        coq_list(&p.iter().map(|d| match batch_id(d) { Some(k) => k.to_string(), None => "255".into() }).collect::<Vec<_>>())
    }
    fn dg(&mut self, d: &Digest) -> String {
        if d.0 == [0u8; 32] { return "DZero".into(); }
        if let Some(s) = self.digests.get(&d.0) { return s.clone(); }
        self.junk += 1; let s = format!("(DOther {})", self.junk); self.digests.insert(d.0, s.clone()); s
    }
    fn sg(&mut self, s: &Signature) -> String {
        if let Some(x) = self.sigs.get(&sig_bytes(s)) { return x.clone(); }
        self.junk += 1; let t = format!("(SigJunk {})", self.junk); self.sigs.insert(sig_bytes(s), t.clone()); t
    }
    fn qc(&mut self, q: &QC) -> String {
        // a signature not seen before is classified by verifying it against the content it should sign here
        for (pk, s) in &q.votes {
            if !self.sigs.contains_key(&sig_bytes(s)) {
                let v = Vote { hash: q.hash.clone(), round: q.round, author: *pk, signature: Signature::default() };
                if s.verify(&v.digest(), pk).is_ok() { let t = format!("(SigOf {} (CVote {} {}))", self.id(pk), self.dg(&q.hash), q.round); self.sigs.insert(sig_bytes(s), t); }
            }
        }
        let votes: Vec<String> = q.votes.iter().map(|(pk, s)| format!("({}, {})", self.id(pk), self.sg(s))).collect();
        format!("(mkQC {} {} {})", self.dg(&q.hash), q.round, coq_list(&votes))
    }
    fn tc(&mut self, t: &TC) -> String {
        for (pk, s, hq) in &t.votes {
            if !self.sigs.contains_key(&sig_bytes(s)) {
                let x = Timeout { high_qc: QC { hash: Digest::default(), round: *hq, votes: vec![] }, round: t.round, author: *pk, signature: Signature::default() };
                if s.verify(&x.digest(), pk).is_ok() { self.sigs.insert(sig_bytes(s), format!("(SigOf {} (CTimeout {} {}))", self.id(pk), t.round, hq)); }
            }
        }
        let votes: Vec<String> = t.votes.iter().map(|(pk, s, r)| format!("({}, {}, {})", self.id(pk), self.sg(s), r)).collect();
        format!("(mkTC {} {})", t.round, coq_list(&votes))
    }
    fn otc(&mut self, t: &Option<TC>) -> String { match t { Some(t) => format!("(Some {})", self.tc(t)), None => "None".into() } }
    // register a block: define its digest term and the block term by name
    fn block(&mut self, b: &Block) -> String {
        if is_genesis(b) { return "block_genesis".into(); }
        let key = bincode::serialize(b).unwrap();
        if let Some(n) = self.bnames.get(&key) { return n.clone(); }
        let d = b.digest();
        if !self.digests.contains_key(&d.0) {
            let parent = self.dg(&b.qc.hash);
            let name = format!("d{}", self.nblk);
            let pl = self.pay(&b.payload);
            writeln!(self.defs, "Definition {} := DBlk {} {} {} {}.", name, self.id(&b.author), b.round, pl, parent).unwrap();
            self.digests.insert(d.0, name);
        }
        let dn = self.dg(&d);
        if b.signature.verify(&d, &b.author).is_ok() {
            let a = self.id(&b.author);
            self.sigs.insert(sig_bytes(&b.signature), format!("(SigOf {} (CBlock {}))", a, dn));
        }
        let name = format!("b{}", self.nblk); self.nblk += 1;
        let pl = self.pay(&b.payload);
        let term = format!("mkBlock {} {} {} {} {} {}", self.qc(&b.qc), self.otc(&b.tc), self.id(&b.author), b.round, pl, self.sg(&b.signature));
        writeln!(self.defs, "Definition {} := {}.", name, term).unwrap();
        self.bnames.insert(key, name.clone());
        name
    }
    fn vote(&mut self, v: &Vote) -> String {
        if v.signature.verify(&v.digest(), &v.author).is_ok() {
            let t = format!("(SigOf {} (CVote {} {}))", self.id(&v.author), self.dg(&v.hash), v.round);
            self.sigs.insert(sig_bytes(&v.signature), t);
        }
        format!("(mkVote {} {} {} {})", self.dg(&v.hash), v.round, self.id(&v.author), self.sg(&v.signature))
    }
    fn timeout(&mut self, t: &Timeout) -> String {
        if t.signature.verify(&t.digest(), &t.author).is_ok() {
            let s = format!("(SigOf {} (CTimeout {} {}))", self.id(&t.author), t.round, t.high_qc.round);
            self.sigs.insert(sig_bytes(&t.signature), s);
        }
        format!("(mkTimeout {} {} {} {})", self.qc(&t.high_qc), t.round, self.id(&t.author), self.sg(&t.signature))
    }
    // ---- signatures the harness makes: Byzantine keys ONLY ----
    fn byz_key(&self, a: usize) -> (PublicKey, &SecretKey) { assert!(self.byz.contains(&a), "the harness signs for Byzantine members only"); (self.keys[a].0, &self.keys[a].1) }
    fn sign_vote(&mut self, a: usize, hash: &Digest, round: u64) -> Signature {
        let (pk, sk) = self.byz_key(a);
        let v = Vote { hash: hash.clone(), round, author: pk, signature: Signature::default() };
        let s = Signature::new(&v.digest(), sk);
        let t = format!("(SigOf {} (CVote {} {}))", a, self.dg(hash), round);
        self.sigs.insert(sig_bytes(&s), t); s
    }
    fn sign_timeout(&mut self, a: usize, round: u64, hq: u64) -> Signature {
        let (pk, sk) = self.byz_key(a);
        let t = Timeout { high_qc: QC { hash: Digest::default(), round: hq, votes: vec![] }, round, author: pk, signature: Signature::default() };
        let s = Signature::new(&t.digest(), sk);
        self.sigs.insert(sig_bytes(&s), format!("(SigOf {} (CTimeout {} {}))", a, round, hq)); s
    }
    fn mk_vote(&mut self, a: usize, b: &Block) -> Vote {
        let s = self.sign_vote(a, &b.digest(), b.round);
        Vote { hash: b.digest(), round: b.round, author: self.keys[a].0, signature: s }
    }
    fn mk_timeout(&mut self, a: usize, round: u64, hq: QC) -> Timeout {
        let s = self.sign_timeout(a, round, hq.round);
        Timeout { high_qc: hq, round, author: self.keys[a].0, signature: s }
    }
    fn mk_block(&mut self, a: usize, qc: QC, tc: Option<TC>, round: u64, payload: Vec<Digest>) -> Block {
        let (pk, _) = self.byz_key(a);
        let b = Block { qc, tc, author: pk, round, payload, signature: Signature::default() };
        let signature = Signature::new(&b.digest(), self.byz_key(a).1);
        let b = Block { signature, ..b };
        let _ = self.block(&b);
        b
    }
}

// ------------------------------------------------------------------------------------------ the wire
#[derive(Clone)]
enum Msg { Propose(Block), Vote(Vote), Timeout(Timeout), TC(TC), Sync(Digest, usize, usize) } // Sync(digest, requester, hops)
impl Msg {
    fn round(&self) -> u64 { match self { Msg::Propose(b) => b.round, Msg::Vote(v) => v.round, Msg::Timeout(t) => t.round, Msg::TC(t) => t.round, Msg::Sync(..) => 0 } }
    fn kind(&self) -> u8 { match self { Msg::Propose(_) => b'P', Msg::Vote(_) => b'V', Msg::Timeout(_) => b'T', Msg::TC(_) => b'C', Msg::Sync(..) => b'S' } }
    fn wire(&self, keys: &[(PublicKey, SecretKey)]) -> ConsensusMessage {
        match self {
            Msg::Propose(b) => ConsensusMessage::Propose(b.clone()), Msg::Vote(v) => ConsensusMessage::Vote(v.clone()),
            Msg::Timeout(t) => ConsensusMessage::Timeout(t.clone()), Msg::TC(t) => ConsensusMessage::TC(t.clone()),
            Msg::Sync(d, who, _) => ConsensusMessage::SyncRequest(d.clone(), keys[*who].0),
        }
    }
}
#[derive(Clone)]
struct Flight { id: usize, from: usize, to: usize, msg: Msg, crafted: bool }

// What the adversary knows: every block seen, and every HONEST signature seen on the wire (in votes, timeouts and
// inside the certificates of blocks, timeouts and TC messages), each checked once against the content it signs.
#[derive(Default)]
struct Kb {
    blocks: Vec<Block>,
    idx: BTreeMap<[u8; 32], usize>,
    votes: BTreeMap<([u8; 32], u64), BTreeMap<usize, Signature>>,
    touts: BTreeMap<u64, Vec<(usize, u64, Signature)>>, // round -> (author, reported high-QC round, signature)
    seen_sig: BTreeSet<Vec<u8>>,
}

// ------------------------------------------------------------------------------------------ the real nodes
// yields after every step so that the spawned tasks (store, synchronizer, payload waiter, proposer, signature service) run to
// quiescence; a single yield already runs every ready task until none is left, the rest is margin (MULTI_SETTLE overrides)
fn settle_rounds() -> usize { thread_local! { static N: usize = std::env::var("MULTI_SETTLE").ok().and_then(|x| x.parse().ok()).unwrap_or(32); } N.with(|n| *n) }
async fn settle() { for _ in 0..settle_rounds() { tokio::task::yield_now().await; } }
fn drain<T>(rx: &mut Receiver<T>) -> Vec<T> { let mut v = vec![]; while let Ok(x) = rx.try_recv() { v.push(x); } v }

struct Node {
    name: PublicKey,
    core: Core,
    store: Store,
    rx_loopback: Receiver<Block>,
    rx_proposer: Receiver<ProposerMessage>,
    tx_prop_real: Sender<ProposerMessage>,
    rx_mempool: Receiver<mempool::ConsensusMempoolMessage>,
    rx_commit: Receiver<Block>,
    tx_digest: Sender<Digest>,
    _keep: (Sender<ConsensusMessage>, Sender<Block>),
    pool: Vec<Block>,
    evs: Vec<String>, obs: Vec<String>, human: Vec<String>,
    commits: Vec<Block>, votes: usize, timers: usize, dead: bool, path: String,
}

enum NEv { Boot, Msg(Msg), Timer, Loop(usize), Batch(u8), Dig(u8) }

#[derive(Clone, Copy, PartialEq)]
enum ByzMode { Silent, Helpful }

struct World {
    n: usize, q: usize, byz: Vec<usize>, honest: Vec<usize>,
    nodes: Vec<Option<Node>>,
    st: Vec<(u64, u64, u64, u64)>, // last snapshot per rank: round, last_voted, last_committed, high_qc.round
    abs: Abs, kb: Kb,
    flights: Vec<Flight>, done: Vec<Flight>, next_id: usize,
    t: usize, budget: usize,
    sched: Vec<String>, hexmsgs: BTreeMap<String, String>, with_hex: bool,
    rng: StdRng, stats: BTreeMap<String, u64>,
    byz_mode: ByzMode, byz_seen: usize, byz_proposed: BTreeSet<u64>, byz_timed: BTreeSet<u64>, byz_skip: BTreeSet<u64>,
    byz_ignore: BTreeSet<[u8; 32]>, // blocks (and, as they appear, their descendants) the cooperating Byzantine members neither vote for, certify nor extend
    p_dup: f64, p_drop: f64,
}

type Allow<'a> = &'a dyn Fn(&World, &Flight) -> bool;
type Until<'a> = &'a dyn Fn(&World) -> bool;

impl World {
    fn leader(&self, r: u64) -> usize { (r as usize) % self.n }
    fn is_byz(&self, a: usize) -> bool { self.byz.contains(&a) }
    fn stat(&mut self, k: &str, v: u64) { *self.stats.entry(k.to_string()).or_insert(0) += v; }
    fn note(&mut self, s: String) { self.sched.push(format!("t{:03} {}", self.t, s)); }
    fn pool_len(&self, i: usize) -> usize { self.nodes[i].as_ref().map(|x| x.pool.len()).unwrap_or(0) }
    fn round(&self, i: usize) -> u64 { self.st[i].0 }
    fn min_round(&self) -> u64 { self.honest.iter().map(|&i| self.st[i].0).min().unwrap_or(1) }
    fn max_round(&self) -> u64 { self.honest.iter().map(|&i| self.st[i].0).max().unwrap_or(1) }
    fn total_commits(&self) -> usize { self.honest.iter().map(|&i| self.nodes[i].as_ref().unwrap().commits.len()).sum() }
    fn max_commit_round(&self, set: &[usize]) -> u64 { set.iter().map(|&i| self.st[i].2).max().unwrap_or(0) }
    fn bdesc(&mut self, b: &Block) -> String {
        let nm = self.abs.block(b);
        format!("{}(r{} by {} qc r{}{}{})", nm, b.round, self.abs.id(&b.author), b.qc.round, b.tc.as_ref().map(|t| format!(" tc r{} hq{:?}", t.round, t.high_qc_rounds())).unwrap_or_default(),
            if b.payload.is_empty() { String::new() } else { format!(" payload {}", self.abs.pay(&b.payload)) })
    }
    fn mdesc(&mut self, m: &Msg) -> String {
        match m {
            Msg::Propose(b) => format!("propose {}", self.bdesc(b)),
            Msg::Vote(v) => { let d = self.abs.dg(&v.hash); format!("vote r{} by {} for {}", v.round, self.abs.id(&v.author), d) }
            Msg::Timeout(t) => format!("timeout r{} by {} hq r{}", t.round, self.abs.id(&t.author), t.high_qc.round),
            Msg::TC(t) => format!("tc r{} hq{:?} signers {:?}", t.round, t.high_qc_rounds(), t.votes.iter().map(|x| self.abs.id(&x.0)).collect::<Vec<_>>()),
            Msg::Sync(d, who, _) => { let d = self.abs.dg(d); format!("sync-request {} for {}", d, who) }
        }
    }

    // ---------------------------------------------------------------------------------- knowledge base
    fn observe_qc(&mut self, q: &QC) {
        for (pk, s) in &q.votes {
            let a = self.abs.id(pk);
            if a >= self.n || self.is_byz(a) || !self.kb.seen_sig.insert(sig_bytes(s)) { continue; }
            let v = Vote { hash: q.hash.clone(), round: q.round, author: *pk, signature: Signature::default() };
            if s.verify(&v.digest(), pk).is_ok() { self.kb.votes.entry((q.hash.0, q.round)).or_default().insert(a, s.clone()); }
        }
    }
    fn observe_tentry(&mut self, round: u64, pk: &PublicKey, s: &Signature, hq: u64) {
        let a = self.abs.id(pk);
        if a >= self.n || self.is_byz(a) || !self.kb.seen_sig.insert(sig_bytes(s)) { return; }
        let x = Timeout { high_qc: QC { hash: Digest::default(), round: hq, votes: vec![] }, round, author: *pk, signature: Signature::default() };
        if s.verify(&x.digest(), pk).is_ok() { self.kb.touts.entry(round).or_default().push((a, hq, s.clone())); }
    }
    fn observe_block(&mut self, b: &Block) {
        let d = b.digest();
        if !self.kb.idx.contains_key(&d.0) { self.kb.idx.insert(d.0, self.kb.blocks.len()); self.kb.blocks.push(b.clone()); }
        if self.byz_ignore.contains(&b.qc.hash.0) { self.byz_ignore.insert(d.0); }
        self.observe_qc(&b.qc);
        if let Some(tc) = &b.tc { for (pk, s, hq) in &tc.votes { self.observe_tentry(tc.round, pk, s, *hq); } }
    }
    fn observe(&mut self, m: &Msg) {
        match m {
            Msg::Propose(b) => self.observe_block(b),
            Msg::Vote(v) => { let q = QC { hash: v.hash.clone(), round: v.round, votes: vec![(v.author, v.signature.clone())] }; self.observe_qc(&q); }
            Msg::Timeout(t) => { self.observe_qc(&t.high_qc); self.observe_tentry(t.round, &t.author, &t.signature, t.high_qc.round); }
            Msg::TC(tc) => { for (pk, s, hq) in &tc.votes { self.observe_tentry(tc.round, pk, s, *hq); } }
            Msg::Sync(..) => {}
        }
    }
    fn known_block(&self, d: &Digest) -> Option<Block> { self.kb.idx.get(&d.0).map(|&k| self.kb.blocks[k].clone()) }
    fn blocks_of_round(&self, r: u64) -> Vec<Block> { self.kb.blocks.iter().filter(|b| b.round == r).cloned().collect() }
    fn honest_votes(&self, d: &Digest, round: u64) -> Vec<usize> { self.kb.votes.get(&(d.0, round)).map(|m| m.keys().copied().collect()).unwrap_or_default() }
    // a QC for (digest, round) from the observed honest votes plus the Byzantine members' own
    fn qc_for(&mut self, d: &Digest, round: u64) -> Option<QC> {
        if round == 0 { return Some(QC::genesis()); }
        let mut votes: Vec<(PublicKey, Signature)> = self.kb.votes.get(&(d.0, round)).map(|m| m.iter().map(|(&a, s)| (self.abs.keys[a].0, s.clone())).collect()).unwrap_or_default();
        if votes.len() + self.byz.len() < self.q { return None; }
        for a in self.byz.clone() { let s = self.abs.sign_vote(a, d, round); votes.push((self.abs.keys[a].0, s)); }
        Some(QC { hash: d.clone(), round, votes })
    }
    fn qc_of(&mut self, b: &Block) -> Option<QC> { if is_genesis(b) { Some(QC::genesis()) } else { self.qc_for(&b.digest(), b.round) } }
    // the highest certificate the adversary can put together right now
    fn best_qc(&mut self) -> QC {
        let mut bs: Vec<(u64, Digest)> = self.kb.blocks.iter().map(|b| (b.round, b.digest())).filter(|x| !self.byz_ignore.contains(&(x.1).0)).collect();
        bs.sort_by(|a, b| b.0.cmp(&a.0));
        for (r, d) in bs { if let Some(q) = self.qc_for(&d, r) { return q; } }
        QC::genesis()
    }
    // a TC for `round` from the observed honest timeouts (per author the LOWEST reported round, optionally only those
    // reporting at most `max_hq`) plus the Byzantine members' own, reporting `byz_hq`
    fn tc_for(&mut self, round: u64, max_hq: Option<u64>, byz_hq: u64) -> Option<TC> {
        let mut best: BTreeMap<usize, (u64, Signature)> = BTreeMap::new();
        if let Some(l) = self.kb.touts.get(&round) {
            for (a, hq, s) in l {
                if max_hq.map_or(false, |m| *hq > m) { continue; }
                if best.get(a).map_or(true, |(h, _)| *hq < *h) { best.insert(*a, (*hq, s.clone())); }
            }
        }
        if best.len() + self.byz.len() < self.q { return None; }
        let mut votes: Vec<(PublicKey, Signature, u64)> = best.into_iter().map(|(a, (hq, s))| (self.abs.keys[a].0, s, hq)).collect();
        for a in self.byz.clone() { let s = self.abs.sign_timeout(a, round, byz_hq); votes.push((self.abs.keys[a].0, s, byz_hq)); }
        Some(TC { round, votes })
    }

    // ---------------------------------------------------------------------------------- Byzantine sends
    fn send(&mut self, from: usize, to: &[usize], msg: Msg) {
        assert!(self.is_byz(from));
        self.observe(&msg);
        let d = self.mdesc(&msg);
        let to: Vec<usize> = to.iter().copied().filter(|x| !self.is_byz(*x)).collect();
        if to.is_empty() { return; }
        let mut ids = vec![];
        for &x in &to {
            let id = self.next_id; self.next_id += 1; ids.push(id);
            self.hexmsgs.insert(format!("#{}", id), hex(&bincode::serialize(&msg.wire(&self.abs.keys)).unwrap()));
            self.flights.push(Flight { id, from, to: x, msg: msg.clone(), crafted: true });
        }
        self.stat(&format!("byz:{}", d.split(' ').next().unwrap()), 1);
        self.note(format!("BYZ {} crafts {} -> to {:?} as #{:?}", from, d, to, ids));
    }
    fn byz_block(&mut self, a: usize, qc: QC, tc: Option<TC>, round: u64, payload: Vec<Digest>, to: &[usize]) -> Block {
        let b = self.abs.mk_block(a, qc, tc, round, payload);
        self.send(a, to, Msg::Propose(b.clone()));
        b
    }
    fn byz_votes(&mut self, b: &Block) {
        let nl = self.leader(b.round + 1);
        for a in self.byz.clone() { let v = self.abs.mk_vote(a, b); self.send(a, &[nl], Msg::Vote(v)); }
    }
    fn byz_timeouts(&mut self, round: u64, hq: &QC, to: &[usize]) {
        for a in self.byz.clone() { let t = self.abs.mk_timeout(a, round, hq.clone()); self.send(a, to, Msg::Timeout(t)); }
    }
    // a certificate travels inside a timeout message of a round the receiver still accepts
    fn show_qc(&mut self, qc: &QC, to: &[usize]) {
        let a = self.byz[0];
        for &x in to { if self.is_byz(x) { continue; } let r = self.round(x).max(qc.round + 1); let t = self.abs.mk_timeout(a, r, qc.clone()); self.send(a, &[x], Msg::Timeout(t)); }
    }
    // "helpful" Byzantine members behave like participants that see the whole wire: vote for every block, propose when
    // they lead and a certificate for the previous round can be put together, time out along with the honest nodes
    fn byz_react(&mut self) {
        if self.byz_mode != ByzMode::Helpful { self.byz_seen = self.kb.blocks.len(); return; }
        while self.byz_seen < self.kb.blocks.len() {
            let b = self.kb.blocks[self.byz_seen].clone(); self.byz_seen += 1;
            if self.abs.id(&b.author) == self.leader(b.round) && !self.byz_skip.contains(&b.round) && !self.byz_ignore.contains(&b.digest().0) { self.byz_votes(&b); }
        }
        let (lo, hi) = (self.min_round(), self.max_round() + 1);
        let all = self.honest.clone();
        for r in lo..=hi {
            let a = self.leader(r);
            if !self.is_byz(a) || self.byz_proposed.contains(&r) || self.byz_skip.contains(&r) { continue; }
            let mut made = false;
            if r == 1 { self.byz_block(a, QC::genesis(), None, 1, vec![], &all); made = true; }
            else {
                for p in self.blocks_of_round(r - 1) { if self.byz_ignore.contains(&p.digest().0) { continue; } if let Some(qc) = self.qc_of(&p) { self.byz_block(a, qc, None, r, vec![], &all); made = true; break; } }
                if !made { let hq = self.best_qc(); if let Some(tc) = self.tc_for(r - 1, None, hq.round) { self.byz_block(a, hq, Some(tc), r, vec![], &all); made = true; } }
            }
            if made { self.byz_proposed.insert(r); }
        }
        let rounds: Vec<u64> = self.kb.touts.keys().copied().filter(|r| *r >= lo && !self.byz_timed.contains(r) && !self.byz_skip.contains(r)).collect();
        for r in rounds { self.byz_timed.insert(r); let hq = self.best_qc(); self.byz_timeouts(r, &hq, &all); }
    }

    // ---------------------------------------------------------------------------------- one step of one real node
    async fn exec(&mut self, i: usize, ev: NEv, why: &str) -> bool {
        if self.t >= self.budget { return false; }
        let mut node = match self.nodes[i].take() { Some(x) => x, None => return false };
        if node.dead { self.nodes[i] = Some(node); return false; }
        self.t += 1;
        let (term, human, ve): (String, String, Option<VerifEvent>) = match ev {
            NEv::Boot => ("EvBoot".into(), "boot".into(), Some(VerifEvent::Boot)),
            NEv::Msg(Msg::Propose(b)) => { let nm = self.abs.block(&b); (format!("EvPropose {}", nm), format!("propose {}", self.bdesc(&b)), Some(VerifEvent::Message(ConsensusMessage::Propose(b)))) }
            NEv::Msg(Msg::Vote(v)) => (format!("EvVote {}", self.abs.vote(&v)), self.mdesc(&Msg::Vote(v.clone())), Some(VerifEvent::Message(ConsensusMessage::Vote(v)))),
            NEv::Msg(Msg::Timeout(t)) => (format!("EvTimeout {}", self.abs.timeout(&t)), self.mdesc(&Msg::Timeout(t.clone())), Some(VerifEvent::Message(ConsensusMessage::Timeout(t)))),
            NEv::Msg(Msg::TC(tc)) => (format!("EvTC {}", self.abs.tc(&tc)), self.mdesc(&Msg::TC(tc.clone())), Some(VerifEvent::Message(ConsensusMessage::TC(tc)))),
            NEv::Msg(Msg::Sync(..)) => unreachable!("sync requests go to the helper, not to the core"),
            NEv::Timer => { node.timers += 1; ("EvTimer".into(), "timer".into(), Some(VerifEvent::Timer)) }
            NEv::Loop(k) => { let b = node.pool.remove(k); let nm = self.abs.block(&b); (format!("EvLoopback {}", nm), format!("loopback {}", self.bdesc(&b)), Some(VerifEvent::Loopback(b))) }
            NEv::Batch(k) => { node.store.write(batch_digest(k).to_vec(), vec![k]).await; (format!("EvBatch {}", k), format!("batch {}", k), None) }
            NEv::Dig(k) => { node.tx_digest.send(batch_digest(k)).await.unwrap(); (format!("EvDigest {}", k), format!("digest {}", k), None) }
        };
        self.stat(&format!("ev:{}", human.split(' ').next().unwrap()), 1);
        let res: &str = match ve {
            Some(ve) => match std::panic::AssertUnwindSafe(node.core.verif_event(ve)).catch_unwind().await { Ok(Ok(())) => "KOk", Ok(Err(_)) => "KErr", Err(_) => "KPanic" },
            None => "KOk",
        };
        settle().await;
        let mut prop_terms = vec![];
        for m in drain(&mut node.rx_proposer) {
            match &m {
                ProposerMessage::Make(r, qc, tc) => prop_terms.push(format!("OProposer (PMake {} {} {})", r, self.abs.qc(qc), self.abs.otc(tc))),
                ProposerMessage::Cleanup(ds) => { let pl = self.abs.pay(ds); prop_terms.push(format!("OProposer (PCleanup {})", pl)) }
            }
            node.tx_prop_real.send(m).await.unwrap();
            settle().await;
        }
        settle().await;
        // everything captured since the last drain was sent by this node (its core, synchronizer and proposer)
        let mut net_terms: Vec<String> = vec![];
        let mut sent_h: Vec<String> = vec![];
        let mut last: Option<(Vec<u8>, Vec<std::net::SocketAddr>)> = None;
        let mut hint = String::from("[]");
        let mut new_flights: Vec<(usize, Msg)> = vec![];
        for (_rel, addr, bytes) in network::verif::tap_drain() {
            let to = (addr.port() - 9000) as usize;
            let cm = bincode::deserialize::<ConsensusMessage>(&bytes).unwrap();
            let msg = match &cm {
                ConsensusMessage::Propose(b) => Msg::Propose(b.clone()), ConsensusMessage::Vote(v) => Msg::Vote(v.clone()),
                ConsensusMessage::Timeout(t) => Msg::Timeout(t.clone()), ConsensusMessage::TC(t) => Msg::TC(t.clone()),
                ConsensusMessage::SyncRequest(d, _) => Msg::Sync(d.clone(), i, 0),
            };
            new_flights.push((to, msg.clone()));
            // a broadcast is one output: identical bytes to pairwise distinct destinations
            if let Some((lb, seen)) = &mut last { if lb[..] == bytes[..] && !seen.contains(&addr) { seen.push(addr); continue; } }
            last = Some((bytes.to_vec(), vec![addr]));
            self.observe(&msg);
            match cm {
                ConsensusMessage::Vote(v) => { node.votes += 1; self.stat("out:vote", 1); sent_h.push(format!("vote r{}->{}", v.round, to)); net_terms.push(format!("OVote {} {}", to, self.abs.vote(&v))) }
                ConsensusMessage::Timeout(t) => { self.stat("out:timeout", 1); sent_h.push(format!("timeout r{} hq r{}", t.round, t.high_qc.round)); net_terms.push(format!("OTimeout {}", self.abs.timeout(&t))) }
                ConsensusMessage::TC(tc) => { self.stat("out:tc", 1); sent_h.push(format!("tc r{}", tc.round)); net_terms.push(format!("OTC {}", self.abs.tc(&tc))) }
                ConsensusMessage::Propose(b) => { self.stat("out:propose", 1); hint = self.abs.pay(&b.payload); sent_h.push(format!("propose {}", self.bdesc(&b))); let nm = self.abs.block(&b); net_terms.push(format!("OPropose {}", nm)) }
                ConsensusMessage::SyncRequest(d, _) => { self.stat("out:sync", 1); let dn = self.abs.dg(&d); sent_h.push(format!("sync {}->{}", dn, to)); net_terms.push(format!("OSyncReq {} {}", to, dn)) }
            }
        }
        let cs = drain(&mut node.rx_commit);
        let commits: Vec<String> = cs.iter().map(|b| { sent_h.push(format!("COMMIT {}", self.abs.block(b))); format!("OCommit {}", self.abs.block(b)) }).collect();
        self.stat("out:commit", cs.len() as u64);
        node.commits.extend(cs);
        let mems: Vec<String> = drain(&mut node.rx_mempool).into_iter().map(|m| match m {
            mempool::ConsensusMempoolMessage::Cleanup(r) => format!("OMemCleanup {}", r),
            mempool::ConsensusMempoolMessage::Synchronize(ds, t) => { self.stat("out:memsync", 1); format!("OMemSync {} {}", self.abs.pay(&ds), self.abs.id(&t)) } }).collect();
        for b in drain(&mut node.rx_loopback) { node.pool.push(b); }
        let (r0, lv, lc, hq) = node.core.verif_state();
        self.st[i] = (r0, lv, lc, hq.round);
        let mut outs = net_terms; outs.extend(commits); outs.extend(mems); outs.extend(prop_terms);
        node.evs.push(format!("({}, {})", hint, term));
        node.obs.push(format!("mkObs {} {} ({}, {}, {}, {})", coq_list(&outs), res, r0, lv, lc, hq.round));
        node.human.push(format!("{} -> {} [{} outputs] state=({},{},{},{})", human, res, outs.len(), r0, lv, lc, hq.round));
        if res == "KPanic" { self.stat("panic", 1); node.dead = true; }
        self.nodes[i] = Some(node);
        self.note(format!("node {} <- {}{} => {} sent[{}] state=(round {}, voted {}, committed {}, hq {}) pool {}", i, human, why, res, sent_h.join("; "), r0, lv, lc, hq.round, self.pool_len(i)));
        // into the pool of in-flight messages (what goes to a Byzantine member is known to the adversary anyway)
        new_flights.sort_by_key(|x| x.0);
        for (to, msg) in new_flights {
            if self.is_byz(to) {
                if let Msg::Sync(d, who, _) = &msg { if self.byz_mode == ByzMode::Helpful { if let Some(b) = self.known_block(d) { self.send(to, &[*who], Msg::Propose(b)); } } }
                continue;
            }
            let id = self.next_id; self.next_id += 1;
            if self.with_hex { self.hexmsgs.insert(format!("#{}", id), hex(&bincode::serialize(&msg.wire(&self.abs.keys)).unwrap())); }
            self.flights.push(Flight { id, from: i, to, msg, crafted: false });
        }
        true
    }

    // deliver the k-th in-flight message to its destination
    async fn deliver_at(&mut self, k: usize) {
        let fl = self.flights.remove(k);
        if self.rng.gen_bool(self.p_drop) { self.stat("net:dropped", 1); let d = self.mdesc(&fl.msg); self.note(format!("NET drops #{} ({} from {} to {})", fl.id, d, fl.from, fl.to)); return; }
        self.deliver(&fl).await;
        if self.rng.gen_bool(self.p_dup) { self.stat("net:kept_for_redelivery", 1); self.flights.push(fl.clone()); }
        self.done.push(fl);
    }
    async fn deliver(&mut self, fl: &Flight) {
        match &fl.msg {
            Msg::Sync(d, who, hops) => {
                // the receiving node's helper answers from its store; if it does not hold the block the requester's
                // retry (a broadcast) is modelled by passing the request on to the next member
                let mut node = self.nodes[fl.to].take().unwrap();
                let have = node.store.read(d.to_vec()).await.ok().flatten();
                self.nodes[fl.to] = Some(node);
                let dn = self.abs.dg(d);
                match have.and_then(|bytes| bincode::deserialize::<Block>(&bytes).ok()) {
                    Some(b) => {
                        let id = self.next_id; self.next_id += 1;
                        self.note(format!("HELPER of node {} answers #{} (sync {} for {}) with its stored block as #{}", fl.to, fl.id, dn, who, id));
                        self.flights.push(Flight { id, from: fl.to, to: *who, msg: Msg::Propose(b), crafted: false });
                    }
                    None if *hops < self.n => {
                        let mut nx = (fl.to + 1) % self.n; if nx == *who { nx = (nx + 1) % self.n; }
                        self.note(format!("HELPER of node {} has no {}: request #{} of {} passes to {}", fl.to, dn, fl.id, who, nx));
                        if self.is_byz(nx) { if let Some(b) = self.known_block(d) { self.send(nx, &[*who], Msg::Propose(b)); } }
                        else { self.flights.push(Flight { id: fl.id, from: fl.from, to: nx, msg: Msg::Sync(d.clone(), *who, hops + 1), crafted: false }); }
                    }
                    None => {}
                }
            }
            m => { let why = format!(" [#{} from {}{}]", fl.id, fl.from, if fl.crafted { " crafted" } else { "" }); self.exec(fl.to, NEv::Msg(m.clone()), &why).await; }
        }
    }
    // deliver now every in-flight message that matches, in pool order
    async fn deliver_all(&mut self, pred: Allow<'_>) {
        loop {
            let k = (0..self.flights.len()).find(|&k| pred(self, &self.flights[k]));
            match k { Some(k) if self.t < self.budget => { let fl = self.flights.remove(k); self.deliver(&fl).await; self.done.push(fl); } _ => break }
        }
    }
    async fn timer(&mut self, i: usize) { self.exec(i, NEv::Timer, "").await; }
    async fn loops(&mut self, set: &[usize]) {
        loop {
            let i = match set.iter().copied().find(|&i| self.pool_len(i) > 0) { Some(i) => i, None => break };
            if !self.exec(i, NEv::Loop(0), "").await { break; }
        }
    }

    // The seeded scheduler. Repeatedly: a node of `nodes` takes a block from its loop-back pool, or an allowed in-flight
    // message (random, biased to older ones) is delivered, or -- when nothing else can happen and `timers` -- the timer of
    // the node that fired least often expires; until `until`, `max` steps, or nothing is enabled.
    async fn run(&mut self, nodes: &[usize], allow: Allow<'_>, until: Until<'_>, timers: bool, max: usize) -> usize {
        let mut steps = 0; let mut idle = 0;
        while steps < max && self.t < self.budget && !until(self) {
            self.byz_react();
            let lb: Vec<usize> = nodes.iter().copied().filter(|&i| self.pool_len(i) > 0).collect();
            let el: Vec<usize> = (0..self.flights.len()).filter(|&k| { let fl = &self.flights[k]; nodes.contains(&fl.to) && allow(self, fl) }).collect();
            if !lb.is_empty() && (el.is_empty() || self.rng.gen_bool(0.7)) {
                let i = lb[self.rng.gen_range(0, lb.len())];
                let k = self.rng.gen_range(0, self.pool_len(i));
                self.exec(i, NEv::Loop(k), "").await; idle = 0;
            } else if !el.is_empty() {
                let (a, b) = (self.rng.gen_range(0, el.len()), self.rng.gen_range(0, el.len()));
                self.deliver_at(el[a.min(b)]).await; idle = 0;
            } else if timers && idle < 2 * nodes.len() + 2 {
                let least = nodes.iter().map(|&i| self.nodes[i].as_ref().unwrap().timers).min().unwrap();
                let c: Vec<usize> = nodes.iter().copied().filter(|&i| self.nodes[i].as_ref().unwrap().timers == least).collect();
                let i = c[self.rng.gen_range(0, c.len())];
                self.timer(i).await; idle += 1;
            } else { break; }
            steps += 1;
        }
        steps
    }
    // run the sub-network `nodes` to quiescence under a filter (no timers)
    async fn push(&mut self, nodes: &[usize], allow: Allow<'_>) { self.run(nodes, allow, &|_| false, false, 10_000).await; }
    async fn boot(&mut self, batches: &[u8]) {
        let mut order = self.honest.clone(); order.shuffle(&mut self.rng);
        for &i in &order { self.exec(i, NEv::Boot, "").await; }
        for &k in batches { for &i in &order { self.exec(i, NEv::Batch(k), "").await; } }
    }
    // the rest of the budget (or `max` steps): everything may be delivered, timers expire when nothing else can happen
    async fn heal(&mut self, max: usize) {
        self.byz_mode = ByzMode::Helpful; self.byz_skip.clear(); self.byz_ignore.clear();
        let all = self.honest.clone();
        self.note("PHASE heal: every link open, Byzantine members cooperate".into());
        self.run(&all, &|_, _| true, &|_| false, true, max).await;
    }
    fn split(&mut self) -> (Vec<usize>, Vec<usize>) {
        let mut h = self.honest.clone(); h.shuffle(&mut self.rng);
        let k = self.rng.gen_range(1, h.len());
        let g2 = h.split_off(k); (h, g2)
    }
    // the first rounds >= from whose leader is Byzantine
    fn byz_led(&self, from: u64, count: usize) -> Vec<u64> { (from..from + 4 * self.n as u64).filter(|&r| self.is_byz(self.leader(r))).take(count).collect() }
    // bring every honest node to the point where it has voted for the round-r block and nothing of round r or later
    // (votes, certificates) has been delivered: proposals up to round r, everything else below r
    async fn advance_to_voted(&mut self, r: u64) -> Option<Block> {
        let all = self.honest.clone();
        self.byz_mode = ByzMode::Helpful;
        for x in r + 1..r + 6 { self.byz_skip.insert(x); }
        self.push(&all, &move |_, fl| match &fl.msg { Msg::Propose(b) => b.round <= r, Msg::Sync(..) => true, m => m.round() < r }).await;
        self.byz_react();
        self.push(&all, &move |_, fl| match &fl.msg { Msg::Propose(b) => b.round <= r, Msg::Sync(..) => true, m => m.round() < r }).await;
        let ok = all.iter().all(|&i| self.st[i].0 == r && self.st[i].1 == r);
        let bs = self.blocks_of_round(r);
        if ok && bs.len() == 1 { Some(bs[0].clone()) } else { self.note(format!("SCRIPT precondition not met at round {} (states {:?}, {} blocks)", r, all.iter().map(|&i| self.st[i]).collect::<Vec<_>>(), bs.len())); None }
    }
}

// ------------------------------------------------------------------------------------------ strategies
// 0. no attack: random fair scheduling, some duplication and loss, batches and digests for the proposers
async fn strat_fair(w: &mut World) {
    w.byz_mode = if w.rng.gen_bool(0.7) { ByzMode::Helpful } else { ByzMode::Silent };
    w.p_dup = 0.05; w.p_drop = 0.02;
    let with_payload = w.rng.gen_bool(0.5);
    w.boot(if with_payload { &[1, 2, 3] } else { &[] }).await;
    let all = w.honest.clone();
    while w.t < w.budget {
        if with_payload && w.rng.gen_bool(0.6) { let i = all[w.rng.gen_range(0, all.len())]; let k = w.rng.gen_range(1, 5u8); w.exec(i, NEv::Dig(k), "").await; }
        if with_payload && w.rng.gen_bool(0.2) { for &i in &all { w.exec(i, NEv::Batch(4), "").await; } }
        if w.run(&all, &|_, _| true, &|_| false, true, 25).await == 0 { break; }
    }
}

// 1. equivocation fork / double-vote race: the Byzantine leader of round r signs two blocks on the same parent; they go to
// disjoint subsets (fork) or both to everybody, in either order, raced against the timer and repeated (double vote)
async fn strat_equivocation(w: &mut World, race: bool) {
    w.byz_skip.insert(1);
    w.boot(&[13, 14]).await;
    let cands = w.byz_led(1, 2);
    let r = cands[w.rng.gen_range(0, cands.len())];
    if r != 1 { w.byz_skip.clear(); }
    attack_equivocation(w, r, race).await;
    w.heal(10_000).await;
}
// (needs batches 13 and 14 in every honest store; r is led by a Byzantine member and no honest node is beyond round r-1)
async fn attack_equivocation(w: &mut World, r: u64, race: bool) -> bool {
    let l = w.leader(r);
    let all = w.honest.clone();
    let qc = if r == 1 { Some(QC::genesis()) } else { match w.advance_to_voted(r - 1).await { Some(p) => w.qc_of(&p), None => None } };
    let qc = match qc { Some(q) => q, None => return false };
    w.byz_skip.clear(); w.byz_skip.insert(r);
    let (g1, g2) = w.split();
    w.note(format!("PHASE equivocation at round {} by {}: groups {:?} / {:?}{}", r, l, g1, g2, if race { " (race: both blocks to everybody, timers in between)" } else { "" }));
    let a = w.abs.mk_block(l, qc.clone(), None, r, vec![batch_digest(13)]);
    let b = w.abs.mk_block(l, qc.clone(), None, r, vec![batch_digest(14)]);
    if race {
        for &x in &all {
            let mut seq: Vec<u8> = vec![0, 1, 2]; if w.rng.gen_bool(0.5) { seq.push(0); } if w.rng.gen_bool(0.5) { seq.push(1); } if w.rng.gen_bool(0.3) { seq.push(2); }
            seq.shuffle(&mut w.rng);
            for s in seq {
                match s { 0 => w.send(l, &[x], Msg::Propose(a.clone())), 1 => w.send(l, &[x], Msg::Propose(b.clone())), _ => { w.timer(x).await; } }
                w.deliver_all(&move |_, fl| fl.crafted && fl.to == x && fl.msg.kind() == b'P').await;
                if w.rng.gen_bool(0.7) { w.loops(&[x]).await; }
            }
            w.loops(&[x]).await;
        }
    } else {
        w.send(l, &g1, Msg::Propose(a.clone())); w.send(l, &g2, Msg::Propose(b.clone()));
        w.push(&all, &move |_, fl| fl.crafted && fl.msg.kind() == b'P' && fl.msg.round() == r).await;
    }
    w.byz_votes(&a); w.byz_votes(&b); w.byz_seen = w.kb.blocks.len();
    // votes reach the next leader; whatever certificate the adversary can put together is shown to one group only
    w.push(&all, &move |_, fl| fl.msg.kind() == b'V' && fl.msg.round() == r).await;
    let (qa, qb) = (w.qc_of(&a), w.qc_of(&b));
    w.note(format!("SCRIPT certificates after the split: first block {}, second block {}", qa.is_some(), qb.is_some()));
    if qa.is_some() && qb.is_some() { w.stat("two_certificates_in_one_round", 1); if exploit_two_certificates(w, r, &a, &b).await { return true; } }
    if let Some(q) = &qa { w.show_qc(q, &g1); }
    if let Some(q) = &qb { w.show_qc(q, &g2); }
    let (g1c, g2c) = (g1.clone(), g2.clone());
    let same = move |_: &World, fl: &Flight| fl.crafted || (g1c.contains(&fl.from) == g1c.contains(&fl.to)) || (g2c.contains(&fl.from) && g2c.contains(&fl.to));
    w.byz_skip.clear(); w.byz_mode = ByzMode::Helpful;
    w.byz_proposed.insert(r);
    w.run(&all, &same, &|_| false, true, 40).await;
    true
}

// Two blocks of round r are certified (only possible when some honest node voted twice). The block the leader of r+1 extends
// is the "first"; its child gets certified and that certificate reaches one honest node Z only (the leader of r+2 if honest),
// which commits the first block. The others (X) were shown the certificate of the SECOND block before anything else of round r,
// so they keep it; they time out in r+1 and r+2 and the leader of r+3 extends the second block with the TC; X commits it.
async fn exploit_two_certificates(w: &mut World, r: u64, a: &Block, b: &Block) -> bool {
    let all = w.honest.clone();
    let (l1, l2, l3) = (w.leader(r + 1), w.leader(r + 2), w.leader(r + 3));
    if w.is_byz(l1) && w.blocks_of_round(r + 1).is_empty() { if let Some(q) = w.qc_of(a) { w.byz_block(l1, q, None, r + 1, vec![], &all); } }
    let child = match w.blocks_of_round(r + 1).into_iter().next() { Some(c) => c, None => return false };
    let (first, second) = if child.qc.hash == a.digest() { (a, b) } else if child.qc.hash == b.digest() { (b, a) } else { return false };
    let qsecond = match w.qc_of(second) { Some(q) => q, None => return false };
    let z: Vec<usize> = if w.is_byz(l2) { vec![all[w.rng.gen_range(0, all.len())]] } else { vec![l2] };
    let x: Vec<usize> = all.iter().copied().filter(|i| !z.contains(i)).collect();
    if x.len() + w.byz.len() < w.q { return false; }
    w.byz_mode = ByzMode::Silent;
    let (fnm, snm) = (w.abs.block(first), w.abs.block(second));
    w.note(format!("PHASE two certificates in round {}: first = {} (extended by the leader of {}), second = {}; Z = {:?} commits the first, X = {:?} is steered to the second", r, fnm, r + 1, snm, z, x));
    w.show_qc(&qsecond, &x);
    w.push(&x, &|_, fl| fl.crafted && fl.msg.kind() == b'T').await;
    w.push(&all, &move |_, fl| fl.msg.kind() == b'P' && fl.msg.round() == r + 1).await;
    if w.is_byz(l2) { if let Some(q) = w.qc_of(&child) { w.byz_block(l2, q, None, r + 2, vec![], &z); w.push(&z, &move |_, fl| fl.crafted && fl.msg.kind() == b'P' && fl.msg.round() == r + 2).await; } }
    else { w.push(&[l2], &move |_, fl| fl.msg.kind() == b'V' && fl.msg.round() == r + 1).await; }
    for rho in r + 1..r + 3 {
        for &i in &x { if w.st[i].0 == rho { w.timer(i).await; } }
        w.byz_timeouts(rho, &qsecond, &x);
        let xc = x.clone();
        w.push(&x, &move |w, fl| (fl.msg.kind() == b'T' || fl.msg.kind() == b'C') && fl.msg.round() == rho && (xc.contains(&fl.from) || w.is_byz(fl.from))).await;
    }
    if w.is_byz(l3) { if let Some(tc) = w.tc_for(r + 2, Some(r), r) { w.byz_block(l3, qsecond.clone(), Some(tc), r + 3, vec![], &x); } }
    // from here on the Byzantine members cooperate on the second branch only
    w.byz_ignore.insert(first.digest().0);
    for blk in w.kb.blocks.clone() { if w.byz_ignore.contains(&blk.qc.hash.0) { w.byz_ignore.insert(blk.digest().0); } }
    for c in w.blocks_of_round(r + 3) { if c.qc.hash == second.digest() { w.byz_votes(&c); } }
    w.byz_mode = ByzMode::Helpful; w.byz_skip.clear(); w.byz_seen = w.kb.blocks.len();
    for k in r..r + 4 { w.byz_proposed.insert(k); }
    let (xc, r3) = (x.clone(), r + 3);
    let until = { let xc = x.clone(); move |w: &World| w.max_commit_round(&xc) >= r3 };
    w.run(&x, &move |w, fl| (xc.contains(&fl.from) || w.is_byz(fl.from)) && fl.msg.round() >= r3 || fl.msg.kind() == b'S', &until, true, 30 * w.n).await;
    true
}

// 2. stale-TC fork. R is a round whose successor is led by a Byzantine member L. A set X of q-f honest nodes votes for
// b_{R-1}, times out in R-1 and again in R without ever seeing QC(b_{R-1}), so their round-R timeouts report R-2. Only
// then do they receive b_R (a node that voted after its timeout would give b_R its certificate). L shows QC(b_R), if it
// exists, to the remaining honest nodes Z only (they commit b_{R-1}) and proposes to X a block of round R+1 on b_{R-2},
// justified by the TC of the stale timeouts; X and the Byzantine members carry that branch to a commit.
async fn strat_stale_tc(w: &mut World) {
    w.boot(&[]).await;
    let cands = w.byz_led(3, 2);
    let big_r = cands[w.rng.gen_range(0, cands.len())] - 1;
    attack_stale_tc(w, big_r).await;
    w.heal(10_000).await;
}
// (the leader of R+1 is Byzantine, R >= 2, and no honest node is beyond round R-1)
async fn attack_stale_tc(w: &mut World, big_r: u64) -> bool {
    let l = w.leader(big_r + 1);
    let all = w.honest.clone();
    let prev = match w.advance_to_voted(big_r - 1).await { Some(p) => p, None => { return false; } };
    w.byz_mode = ByzMode::Silent;
    // X: q-f honest nodes, not the leader of R, preferably the leaders of R+2 and R+3
    let mut pref: Vec<usize> = vec![w.leader(big_r + 2), w.leader(big_r + 3)];
    let mut rest = all.clone(); rest.shuffle(&mut w.rng); pref.extend(rest);
    let mut x: Vec<usize> = vec![];
    for c in pref { if x.len() < w.q - w.byz.len() && !w.is_byz(c) && c != w.leader(big_r) && !x.contains(&c) { x.push(c); } }
    let z: Vec<usize> = all.iter().copied().filter(|i| !x.contains(i)).collect();
    w.note(format!("PHASE stale-TC fork: R = {}, Byzantine leader {} of round {}, X = {:?} (time out early), Z = {:?}", big_r, l, big_r + 1, x, z));
    if x.len() < w.q - w.byz.len() || z.is_empty() { return false; }
    let low = match w.known_block(&prev.qc.hash) { Some(g) => w.qc_of(&g), None => Some(QC::genesis()) };
    let low = match low { Some(q) => q, None => { return false; } };
    // X times out in R-1 (after voting); with the Byzantine timeouts that is a TC for R-1: X enters R without QC(b_{R-1})
    for &i in &x { w.timer(i).await; }
    w.byz_timeouts(big_r - 1, &low, &x);
    let (xc, r1) = (x.clone(), big_r - 1);
    w.push(&x, &move |w, fl| fl.msg.kind() == b'T' && fl.msg.round() == r1 && (xc.contains(&fl.from) || w.is_byz(fl.from))).await;
    if !x.iter().all(|&i| w.st[i].0 == big_r && w.st[i].3 + 2 <= big_r) { w.note(format!("SCRIPT X did not enter round {} with a stale certificate: {:?}", big_r, x.iter().map(|&i| w.st[i]).collect::<Vec<_>>())); return false; }
    // X times out in R: these timeouts report the certificate of round R-2; they reach nobody but the adversary
    for &i in &x { w.timer(i).await; }
    // now the votes for b_{R-1} reach the leader of R, who proposes b_R
    let lr = w.leader(big_r);
    if w.is_byz(lr) { match w.qc_of(&prev) { Some(q) => { w.byz_block(lr, q, None, big_r, vec![], &all); } None => { return false; } } }
    else { w.push(&[lr], &move |_, fl| fl.msg.kind() == b'V' && fl.msg.round() == r1).await; }
    w.push(&all, &move |_, fl| fl.msg.kind() == b'P' && fl.msg.round() == big_r).await;
    let br = match w.blocks_of_round(big_r).first() { Some(b) => b.clone(), None => { return false; } };
    w.note(format!("SCRIPT honest votes observed for the round-{} block: {:?}", big_r, w.honest_votes(&br.digest(), big_r)));
    // QC(b_R), if the adversary can put it together, is shown to Z only: they commit b_{R-1}
    if let Some(q) = w.qc_of(&br) {
        w.stat("late_votes_gave_a_certificate", 1);
        w.byz_block(l, q, None, big_r + 1, vec![], &z);
        w.push(&z, &move |_, fl| fl.crafted && fl.msg.kind() == b'P' && fl.msg.round() == big_r + 1).await;
    }
    // the stale TC of round R and the block of round R+1 on b_{R-2}, for X only
    let tc = match w.tc_for(big_r, Some(big_r - 2), low.round.min(big_r - 2)) { Some(t) => t, None => { w.note("SCRIPT no stale TC can be assembled".into()); return false; } };
    let fork = w.byz_block(l, low.clone(), Some(tc), big_r + 1, vec![], &x);
    let fd = fork.digest();
    w.push(&x, &move |_, fl| fl.crafted && matches!(&fl.msg, Msg::Propose(b) if b.digest() == fd)).await;
    w.byz_votes(&fork);
    // X and the Byzantine members go on by themselves
    w.byz_mode = ByzMode::Helpful; w.byz_skip.clear(); w.byz_proposed.insert(big_r + 1); w.byz_seen = w.kb.blocks.len();
    let (xc, r2) = (x.clone(), big_r + 1);
    let until = { let xc = x.clone(); move |w: &World| w.max_commit_round(&xc) >= r2 };
    w.run(&x, &move |w, fl| (xc.contains(&fl.from) || w.is_byz(fl.from)) && fl.msg.round() >= r2 || fl.msg.kind() == b'S', &until, true, 30 * w.n).await;
    true
}

// 3. non-consecutive-round fork. L = leader(r+1) is Byzantine and keeps QC(b_r). X (q-f honest nodes) times out in r and
// gets from L a block of round r+1 on b_{r-1}; Z is shown QC(b_r); everybody times out in r+1, so the leader of r+2 (in
// Z) extends b_r with a TC: b_r <- b_{r+2} is a certified chain with a gap, which must not commit b_r. A block carrying
// QC(b_{r+2}) is shown to Z, the certificate of the round-(r+1) block to X, and the run goes on.
async fn strat_nonconsecutive(w: &mut World) {
    w.boot(&[]).await;
    let cands = w.byz_led(2, 2);
    let r = cands[w.rng.gen_range(0, cands.len())] - 1;
    attack_nonconsecutive(w, r).await;
    w.heal(10_000).await;
}
// (the leader of r+1 is Byzantine, r >= 1, and no honest node is beyond round r)
async fn attack_nonconsecutive(w: &mut World, r: u64) -> bool {
    let l = w.leader(r + 1);
    let all = w.honest.clone();
    let br = match w.advance_to_voted(r).await { Some(p) => p, None => { return false; } };
    w.byz_mode = ByzMode::Silent;
    let mut pref: Vec<usize> = vec![w.leader(r + 3)]; let mut rest = all.clone(); rest.shuffle(&mut w.rng); pref.extend(rest);
    let mut x: Vec<usize> = vec![];
    for c in pref { if x.len() < w.q - w.byz.len() && !w.is_byz(c) && c != w.leader(r + 2) && !x.contains(&c) { x.push(c); } }
    let z: Vec<usize> = all.iter().copied().filter(|i| !x.contains(i)).collect();
    w.note(format!("PHASE non-consecutive fork: r = {}, Byzantine leader {} of round {}, X = {:?}, Z = {:?}", r, l, r + 1, x, z));
    let (qr, low) = match (w.qc_of(&br), match w.known_block(&br.qc.hash) { Some(g) => w.qc_of(&g), None => Some(QC::genesis()) }) { (Some(a), Some(b)) => (a, b), _ => { return false; } };
    // X times out in r and enters r+1 by a TC, still holding the certificate of r-1; L gives it a block on b_{r-1}
    for &i in &x { w.timer(i).await; }
    w.byz_timeouts(r, &low, &x);
    let xc = x.clone();
    w.push(&x, &move |w, fl| fl.msg.kind() == b'T' && fl.msg.round() == r && (xc.contains(&fl.from) || w.is_byz(fl.from))).await;
    if let Some(tc) = w.tc_for(r, Some(low.round), low.round) {
        let side = w.byz_block(l, low.clone(), Some(tc), r + 1, vec![], &x);
        w.push(&x, &move |_, fl| fl.crafted && fl.msg.kind() == b'P' && fl.msg.round() == r + 1).await;
        w.byz_votes(&side);
    }
    // Z learns QC(b_r); everybody times out in r+1; the TC forms everywhere
    w.show_qc(&qr, &z);
    w.push(&z, &move |_, fl| fl.crafted && fl.msg.kind() == b'T').await;
    for &i in &all { if w.st[i].0 == r + 1 { w.timer(i).await; } }
    let carried = if w.rng.gen_bool(0.5) { low.clone() } else { qr.clone() };
    w.byz_timeouts(r + 1, &carried, &all);
    let (lr2, lr3) = (w.leader(r + 2), w.leader(r + 3));
    w.push(&all, &move |_, fl| (fl.msg.kind() == b'T' || fl.msg.kind() == b'C') && fl.msg.round() == r + 1).await;
    if w.is_byz(lr2) { if let Some(tc) = w.tc_for(r + 1, None, r) { w.byz_block(lr2, qr.clone(), Some(tc), r + 2, vec![], &all); } }
    // the round-(r+2) block (on b_r, gap) goes to everybody; the votes for it are seen by the adversary but reach no honest leader
    w.push(&all, &move |_, fl| fl.msg.kind() == b'P' && fl.msg.round() == r + 2).await;
    let b2 = w.blocks_of_round(r + 2).into_iter().find(|b| b.qc.round == r);
    if let Some(b2) = b2 {
        if let Some(q2) = w.qc_of(&b2) {
            // a block that carries QC(b_{r+2}) in the next Byzantine-led round, for Z: the 2-chain b_r <- b_{r+2} has a gap
            w.stat("gap_chain_certified", 1);
            let rho = w.byz_led(r + 3, 1)[0];
            let a = w.leader(rho);
            w.byz_block(a, q2, None, rho, vec![], &z);
            w.push(&z, &move |_, fl| fl.crafted && fl.msg.kind() == b'P' && fl.msg.round() == rho).await;
        }
    }
    // X is shown the certificate of the side block (round r+1, higher than QC(b_r)), times out in r+2, and the leader of r+3
    // extends the side block with that TC; from here on the Byzantine members cooperate on the side branch only
    let side = w.blocks_of_round(r + 1).into_iter().find(|s| s.qc.round + 1 != s.round);
    if let Some(side) = side {
        if let Some(qs) = w.qc_of(&side) {
            w.stat("side_block_certified", 1);
            w.show_qc(&qs, &x);
            w.push(&x, &|_, fl| fl.crafted && fl.msg.kind() == b'T').await;
            for &i in &x { if w.st[i].0 == r + 2 { w.timer(i).await; } }
            w.byz_timeouts(r + 2, &qs, &x);
            let xc = x.clone();
            w.push(&x, &move |w, fl| (fl.msg.kind() == b'T' || fl.msg.kind() == b'C') && fl.msg.round() == r + 2 && (xc.contains(&fl.from) || w.is_byz(fl.from))).await;
            if w.is_byz(lr3) { if let Some(tc) = w.tc_for(r + 2, Some(r + 1), r + 1) { w.byz_block(lr3, qs.clone(), Some(tc), r + 3, vec![], &x); } }
            w.byz_ignore.insert(br.digest().0);
            for blk in w.kb.blocks.clone() { if w.byz_ignore.contains(&blk.qc.hash.0) { w.byz_ignore.insert(blk.digest().0); } }
            for c in w.blocks_of_round(r + 3) { if c.qc.hash == side.digest() { w.byz_votes(&c); } }
            for k in r..r + 4 { w.byz_proposed.insert(k); }
        }
    }
    w.byz_mode = ByzMode::Helpful; w.byz_skip.clear(); w.byz_seen = w.kb.blocks.len();
    let (xc, r3) = (x.clone(), r + 3);
    let until = { let xc = x.clone(); move |w: &World| w.max_commit_round(&xc) >= r3 };
    w.run(&x, &move |w, fl| (xc.contains(&fl.from) || w.is_byz(fl.from)) && fl.msg.round() >= r3 || fl.msg.kind() == b'S', &until, true, 20 * w.n).await;
    true
}

// 4. partition, then heal: two groups of honest nodes hear only their own members and the Byzantine ones (who talk to both
// sides, or to nobody), with timers; then everything that was held is delivered in random order
async fn strat_partition(w: &mut World) {
    w.boot(&[]).await;
    w.byz_mode = ByzMode::Helpful;
    let all = w.honest.clone();
    let k = w.rng.gen_range(0, 6 * w.n);
    w.run(&all, &|_, _| true, &|_| false, true, k).await;
    for round in 0..2 {
        let (g1, g2) = w.split();
        w.byz_mode = if w.rng.gen_bool(0.6) { ByzMode::Helpful } else { ByzMode::Silent };
        let one_sided = w.rng.gen_bool(0.4);
        w.note(format!("PHASE partition {}: {:?} | {:?}; Byzantine members {}{}", round, g1, g2, if w.byz_mode == ByzMode::Helpful { "talk" } else { "are silent" }, if one_sided { " to the first group only" } else { "" }));
        let g1c = g1.clone();
        let allow = move |w: &World, fl: &Flight| if w.is_byz(fl.from) { !one_sided || g1c.contains(&fl.to) } else { g1c.contains(&fl.from) == g1c.contains(&fl.to) };
        let k = w.rng.gen_range(4 * w.n, 10 * w.n);
        w.run(&all, &allow, &|_| false, true, k).await;
        if w.rng.gen_bool(0.5) { break; }
    }
    w.p_dup = 0.05;
    w.heal(10_000).await;
}

// 5. randomised: a random sequence of tactics from the current state, each for a random stretch; the scripted attacks are
// among the tactics (started at the next suitable Byzantine-led round; abandoned when their precondition cannot be reached)
async fn strat_random(w: &mut World) {
    w.boot(&[13, 14]).await;
    let all = w.honest.clone();
    const WEIGHTS: [u32; 11] = [4, 1, 2, 2, 1, 2, 1, 1, 1, 3, 2];
    while w.t < w.budget {
        let before = w.t;
        w.byz_mode = ByzMode::Helpful; w.byz_skip.clear(); w.p_dup = 0.0; w.p_drop = 0.0;
        let mut pick = w.rng.gen_range(0, WEIGHTS.iter().sum::<u32>());
        let mut tactic = 0; while pick >= WEIGHTS[tactic] { pick -= WEIGHTS[tactic]; tactic += 1; }
        w.stat(&format!("tactic:{}", ["fair", "isolate", "late_proposals", "equivocation", "silent", "stale_tc_opportunistic", "show_qc_to_some", "partition", "retransmit", "stale_tc_attack", "nonconsecutive_attack"][tactic]), 1);
        match tactic {
            0 => { w.note("TACTIC fair stretch".into()); let k = w.rng.gen_range(5, 5 * w.n); w.p_dup = 0.05; w.p_drop = 0.02; w.run(&all, &|_, _| true, &|_| false, true, k).await; }
            1 => { // isolate one node, then flood it
                let v = all[w.rng.gen_range(0, all.len())];
                w.note(format!("TACTIC node {} hears nothing for a while", v));
                let k = w.rng.gen_range(5, 6 * w.n);
                w.run(&all, &move |_, fl| fl.to != v, &|_| false, true, k).await;
            }
            2 => { // late proposals: some nodes time out before the proposal of their round arrives
                let (g1, _) = w.split();
                w.note(format!("TACTIC proposals are late for {:?}: their timers expire first", g1));
                for &i in &g1 { w.timer(i).await; }
                let g = g1.clone();
                let k = w.rng.gen_range(3, 3 * w.n);
                w.run(&all, &move |_, fl| !(g.contains(&fl.to) && fl.msg.kind() == b'T'), &|_| false, false, k).await;
            }
            3 => { // the next Byzantine leader equivocates (fork or race)
                let r = w.byz_led(w.max_round() + 1, 1)[0];
                let race = w.rng.gen_bool(0.5);
                w.note(format!("TACTIC equivocation attack at round {}", r));
                if attack_equivocation(w, r, race).await { w.stat("attack_ran:equivocation", 1); }
            }
            4 => { // withhold: the Byzantine members are silent for a stretch
                w.note("TACTIC Byzantine members are silent".into());
                w.byz_mode = ByzMode::Silent;
                let k = w.rng.gen_range(5, 6 * w.n);
                w.run(&all, &|_, _| true, &|_| false, true, k).await;
            }
            5 => { // a stale TC: for a recent round with enough timeouts, take per author the lowest reported round and extend the
                   // certificate of that round (the oldest block the rule allows) -- for the signers only
                let rounds: Vec<u64> = w.kb.touts.keys().rev().copied().take(3).collect();
                for r in rounds {
                    let l = w.leader(r + 1);
                    if !w.is_byz(l) || w.byz_proposed.contains(&(r + 1)) || r + 1 < w.min_round() { continue; }
                    if let Some(tc) = w.tc_for(r, None, 0) {
                        let m = tc.high_qc_rounds().into_iter().max().unwrap_or(0);
                        let base = w.blocks_of_round(m).into_iter().next();
                        let qc = match (m, base) { (0, _) => Some(QC::genesis()), (_, Some(b)) => w.qc_of(&b), _ => None };
                        if let Some(qc) = qc {
                            let signers: Vec<usize> = tc.votes.iter().map(|v| w.abs.id(&v.0)).collect();
                            w.note(format!("TACTIC stale TC of round {} (max reported {}) -> block on the round-{} certificate for {:?}", r, m, m, signers));
                            w.byz_proposed.insert(r + 1);
                            let b = w.byz_block(l, qc, Some(tc), r + 1, vec![], &signers);
                            w.byz_votes(&b);
                            break;
                        }
                    }
                }
            }
            6 => { // show the best certificate to a subset only
                let (g1, _) = w.split();
                let q = w.best_qc();
                if q.round > 0 { w.note(format!("TACTIC the round-{} certificate is shown to {:?} only", q.round, g1)); w.show_qc(&q, &g1); }
            }
            7 => { // partition stretch
                let (g1, g2) = w.split();
                w.note(format!("TACTIC partition {:?} | {:?}", g1, g2));
                let g = g1.clone();
                let k = w.rng.gen_range(5, 8 * w.n);
                w.run(&all, &move |w, fl| w.is_byz(fl.from) || g.contains(&fl.from) == g.contains(&fl.to), &|_| false, true, k).await;
            }
            8 => { // retransmission of something old, sync replies out of the blue
                if !w.done.is_empty() { let k = w.rng.gen_range(0, w.done.len()); let fl = w.done[k].clone(); w.note(format!("TACTIC #{} is delivered again", fl.id)); w.stat("net:redelivered", 1); w.deliver(&fl).await; }
                if !w.kb.blocks.is_empty() && w.rng.gen_bool(0.5) { let b = w.kb.blocks[w.rng.gen_range(0, w.kb.blocks.len())].clone(); let to = all[w.rng.gen_range(0, all.len())]; let a = w.byz[0]; w.send(a, &[to], Msg::Propose(b)); }
            }
            9 => { // the stale-TC fork at the next Byzantine-led round that leaves room for it
                let big_r = w.byz_led(w.max_round().max(1) + 2, 1)[0] - 1;
                w.note(format!("TACTIC stale-TC attack with R = {}", big_r));
                if attack_stale_tc(w, big_r).await { w.stat("attack_ran:stale_tc", 1); }
            }
            _ => {
                let r = w.byz_led(w.max_round() + 2, 1)[0] - 1;
                w.note(format!("TACTIC non-consecutive attack with r = {}", r));
                if attack_nonconsecutive(w, r).await { w.stat("attack_ran:nonconsecutive", 1); }
            }
        }
        if w.t == before { w.byz_mode = ByzMode::Helpful; w.byz_skip.clear(); let k = w.rng.gen_range(2, 2 * w.n); if w.run(&all, &|_, _| true, &|_| false, true, k).await == 0 { break; } }
    }
}

const STRATS: [&str; 8] = ["fair", "equivocation", "stale_tc", "nonconsecutive", "partition", "double_vote", "random", "random"];

// ------------------------------------------------------------------------------------------ one scenario
struct ScnOut { n: usize, byz: Vec<usize>, honest: Vec<usize>, strategy: String, defs: String, per_node: Vec<(usize, Vec<String>, Vec<String>, Vec<String>, Vec<String>)>, sched: Vec<String>, hexmsgs: BTreeMap<String, String>, stats: BTreeMap<String, u64>, commits: usize, steps: usize }

async fn run_scenario(seed: u64, k: usize, strategy: &str, dbroot: &str, with_hex: bool) -> ScnOut {
    let mut rng = case_rng(seed, 11, k as u64);
    let n = if strategy == "stale_tc" && k % 16 == 2 { 4 } else { rng.gen_range(4, 8) };
    let f = (n - 1) / 3;
    let mut ranks: Vec<usize> = (0..n).collect(); ranks.shuffle(&mut rng);
    let mut byz: Vec<usize> = ranks[..f].to_vec(); byz.sort();
    let honest: Vec<usize> = (0..n).filter(|i| !byz.contains(i)).collect();
    let keys = sorted_keys(&mut rng, n);
    let com = Committee::new(keys.iter().enumerate().map(|(i, (pk, _))| (*pk, 1, format!("127.0.0.1:{}", 9000 + i).parse().unwrap())).collect(), 1);
    let q = com.quorum_threshold() as usize;
    let secrets: Vec<SecretKey> = keys.iter().map(|(_, s)| clone_secret(s)).collect();
    let abs = Abs { keys, byz: byz.clone(), digests: HashMap::new(), sigs: HashMap::new(), junk: 0, defs: String::new(), nblk: 0, bnames: HashMap::new() };
    network::verif::tap_start();
    let _ = network::verif::tap_drain();
    let mut nodes: Vec<Option<Node>> = vec![];
    for (i, secret) in secrets.into_iter().enumerate() {
        if byz.contains(&i) { nodes.push(None); continue; }
        let path = format!("{}/mn_{}_{}_{}", dbroot, seed, k, i);
        let _ = std::fs::remove_dir_all(&path);
        let store = Store::new(&path).unwrap();
        let name = abs.keys[i].0;
        let (tx_core, rx_core) = channel(10);
        let (tx_loopback, rx_loopback) = channel(10_000);
        let (tx_proposer, rx_proposer) = channel(10_000);
        let (tx_prop_real, rx_prop_real) = channel(10_000);
        let (tx_mempool, rx_mempool) = channel(10_000);
        let (tx_commit, rx_commit) = channel(10_000);
        let (tx_digest, rx_digest) = channel::<Digest>(10_000);
        let (tx_dummy, rx_dummy) = channel(10);
        let sigs = SignatureService::new(secret);
        let md = MempoolDriver::new(store.clone(), tx_mempool, tx_loopback.clone());
        let sy = Synchronizer::new(name, com.clone(), store.clone(), tx_loopback.clone(), 100_000_000);
        Proposer::spawn(name, com.clone(), sigs.clone(), rx_digest, rx_prop_real, tx_loopback);
        let core = Core::verif_new(name, com.clone(), sigs, store.clone(), LeaderElector::new(com.clone()), md, sy, 1_000_000_000, rx_core, rx_dummy, tx_proposer, tx_commit);
        nodes.push(Some(Node { name, core, store, rx_loopback, rx_proposer, tx_prop_real, rx_mempool, rx_commit, tx_digest, _keep: (tx_core, tx_dummy), pool: vec![],
            evs: vec![], obs: vec![], human: vec![], commits: vec![], votes: 0, timers: 0, dead: false, path }));
    }
    let mut w = World { n, q, byz: byz.clone(), honest: honest.clone(), nodes, st: vec![(1, 0, 0, 0); n], abs, kb: Kb::default(), flights: vec![], done: vec![], next_id: 0,
        t: 0, budget: 40 + 38 * honest.len(), sched: vec![], hexmsgs: BTreeMap::new(), with_hex, rng, stats: BTreeMap::new(),
        byz_mode: ByzMode::Helpful, byz_seen: 0, byz_proposed: BTreeSet::new(), byz_timed: BTreeSet::new(), byz_skip: BTreeSet::new(), byz_ignore: BTreeSet::new(), p_dup: 0.0, p_drop: 0.0 };
    w.note(format!("SCENARIO {} strategy {}: n = {}, quorum {}, Byzantine {:?}, honest {:?}; leader of round r is r mod n", k, strategy, n, q, byz, honest));
    match strategy {
        "fair" => strat_fair(&mut w).await,
        "equivocation" => strat_equivocation(&mut w, false).await,
        "double_vote" => strat_equivocation(&mut w, true).await,
        "stale_tc" => strat_stale_tc(&mut w).await,
        "nonconsecutive" => strat_nonconsecutive(&mut w).await,
        "partition" => strat_partition(&mut w).await,
        _ => strat_random(&mut w).await,
    }
    let mut per_node = vec![];
    let mut stats = std::mem::take(&mut w.stats);
    let commits = w.total_commits();
    for i in honest.clone() {
        let node = w.nodes[i].take().unwrap();
        let log: Vec<String> = node.commits.iter().map(|b| w.abs.block(b)).collect();
        per_node.push((i, node.evs.clone(), node.obs.clone(), node.human.clone(), log));
        let _ = node.name;
        let path = node.path.clone();
        drop(node);
        settle().await;
        let _ = std::fs::remove_dir_all(&path);
    }
    *stats.entry("steps".into()).or_insert(0) += w.t as u64;
    ScnOut { n, byz, honest, strategy: strategy.to_string(), defs: w.abs.defs.clone(), per_node, sched: w.sched, hexmsgs: w.hexmsgs, stats, commits, steps: w.t }
}

fn main() {
    let o = opts();
    std::panic::set_hook(Box::new(|_| {}));
    let rt = tokio::runtime::Builder::new_current_thread().enable_all().start_paused(true).build().unwrap();
    let dbroot = format!("{}/db", o.out);
    std::fs::create_dir_all(&dbroot).unwrap();
    let shards = 8usize;
    let with_hex = o.rest.iter().any(|x| x == "--hex");
    let mut emits: Vec<Emit> = (0..shards).map(|_| Emit::new("GTac Node Corr Monitors CorrMulti")).collect();
    let mut seen = std::collections::HashSet::new();
    rt.block_on(async {
        for k in 0..o.cases {
            if let Some(only) = o.only { if only != k { continue; } }
            let strategy: String = match &o.script { Some(s) => s.clone(), None => STRATS[k % STRATS.len()].to_string() };
            let out = run_scenario(o.seed, k, &strategy, &dbroot, with_hex).await;
            let e = &mut emits[k % shards];
            for (key, v) in &out.stats { e.stat(key, *v); }
            e.stat(&format!("strategy={}", out.strategy), 1);
            e.stat(&format!("n={}", out.n), 1);
            if out.commits > 0 { e.stat("scenarios_with_commits", 1); }
            if out.commits > 0 && seen.insert(out.sched.join("\n")) { e.stat("distinct_nontrivial", 1); }
            // one module per scenario: shared block definitions, one (evs, obs, step_verdict) per honest node, the global verdict
            let stakes: Vec<String> = (0..out.n).map(|i| format!("({},1)", i)).collect();
            let mut body = format!("Module Scn{}.\n{}Definition cmt := mkCommittee {}.\n", k, out.defs, coq_list(&stakes));
            let mut mnodes = vec![];
            for (i, evs, obs, _, _) in &out.per_node {
                write!(body, "Definition evs_{i} : list (list N * Event) := {}.\nDefinition obs_{i} : list Obs := {}.\nDefinition v_{i} : list N := Eval vm_compute in (step_verdict cmt {i} evs_{i} obs_{i}).\n", coq_list(evs), coq_list(obs), i = i).unwrap();
                mnodes.push(format!("mkMNode {i} v_{i} obs_{i}", i = i));
            }
            write!(body, "Definition nodes := {}.\nDefinition verdict : list N := Eval vm_compute in (multi_verdict nodes).\nEnd Scn{}.\n", coq_list(&mnodes), k).unwrap();
            for (i, _, _, _, _) in &out.per_node { writeln!(body, "Eval vm_compute in (VERDICT, {}, Scn{}.v_{}).", k * 10 + i, k, i).unwrap(); }
            writeln!(body, "Eval vm_compute in (VERDICT, {}, Scn{}.verdict).\nEval vm_compute in (CONFLICT, {}, conflict_rounds Scn{}.nodes).", k * 10 + 9, k, k * 10 + 9, k).unwrap();
            e.body.push_str(&body);
            for (i, _, _, human, log) in &out.per_node {
                e.cases.push(json!({"case": k * 10 + i, "kind": "node", "scenario": k, "strategy": out.strategy, "committee_stakes": vec![1; out.n], "me": i, "byzantine": out.byz, "events": human, "commit_log": log,
                    "rerun": format!("multi run --seed {} --cases {} --only {}{}", o.seed, k + 1, k, o.script.as_ref().map(|s| format!(" --script {}", s)).unwrap_or_default())}));
            }
            let logs: BTreeMap<String, Vec<String>> = out.per_node.iter().map(|(i, _, _, _, log)| (i.to_string(), log.clone())).collect();
            e.cases.push(json!({"case": k * 10 + 9, "kind": "global", "scenario": k, "strategy": out.strategy, "n": out.n, "byzantine": out.byz, "honest": out.honest, "steps": out.steps,
                "commit_logs": logs, "schedule": out.sched, "messages_hex": out.hexmsgs,
                "rerun": format!("multi run --seed {} --cases {} --only {}{}", o.seed, k + 1, k, o.script.as_ref().map(|s| format!(" --script {}", s)).unwrap_or_default())}));
        }
    });
    for (i, mut e) in emits.into_iter().enumerate() {
        e.header.push_str("Definition CONFLICT := 434343.\n");
        e.finish(&o.out, &format!("multi_{}", i), o.seed);
    }
    let _ = std::fs::remove_dir_all(&dbroot);
}
