// Step-mode correspondence harness. Drives a real consensus `Core` (with the real Synchronizer,
// MempoolDriver/PayloadWaiter, Proposer, Aggregator, Store, SignatureService) one main-loop dispatch at a
// time on generated event sequences, on a current-thread runtime with a paused clock and a network tap, and
// writes a Coq file in which the executable model runs on the same events and is compared step by step
// (outputs per channel, result kind, state snapshot); the property monitors are evaluated on the observed trace.
use consensus::verif::*;
use consensus::Committee;
use crypto::Hash as _;
use crypto::{Digest, PublicKey, SecretKey, Signature, SignatureService};
use futures::FutureExt;
use hsverif::*;
use rand::rngs::StdRng;
use rand::seq::SliceRandom;
use rand::Rng;
use serde_json::json;
use std::collections::{HashMap, VecDeque};
use std::fmt::Write as _;
use store::Store;
use tokio::sync::mpsc::{channel, Receiver};

// ------------------------------------------------------------------------------------------ abstraction
struct Abs {
    keys: Vec<(PublicKey, SecretKey)>, // sorted by public key: index = authority id (rank)
    outsider: (PublicKey, SecretKey),   // a key that is not in the committee
    digests: HashMap<[u8; 32], String>,
    sigs: HashMap<Vec<u8>, String>,
    junk: u64,
    defs: String,
    nblk: usize,
    bnames: HashMap<Vec<u8>, String>,
}

fn sig_bytes(s: &Signature) -> Vec<u8> { bincode::serialize(s).unwrap() }
fn batch_digest(k: u8) -> Digest { Digest([k; 32]) }
fn batch_id(d: &Digest) -> Option<u8> { if d.0[0] != 0 && d.0.iter().all(|&x| x == d.0[0]) { Some(d.0[0]) } else { None } }

impl Abs {
    fn id(&self, pk: &PublicKey) -> usize { self.keys.iter().position(|(k, _)| k == pk).unwrap_or(99) }
    fn pay(&mut self, p: &[Digest]) -> String {
        coq_list(&p.iter().map(|d| match batch_id(d) { Some(k) => k.to_string(), None => "255".into() }).collect::<Vec<_>>())
    }
    fn dg(&mut self, d: &Digest) -> String {
        if d.0 == [0u8; 32] { return "DZero".into(); }
        if let Some(s) = self.digests.get(&d.0) { return s.clone(); }
        self.junk += 1; let s = format!("(DOther {})", self.junk); self.digests.insert(d.0, s.clone()); s
    }
    fn sg(&mut self, s: &Signature) -> String {
        if let Some(x) = self.sigs.get(&sig_bytes(s)) { return x.clone(); }
        self.junk += 1; let t = format!("(SigJunk {})", self.junk); self.sigs.insert(sig_bytes(s), t.clone()); t
    }
    fn qc(&mut self, q: &QC) -> String {
        // a signature not seen before is classified by verifying it against the content it should sign here
        for (pk, s) in &q.votes {
            if !self.sigs.contains_key(&sig_bytes(s)) {
                let v = Vote { hash: q.hash.clone(), round: q.round, author: *pk, signature: Signature::default() };
                if s.verify(&v.digest(), pk).is_ok() { let t = format!("(SigOf {} (CVote {} {}))", self.id(pk), self.dg(&q.hash), q.round); self.sigs.insert(sig_bytes(s), t); }
            }
        }
        let votes: Vec<String> = q.votes.iter().map(|(pk, s)| format!("({}, {})", self.id(pk), self.sg(s))).collect();
        format!("(mkQC {} {} {})", self.dg(&q.hash), q.round, coq_list(&votes))
    }
    fn tc(&mut self, t: &TC) -> String {
        for (pk, s, hq) in &t.votes {
            if !self.sigs.contains_key(&sig_bytes(s)) {
                let x = Timeout { high_qc: QC { hash: Digest::default(), round: *hq, votes: vec![] }, round: t.round, author: *pk, signature: Signature::default() };
                if s.verify(&x.digest(), pk).is_ok() { self.sigs.insert(sig_bytes(s), format!("(SigOf {} (CTimeout {} {}))", self.id(pk), t.round, hq)); }
            }
        }
        let votes: Vec<String> = t.votes.iter().map(|(pk, s, r)| format!("({}, {}, {})", self.id(pk), self.sg(s), r)).collect();
        format!("(mkTC {} {})", t.round, coq_list(&votes))
    }
    fn otc(&mut self, t: &Option<TC>) -> String { match t { Some(t) => format!("(Some {})", self.tc(t)), None => "None".into() } }
    // register a block: define its digest term and the block term by name
    fn block(&mut self, b: &Block) -> String {
        if b.author == PublicKey::default() && b.round == 0 && b.qc == QC::genesis() { return "block_genesis".into(); }
        let key = bincode::serialize(b).unwrap();
        if let Some(n) = self.bnames.get(&key) { return n.clone(); }
        let d = b.digest();
        if !self.digests.contains_key(&d.0) {
            let parent = self.dg(&b.qc.hash);
            let name = format!("d{}", self.nblk);
            let pl = self.pay(&b.payload);
            writeln!(self.defs, "Definition {} := DBlk {} {} {} {}.", name, self.id(&b.author), b.round, pl, parent).unwrap();
            self.digests.insert(d.0, name);
        }
        let dn = self.dg(&d);
        if b.signature.verify(&d, &b.author).is_ok() {
            let a = self.id(&b.author);
            self.sigs.insert(sig_bytes(&b.signature), format!("(SigOf {} (CBlock {}))", a, dn));
        }
        let name = format!("b{}", self.nblk); self.nblk += 1;
        let pl = self.pay(&b.payload);
        let term = format!("mkBlock {} {} {} {} {} {}", self.qc(&b.qc), self.otc(&b.tc), self.id(&b.author), b.round, pl, self.sg(&b.signature));
        writeln!(self.defs, "Definition {} := {}.", name, term).unwrap();
        self.bnames.insert(key, name.clone());
        name
    }
    fn vote(&mut self, v: &Vote) -> String {
        if v.signature.verify(&v.digest(), &v.author).is_ok() {
            let t = format!("(SigOf {} (CVote {} {}))", self.id(&v.author), self.dg(&v.hash), v.round);
            self.sigs.insert(sig_bytes(&v.signature), t);
        }
        format!("(mkVote {} {} {} {})", self.dg(&v.hash), v.round, self.id(&v.author), self.sg(&v.signature))
    }
    fn timeout(&mut self, t: &Timeout) -> String {
        if t.signature.verify(&t.digest(), &t.author).is_ok() {
            let s = format!("(SigOf {} (CTimeout {} {}))", self.id(&t.author), t.round, t.high_qc.round);
            self.sigs.insert(sig_bytes(&t.signature), s);
        }
        format!("(mkTimeout {} {} {} {})", self.qc(&t.high_qc), t.round, self.id(&t.author), self.sg(&t.signature))
    }
    fn key(&self, a: usize) -> (PublicKey, &SecretKey) { if a < self.keys.len() { (self.keys[a].0, &self.keys[a].1) } else { (self.outsider.0, &self.outsider.1) } }
    // signatures the generator makes on behalf of authorities (a = keys.len() is the outsider)
    fn sign_vote(&mut self, a: usize, hash: &Digest, round: u64) -> Signature {
        let (pk, sk) = self.key(a);
        let v = Vote { hash: hash.clone(), round, author: pk, signature: Signature::default() };
        let s = Signature::new(&v.digest(), sk);
        let t = format!("(SigOf {} (CVote {} {}))", self.id(&pk), self.dg(hash), round);
        self.sigs.insert(sig_bytes(&s), t); s
    }
    fn sign_timeout(&mut self, a: usize, round: u64, hq: u64) -> Signature {
        let (pk, sk) = self.key(a);
        let t = Timeout { high_qc: QC { hash: Digest::default(), round: hq, votes: vec![] }, round, author: pk, signature: Signature::default() };
        let s = Signature::new(&t.digest(), sk);
        self.sigs.insert(sig_bytes(&s), format!("(SigOf {} (CTimeout {} {}))", self.id(&pk), round, hq)); s
    }
    fn mk_vote(&mut self, a: usize, b: &Block) -> Vote {
        let s = self.sign_vote(a, &b.digest(), b.round);
        Vote { hash: b.digest(), round: b.round, author: self.key(a).0, signature: s }
    }
    fn mk_timeout(&mut self, a: usize, round: u64, hq: QC) -> Timeout {
        let s = self.sign_timeout(a, round, hq.round);
        Timeout { high_qc: hq, round, author: self.key(a).0, signature: s }
    }
    fn mk_block_by(&mut self, a: usize, qc: QC, tc: Option<TC>, round: u64, payload: Vec<Digest>) -> Block {
        let (pk, _) = self.key(a);
        let b = Block { qc, tc, author: pk, round, payload, signature: Signature::default() };
        let signature = Signature::new(&b.digest(), self.key(a).1);
        let b = Block { signature, ..b };
        let _ = self.block(&b);
        b
    }
    fn mk_block(&mut self, qc: QC, tc: Option<TC>, round: u64, payload: Vec<Digest>) -> Block {
        let a = (round as usize) % self.keys.len();
        self.mk_block_by(a, qc, tc, round, payload)
    }
    fn mk_qc(&mut self, b: &Block, signers: &[usize]) -> QC {
        let d = b.digest();
        let votes = signers.iter().map(|&a| (self.key(a).0, self.sign_vote(a, &d, b.round))).collect();
        QC { hash: d, round: b.round, votes }
    }
    fn mk_tc(&mut self, round: u64, hqs: &[(usize, u64)]) -> TC {
        TC { round, votes: hqs.iter().map(|&(a, hq)| (self.key(a).0, self.sign_timeout(a, round, hq), hq)).collect() }
    }
}

// ------------------------------------------------------------------------------------------ events
#[derive(Clone)]
enum Ev { Propose(Block), Vote(Vote), Timeout(Timeout), TC(TC), Timer, Loop, LoopAll, LoopOld, Batch(u8), Dig(u8) }

struct Cfg { n: usize, me: usize, stakes: Vec<u32>, quorum: u32 }
impl Cfg {
    // a random set of signers whose stake reaches the quorum (plus possibly some extra)
    fn quorum_set(&self, rng: &mut StdRng, extra: bool) -> Vec<usize> {
        // never forge a signature of the node under test if the others hold a quorum
        let others: u32 = (0..self.n).filter(|&i| i != self.me).map(|i| self.stakes[i]).sum();
        let excl_me = others >= self.quorum;
        if !excl_me { inadmissible(); }
        let mut all: Vec<usize> = (0..self.n).filter(|&i| self.stakes[i] > 0 && !(excl_me && i == self.me)).collect();
        all.shuffle(rng);
        let mut w = 0u32; let mut out = vec![];
        for a in all { if w >= self.quorum && !(extra && rng.gen_bool(0.3)) { break; } w += self.stakes[a]; out.push(a); }
        out
    }
    fn leader(&self, r: u64) -> usize { (r as usize) % self.n }
}

fn rand_payload(rng: &mut StdRng) -> Vec<Digest> {
    let k = if rng.gen_bool(0.5) { 0 } else { rng.gen_range(1, 4) };
    let mut v: Vec<u8> = vec![]; for _ in 0..k { let x = rng.gen_range(1, 13u8); if !v.contains(&x) { v.push(x); } }
    v.into_iter().map(batch_digest).collect()
}

// kind A: a block tree (main chain with TC-justified gaps, occasional forks), delivered in a locally shuffled order
// with timers, votes, timeouts, TCs and batch arrivals interleaved
fn gen_chain(rng: &mut StdRng, abs: &mut Abs, cfg: &Cfg, e: &mut Emit, boost: u64) -> Vec<Ev> {
    let mut blocks: Vec<Block> = vec![];
    let mut tip: Option<Block> = None;
    let mut round = 0u64;
    let len = rng.gen_range(3, 10);
    // half of the chain cases stay within the fault model (simulated members report what they must hold, nobody extends an
    // abandoned branch): the agreement-based monitors apply to those; the other half is adversarial beyond it
    let faithful = rng.gen_bool(0.5);
    if faithful { e.stat("chain:faithful", 1); }
    // sometimes one batch (id 14, outside the random pool) is shared by every block from some point on and stays missing until the
    // very end: each of these blocks must be parked on it - several parked blocks waiting for the SAME batch
    let shared_from: Option<usize> = if rng.gen_bool(0.15) { e.stat("shared_missing_batch", 1); Some(rng.gen_range(0, len)) } else { None };
    for _ in 0..len {
        let gap = if rng.gen_bool(0.35) { rng.gen_range(1, 4u64) } else { 0 };
        round += 1 + gap;
        // skip rounds led by a zero-stake member (their blocks are invalid by construction; the malformed stream covers them)
        while cfg.stakes[cfg.leader(round)] == 0 { round += 1; }
        let gap = round - tip.as_ref().map(|t| t.round).unwrap_or(0) - 1;
        let signers = cfg.quorum_set(rng, true);
        // mostly extend the tip; sometimes (after a gap) extend an OLDER certified block than the one the node already holds a
        // QC for, justified by a TC whose reported rounds lie between the two (the shape a Byzantine leader would try)
        let tip_round = tip.as_ref().map(|t| t.round).unwrap_or(0);
        let older: Option<Block> = if !faithful && gap > 0 && blocks.len() >= 2 && rng.gen_bool(if boost > 1 { 0.5 } else { 0.25 }) { e.stat("extends_older_block", 1); inadmissible(); Some(blocks[rng.gen_range(0, blocks.len() - 1)].clone()) } else { None };
        let base = older.clone().or(tip.clone());
        let (qc, qr) = match &base { Some(t) => (abs.mk_qc(t, &signers), t.round), None => (QC::genesis(), 0) };
        let tc = if gap > 0 {
            let s2 = cfg.quorum_set(rng, false);
            // reported high-QC rounds: mostly <= the block's QC round, sometimes above it (then the block is not votable)
            let hqs: Vec<(usize, u64)> = s2.iter().map(|&a| (a, if faithful { qr } else if older.is_some() && tip_round > qr && rng.gen_bool(0.7) { rng.gen_range(qr, tip_round + 1) } else if rng.gen_bool(0.12) { e.stat("tc_hq_above_qc", 1); qr + rng.gen_range(1, 3) } else if qr > 0 && rng.gen_bool(0.4) { rng.gen_range(0, qr + 1) } else { qr })).collect();
            if hqs.iter().any(|&(_, h)| h != qr) { inadmissible(); }   // a member reporting another high-QC round than the one it must hold
            let tcr = if rng.gen_bool(0.1) { e.stat("tc_wrong_round", 1); round.saturating_sub(2) } else { round - 1 };
            Some(abs.mk_tc(tcr, &hqs))
        } else { None };
        let mut pl0 = rand_payload(rng);
        if let Some(j) = shared_from { if blocks.len() >= j { pl0.push(batch_digest(14)); } }
        let b = abs.mk_block(qc, tc, round, pl0);
        blocks.push(b.clone());
        if rng.gen_bool(0.12) { // an equivocating leader: a second block for the same round and parent
            e.stat("fork", 1);
            let mut pl = rand_payload(rng); pl.push(batch_digest(13));
            let f = abs.mk_block(b.qc.clone(), b.tc.clone(), round, pl);
            blocks.push(f);
        }
        if rng.gen_bool(0.8) { tip = Some(b); } else { e.stat("orphaned_tip", 1); }
        if tip.is_none() { tip = blocks.last().cloned(); }
    }
    let mut evs: Vec<Ev> = vec![];
    let mut order: Vec<usize> = (0..blocks.len()).collect();
    for i in 0..order.len().saturating_sub(1) { if rng.gen_bool(0.3) { order.swap(i, i + 1); } }
    if rng.gen_bool(0.1) { order.reverse(); e.stat("reversed_delivery", 1); }
    let mut have: Vec<u8> = vec![];
    for &i in &order {
        if rng.gen_bool(0.15) { evs.push(Ev::Timer); }
        // batches: mostly available before the proposal, sometimes after (payload parked), sometimes never
        let pl: Vec<u8> = blocks[i].payload.iter().filter_map(batch_id).collect();
        let mut late: Vec<u8> = vec![];
        for k in pl { if have.contains(&k) || k == 14 { continue; } let x: f64 = rng.gen(); if x < 0.6 { evs.push(Ev::Batch(k)); have.push(k); } else if x < 0.9 { late.push(k); } else { e.stat("batch_never", 1); } }
        // sometimes the TC a block carries reaches the node on its own first (the node then enters the round with its old high QC)
        let tc_first = blocks[i].tc.is_some() && rng.gen_bool(0.35);
        if tc_first { e.stat("tc_before_proposal", 1); evs.push(Ev::TC(blocks[i].tc.clone().unwrap())); }
        evs.push(Ev::Propose(blocks[i].clone()));
        // the same proposal delivered again (duplicate broadcast, several peers answering a sync request), also while its payload is
        // still missing: it must be parked again, not processed
        if rng.gen_bool(if late.is_empty() { 0.08 } else { 0.3 }) { e.stat(if late.is_empty() { "duplicate_proposal" } else { "duplicate_proposal_while_payload_missing" }, 1); if rng.gen_bool(0.3) { evs.push(Ev::Loop); } evs.push(Ev::Propose(blocks[i].clone())); }
        if !late.is_empty() {
            e.stat("payload_late", 1); late.shuffle(rng);
            for k in late { if rng.gen_bool(0.3) { evs.push(Ev::Loop); } evs.push(Ev::Batch(k)); have.push(k); }
            // ... and the resumed block is processed and the round then times out (the timeout must carry the voted block's QC)
            if tc_first || rng.gen_bool(0.3) { evs.push(Ev::LoopAll); evs.push(Ev::Timer); e.stat("late_payload_then_timer", 1); }
        }
        if rng.gen_bool(0.5) { evs.push(Ev::Loop); }
        if rng.gen_bool(0.2) {
            let b = &blocks[i]; let a = (cfg.me + 1 + rng.gen_range(0, cfg.n - 1)) % cfg.n;   // never a forged vote of the node itself
            evs.push(Ev::Vote(abs.mk_vote(a, b)));
        }
        if rng.gen_bool(0.15) {
            let r = blocks[i].round + rng.gen_range(0, 2); let a = (cfg.me + 1 + rng.gen_range(0, cfg.n - 1)) % cfg.n;
            let low = !faithful && rng.gen_bool(0.5); if low && blocks[i].qc.round > 0 { inadmissible(); }
            evs.push(Ev::Timeout(abs.mk_timeout(a, r, if low { QC::genesis() } else { blocks[i].qc.clone() })));
        }
        if rng.gen_bool(0.1) { let r = blocks[i].round; let hq = blocks[i].qc.round; let s = cfg.quorum_set(rng, false); let hqs: Vec<(usize, u64)> = s.iter().map(|&a| (a, hq)).collect(); evs.push(Ev::TC(abs.mk_tc(r, &hqs))); }
        // the mempool hands a digest to the proposer only after the batch is stored (Processor order; C13): keep that order
        if rng.gen_bool(0.15) && !have.is_empty() { let k = have[rng.gen_range(0, have.len())]; evs.push(Ev::Dig(k)); }
    }
    for _ in 0..4 { evs.push(Ev::Loop); }
    if shared_from.is_some() && rng.gen_bool(0.5) { evs.push(Ev::Batch(14)); evs.push(Ev::LoopAll); }
    // beyond the fault model: after the chain, a storable-but-unvotable block Y (round gap without a TC) and then a block X of a
    // LOWER-or-equal round carrying a TC of the preceding round and the QC of Y: the QC must move the node past X's round
    if !faithful && rng.gen_bool(0.12) {
        if let Some(t) = tip.clone() {
            e.stat("qc_above_block", 1); inadmissible();
            let signers = cfg.quorum_set(rng, true);
            let qt = abs.mk_qc(&t, &signers);
            let ky = t.round + rng.gen_range(3, 6);
            let ky = { let mut k = ky; while cfg.stakes[cfg.leader(k)] == 0 { k += 1; } k };
            let y = abs.mk_block(qt, None, ky, vec![]);
            let qy = abs.mk_qc(&y, &signers);
            let mut rx = t.round + 2 + rng.gen_range(0, ky - t.round - 1); if rx > ky { rx = ky; }
            while cfg.stakes[cfg.leader(rx)] == 0 && rx < ky { rx += 1; }
            if cfg.stakes[cfg.leader(rx)] > 0 {
                let s2 = cfg.quorum_set(rng, false);
                let hqs: Vec<(usize, u64)> = s2.iter().map(|&a| (a, t.round)).collect();
                let tcx = abs.mk_tc(rx - 1, &hqs);
                let x = abs.mk_block(qy, Some(tcx), rx, vec![]);
                evs.push(Ev::Propose(y)); if rng.gen_bool(0.3) { evs.push(Ev::Loop); }
                evs.push(Ev::Propose(x)); evs.push(Ev::LoopAll);
            }
        }
    }
    evs
}


// kind B: the node under test leads round R+1. A consecutive chain up to R-1 is delivered, then -- in a random order --
// the round-R proposal, the other members' votes for it, a TC for round R, individual timeouts for round R, timer
// expiries and duplicates: the QC path, the TC path, and every race between them (late votes after a TC, a late TC
// after the QC, ...), followed by the loop-backs of the node's own proposals.
thread_local! { static CLEAN_LEADER: std::cell::Cell<Option<u64>> = std::cell::Cell::new(None); }
// Is the generated history within the fault model (no forged signature of the node under test, one certified chain, simulated
// members report high-QC rounds consistent with what they voted)? Only then do the agreement-based monitors (C02's global chain) apply.
thread_local! { static ADMISSIBLE: std::cell::Cell<bool> = std::cell::Cell::new(true); }
fn inadmissible() { ADMISSIBLE.with(|c| c.set(false)); }
fn gen_leader(rng: &mut StdRng, abs: &mut Abs, cfg: &Cfg, e: &mut Emit) -> Vec<Ev> {
    let mut clean = true;
    let n = cfg.n as u64;
    let mut r_plus = cfg.me as u64; while r_plus < 3 { r_plus += n; }
    if rng.gen_bool(0.3) { r_plus += n; }
    let big_r = r_plus - 1;
    let all: Vec<usize> = (0..cfg.n).collect();
    let mut evs = vec![];
    let mut tip: Option<Block> = None;
    for r in 1..big_r {
        let qc = match &tip { Some(t) => abs.mk_qc(t, &all), None => QC::genesis() };
        let b = abs.mk_block(qc, None, r, vec![]);
        evs.push(Ev::Propose(b.clone())); evs.push(Ev::LoopAll);
        tip = Some(b);
    }
    let qc_prev = match &tip { Some(t) => abs.mk_qc(t, &all), None => QC::genesis() };
    let b_r = abs.mk_block(qc_prev.clone(), None, big_r, rand_payload_none());
    let mut pool: Vec<Ev> = vec![Ev::Propose(b_r.clone())];
    for a in 0..cfg.n { if a != cfg.me || rng.gen_bool(0.1) { pool.push(Ev::Vote(abs.mk_vote(a, &b_r))); } }
    // one scenario in four is a clean happy path (proposal + everybody's vote, any order, nothing else): C06's enabling monitor applies
    let happy = rng.gen_bool(0.25);
    if !happy && rng.gen_bool(0.7) { clean = false; e.stat("leader:tc", 1); let s2 = cfg.quorum_set(rng, false); let hq = qc_prev.round; pool.push(Ev::TC(abs.mk_tc(big_r, &s2.iter().map(|&a| (a, hq)).collect::<Vec<_>>()))); }
    if !happy && rng.gen_bool(0.6) { clean = false; e.stat("leader:timeouts", 1); for a in 0..cfg.n { if a != cfg.me && rng.gen_bool(0.8) { pool.push(Ev::Timeout(abs.mk_timeout(a, big_r, qc_prev.clone()))); } } }
    if !happy && rng.gen_bool(0.4) { clean = false; pool.push(Ev::Timer); }
    if rng.gen_bool(0.3) { let a = rng.gen_range(0, cfg.n); pool.push(Ev::Vote(abs.mk_vote(a, &b_r))); } // duplicate vote
    if !happy && rng.gen_bool(0.35) { clean = false; // forged votes for the round-R block: claimed author (possibly the node itself), signature by somebody else
        e.stat("leader:forged_vote", 1);
        for _ in 0..rng.gen_range(1, 3) {
            let claimed = if rng.gen_bool(0.5) { cfg.me } else { rng.gen_range(0, cfg.n) };
            let signer = (claimed + 1 + rng.gen_range(0, cfg.n.max(2) - 1)) % cfg.n;
            let mut v = abs.mk_vote(signer, &b_r); v.author = abs.key(claimed).0;
            pool.push(Ev::Vote(v));
        }
    }
    if !happy && rng.gen_bool(0.2) { clean = false; // a conflicting block of the same round with votes for it
        let f = abs.mk_block(qc_prev.clone(), None, big_r, vec![batch_digest(13)]);
        for a in 0..cfg.n { if a != cfg.me && rng.gen_bool(0.5) { pool.push(Ev::Vote(abs.mk_vote(a, &f))); } }
        e.stat("leader:conflicting_votes", 1); inadmissible();
    }
    pool.shuffle(rng);
    if clean { e.stat("leader:clean_happy_path", 1); }
    CLEAN_LEADER.with(|c| c.set(if clean { Some(r_plus) } else { None }));
    for ev in pool { evs.push(ev); if rng.gen_bool(0.3) { evs.push(Ev::Loop); } }
    evs.push(Ev::LoopAll); evs.push(Ev::LoopAll);
    // one more round on top of whatever the node proposed is left to the loop-backs; add stale leftovers
    if rng.gen_bool(0.5) { let a = rng.gen_range(0, cfg.n); evs.push(Ev::Vote(abs.mk_vote(a, &b_r))); }
    if rng.gen_bool(0.5) { let s2 = cfg.quorum_set(rng, false); let hq = qc_prev.round; evs.push(Ev::TC(abs.mk_tc(big_r, &s2.iter().map(|&a| (a, hq)).collect::<Vec<_>>()))); }
    evs.push(Ev::LoopAll);
    evs
}
fn rand_payload_none() -> Vec<Digest> { vec![] }

// kind C: valid messages mutated field by field (the malformed stream), each followed by the valid original
fn gen_malformed(rng: &mut StdRng, abs: &mut Abs, cfg: &Cfg, e: &mut Emit) -> Vec<Ev> {
    let mut evs = vec![];
    let mut tip: Option<Block> = None;
    let mut round = 0u64;
    for it in 0..rng.gen_range(3, 7) {
        round += 1; while cfg.stakes[cfg.leader(round)] == 0 { round += 1; }
        let gap = round - tip.as_ref().map(|t| t.round).unwrap_or(0) - 1;
        let signers = cfg.quorum_set(rng, false);
        let (qc, qr) = match &tip { Some(t) => (abs.mk_qc(t, &signers), t.round), None => (QC::genesis(), 0) };
        let tc = if gap > 0 { let s2 = cfg.quorum_set(rng, false); Some(abs.mk_tc(round - 1, &s2.iter().map(|&a| (a, qr)).collect::<Vec<_>>())) } else { None };
        let good = abs.mk_block(qc.clone(), tc.clone(), round, vec![]);
        let out = cfg.n; // outsider index
        let m = rng.gen_range(0, 16);
        let kind = ["qc_repeat_signer", "qc_nonmember", "qc_subquorum", "qc_sig_transplant_round", "qc_sig_from_timeout", "block_wrong_leader", "block_bad_sig", "block_resigned_field", "tc_repeat_signer", "tc_subquorum", "tc_sig_wrong_hq", "vote_bad", "timeout_bad", "tc_msg_bad", "qc_round0_naming_a_block", "timeout_qc_round0_naming_a_block"][m];
        e.stat(&format!("mut:{}", kind), 1);
        // sometimes the mutated PROPOSAL also names a batch the node does not have yet, which arrives right after: a block that is
        // rejected on arrival must not come back through the payload-wait loop-back
        let late = m <= 5 || m == 14; let late = late && rng.gen_bool(0.35);
        let pl: Vec<Digest> = if late { e.stat("mutated_proposal_with_late_payload", 1); vec![batch_digest(20 + it as u8)] } else { vec![] };
        let n_before = evs.len();
        match m {
            0 if !qc.votes.is_empty() => { let mut q = qc.clone(); let v = q.votes[0].clone(); q.votes.push(v); evs.push(Ev::Propose(abs.mk_block(q, tc.clone(), round, pl.clone()))); }
            1 if tip.is_some() => { let mut q = qc.clone(); let t = tip.clone().unwrap(); let s = abs.sign_vote(out, &t.digest(), t.round); q.votes.push((abs.outsider.0, s)); evs.push(Ev::Propose(abs.mk_block(q, tc.clone(), round, pl.clone()))); }
            2 if !qc.votes.is_empty() => { let mut q = qc.clone(); q.votes.pop(); evs.push(Ev::Propose(abs.mk_block(q, tc.clone(), round, pl.clone()))); }
            3 if tip.is_some() => { let t = tip.clone().unwrap(); let mut q = qc.clone(); let a = abs.id(&q.votes[0].0); q.votes[0].1 = abs.sign_vote(a, &t.digest(), t.round + 1); evs.push(Ev::Propose(abs.mk_block(q, tc.clone(), round, pl.clone()))); }
            4 if tip.is_some() => { let t = tip.clone().unwrap(); let mut q = qc.clone(); let a = abs.id(&q.votes[0].0); q.votes[0].1 = abs.sign_timeout(a, t.round, 0); evs.push(Ev::Propose(abs.mk_block(q, tc.clone(), round, pl.clone()))); }
            5 => { let a = (cfg.leader(round) + 1) % cfg.n; evs.push(Ev::Propose(abs.mk_block_by(a, qc.clone(), tc.clone(), round, pl.clone()))); }
            6 => { let mut b = good.clone(); b.signature = abs.sign_vote(cfg.leader(round), &good.digest(), round); let _ = abs.block(&b); evs.push(Ev::Propose(b)); }
            7 => { let mut b = good.clone(); b.payload.push(batch_digest(7)); let _ = abs.block(&b); evs.push(Ev::Propose(b)); } // payload changed, signature kept
            8 => { let s2 = cfg.quorum_set(rng, false); let mut t = abs.mk_tc(round, &s2.iter().map(|&a| (a, 0)).collect::<Vec<_>>()); let v = t.votes[0].clone(); t.votes.push(v); evs.push(Ev::TC(t)); }
            9 => { let s2 = cfg.quorum_set(rng, false); let mut t = abs.mk_tc(round, &s2.iter().map(|&a| (a, 0)).collect::<Vec<_>>()); t.votes.pop(); evs.push(Ev::TC(t)); }
            10 => { let s2 = cfg.quorum_set(rng, false); let mut t = abs.mk_tc(round, &s2.iter().map(|&a| (a, 0)).collect::<Vec<_>>()); t.votes[0].2 = 1; evs.push(Ev::TC(t)); }
            11 => { let a = rng.gen_range(0, cfg.n); let mut v = abs.mk_vote(a, &good); match rng.gen_range(0, 3) { 0 => v.round += 1, 1 => v.author = abs.key((a + 1) % cfg.n).0, _ => v.author = abs.outsider.0 }; evs.push(Ev::Vote(v)); }
            12 => { let a = rng.gen_range(0, cfg.n); let mut t = abs.mk_timeout(a, round, qc.clone()); match rng.gen_range(0, 3) { 0 => t.round += 1, 1 => t.high_qc = QC::genesis(), _ => { if !t.high_qc.votes.is_empty() { t.high_qc.votes.pop(); } else { t.author = abs.outsider.0; } } }; evs.push(Ev::Timeout(t)); }
            // an uncertified "QC" that is not the genesis certificate: round 0 but naming a real block, no votes
            14 if tip.is_some() => { let t = tip.clone().unwrap(); let q = QC { hash: t.digest(), round: 0, votes: vec![] }; evs.push(Ev::Propose(abs.mk_block(q, tc.clone(), round, pl.clone()))); }
            15 if tip.is_some() => { let t = tip.clone().unwrap(); let a = (cfg.me + 1) % cfg.n; let q = QC { hash: t.digest(), round: 0, votes: vec![] }; evs.push(Ev::Timeout(abs.mk_timeout(a, round, q))); }
            13 => { let s2 = cfg.quorum_set(rng, false); let mut t = abs.mk_tc(round, &s2.iter().map(|&a| (a, 0)).collect::<Vec<_>>()); let s = abs.sign_timeout(out, round, 0); t.votes.push((abs.outsider.0, s, 0)); evs.push(Ev::TC(t)); }
            _ => {}
        }
        if late && evs.len() > n_before { evs.push(Ev::Batch(20 + it as u8)); evs.push(Ev::LoopAll); }
        if rng.gen_bool(0.3) { evs.push(Ev::Timer); }
        evs.push(Ev::Propose(good.clone()));
        evs.push(Ev::Loop);
        tip = Some(good);
        if rng.gen_bool(0.3) { round += rng.gen_range(1, 3); }
    }
    evs
}

// the C02 witnesses of DESIGN.md §4 and other scripted chains (committee of 4, equal stakes, me = 3)
fn gen_script(name: &str, abs: &mut Abs, _cfg: &Cfg) -> Vec<Ev> {
    let all = [0usize, 1, 2, 3];
    let mut chain = |abs: &mut Abs, spec: &[(u64, usize, Option<(u64, u64)>)]| -> Vec<Ev> {
        // spec: (round, index of the parent in the list so far + 1 (0 = genesis), tc (round, hq))
        let mut bs: Vec<Block> = vec![];
        for &(r, p, tc) in spec {
            let qc = if p == 0 { QC::genesis() } else { let pb = bs[p - 1].clone(); abs.mk_qc(&pb, &all) };
            let tc = tc.map(|(tr, hq)| abs.mk_tc(tr, &[(0, hq), (1, hq), (2, hq)]));
            let b = abs.mk_block(qc, tc, r, vec![]);
            bs.push(b);
        }
        bs.into_iter().map(Ev::Propose).collect()
    };
    match name {
        "c02_order" => chain(abs, &[(1, 0, None), (3, 1, Some((2, 1))), (5, 2, Some((4, 3))), (6, 3, None), (7, 4, None)]),
        "c02_genesis" => chain(abs, &[(3, 0, Some((2, 0))), (4, 1, None), (5, 2, None)]),
        "c02_duplicate" => chain(abs, &[(1, 0, None), (2, 1, None), (3, 2, None), (6, 1, Some((5, 1))), (7, 4, None), (8, 5, None)]),
        "c02_long_gap" => chain(abs, &[(1, 0, None), (2, 1, None), (5, 2, Some((4, 2))), (9, 3, Some((8, 5))), (10, 4, None), (11, 5, None), (12, 6, None)]),
        // a lagging node that learns A6 <- A5 <- A1 newest first (it votes for none of them) is then shown X: a round-4 block by the
        // round-4 leader carrying a valid TC of round 3 and the QC of A5 (round 5, NOT lower than the block's round). The node is in
        // round 6 by then: it must not vote for X.
        "c03_stale_round" => {
            // (beyond the fault model on purpose: A5 is certified although no honest node could vote for it)
            inadmissible();
            let a1 = abs.mk_block(QC::genesis(), None, 1, vec![]);
            let q1 = abs.mk_qc(&a1, &[0, 1, 2]);
            let a5 = abs.mk_block(q1, None, 5, vec![]);                       // round gap without a TC: storable, never votable
            let q5 = abs.mk_qc(&a5, &[0, 1, 2]);
            let a6 = abs.mk_block(q5.clone(), None, 6, vec![]);
            let t3 = abs.mk_tc(3, &[(0, 1), (1, 1), (2, 1)]);
            let x = abs.mk_block(q5, Some(t3), 4, vec![batch_digest(13)]);     // round 4, QC of round 5
            vec![Ev::Propose(a6), Ev::Propose(a5), Ev::Propose(a1), Ev::LoopOld, Ev::Batch(13), Ev::Propose(x), Ev::LoopAll]
        }
        "c03_qc_above_block" => {
            // a block of round 4 carrying TC(3) and the QC of a stored block of round 5, shown to a node that is still in round 2
            // (A5 is storable but never votable: a round gap without a TC): the node must move to round 6 on the QC and not vote
            inadmissible();
            let a1 = abs.mk_block(QC::genesis(), None, 1, vec![]);
            let q1 = abs.mk_qc(&a1, &[0, 1, 2]);
            let a5 = abs.mk_block(q1, None, 5, vec![]);
            let q5 = abs.mk_qc(&a5, &[0, 1, 2]);
            let t3 = abs.mk_tc(3, &[(0, 1), (1, 1), (2, 1)]);
            let x = abs.mk_block(q5, Some(t3), 4, vec![]);
            vec![Ev::Propose(a1), Ev::Propose(a5), Ev::Propose(x), Ev::LoopAll, Ev::Timer]
        }
        "c05_unverified_loopback" => {
            // a correctly signed round-3 block by the right leader whose QC for A2 has ONE vote (invalid) and whose payload batch is
            // missing when it arrives; the batch arrives later. The block must have been rejected on arrival: nothing parked, nothing
            // resumed, and above all no commit of A1 on the strength of an unverified certificate
            inadmissible();
            let a1 = abs.mk_block(QC::genesis(), None, 1, vec![]);
            let q1 = abs.mk_qc(&a1, &[0, 1, 2]);
            let a2 = abs.mk_block(q1, None, 2, vec![]);
            let q2bad = abs.mk_qc(&a2, &[0]);
            let x3 = abs.mk_block(q2bad, None, 3, vec![batch_digest(13)]);
            vec![Ev::Propose(a1), Ev::Propose(a2), Ev::Propose(x3), Ev::Batch(13), Ev::LoopAll, Ev::Loop]
        }
        _ => vec![],
    }
}
const SCRIPTS: [&str; 7] = ["c02_order", "c02_genesis", "c02_duplicate", "c02_long_gap", "c03_stale_round", "c03_qc_above_block", "c05_unverified_loopback"];

// ------------------------------------------------------------------------------------------ the real node
async fn settle() { for _ in 0..96 { tokio::task::yield_now().await; } }
fn drain<T>(rx: &mut Receiver<T>) -> Vec<T> { let mut v = vec![]; while let Ok(x) = rx.try_recv() { v.push(x); } v }

struct CaseOut { defs: String, evs: Vec<String>, obs: Vec<String>, human: Vec<String>, nontrivial: bool, hexmsgs: Vec<String> }

#[allow(clippy::too_many_arguments)]
async fn run_case(seed: u64, case: usize, script: Option<&str>, dbroot: &str, e: &mut Emit, boost: u64) -> (Cfg, CaseOut) {
    let mut rng = case_rng(seed, 1, case as u64);
    let kind = if script.is_some() { 9 } else { case % 8 };
    let n = if script.is_some() { 4 } else { match case % 11 { 0 => rng.gen_range(2, 4), 1 => rng.gen_range(8, 11), _ => rng.gen_range(4, 8) } };
    let leader_kind = script.is_none() && (kind == 2 || kind == 5 || (boost > 1 && kind == 7));
    let mut stakes: Vec<u32> = if script.is_none() && case % 3 == 2 && !leader_kind { (0..n).map(|_| rng.gen_range(0, 5)).collect() } else { vec![1; n] };
    if stakes.iter().all(|&x| x == 0) { stakes[0] = 1; }
    let mut keys = sorted_keys(&mut rng, n + 1);
    let outsider = keys.remove(rng.gen_range(0, n + 1));
    let me = if script.is_some() { 3 } else { rng.gen_range(0, n) };
    let com = Committee::new(keys.iter().enumerate().map(|(i, (pk, _))| (*pk, stakes[i], format!("127.0.0.1:{}", 9000 + i).parse().unwrap())).collect(), 1);
    let cfg = Cfg { n, me, stakes: stakes.clone(), quorum: com.quorum_threshold() };
    let mut abs = Abs { keys, outsider, digests: HashMap::new(), sigs: HashMap::new(), junk: 0, defs: String::new(), nblk: 0, bnames: HashMap::new() };
    e.stat(&format!("kind={}", if leader_kind { "leader" } else { ["chain", "chain", "chain", "malformed", "chain", "chain", "malformed", "chain", "", "script"][kind] }), 1);
    e.stat(&format!("n={}", n), 1);
    if stakes.iter().any(|&x| x != 1) { e.stat("weighted", 1); }

    CLEAN_LEADER.with(|c| c.set(None));
    ADMISSIBLE.with(|c| c.set(true));
    if script.is_none() && (kind == 3 || kind == 6) { inadmissible(); }   // the malformed stream is about rejection, not about the committed chain
    let evs: Vec<Ev> = match (script, kind) {
        (Some(s), _) => gen_script(s, &mut abs, &cfg),
        (None, 3) | (None, 6) => gen_malformed(&mut rng, &mut abs, &cfg, e),
        (None, _) if leader_kind => gen_leader(&mut rng, &mut abs, &cfg, e),
        _ => gen_chain(&mut rng, &mut abs, &cfg, e, boost),
    };

    network::verif::tap_start();
    // up to f stake of the OTHER members is silent in a third of the cases: reliable messages to them (the proposer's broadcast of the
    // node's own blocks) are never acknowledged. The remaining members plus the node itself still hold a quorum, so nothing may block.
    {
        let mut srng = case_rng(seed, 31, case as u64);
        if srng.gen_bool(0.34) {
            let total: u32 = stakes.iter().sum(); let mut budget = total - com.quorum_threshold();
            let mut others: Vec<usize> = (0..n).filter(|&i| i != me).collect(); others.shuffle(&mut srng);
            let mut silent = vec![];
            for i in others { if stakes[i] > 0 && stakes[i] <= budget { budget -= stakes[i]; silent.push(i); } }
            if !silent.is_empty() {
                e.stat("cases with up to f silent members (never acknowledge the proposer's broadcast)", 1);
                network::verif::tap_silence(silent.iter().map(|&i| format!("127.0.0.1:{}", 9000 + i).parse().unwrap()).collect());
            }
        }
    }
    let path = format!("{}/db_step_{}_{}", dbroot, seed, case);
    let _ = std::fs::remove_dir_all(&path);
    let mut store = Store::new(&path).unwrap();
    let (name, secret) = (abs.keys[me].0, clone_secret(&abs.keys[me].1));
    let (_tx_core, rx_core) = channel(10);
    let (tx_loopback, mut rx_loopback) = channel(10_000);
    let (tx_proposer, mut rx_proposer) = channel(10_000);
    let (tx_prop_real, rx_prop_real) = channel(10_000);
    let (tx_mempool, mut rx_mempool) = channel(10_000);
    // a commit channel of capacity ONE and an application that consumes only while the core is waiting on it (plus what is buffered
    // when the dispatch returns): delivery that is not done by the core itself, in order, before the dispatch returns shows up
    let (tx_commit, mut rx_commit) = channel(1);
    let (tx_digest, rx_digest) = channel::<Digest>(10_000);
    let (_d, rx_dummy) = channel(10);
    let sigs = SignatureService::new(secret);
    let md = MempoolDriver::new(store.clone(), tx_mempool, tx_loopback.clone());
    let sy = Synchronizer::new(name, com.clone(), store.clone(), tx_loopback.clone(), 100_000_000);
    Proposer::spawn(name, com.clone(), sigs.clone(), rx_digest, rx_prop_real, tx_loopback);
    let mut core = Core::verif_new(name, com.clone(), sigs, store.clone(), LeaderElector::new(com.clone()), md, sy, 1_000_000_000, rx_core, rx_dummy, tx_proposer, tx_commit);

    let mut pool: Vec<Block> = vec![];
    let mut out = CaseOut { defs: String::new(), evs: vec![], obs: vec![], human: vec![], nontrivial: false, hexmsgs: vec![] };
    let mut queue: VecDeque<Option<Ev>> = VecDeque::new();
    queue.push_back(None); // boot
    for ev in evs { queue.push_back(Some(ev)); }
    let mut commits_total = 0usize; let mut votes_total = 0usize;
    let mut fed: std::collections::HashSet<Vec<u8>> = std::collections::HashSet::new();
    while let Some(ev) = queue.pop_front() {
        let (term, human, ve): (String, String, Option<VerifEvent>) = match ev {
            None => ("EvBoot".into(), "boot".into(), Some(VerifEvent::Boot)),
            Some(Ev::Propose(b)) => { fed.insert(bincode::serialize(&b).unwrap()); let nm = abs.block(&b); out.hexmsgs.push(hex(&bincode::serialize(&ConsensusMessage::Propose(b.clone())).unwrap())); (format!("EvPropose {}", nm), format!("propose r{} by {} qc{} tc{:?} payload{}", b.round, abs.id(&b.author), b.qc.round, b.tc.as_ref().map(|t| t.round), b.payload.len()), Some(VerifEvent::Message(ConsensusMessage::Propose(b)))) }
            Some(Ev::Vote(v)) => { out.hexmsgs.push(hex(&bincode::serialize(&ConsensusMessage::Vote(v.clone())).unwrap())); (format!("EvVote {}", abs.vote(&v)), format!("vote r{} by {}", v.round, abs.id(&v.author)), Some(VerifEvent::Message(ConsensusMessage::Vote(v)))) }
            Some(Ev::Timeout(t)) => { out.hexmsgs.push(hex(&bincode::serialize(&ConsensusMessage::Timeout(t.clone())).unwrap())); (format!("EvTimeout {}", abs.timeout(&t)), format!("timeout r{} by {} hq{}", t.round, abs.id(&t.author), t.high_qc.round), Some(VerifEvent::Message(ConsensusMessage::Timeout(t)))) }
            Some(Ev::TC(tc)) => { out.hexmsgs.push(hex(&bincode::serialize(&ConsensusMessage::TC(tc.clone())).unwrap())); (format!("EvTC {}", abs.tc(&tc)), format!("tc r{}", tc.round), Some(VerifEvent::Message(ConsensusMessage::TC(tc)))) }
            Some(Ev::Timer) => ("EvTimer".into(), "timer".into(), Some(VerifEvent::Timer)),
            Some(Ev::Loop) => { if pool.is_empty() { continue; } let b = pool.remove(rng.gen_range(0, pool.len())); let nm = abs.block(&b); (format!("EvLoopback {}", nm), format!("loopback r{}", b.round), Some(VerifEvent::Loopback(b))) }
            // take the lowest-round block out of the loop-back pool (scripted scenarios)
            Some(Ev::LoopOld) => { if pool.is_empty() { continue; } let i = (0..pool.len()).min_by_key(|&i| pool[i].round).unwrap(); let b = pool.remove(i); let nm = abs.block(&b); (format!("EvLoopback {}", nm), format!("loopback r{}", b.round), Some(VerifEvent::Loopback(b))) }
            Some(Ev::LoopAll) => { for _ in 0..pool.len() { queue.push_front(Some(Ev::Loop)); } continue; }
            Some(Ev::Batch(k)) => { store.write(batch_digest(k).to_vec(), vec![k]).await; (format!("EvBatch {}", k), format!("batch {}", k), None) }
            Some(Ev::Dig(k)) => { tx_digest.send(batch_digest(k)).await.unwrap(); (format!("EvDigest {}", k), format!("digest {}", k), None) }
        };
        e.stat(&format!("ev:{}", human.split(' ').next().unwrap()), 1);
        let mut step_commits: Vec<Block> = vec![];
        let res: &str = match ve {
            Some(ve) => {
                let fut = std::panic::AssertUnwindSafe(core.verif_event(ve)).catch_unwind();
                tokio::pin!(fut);
                // the application takes ONE block only when the dispatch has made no progress for 200 scheduler turns, i.e. when the
                // core is waiting for room in the commit channel: a core that delivers by itself is never starved, and deliveries
                // handed to other tasks pile up behind the full channel, where their relative order is at the mercy of the scheduler
                let mut idle = 0u32;
                let r = loop {
                    tokio::select! { biased;
                        r = &mut fut => break r,
                        _ = tokio::task::yield_now() => { idle += 1; if idle % 200 == 0 { if let Ok(b) = rx_commit.try_recv() { step_commits.push(b); } } }
                    }
                };
                match r { Ok(Ok(())) => "KOk", Ok(Err(_)) => "KErr", Err(_) => "KPanic" }
            }
            None => "KOk",
        };
        if let Ok(b) = rx_commit.try_recv() { step_commits.push(b); }   // what the dispatch left in the buffer (capacity one)
        settle().await;
        let pms = drain(&mut rx_proposer);
        let mut prop_terms = vec![];
        for m in pms {
            match &m {
                ProposerMessage::Make(r, qc, tc) => prop_terms.push(format!("OProposer (PMake {} {} {})", r, abs.qc(qc), abs.otc(tc))),
                ProposerMessage::Cleanup(ds) => { let pl = abs.pay(ds); prop_terms.push(format!("OProposer (PCleanup {})", pl)) }
            }
            tx_prop_real.send(m).await.unwrap();
            settle().await;
        }
        settle().await;
        let mut net_terms: Vec<String> = vec![];
        let mut last: Option<(Vec<u8>, Vec<std::net::SocketAddr>)> = None;
        let mut hint = String::from("[]");
        for (_rel, addr, bytes) in network::verif::tap_drain() {
            // a broadcast is one output: identical bytes to pairwise distinct destinations
            if let Some((lb, seen)) = &mut last { if lb[..] == bytes[..] && !seen.contains(&addr) { seen.push(addr); continue; } }
            last = Some((bytes.to_vec(), vec![addr]));
            match bincode::deserialize::<ConsensusMessage>(&bytes).unwrap() {
                ConsensusMessage::Vote(v) => { votes_total += 1; net_terms.push(format!("OVote {} {}", addr.port() - 9000, abs.vote(&v))) }
                ConsensusMessage::Timeout(t) => net_terms.push(format!("OTimeout {}", abs.timeout(&t))),
                ConsensusMessage::TC(tc) => { e.stat("out:tc", 1); net_terms.push(format!("OTC {}", abs.tc(&tc))) }
                ConsensusMessage::Propose(b) => { e.stat("out:propose", 1); hint = abs.pay(&b.payload); let nm = abs.block(&b); net_terms.push(format!("OPropose {}", nm)) }
                ConsensusMessage::SyncRequest(d, _) => { e.stat("out:sync", 1); net_terms.push(format!("OSyncReq {} {}", addr.port() - 9000, abs.dg(&d))) }
            }
        }
        let commits: Vec<String> = step_commits.iter().map(|b| { commits_total += 1; format!("OCommit {}", abs.block(b)) }).collect();
        let mems: Vec<String> = drain(&mut rx_mempool).into_iter().map(|m| match m {
            mempool::ConsensusMempoolMessage::Cleanup(r) => format!("OMemCleanup {}", r),
            mempool::ConsensusMempoolMessage::Synchronize(ds, t) => { e.stat("out:memsync", 1); format!("OMemSync {} {}", abs.pay(&ds), abs.id(&t)) } }).collect();
        for b in drain(&mut rx_loopback) {
            // a committee of one has nobody to broadcast to: the own proposal is then visible only on the loop-back channel
            if cfg.n == 1 && b.author == name && !fed.contains(&bincode::serialize(&b).unwrap()) {
                hint = abs.pay(&b.payload); let nm = abs.block(&b); net_terms.push(format!("OPropose {}", nm));
            }
            pool.push(b);
        }
        let (r0, lv, lc, hq) = core.verif_state();
        let mut outs = net_terms; outs.extend(commits); outs.extend(mems); outs.extend(prop_terms);
        out.evs.push(format!("({}, {})", hint, term));
        out.obs.push(format!("mkObs {} {} ({}, {}, {}, {})", coq_list(&outs), res, r0, lv, lc, hq.round));
        out.human.push(format!("{} -> {} [{} outputs] state=({},{},{},{})", human, res, outs.len(), r0, lv, lc, hq.round));
        if res == "KPanic" { e.stat("panic", 1); break; }
    }
    // deliveries still in flight after the last dispatch (there are none when the core delivers before returning): attributed to an extra, event-less step
    let mut late: Vec<Block> = vec![];
    for _ in 0..2000 { tokio::task::yield_now().await; if let Ok(b) = rx_commit.try_recv() { late.push(b); } }
    if !late.is_empty() {
        e.stat("late_commits", late.len() as u64);
        let (r0, lv, lc, hq) = core.verif_state();
        let cs: Vec<String> = late.iter().map(|b| { commits_total += 1; format!("OCommit {}", abs.block(b)) }).collect();
        out.evs.push("([], EvDigest 254)".to_string());
        out.obs.push(format!("mkObs {} KOk ({}, {}, {}, {})", coq_list(&cs), r0, lv, lc, hq.round));
        out.human.push(format!("(end of case) -> {} late commit(s)", late.len()));
    }
    e.stat("out:commit", commits_total as u64); e.stat("out:vote", votes_total as u64);
    out.nontrivial = commits_total > 0 || votes_total > 0;
    out.defs = abs.defs.clone();
    drop(core); drop(store);
    let _ = std::fs::remove_dir_all(&path);
    (cfg, out)
}

fn main() {
    let o = opts();
    std::panic::set_hook(Box::new(|i| { if std::env::var("HSDBG").is_ok() { eprintln!("PANIC {}", i); } }));
    let dbroot = format!("{}/db", o.out);
    std::fs::create_dir_all(&dbroot).unwrap();
    let shards = 16usize;
    let seen = std::sync::Arc::new(std::sync::Mutex::new(std::collections::HashSet::new()));
    // the scripted corpus runs first (cases 1000000+), then the seeded random cases
    let scripted: Vec<(usize, Option<&'static str>)> = SCRIPTS.iter().enumerate().map(|(i, s)| (1_000_000 + i, Some(*s))).collect();
    let random: Vec<(usize, Option<&'static str>)> = (0..o.cases).map(|k| (k, None)).collect();
    let list: Vec<(usize, Option<&'static str>)> = match (&o.script, o.mode.as_str()) {
        (Some(s), _) => vec![(1_000_000 + SCRIPTS.iter().position(|x| x == s).unwrap_or(0), SCRIPTS.iter().find(|x| *x == s).copied())],
        (None, "scripts") => scripted,
        _ => scripted.into_iter().chain(random.into_iter()).collect(),
    };
    // one worker thread per shard (case k goes to shard k mod 16); every case has its own runtime, network tap (thread-local) and store directory,
    // and derives all its random choices from (seed, k), so the result does not depend on the number of threads
    let (seed, boost, only) = (o.seed, o.boost, o.only);
    let workers: Vec<std::thread::JoinHandle<Emit>> = (0..shards).map(|sh| {
        let list = list.clone(); let dbroot = dbroot.clone(); let seen = seen.clone();
        std::thread::Builder::new().stack_size(64 << 20).spawn(move || {
            let mut emit = Emit::new("GTac Node Corr Monitors MonitorsC19 MonitorsC06");
            for (k, script) in list {
                if k % shards != sh { continue; }
                if let Some(only) = only { if only != k { continue; } }
                let e = &mut emit;
                // a fresh runtime per case: dropping it ends every task of the case (and releases its RocksDB handles)
                let rt = tokio::runtime::Builder::new_current_thread().enable_all().start_paused(true).build().unwrap();
                let (cfg, out) = rt.block_on(run_case(seed, k, script, &dbroot, e, boost));
                drop(rt);
                let stakes: Vec<String> = (0..cfg.n).map(|i| format!("({},{})", i, cfg.stakes[i])).collect();
                let defs = format!("{}Definition cmt := mkCommittee {}.\nDefinition evs : list (list N * Event) := {}.\nDefinition obs : list Obs := {}.\n",
                    out.defs, coq_list(&stakes), coq_list(&out.evs), coq_list(&out.obs));
                if out.nontrivial && seen.lock().unwrap().insert(out.evs.join(";")) { e.stat("distinct_nontrivial", 1); }
                if ADMISSIBLE.with(|c| c.get()) { e.stat("admissible (within the fault model)", 1); }
                let c06 = CLEAN_LEADER.with(|c| c.get());
                let c19c = "[b2n (mon_c19_complete cmt evs obs); b2n (mon_c19_tc_complete cmt evs obs); c19_complete_fired cmt evs obs + c19_tc_complete_fired cmt evs obs; b2n (mon_c06_proposes obs); c06_proposes_fired obs]";
                let verdict = match c06 { Some(r) => format!("step_verdict cmt {} evs obs ++ [b2n (mon_c06_make obs {})] ++ {}", cfg.me, r, c19c), None => format!("step_verdict cmt {} evs obs ++ [1] ++ {}", cfg.me, c19c) };
                e.case(k, &defs, &verdict, json!({"case": k, "script": script, "committee_stakes": cfg.stakes, "me": cfg.me, "admissible": ADMISSIBLE.with(|c| c.get()), "events": out.human, "messages_hex": out.hexmsgs}));
            }
            emit
        }).unwrap()
    }).collect();
    let emits: Vec<Emit> = workers.into_iter().map(|w| w.join().expect("step worker thread panicked")).collect();
    for (i, e) in emits.into_iter().enumerate() { e.finish(&o.out, &format!("step_{}", i), o.seed); }
    let _ = std::fs::remove_dir_all(&dbroot);
}
