// Run-loop smoke test (property C06), mode `smoke`.
//
// What step mode bypasses is exercised here: the REAL `Core::spawn` -> `run()` loop, its `tokio::select!` dispatch
// over rx_message / rx_loopback / the real `Timer`, the timer reset on every round advance, and the timer being
// re-armed after it fired. The core runs on a current-thread runtime with a PAUSED clock (virtual time only; one fresh
// runtime and one fresh store per scenario), outgoing network messages are captured by the thread-local tap
// (`network::verif::tap_start/tap_drain`), and `rx_proposer`, `rx_commit`, `rx_mempool` stay in the harness (no real
// Proposer): a `ProposerMessage::Make` on the channel is an observation. The harness advances the virtual clock 1 ms at
// a time, and after every step drains the tap and the channels, recording for every observation the virtual time (ms
// since the core was spawned) and the index of the last input delivered before it (`cause`, -1 = none yet).
// Warn-level log records of the consensus crate are captured as observations too (the main loop turns a handler's
// `Err` into exactly one `warn!`), which is how "the handler returned Err" is visible from outside.
//
// Committee: 4 members, stake 1 each, keys sorted (index = rank = authority id), address 127.0.0.1:9000+i,
// leader(r) = r % 4. Node under test `me`, timeout delay D ms: random per case, from case_rng(seed, 6, case).
//
// NOTE: `ConsensusMessage::SyncRequest` is never fed to the core: `run()` panics on it by design
// (`_ => panic!("Unexpected protocol message")`), consensus.rs routes it to the Helper instead.
//
// Each case runs four scenarios, each on a fresh core:
//   S1 no input, 3D+50 ms.
//   S2 round-1 block B1 at t1 < D/2; at t2 in (t1, D-2] either (qc) a round-2 block B2 carrying a QC for B1 or (tc) a TC
//      for round 1; run until t2+2D+50.
//   S3 the three other members' round-1 timeouts at a < b < c < 3D/4 in random order (inputs 0..2), the same three again
//      in (c, c+D/2] (inputs 3..5); run until c+D+50.
//   S4 a random non-empty selection of invalid messages before D/2, then a valid B1 in [D/2, D-2], the node's own
//      timeout at D, invalid messages again in [D+3, D+D/4), then the three others' round-1 timeouts in
//      [D+D/4, D+D/2); run until D+D/2+50.
//
// VERDICT LAYOUT (19 numbers, `verdict_of [flags]`; tolerance on every time comparison: 2 ms):
//   [0]  all-ones summary added by verdict_of
//   [1]  1a  S1: first network message is a Timeout, observed at D
//   [2]  1b  S1: exactly three Timeouts in 3D+50 ms, the 2nd at 2D and the 3rd at 3D (timer re-armed); core task alive at the end
//   [3]  1c  S1: every Timeout has round 1, high_qc = genesis, author me, valid signature, sent to exactly the 3 others
//   [4]  1d  S1: Make(1, genesis, None) exactly once at boot iff me = leader(1), no other Make; no TC broadcast
//   [5]  2a  S2: before t2 the only network message is the vote for B1 (hash, round 1, author me, valid) to leader(2) at t1;
//                if me = leader(2): no network message at all before t2
//   [6]  2b  S2: no Timeout in [0, t2+D-3)  (boot timer was reset by the round change)
//   [7]  2c  S2: next Timeout at t2+D: round 2, author me, valid, to the 3 others, high_qc = QC(B1) (qc) / genesis (tc)
//   [8]  2d  S2: exactly one more Timeout, at t2+2D, same round and high_qc; core task alive at the end
//   [9]  2e  S2: (qc) vote for B2 to leader(3) at t2 (none on the network if me = leader(3)), no Make beyond boot;
//                (tc) no round-2 vote, Make(2, genesis, Some(tc)) exactly once at t2 iff me = leader(2), else none beyond
//                boot; in both: no TC / Propose / SyncRequest on the network
//   [10] 3a  S3: nothing on the network before the third timeout is delivered
//   [11] 3b  S3: right after the third: exactly one TC, round 1, votes = the three senders in delivery order with
//                high-qc round 0, verifies, broadcast to exactly the 3 others
//   [12] 3c  S3: Make(2, genesis, Some(that TC)) exactly once iff me = leader(2); otherwise no Make beyond boot
//   [13] 3d  S3: no Timeout before c+D-3; next Timeout at c+D with round 2, genesis high_qc, author me, valid
//   [14] 3e  S3: re-delivering the three (stale) timeouts yields no second TC; core task alive at the end
//   [15] 4a  S4: every invalid message yields exactly one consensus warn record and nothing else (no network output,
//                Make, Cleanup, commit, mempool message)
//   [16] 4b  S4: the valid B1 delivered after them is voted for exactly as in 2a (exactly one vote in the scenario,
//                none if me = leader(2))
//   [17] 4c  S4: exactly one Timeout, at D (errors did not reset the timer), round 1, genesis high_qc, valid, to the 3 others
//   [18] 4d  S4: exactly one TC, right after the SECOND valid other-member timeout, round 1, votes = [me, first, second]
//                with high-qc round 0, verifies, to the 3 others; core task alive at the end
use consensus::verif::*;
use consensus::Committee;
use crypto::Hash as _;
use crypto::{generate_keypair, Digest, PublicKey, SecretKey, Signature, SignatureService};
use hsverif::*;
use rand::rngs::StdRng;
use rand::seq::SliceRandom;
use rand::Rng;
use serde_json::{json, Value};
use std::cell::RefCell;
use store::Store;
use tokio::sync::mpsc::{channel, Receiver};
use tokio::time::{sleep, Duration, Instant};

const TOL: u64 = 2; // ms
const N: usize = 4;
const IDLE_YIELDS: usize = 32; // per 1 ms step with no input (a timer expiry needs 3 scheduler hops)
const SETTLE_YIELDS: usize = 96; // after an input, and after a step in which anything was observed

fn close(a: u64, b: u64) -> bool { (if a > b { a - b } else { b - a }) <= TOL }
fn leader(r: u64) -> usize { (r as usize) % N }

// ------------------------------------------------------------------------------------------ log capture
thread_local! { static LOGS: RefCell<Vec<String>> = RefCell::new(Vec::new()); }
struct CapLog;
impl log::Log for CapLog {
    fn enabled(&self, m: &log::Metadata) -> bool { m.level() <= log::Level::Warn && m.target().starts_with("consensus") }
    fn log(&self, r: &log::Record) { if self.enabled(r.metadata()) { LOGS.with(|l| l.borrow_mut().push(format!("{}: {}", r.level(), r.args()))); } }
    fn flush(&self) {}
}
static CAPLOG: CapLog = CapLog;

// ------------------------------------------------------------------------------------------ committee and messages
struct Env { keys: Vec<(PublicKey, SecretKey)>, outsider: (PublicKey, SecretKey), com: Committee, me: usize, d: u64 }
impl Env {
    fn pk(&self, a: usize) -> PublicKey { if a < N { self.keys[a].0 } else { self.outsider.0 } }
    fn sk(&self, a: usize) -> &SecretKey { if a < N { &self.keys[a].1 } else { &self.outsider.1 } }
    fn id(&self, pk: &PublicKey) -> usize { self.keys.iter().position(|(k, _)| k == pk).unwrap_or(if *pk == self.outsider.0 { N } else { 99 }) }
    fn others(&self) -> Vec<usize> { (0..N).filter(|&i| i != self.me).collect() }
    fn sign_vote(&self, a: usize, hash: &Digest, round: u64) -> Signature {
        let v = Vote { hash: hash.clone(), round, author: self.pk(a), signature: Signature::default() };
        Signature::new(&v.digest(), self.sk(a))
    }
    fn sign_timeout(&self, a: usize, round: u64, hq: u64) -> Signature {
        let t = Timeout { high_qc: QC { hash: Digest::default(), round: hq, votes: vec![] }, round, author: self.pk(a), signature: Signature::default() };
        Signature::new(&t.digest(), self.sk(a))
    }
    fn mk_vote(&self, a: usize, b: &Block) -> Vote { Vote { hash: b.digest(), round: b.round, author: self.pk(a), signature: self.sign_vote(a, &b.digest(), b.round) } }
    fn mk_timeout(&self, a: usize, round: u64, hq: QC) -> Timeout { let s = self.sign_timeout(a, round, hq.round); Timeout { high_qc: hq, round, author: self.pk(a), signature: s } }
    fn mk_block_by(&self, a: usize, qc: QC, tc: Option<TC>, round: u64) -> Block {
        let b = Block { qc, tc, author: self.pk(a), round, payload: vec![], signature: Signature::default() };
        let signature = Signature::new(&b.digest(), self.sk(a));
        Block { signature, ..b }
    }
    fn mk_block(&self, qc: QC, tc: Option<TC>, round: u64) -> Block { self.mk_block_by(leader(round), qc, tc, round) }
    fn mk_qc(&self, b: &Block, signers: &[usize]) -> QC {
        let d = b.digest();
        QC { hash: d.clone(), round: b.round, votes: signers.iter().map(|&a| (self.pk(a), self.sign_vote(a, &d, b.round))).collect() }
    }
    fn mk_tc(&self, round: u64, signers: &[usize]) -> TC { TC { round, votes: signers.iter().map(|&a| (self.pk(a), self.sign_timeout(a, round, 0), 0)).collect() } }
}

struct Input { t: u64, label: String, invalid: bool, msg: ConsensusMessage }

enum Out {
    Net { msg: ConsensusMessage, dests: Vec<usize> },
    Make(u64, QC, Option<TC>),
    Cleanup(usize),
    Commit(Block),
    Mem(String),
    Warn(String),
    Junk(String),
}
struct Ev { t: u64, cause: i64, out: Out }
struct Trace { evs: Vec<Ev>, alive: bool, delivered: Vec<(u64, u64, String)> }

fn is_genesis(q: &QC) -> bool { *q == QC::genesis() && q.votes.is_empty() }
fn tc_bytes(t: &TC) -> Vec<u8> { bincode::serialize(t).unwrap() }

impl Trace {
    fn nets(&self) -> Vec<&Ev> { self.evs.iter().filter(|e| matches!(e.out, Out::Net { .. })).collect() }
    fn timeouts(&self) -> Vec<(&Ev, &Timeout, &Vec<usize>)> {
        self.evs.iter().filter_map(|e| match &e.out { Out::Net { msg: ConsensusMessage::Timeout(t), dests } => Some((e, t, dests)), _ => None }).collect()
    }
    fn votes(&self) -> Vec<(&Ev, &Vote, &Vec<usize>)> {
        self.evs.iter().filter_map(|e| match &e.out { Out::Net { msg: ConsensusMessage::Vote(v), dests } => Some((e, v, dests)), _ => None }).collect()
    }
    fn tcs(&self) -> Vec<(&Ev, &TC, &Vec<usize>)> {
        self.evs.iter().filter_map(|e| match &e.out { Out::Net { msg: ConsensusMessage::TC(t), dests } => Some((e, t, dests)), _ => None }).collect()
    }
    fn makes(&self) -> Vec<(&Ev, u64, &QC, &Option<TC>)> {
        self.evs.iter().filter_map(|e| match &e.out { Out::Make(r, q, t) => Some((e, *r, q, t)), _ => None }).collect()
    }
    fn other_net(&self) -> usize { // Propose / SyncRequest / undecodable on the network
        self.evs.iter().filter(|e| matches!(&e.out, Out::Net { msg: ConsensusMessage::Propose(_), .. } | Out::Net { msg: ConsensusMessage::SyncRequest(..), .. } | Out::Junk(_))).count()
    }
    fn human(&self, env: &Env) -> Vec<String> {
        self.evs.iter().map(|e| {
            let what = match &e.out {
                Out::Net { msg, dests } => {
                    let m = match msg {
                        ConsensusMessage::Timeout(t) => format!("Timeout{{round {}, author {}, high_qc.round {}, sig_ok {}}}", t.round, env.id(&t.author), t.high_qc.round, t.verify(&env.com).is_ok()),
                        ConsensusMessage::Vote(v) => format!("Vote{{round {}, author {}, hash {}, sig_ok {}}}", v.round, env.id(&v.author), hex(&v.hash.0[..6]), v.verify(&env.com).is_ok()),
                        ConsensusMessage::TC(t) => format!("TC{{round {}, votes {:?}, verify_ok {}}}", t.round, t.votes.iter().map(|(p, _, r)| (env.id(p), *r)).collect::<Vec<_>>(), t.verify(&env.com).is_ok()),
                        ConsensusMessage::Propose(b) => format!("Propose{{round {}, author {}}}", b.round, env.id(&b.author)),
                        ConsensusMessage::SyncRequest(d, p) => format!("SyncRequest{{{}, from {}}}", hex(&d.0[..6]), env.id(p)),
                    };
                    format!("net {} -> {:?}", m, dests)
                }
                Out::Make(r, q, t) => format!("proposer Make({}, qc.round {}, tc {:?})", r, q.round, t.as_ref().map(|t| (t.round, t.votes.iter().map(|(p, _, r)| (env.id(p), *r)).collect::<Vec<_>>()))),
                Out::Cleanup(n) => format!("proposer Cleanup({} digests)", n),
                Out::Commit(b) => format!("commit round {}", b.round),
                Out::Mem(s) => format!("mempool {}", s),
                Out::Warn(s) => format!("log {}", s),
                Out::Junk(s) => format!("net UNDECODABLE {}", s),
            };
            format!("t={} after_input={} {}", e.t, e.cause, what)
        }).collect()
    }
}

// ------------------------------------------------------------------------------------------ the real node under a paused clock
// Yield to the scheduler once: the harness task goes to the BACK of the current-thread run queue (FIFO), so every task
// that is runnable now (core, signature service, store, ...) is polled before the harness continues. Unlike
// `tokio::task::yield_now()` (which in this tokio version defers the wake-up until the I/O and time drivers have been
// polled, one epoll syscall per yield) this costs no syscall; wake-ups between tasks (mpsc, oneshot) do not need the
// drivers (the scheduler polls them every 61 ticks anyway), and virtual time moves only while the harness sleeps.
struct YieldOnce(bool);
impl std::future::Future for YieldOnce {
    type Output = ();
    fn poll(mut self: std::pin::Pin<&mut Self>, cx: &mut std::task::Context<'_>) -> std::task::Poll<()> {
        if self.0 { return std::task::Poll::Ready(()); }
        self.0 = true; cx.waker().wake_by_ref(); std::task::Poll::Pending
    }
}
async fn yields(n: usize) { for _ in 0..n { YieldOnce(false).await; } }
fn drain<T>(rx: &mut Receiver<T>) -> Vec<T> { let mut v = vec![]; while let Ok(x) = rx.try_recv() { v.push(x); } v }

#[allow(clippy::too_many_arguments)]
fn collect(t: u64, cause: i64, evs: &mut Vec<Ev>, rxp: &mut Receiver<ProposerMessage>, rxc: &mut Receiver<Block>, rxm: &mut Receiver<mempool::ConsensusMempoolMessage>) -> usize {
    let before = evs.len();
    for s in LOGS.with(|l| std::mem::take(&mut *l.borrow_mut())) { evs.push(Ev { t, cause, out: Out::Warn(s) }); }
    // a broadcast is one observation: identical bytes to pairwise distinct destinations, consecutively
    let mut last: Option<(Vec<u8>, usize)> = None;
    for (_reliable, addr, bytes) in network::verif::tap_drain() {
        let dest = (addr.port() as usize).wrapping_sub(9000);
        if let Some((lb, idx)) = &last {
            if lb[..] == bytes[..] {
                if let Out::Net { dests, .. } = &mut evs[*idx].out { if !dests.contains(&dest) { dests.push(dest); continue; } }
            }
        }
        match bincode::deserialize::<ConsensusMessage>(&bytes) {
            Ok(msg) => { last = Some((bytes.to_vec(), evs.len())); evs.push(Ev { t, cause, out: Out::Net { msg, dests: vec![dest] } }); }
            Err(_) => { last = None; evs.push(Ev { t, cause, out: Out::Junk(hex(&bytes)) }); }
        }
    }
    for m in drain(rxp) { evs.push(Ev { t, cause, out: match m { ProposerMessage::Make(r, q, tc) => Out::Make(r, q, tc), ProposerMessage::Cleanup(ds) => Out::Cleanup(ds.len()) } }); }
    for b in drain(rxc) { evs.push(Ev { t, cause, out: Out::Commit(b) }); }
    for m in drain(rxm) { evs.push(Ev { t, cause, out: Out::Mem(match m { mempool::ConsensusMempoolMessage::Cleanup(r) => format!("Cleanup({})", r), mempool::ConsensusMempoolMessage::Synchronize(ds, _) => format!("Synchronize({} digests)", ds.len()) }) }); }
    evs.len() - before
}

fn run_scenario(env: &Env, path: &str, inputs: Vec<Input>, duration: u64) -> Trace {
    // fresh runtime (fresh virtual clock, no task survives) and fresh store per scenario; everything stays on this thread.
    // The harness itself runs as a spawned task (not as the block_on future) so that it queues FIFO with the node's tasks.
    let rt = tokio::runtime::Builder::new_current_thread().enable_all().start_paused(true).build().unwrap();
    let _ = std::fs::remove_dir_all(path);
    let (name, secret, com, d, dbpath) = (env.pk(env.me), clone_secret(env.sk(env.me)), env.com.clone(), env.d, path.to_string());
    let trace = rt.block_on(async move { tokio::spawn(async move {
        network::verif::tap_start();
        LOGS.with(|l| l.borrow_mut().clear());
        let store = Store::new(&dbpath).unwrap();
        let (tx_core, rx_core) = channel(1_000);
        let (tx_loopback, rx_loopback) = channel(1_000);
        let (tx_proposer, mut rx_proposer) = channel(1_000);
        let (tx_mempool, mut rx_mempool) = channel(1_000);
        let (tx_commit, mut rx_commit) = channel(1_000);
        let sigs = SignatureService::new(secret);
        let md = MempoolDriver::new(store.clone(), tx_mempool, tx_loopback.clone());
        let sy = Synchronizer::new(name, com.clone(), store.clone(), tx_loopback.clone(), 100_000_000);
        let t0 = Instant::now();
        Core::spawn(name, com.clone(), sigs, store.clone(), LeaderElector::new(com.clone()), md, sy, d, rx_core, rx_loopback, tx_proposer, tx_commit);
        let mut evs: Vec<Ev> = vec![];
        let mut delivered = vec![];
        let mut cause: i64 = -1;
        yields(SETTLE_YIELDS).await; // the core task starts: Timer::new and the boot timer.reset() happen at virtual time 0
        collect(0, cause, &mut evs, &mut rx_proposer, &mut rx_commit, &mut rx_mempool);
        let mut pending = inputs.into_iter().enumerate().peekable();
        for _ in 0..duration {
            sleep(Duration::from_millis(1)).await;
            let t = (Instant::now() - t0).as_millis() as u64;
            yields(IDLE_YIELDS).await;
            if collect(t, cause, &mut evs, &mut rx_proposer, &mut rx_commit, &mut rx_mempool) > 0 {
                yields(SETTLE_YIELDS).await;
                collect(t, cause, &mut evs, &mut rx_proposer, &mut rx_commit, &mut rx_mempool);
            }
            while pending.peek().map(|(_, i)| i.t <= t).unwrap_or(false) {
                let (k, i) = pending.next().unwrap();
                cause = k as i64;
                delivered.push((i.t, t, i.label));
                let _ = tx_core.send(i.msg).await;
                yields(SETTLE_YIELDS).await;
                collect(t, cause, &mut evs, &mut rx_proposer, &mut rx_commit, &mut rx_mempool);
            }
        }
        // a panic in the core task drops the Core and with it rx_message
        let alive = !tx_core.is_closed();
        Trace { evs, alive, delivered }
    }).await.expect("harness task failed") });
    drop(rt);
    let _ = std::fs::remove_dir_all(path);
    trace
}

// ------------------------------------------------------------------------------------------ monitor helpers
enum Hq { Genesis, Of(Digest, u64) }
fn dests_are(env: &Env, dests: &[usize], want: &[usize]) -> bool { let _ = env; let mut a = dests.to_vec(); a.sort_unstable(); let mut b = want.to_vec(); b.sort_unstable(); a == b }
fn timeout_ok(env: &Env, t: &Timeout, dests: &[usize], round: u64, hq: &Hq) -> bool {
    t.round == round && t.author == env.pk(env.me) && t.verify(&env.com).is_ok() && dests_are(env, dests, &env.others())
        && match hq { Hq::Genesis => is_genesis(&t.high_qc), Hq::Of(d, r) => t.high_qc.hash == *d && t.high_qc.round == *r }
}
fn vote_ok(env: &Env, v: &Vote, dests: &[usize], b: &Block, to: usize) -> bool {
    v.hash == b.digest() && v.round == b.round && v.author == env.pk(env.me) && v.verify(&env.com).is_ok() && dests == [to]
}
fn tc_ok(env: &Env, tc: &TC, dests: &[usize], round: u64, authors: &[usize]) -> bool {
    tc.round == round && tc.votes.len() == authors.len() && tc.votes.iter().zip(authors).all(|((p, _, r), &a)| *p == env.pk(a) && *r == 0)
        && tc.verify(&env.com).is_ok() && dests_are(env, dests, &env.others())
}
// the Makes on the proposer channel are exactly: the boot Make iff me = leader(1), then `extra` (round, tc, time) if given
fn makes_are(env: &Env, tr: &Trace, extra: Option<(u64, &TC, u64)>) -> bool {
    let makes = tr.makes();
    let mut i = 0;
    if env.me == leader(1) {
        match makes.get(i) { Some((e, 1, q, None)) if is_genesis(q) && close(e.t, 0) => i += 1, _ => return false }
    }
    if let Some((r, tc, at)) = extra {
        match makes.get(i) { Some((e, r2, q, Some(t2))) if *r2 == r && is_genesis(q) && tc_bytes(t2) == tc_bytes(tc) && close(e.t, at) => i += 1, _ => return false }
    }
    makes.len() == i
}
fn distinct_times(rng: &mut StdRng, lo: u64, hi: u64, k: usize) -> Vec<u64> { // k distinct values in [lo, hi), sorted
    let mut v: Vec<u64> = rand::seq::index::sample(rng, (hi - lo) as usize, k).into_iter().map(|x| lo + x as u64).collect();
    v.sort_unstable(); v
}
fn inputs_json(tr: &Trace) -> Vec<Value> { tr.delivered.iter().enumerate().map(|(k, (p, a, l))| json!({"input": k, "planned_ms": p, "delivered_ms": a, "what": l})).collect() }
fn tally(tr: &Trace, e: &mut Emit, seen: &mut (usize, usize)) {
    e.stat("out:timeout", tr.timeouts().len() as u64); e.stat("out:tc", tr.tcs().len() as u64);
    e.stat("out:vote", tr.votes().len() as u64); e.stat("out:make", tr.makes().len() as u64);
    if !tr.alive { e.stat("core_task_dead", 1); }
    seen.0 += tr.votes().len(); seen.1 += tr.tcs().len();
}

const KINDS: [&str; 7] = ["block_wrong_leader", "block_bad_sig", "vote_wrong_key", "timeout_bad_sig", "tc_two_signers", "vote_outsider", "block_qc_repeated_signer"];
// every one of these makes its handler return Err before any state change (core.rs / messages.rs):
fn invalid(env: &Env, rng: &mut StdRng, kind: usize, b1: &Block) -> ConsensusMessage {
    let member = |rng: &mut StdRng, not: usize| loop { let x = rng.gen_range(0, N); if x != not { break x; } };
    match kind {
        0 => { let a = member(rng, leader(1)); ConsensusMessage::Propose(env.mk_block_by(a, QC::genesis(), None, 1)) }              // WrongLeader
        1 => { let mut b = env.mk_block(QC::genesis(), None, 1); let x = member(rng, leader(1)); b.signature = Signature::new(&b.digest(), env.sk(x)); ConsensusMessage::Propose(b) } // InvalidSignature
        2 => { let x = rng.gen_range(0, N); let y = member(rng, x); let mut v = env.mk_vote(y, b1); v.author = env.pk(x); ConsensusMessage::Vote(v) }
        3 => { let x = member(rng, env.me); let y = member(rng, x); let mut t = env.mk_timeout(y, 1, QC::genesis()); t.author = env.pk(x); ConsensusMessage::Timeout(t) }
        4 => { let mut s: Vec<usize> = (0..N).collect(); s.shuffle(rng); ConsensusMessage::TC(env.mk_tc(1, &s[..2])) }             // TCRequiresQuorum
        5 => ConsensusMessage::Vote(env.mk_vote(N, b1)),                                                                             // UnknownAuthority
        _ => { let a = rng.gen_range(0, N); let b = member(rng, a); ConsensusMessage::Propose(env.mk_block(env.mk_qc(b1, &[a, a, b]), None, 2)) } // AuthorityReuse
    }
}
fn selection(rng: &mut StdRng) -> Vec<usize> {
    let mut s: Vec<usize> = (0..KINDS.len()).filter(|_| rng.gen_bool(0.5)).collect();
    if s.is_empty() { s.push(rng.gen_range(0, KINDS.len())); }
    s.shuffle(rng); s
}

// ------------------------------------------------------------------------------------------ one case
fn run_case(o: &Opts, case: usize, e: &mut Emit, seen: &mut std::collections::HashSet<String>) {
    let mut rng = case_rng(o.seed, 6, case as u64);
    let keys = sorted_keys(&mut rng, N);
    let outsider = generate_keypair(&mut rng);
    let me = if rng.gen_bool(0.5) { case % N } else { rng.gen_range(0, N) };
    // D in 200..=5000 ms, skewed to the short side to bound the number of 1 ms steps (two syscalls each); the long ones
    // cross the 4096 ms boundary between two levels of tokio's timer wheel
    let d: u64 = match rng.gen_range(0, 4) { 0 | 1 => rng.gen_range(200, 1000), 2 => rng.gen_range(1000, 3000), _ => rng.gen_range(3000, 5001) };
    let com = Committee::new(keys.iter().enumerate().map(|(i, (pk, _))| (*pk, 1, format!("127.0.0.1:{}", 9000 + i).parse().unwrap())).collect(), 1);
    let env = Env { keys, outsider, com, me, d };
    let db = |s: &str| format!("{}/db/runloop_{}_{}_{}", o.out, o.seed, case, s);
    let mut out_seen = (0usize, 0usize);
    let mut flags: Vec<bool> = vec![];
    e.stat(&format!("me={}", me), 1);

    // ---------------- S1: no input
    let s1 = {
        let tr = run_scenario(&env, &db("s1"), vec![], 3 * d + 50);
        tally(&tr, e, &mut out_seen);
        let touts = tr.timeouts();
        let f1a = !touts.is_empty() && close(touts[0].0.t, d)
            && tr.nets().first().map(|x| matches!(x.out, Out::Net { msg: ConsensusMessage::Timeout(_), .. })).unwrap_or(false);
        let f1b = touts.len() == 3 && close(touts[1].0.t, 2 * d) && close(touts[2].0.t, 3 * d) && tr.alive;
        let f1c = !touts.is_empty() && touts.iter().all(|(_, t, ds)| timeout_ok(&env, t, ds, 1, &Hq::Genesis));
        let f1d = makes_are(&env, &tr, None) && tr.tcs().is_empty();
        flags.extend([f1a, f1b, f1c, f1d]);
        json!({"run_ms": 3 * d + 50, "expected_timeouts_ms": [d, 2 * d, 3 * d], "observed_timeouts_ms": touts.iter().map(|x| x.0.t).collect::<Vec<_>>(),
               "core_alive_at_end": tr.alive, "observed": tr.human(&env), "flags": {"1a": f1a, "1b": f1b, "1c": f1c, "1d": f1d}})
    };

    // ---------------- S2: proposal before the deadline, then a round change resets the timer
    let b1 = env.mk_block(QC::genesis(), None, 1);
    let (s2, s2_params) = {
        let t1 = rng.gen_range(1, d / 2);
        let t2 = rng.gen_range(t1 + 1, d - 1); // <= D-2
        let sub_qc = rng.gen_bool(0.5);
        let mut signers: Vec<usize> = (0..N).collect(); signers.shuffle(&mut rng);
        let nsig = if sub_qc { rng.gen_range(3, 5) } else { 3 };
        signers.truncate(nsig);
        let b2 = env.mk_block(env.mk_qc(&b1, &signers), None, 2);
        let tc = env.mk_tc(1, &signers);
        e.stat(if sub_qc { "s2:qc" } else { "s2:tc" }, 1);
        if me == leader(2) { e.stat("s2:me_is_next_leader", 1); }
        if sub_qc && me == leader(3) { e.stat("s2:me_is_leader_of_round_3", 1); }
        let second = if sub_qc { Input { t: t2, label: format!("Propose B2 (round 2, author {}, qc for B1 signed by {:?})", leader(2), signers), invalid: false, msg: ConsensusMessage::Propose(b2.clone()) } }
                     else { Input { t: t2, label: format!("TC round 1 signed by {:?}, high-qc rounds 0", signers), invalid: false, msg: ConsensusMessage::TC(tc.clone()) } };
        let inputs = vec![Input { t: t1, label: format!("Propose B1 (round 1, author {}, qc genesis)", leader(1)), invalid: false, msg: ConsensusMessage::Propose(b1.clone()) }, second];
        let run = t2 + 2 * d + 50;
        let tr = run_scenario(&env, &db("s2"), inputs, run);
        tally(&tr, e, &mut out_seen);
        let early: Vec<&Ev> = tr.nets().into_iter().filter(|x| x.cause <= 0).collect();
        let f2a = if me != leader(2) {
            early.len() == 1 && early[0].cause == 0 && close(early[0].t, t1)
                && match &early[0].out { Out::Net { msg: ConsensusMessage::Vote(v), dests } => vote_ok(&env, v, dests, &b1, leader(2)), _ => false }
        } else { early.is_empty() };
        let touts = tr.timeouts();
        let f2b = touts.iter().all(|x| x.0.t + 3 >= t2 + d);
        let hq = if sub_qc { Hq::Of(b1.digest(), 1) } else { Hq::Genesis };
        let f2c = !touts.is_empty() && close(touts[0].0.t, t2 + d) && timeout_ok(&env, touts[0].1, touts[0].2, 2, &hq);
        let f2d = touts.len() == 2 && close(touts[1].0.t, t2 + 2 * d) && timeout_ok(&env, touts[1].1, touts[1].2, 2, &hq) && tr.alive;
        let late_votes: Vec<_> = tr.votes().into_iter().filter(|x| x.0.cause >= 1).collect();
        let nothing_else = tr.tcs().is_empty() && tr.other_net() == 0;
        let f2e = nothing_else && if sub_qc {
            (if me != leader(3) { late_votes.len() == 1 && late_votes[0].0.cause == 1 && close(late_votes[0].0.t, t2) && vote_ok(&env, late_votes[0].1, late_votes[0].2, &b2, leader(3)) } else { late_votes.is_empty() })
                && makes_are(&env, &tr, None)
        } else {
            late_votes.is_empty() && makes_are(&env, &tr, if me == leader(2) { Some((2, &tc, t2)) } else { None })
        };
        flags.extend([f2a, f2b, f2c, f2d, f2e]);
        (json!({"t1_ms": t1, "t2_ms": t2, "sub_case": if sub_qc { "qc" } else { "tc" }, "signers": signers, "me_is_leader2": me == leader(2), "run_ms": run,
                "expected_timeouts_ms": [t2 + d, t2 + 2 * d], "observed_timeouts_ms": touts.iter().map(|x| x.0.t).collect::<Vec<_>>(),
                "inputs": inputs_json(&tr), "core_alive_at_end": tr.alive, "observed": tr.human(&env), "flags": {"2a": f2a, "2b": f2b, "2c": f2c, "2d": f2d, "2e": f2e}}),
         format!("{},{},{},{:?}", t1, t2, sub_qc, signers))
    };

    // ---------------- S3: TC synchronisation through the channel
    let (s3, s3_params) = {
        let mut order = env.others(); order.shuffle(&mut rng);
        let abc = distinct_times(&mut rng, 1, 3 * d / 4, 3);
        let c = abc[2];
        let mut again = env.others(); again.shuffle(&mut rng);
        let re = distinct_times(&mut rng, c + 1, c + d / 2 + 1, 3);
        let mut inputs = vec![];
        for (i, &a) in order.iter().enumerate() { inputs.push(Input { t: abc[i], label: format!("Timeout round 1 by {} (high_qc genesis)", a), invalid: false, msg: ConsensusMessage::Timeout(env.mk_timeout(a, 1, QC::genesis())) }); }
        for (i, &a) in again.iter().enumerate() { inputs.push(Input { t: re[i], label: format!("Timeout round 1 by {} again (stale)", a), invalid: false, msg: ConsensusMessage::Timeout(env.mk_timeout(a, 1, QC::genesis())) }); }
        let run = c + d + 50;
        let tr = run_scenario(&env, &db("s3"), inputs, run);
        tally(&tr, e, &mut out_seen);
        let f3a = tr.nets().iter().all(|x| x.cause >= 2);
        let tcs = tr.tcs();
        let now: Vec<_> = tcs.iter().filter(|x| x.0.cause == 2).collect();
        let f3b = now.len() == 1 && close(now[0].0.t, c) && tc_ok(&env, now[0].1, now[0].2, 1, &order);
        let f3c = if me == leader(2) { now.len() == 1 && makes_are(&env, &tr, Some((2, now[0].1, c))) } else { makes_are(&env, &tr, None) };
        let touts = tr.timeouts();
        let f3d = touts.iter().all(|x| x.0.t + 3 >= c + d) && !touts.is_empty() && close(touts[0].0.t, c + d) && timeout_ok(&env, touts[0].1, touts[0].2, 2, &Hq::Genesis);
        let f3e = tcs.len() <= 1 && tcs.iter().all(|x| x.0.cause < 3) && tr.alive;
        flags.extend([f3a, f3b, f3c, f3d, f3e]);
        (json!({"delivery_order": order, "a_b_c_ms": abc, "redelivery_order": again, "redelivery_ms": re, "run_ms": run,
                "expected_tc_ms": c, "observed_tc_ms": tcs.iter().map(|x| x.0.t).collect::<Vec<_>>(),
                "expected_timeouts_ms": [c + d], "observed_timeouts_ms": touts.iter().map(|x| x.0.t).collect::<Vec<_>>(),
                "inputs": inputs_json(&tr), "core_alive_at_end": tr.alive, "observed": tr.human(&env), "flags": {"3a": f3a, "3b": f3b, "3c": f3c, "3d": f3d, "3e": f3e}}),
         format!("{:?},{:?},{:?},{:?}", order, abc, again, re))
    };

    // ---------------- S4: errors do not stop the loop (and do not reset the timer)
    let (s4, s4_params) = {
        let sel1 = selection(&mut rng);
        let times1 = distinct_times(&mut rng, 1, d / 2, sel1.len());
        let tb = rng.gen_range(d / 2, d - 1); // <= D-2
        let sel2 = selection(&mut rng);
        let times2 = distinct_times(&mut rng, d + 3, d + d / 4, sel2.len());
        let mut order = env.others(); order.shuffle(&mut rng);
        let times3 = distinct_times(&mut rng, d + d / 4, d + d / 2, 3);
        let mut inputs = vec![];
        for (i, &k) in sel1.iter().enumerate() { e.stat(&format!("inv:{}", KINDS[k]), 1); inputs.push(Input { t: times1[i], label: format!("INVALID {}", KINDS[k]), invalid: true, msg: invalid(&env, &mut rng, k, &b1) }); }
        let idx_b1 = inputs.len() as i64;
        inputs.push(Input { t: tb, label: format!("Propose B1 (round 1, author {}, qc genesis)", leader(1)), invalid: false, msg: ConsensusMessage::Propose(b1.clone()) });
        for (i, &k) in sel2.iter().enumerate() { e.stat(&format!("inv:{}", KINDS[k]), 1); inputs.push(Input { t: times2[i], label: format!("INVALID {}", KINDS[k]), invalid: true, msg: invalid(&env, &mut rng, k, &b1) }); }
        let idx_second = inputs.len() as i64 + 1;
        for (i, &a) in order.iter().enumerate() { inputs.push(Input { t: times3[i], label: format!("Timeout round 1 by {} (high_qc genesis)", a), invalid: false, msg: ConsensusMessage::Timeout(env.mk_timeout(a, 1, QC::genesis())) }); }
        let inv: Vec<bool> = inputs.iter().map(|i| i.invalid).collect();
        let run = d + d / 2 + 50;
        let tr = run_scenario(&env, &db("s4"), inputs, run);
        tally(&tr, e, &mut out_seen);
        let f4a = tr.delivered.len() == inv.len() && (0..inv.len()).filter(|&k| inv[k]).all(|k| {
            let caused: Vec<&Ev> = tr.evs.iter().filter(|x| x.cause == k as i64).collect();
            caused.len() == 1 && matches!(caused[0].out, Out::Warn(_))
        });
        let votes = tr.votes();
        let f4b = if me != leader(2) { votes.len() == 1 && votes[0].0.cause == idx_b1 && close(votes[0].0.t, tb) && vote_ok(&env, votes[0].1, votes[0].2, &b1, leader(2)) } else { votes.is_empty() };
        let touts = tr.timeouts();
        let f4c = touts.len() == 1 && close(touts[0].0.t, d) && timeout_ok(&env, touts[0].1, touts[0].2, 1, &Hq::Genesis);
        let tcs = tr.tcs();
        let f4d = tcs.len() == 1 && tcs[0].0.cause == idx_second && close(tcs[0].0.t, times3[1]) && tc_ok(&env, tcs[0].1, tcs[0].2, 1, &[me, order[0], order[1]]) && tr.alive;
        flags.extend([f4a, f4b, f4c, f4d]);
        (json!({"invalid_before": sel1.iter().map(|&k| KINDS[k]).collect::<Vec<_>>(), "invalid_before_ms": times1, "b1_ms": tb,
                "invalid_after_timeout": sel2.iter().map(|&k| KINDS[k]).collect::<Vec<_>>(), "invalid_after_timeout_ms": times2,
                "timeouts_order": order, "timeouts_ms": times3, "run_ms": run,
                "expected_timeouts_ms": [d], "observed_timeouts_ms": touts.iter().map(|x| x.0.t).collect::<Vec<_>>(),
                "expected_tc_ms": times3[1], "observed_tc_ms": tcs.iter().map(|x| x.0.t).collect::<Vec<_>>(),
                "inputs": inputs_json(&tr), "core_alive_at_end": tr.alive, "observed": tr.human(&env), "flags": {"4a": f4a, "4b": f4b, "4c": f4c, "4d": f4d}}),
         format!("{:?},{:?},{},{:?},{:?},{:?},{:?}", sel1, times1, tb, sel2, times2, order, times3))
    };

    assert_eq!(flags.len(), 18);
    let params = format!("{}|{}|{}|{}|{}", me, d, s2_params, s3_params, s4_params);
    if out_seen.0 > 0 && out_seen.1 > 0 && seen.insert(params) { e.stat("distinct_nontrivial", 1); }
    e.case(case, "", &format!("verdict_of {}", coq_nlist(flags.iter().map(|&b| b as u128))),
        json!({"case": case, "me": me, "timeout_delay_ms": d, "tolerance_ms": TOL, "leader_of_round": {"1": leader(1), "2": leader(2), "3": leader(3)},
               "flags_order": ["1a","1b","1c","1d","2a","2b","2c","2d","2e","3a","3b","3c","3d","3e","4a","4b","4c","4d"],
               "flags": flags.iter().map(|&b| b as u8).collect::<Vec<_>>(), "s1": s1, "s2": s2, "s3": s3, "s4": s4}));
}

fn main() {
    let o = opts();
    if o.mode != "smoke" { eprintln!("unknown mode {} (expected: smoke)", o.mode); std::process::exit(2); }
    let _ = log::set_logger(&CAPLOG);
    log::set_max_level(log::LevelFilter::Warn);
    std::fs::create_dir_all(format!("{}/db", o.out)).unwrap();
    let mut e = Emit::new("CorrComp");
    let mut seen = std::collections::HashSet::new();
    for k in 0..o.cases {
        if let Some(only) = o.only { if only != k { continue; } }
        run_case(&o, k, &mut e, &mut seen);
    }
    e.finish(&o.out, "runloop", o.seed);
    let _ = std::fs::remove_dir_all(format!("{}/db", o.out));
}
