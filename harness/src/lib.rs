//! Shared support for the correspondence harness binaries.
use crypto::{generate_keypair, PublicKey, SecretKey};
use rand::rngs::StdRng;
use rand::SeedableRng;
use std::collections::BTreeMap;
use std::fmt::Write as _;

/// One PRNG state per (seed, case): every random choice of a case derives from it, so a case
/// replays exactly from its two numbers.
pub fn case_rng(seed: u64, stream: u64, case: u64) -> StdRng {
    StdRng::seed_from_u64(seed.wrapping_mul(1_000_003).wrapping_add(stream.wrapping_mul(7_919)).wrapping_add(case))
}

/// Key pairs sorted by public key: index = rank = the model's authority name.
pub fn sorted_keys(rng: &mut StdRng, n: usize) -> Vec<(PublicKey, SecretKey)> {
    let mut keys: Vec<(PublicKey, SecretKey)> = (0..n).map(|_| generate_keypair(rng)).collect();
    keys.sort_by_key(|(pk, _)| *pk);
    keys
}

pub fn clone_secret(s: &SecretKey) -> SecretKey { SecretKey::decode_base64(&s.encode_base64()).unwrap() }

/// Gallina list literal.
pub fn coq_list<T: AsRef<str>>(xs: &[T]) -> String {
    let mut s = String::from("[");
    for (i, x) in xs.iter().enumerate() { if i > 0 { s.push_str("; "); } s.push_str(x.as_ref()); }
    s.push(']'); s
}
pub fn coq_nlist<I: IntoIterator<Item = u128>>(xs: I) -> String {
    coq_list(&xs.into_iter().map(|x| x.to_string()).collect::<Vec<_>>())
}
pub fn coq_bytes(b: &[u8]) -> String { coq_nlist(b.iter().map(|&x| x as u128)) }
pub fn hex(b: &[u8]) -> String { let mut s = String::new(); for x in b { write!(s, "{:02x}", x).unwrap(); } s }

/// Command-line options shared by all harness binaries:
/// `<mode> --seed S --cases N --out DIR [--only K] [--script NAME] [--boost B]`
pub struct Opts { pub mode: String, pub seed: u64, pub cases: usize, pub out: String, pub only: Option<usize>, pub script: Option<String>, pub boost: u64, pub rest: Vec<String> }
pub fn opts() -> Opts {
    let a: Vec<String> = std::env::args().collect();
    let mut o = Opts { mode: a.get(1).cloned().unwrap_or_default(), seed: 1, cases: 20, out: ".".into(), only: None, script: None, boost: 1, rest: vec![] };
    let mut i = 2;
    while i < a.len() {
        match a[i].as_str() {
            "--seed" => { o.seed = a[i + 1].parse().unwrap(); i += 2; }
            "--cases" => { o.cases = a[i + 1].parse().unwrap(); i += 2; }
            "--out" => { o.out = a[i + 1].clone(); i += 2; }
            "--only" => { o.only = Some(a[i + 1].parse().unwrap()); i += 2; }
            "--script" => { o.script = Some(a[i + 1].clone()); i += 2; }
            "--boost" => { o.boost = a[i + 1].parse().unwrap(); i += 2; }
            _ => { o.rest.push(a[i].clone()); i += 1; }
        }
    }
    o
}

/// Collected output of one harness run: a Coq file evaluating the model on every case, plus a JSON
/// description (per-case replay data, input distribution).
pub struct Emit {
    pub header: String,
    pub body: String,
    pub cases: Vec<serde_json::Value>,
    pub stats: BTreeMap<String, u64>,
}
impl Emit {
    pub fn new(imports: &str) -> Self {
        Emit { header: format!("From Coq Require Import List NArith Bool.\nFrom HS Require Import {}.\nImport ListNotations.\nOpen Scope N_scope.\n", imports),
               body: String::new(), cases: vec![], stats: BTreeMap::new() }
    }
    pub fn stat(&mut self, k: &str, n: u64) { *self.stats.entry(k.to_string()).or_insert(0) += n; }
    /// `defs` = Gallina definitions local to the case; `verdict` = a term of type `list N`.
    pub fn case(&mut self, k: usize, defs: &str, verdict: &str, replay: serde_json::Value) {
        writeln!(self.body, "Module Case{}.\n{}Definition verdict : list N := {}.\nEnd Case{}.\nEval vm_compute in (VERDICT, {}, Case{}.verdict).", k, defs, verdict, k, k, k).unwrap();
        self.cases.push(replay);
    }
    pub fn finish(self, out: &str, name: &str, seed: u64) {
        std::fs::create_dir_all(out).unwrap();
        std::fs::write(format!("{}/cases_{}.v", out, name), format!("{}Definition VERDICT := 424242.\n{}", self.header, self.body)).unwrap();
        let j = serde_json::json!({ "name": name, "seed": seed, "cases": self.cases, "stats": self.stats });
        std::fs::write(format!("{}/meta_{}.json", out, name), serde_json::to_string(&j).unwrap()).unwrap();
    }
}
