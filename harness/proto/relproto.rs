use bytes::Bytes;
use futures::{SinkExt, StreamExt};
use network::ReliableSender;
use std::net::SocketAddr;
use tokio::net::TcpListener;
use tokio::time::{timeout, Duration};
use tokio_util::codec::{Framed, LengthDelimitedCodec};

#[tokio::main(flavor = "current_thread")]
async fn main() {
    let t0 = std::time::Instant::now();
    let addr: SocketAddr = "127.0.0.1:7311".parse().unwrap();
    let mut sender = ReliableSender::new();
    let h1 = sender.send(addr, Bytes::from("m1")).await;
    let h2 = sender.send(addr, Bytes::from("m2")).await;
    let h3 = sender.send(addr, Bytes::from("m3")).await;
    tokio::time::sleep(Duration::from_millis(50)).await; // first connect attempt fails
    drop(h2);
    let listener = TcpListener::bind(addr).await.unwrap();
    // connection 1: read two frames, ack the first, close
    let (sock, _) = listener.accept().await.unwrap();
    let mut fr = Framed::new(sock, LengthDelimitedCodec::new());
    let a = fr.next().await.unwrap().unwrap();
    let b = fr.next().await.unwrap().unwrap();
    println!("conn1 frames: {:?} {:?}", a, b);
    let extra = timeout(Duration::from_millis(100), fr.next()).await;
    println!("conn1 third frame within 100ms: {}", extra.is_ok());
    fr.send(Bytes::from("ack-A")).await.unwrap();
    let r1 = timeout(Duration::from_secs(2), h1).await;
    println!("h1 -> {:?}", r1);
    drop(fr);
    // connection 2
    let (sock, _) = timeout(Duration::from_secs(5), listener.accept()).await.unwrap().unwrap();
    let mut fr = Framed::new(sock, LengthDelimitedCodec::new());
    let c = fr.next().await.unwrap().unwrap();
    println!("conn2 frames: {:?}", c);
    let h4 = sender.send(addr, Bytes::from("m4")).await;
    let d = fr.next().await.unwrap().unwrap();
    println!("conn2 next: {:?}", d);
    fr.send(Bytes::from("ack-B")).await.unwrap();
    fr.send(Bytes::from("ack-C")).await.unwrap();
    println!("h3 -> {:?}", timeout(Duration::from_secs(2), h3).await);
    println!("h4 -> {:?}", timeout(Duration::from_secs(2), h4).await);
    println!("elapsed {:?}", t0.elapsed());
}
