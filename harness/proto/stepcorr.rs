// Prototype: step-mode correspondence harness. Drives a real consensus `Core` (plus real Synchronizer,
// MempoolDriver/PayloadWaiter, Proposer, Store, SignatureService) with generated event sequences and
// writes a Coq file in which the executable model is run on the same events and compared.
use consensus::verif::*;
use consensus::Committee;
use crypto::Hash as _;
use crypto::{generate_keypair, Digest, PublicKey, SecretKey, Signature, SignatureService};
use rand::rngs::StdRng;
use rand::seq::SliceRandom;
use rand::{Rng, SeedableRng};
use std::collections::HashMap;
use std::fmt::Write as _;
use store::Store;
use tokio::sync::mpsc::{channel, Receiver};

struct Abs {
    keys: Vec<(PublicKey, SecretKey)>, // sorted by public key: index = authority id
    digests: HashMap<[u8; 32], String>,
    sigs: HashMap<Vec<u8>, String>,
    junk: u64,
    defs: String,
    nblk: usize,
    bnames: HashMap<Vec<u8>, String>,
}

fn sig_bytes(s: &Signature) -> Vec<u8> { bincode::serialize(s).unwrap() }

impl Abs {
    fn id(&self, pk: &PublicKey) -> usize { self.keys.iter().position(|(k, _)| k == pk).map(|i| i).unwrap_or(99) }
    fn dg(&mut self, d: &Digest) -> String {
        if d.0 == [0u8; 32] { return "DZero".into(); }
        if let Some(s) = self.digests.get(&d.0) { return s.clone(); }
        self.junk += 1; let s = format!("(DOther {})", self.junk); self.digests.insert(d.0, s.clone()); s
    }
    fn sg(&mut self, s: &Signature) -> String {
        if let Some(x) = self.sigs.get(&sig_bytes(s)) { return x.clone(); }
        self.junk += 1; format!("(SigJunk {})", self.junk)
    }
    fn qc(&mut self, q: &QC) -> String {
        let votes: Vec<String> = q.votes.iter().map(|(pk, s)| format!("({}, {})", self.id(pk), self.sg(s))).collect();
        format!("(mkQC {} {} [{}])", self.dg(&q.hash), q.round, votes.join("; "))
    }
    fn tc(&mut self, t: &TC) -> String {
        let votes: Vec<String> = t.votes.iter().map(|(pk, s, r)| format!("({}, {}, {})", self.id(pk), self.sg(s), r)).collect();
        format!("(mkTC {} [{}])", t.round, votes.join("; "))
    }
    fn otc(&mut self, t: &Option<TC>) -> String { match t { Some(t) => format!("(Some {})", self.tc(t)), None => "None".into() } }
    // register a block: define its digest term and the block term by name
    fn block(&mut self, b: &Block) -> String {
        if b.author == PublicKey::default() && b.round == 0 { return "block_genesis".into(); }
        let key = bincode::serialize(b).unwrap();
        if let Some(n) = self.bnames.get(&key) { return n.clone(); }
        let d = b.digest();
        if !self.digests.contains_key(&d.0) {
            let parent = self.dg(&b.qc.hash);
            let name = format!("d{}", self.nblk);
            writeln!(self.defs, "Definition {} := DBlk {} {} [] {}.", name, self.id(&b.author), b.round, parent).unwrap();
            self.digests.insert(d.0, name);
        }
        let dn = self.dg(&d);
        // the author's signature over the block digest, if it verifies
        if b.signature.verify(&d, &b.author).is_ok() {
            let a = self.id(&b.author);
            self.sigs.insert(sig_bytes(&b.signature), format!("(SigOf {} (CBlock {}))", a, dn));
        }
        let name = format!("b{}", self.nblk); self.nblk += 1;
        let term = format!("mkBlock {} {} {} {} [] {}", self.qc(&b.qc), self.otc(&b.tc), self.id(&b.author), b.round, self.sg(&b.signature));
        writeln!(self.defs, "Definition {} := {}.", name, term).unwrap();
        self.bnames.insert(key, name.clone());
        name
    }
    fn vote(&mut self, v: &Vote) -> String {
        if v.signature.verify(&v.digest(), &v.author).is_ok() {
            let t = format!("(SigOf {} (CVote {} {}))", self.id(&v.author), self.dg(&v.hash), v.round);
            self.sigs.insert(sig_bytes(&v.signature), t);
        }
        format!("(mkVote {} {} {} {})", self.dg(&v.hash), v.round, self.id(&v.author), self.sg(&v.signature))
    }
    fn timeout(&mut self, t: &Timeout) -> String {
        if t.signature.verify(&t.digest(), &t.author).is_ok() {
            let s = format!("(SigOf {} (CTimeout {} {}))", self.id(&t.author), t.round, t.high_qc.round);
            self.sigs.insert(sig_bytes(&t.signature), s);
        }
        format!("(mkTimeout {} {} {} {})", self.qc(&t.high_qc), t.round, self.id(&t.author), self.sg(&t.signature))
    }
    // signatures the generator makes on behalf of other authorities
    fn sign_vote(&mut self, a: usize, hash: &Digest, round: u64) -> Signature {
        let v = Vote { hash: hash.clone(), round, author: self.keys[a].0, signature: Signature::default() };
        let s = Signature::new(&v.digest(), &self.keys[a].1);
        let t = format!("(SigOf {} (CVote {} {}))", a, self.dg(hash), round);
        self.sigs.insert(sig_bytes(&s), t); s
    }
    fn sign_timeout(&mut self, a: usize, round: u64, hq: u64) -> Signature {
        let t = Timeout { high_qc: QC { hash: Digest::default(), round: hq, votes: vec![] }, round, author: self.keys[a].0, signature: Signature::default() };
        let s = Signature::new(&t.digest(), &self.keys[a].1);
        self.sigs.insert(sig_bytes(&s), format!("(SigOf {} (CTimeout {} {}))", a, round, hq)); s
    }
}

fn mk_block(abs: &mut Abs, qc: QC, tc: Option<TC>, round: u64) -> Block {
    let n = abs.keys.len();
    let a = (round as usize) % n;
    let b = Block { qc, tc, author: abs.keys[a].0, round, payload: vec![], signature: Signature::default() };
    let signature = Signature::new(&b.digest(), &abs.keys[a].1);
    Block { signature, ..b }
}
fn mk_qc(abs: &mut Abs, b: &Block, signers: &[usize]) -> QC {
    let d = b.digest();
    let votes = signers.iter().map(|&a| (abs.keys[a].0, abs.sign_vote(a, &d, b.round))).collect();
    QC { hash: d, round: b.round, votes }
}
fn mk_tc(abs: &mut Abs, round: u64, hq: u64, signers: &[usize]) -> TC {
    TC { round, votes: signers.iter().map(|&a| (abs.keys[a].0, abs.sign_timeout(a, round, hq), hq)).collect() }
}

async fn settle() { for _ in 0..64 { tokio::task::yield_now().await; } }
fn drain<T>(rx: &mut Receiver<T>) -> Vec<T> { let mut v = vec![]; while let Ok(x) = rx.try_recv() { v.push(x); } v }

enum Ev { Propose(Block), Vote(Vote), Timeout(Timeout), TC(TC), Timer, Loop }

async fn run_case(seed: u64, case: usize, out: &mut String, stats: &mut HashMap<&'static str, usize>) {
    let mut rng = StdRng::seed_from_u64(seed.wrapping_mul(1_000_003).wrapping_add(case as u64));
    let n = rng.gen_range(4, 8usize);
    let mut keys: Vec<(PublicKey, SecretKey)> = (0..n).map(|_| generate_keypair(&mut rng)).collect();
    keys.sort_by_key(|(pk, _)| *pk);
    let me = rng.gen_range(0, n);
    let com = Committee::new(keys.iter().enumerate().map(|(i, (pk, _))| (*pk, 1, format!("127.0.0.1:{}", 9000 + i).parse().unwrap())).collect(), 1);
    let quorum = 2 * n / 3 + 1;
    let mut abs = Abs { keys, digests: HashMap::new(), sigs: HashMap::new(), junk: 0, defs: String::new(), nblk: 0, bnames: HashMap::new() };

    // ---- generate a block tree: a main chain with gaps (TC-justified) and occasional forks ----
    let mut blocks: Vec<Block> = vec![];
    let mut tip: Option<Block> = None;
    let mut round = 0u64;
    let len = rng.gen_range(3, 9);
    let all: Vec<usize> = (0..n).collect();
    for _ in 0..len {
        let gap = if rng.gen_bool(0.35) { rng.gen_range(1, 4u64) } else { 0 };
        round += 1 + gap;
        let mut signers = all.clone(); signers.shuffle(&mut rng); signers.truncate(quorum + rng.gen_range(0, n - quorum + 1));
        let (qc, qr) = match &tip { Some(t) => (mk_qc(&mut abs, t, &signers), t.round), None => (QC::genesis(), 0) };
        let tc = if gap > 0 { let mut s2 = all.clone(); s2.shuffle(&mut rng); s2.truncate(quorum); Some(mk_tc(&mut abs, round - 1, qr, &s2)) } else { None };
        let b = mk_block(&mut abs, qc, tc, round);
        let _ = abs.block(&b);
        blocks.push(b.clone());
        tip = Some(b);
    }
    // events: proposals in a locally shuffled order, plus timers, stale/future votes, a TC
    let mut evs: Vec<Ev> = vec![];
    let mut order: Vec<usize> = (0..blocks.len()).collect();
    for i in 0..order.len().saturating_sub(1) { if rng.gen_bool(0.3) { order.swap(i, i + 1); } }
    for &i in &order {
        if rng.gen_bool(0.15) { evs.push(Ev::Timer); }
        evs.push(Ev::Propose(blocks[i].clone()));
        if rng.gen_bool(0.5) { evs.push(Ev::Loop); }
        if rng.gen_bool(0.2) {
            let b = &blocks[i]; let a = rng.gen_range(0, n);
            let s = abs.sign_vote(a, &b.digest(), b.round);
            evs.push(Ev::Vote(Vote { hash: b.digest(), round: b.round, author: abs.keys[a].0, signature: s }));
        }
        if rng.gen_bool(0.15) {
            let r = blocks[i].round + rng.gen_range(0, 2); let a = rng.gen_range(0, n);
            let s = abs.sign_timeout(a, r, 0);
            evs.push(Ev::Timeout(Timeout { high_qc: QC::genesis(), round: r, author: abs.keys[a].0, signature: s }));
        }
        if rng.gen_bool(0.1) { let r = blocks[i].round; let tc = mk_tc(&mut abs, r, 0, &all[..quorum]); evs.push(Ev::TC(tc)); }
    }
    for _ in 0..3 { evs.push(Ev::Loop); }

    // ---- the real node ----
    network::verif::tap_start();
    let path = format!("/tmp/hs/db_step_{}", case);
    let _ = std::fs::remove_dir_all(&path);
    let store = Store::new(&path).unwrap();
    let (name, secret) = (abs.keys[me].0, SecretKey::decode_base64(&abs.keys[me].1.encode_base64()).unwrap());
    let (_tx_core, rx_core) = channel(10);
    let (tx_loopback, mut rx_loopback) = channel(10_000);
    let (tx_proposer, mut rx_proposer) = channel(10_000);
    let (tx_prop_real, rx_prop_real) = channel(10_000);
    let (tx_mempool, mut rx_mempool) = channel(10_000);
    let (tx_commit, mut rx_commit) = channel(10_000);
    let (_tx_digest, rx_digest) = channel::<Digest>(10_000);
    let (_d, rx_dummy) = channel(10);
    let sigs = SignatureService::new(secret);
    let md = MempoolDriver::new(store.clone(), tx_mempool, tx_loopback.clone());
    let sy = Synchronizer::new(name, com.clone(), store.clone(), tx_loopback.clone(), 100_000_000);
    Proposer::spawn(name, com.clone(), sigs.clone(), rx_digest, rx_prop_real, tx_loopback);
    let mut core = Core::verif_new(name, com.clone(), sigs, store.clone(), LeaderElector::new(com.clone()), md, sy, 1_000_000_000, rx_core, rx_dummy, tx_proposer, tx_commit);

    let mut pool: Vec<Block> = vec![];
    let mut ev_terms: Vec<String> = vec![];
    let mut ob_terms: Vec<String> = vec![];
    // boot
    let mut queue: Vec<Ev> = evs;
    queue.insert(0, Ev::Timer); // placeholder replaced by Boot below
    let mut first = true;
    for ev in queue {
        let (term, ve) = if first { first = false; ("EvBoot".to_string(), VerifEvent::Boot) } else {
            match ev {
                Ev::Propose(b) => { let nm = abs.block(&b); (format!("EvPropose {}", nm), VerifEvent::Message(ConsensusMessage::Propose(b))) }
                Ev::Vote(v) => (format!("EvVote {}", abs.vote(&v)), VerifEvent::Message(ConsensusMessage::Vote(v))),
                Ev::Timeout(t) => (format!("EvTimeout {}", abs.timeout(&t)), VerifEvent::Message(ConsensusMessage::Timeout(t))),
                Ev::TC(tc) => (format!("EvTC {}", abs.tc(&tc)), VerifEvent::Message(ConsensusMessage::TC(tc))),
                Ev::Timer => ("EvTimer".to_string(), VerifEvent::Timer),
                Ev::Loop => { if pool.is_empty() { continue; } let b = pool.remove(rng.gen_range(0, pool.len())); let nm = abs.block(&b); (format!("EvLoopback {}", nm), VerifEvent::Loopback(b)) }
            }
        };
        *stats.entry(match &ve { VerifEvent::Boot => "boot", VerifEvent::Timer => "timer", VerifEvent::Loopback(_) => "loopback",
            VerifEvent::Message(ConsensusMessage::Propose(_)) => "propose", VerifEvent::Message(ConsensusMessage::Vote(_)) => "vote",
            VerifEvent::Message(ConsensusMessage::Timeout(_)) => "timeout", _ => "tc" }).or_insert(0) += 1;
        let r = core.verif_event(ve).await;
        settle().await;
        // proposer messages: log and relay to the real proposer, then let it run
        let pms = drain(&mut rx_proposer);
        let mut prop_terms = vec![];
        for m in pms {
            match &m { ProposerMessage::Make(r, qc, tc) => prop_terms.push(format!("OProposer (PMake {} {} {})", r, abs.qc(qc), abs.otc(tc))),
                       ProposerMessage::Cleanup(_) => prop_terms.push("OProposer (PCleanup [])".to_string()) }
            tx_prop_real.send(m).await.unwrap();
        }
        settle().await;
        let mut net_terms: Vec<String> = vec![]; let mut last: Option<Vec<u8>> = None;
        for (_rel, addr, bytes) in network::verif::tap_drain() {
            if last.as_deref() == Some(&bytes[..]) { continue; } last = Some(bytes.to_vec());
            match bincode::deserialize::<ConsensusMessage>(&bytes).unwrap() {
                ConsensusMessage::Vote(v) => net_terms.push(format!("OVote {} {}", addr.port() - 9000, abs.vote(&v))),
                ConsensusMessage::Timeout(t) => net_terms.push(format!("OTimeout {}", abs.timeout(&t))),
                ConsensusMessage::TC(tc) => { *stats.entry("out_tc").or_insert(0) += 1; net_terms.push(format!("OTC {}", abs.tc(&tc))) }
                ConsensusMessage::Propose(b) => { *stats.entry("out_propose").or_insert(0) += 1; let nm = abs.block(&b); net_terms.push(format!("OPropose {}", nm)) }
                ConsensusMessage::SyncRequest(d, _) => { *stats.entry("out_sync").or_insert(0) += 1; net_terms.push(format!("OSyncReq {} {}", addr.port() - 9000, abs.dg(&d))) }
            }
        }
        let commits: Vec<String> = drain(&mut rx_commit).iter().map(|b| { *stats.entry("out_commit").or_insert(0) += 1; format!("OCommit {}", abs.block(b)) }).collect();
        let mems: Vec<String> = drain(&mut rx_mempool).into_iter().map(|m| match m {
            mempool::ConsensusMempoolMessage::Cleanup(r) => format!("OMemCleanup {}", r),
            mempool::ConsensusMempoolMessage::Synchronize(_, _) => "OMemSync [] 0".to_string() }).collect();
        for b in drain(&mut rx_loopback) { pool.push(b); }
        let (r0, lv, lc, hq) = core.verif_state();
        let mut outs = net_terms; outs.extend(commits); outs.extend(mems); outs.extend(prop_terms);
        ev_terms.push(format!("([], {})", term));
        ob_terms.push(format!("mkObs [{}] {} ({}, {}, {}, {})", outs.join("; "), if r.is_ok() { "KOk" } else { "KErr" }, r0, lv, lc, hq.round));
    }
    let stakes: Vec<String> = (0..n).map(|i| format!("({},1)", i)).collect();
    writeln!(out, "Module Case{}.\n{}Definition evs : list (list N * Event) := [{}].\nDefinition obs : list Obs := [{}].\nDefinition verdict := agree (mkCommittee [{}]) {} false evs obs (init (mkCommittee [{}])) 0.\nEnd Case{}.",
        case, abs.defs, ev_terms.join(";\n  "), ob_terms.join(";\n  "), stakes.join(";"), me, stakes.join(";"), case).unwrap();
    let _ = std::fs::remove_dir_all(&path);
}

fn main() {
    let seed: u64 = std::env::args().nth(1).and_then(|x| x.parse().ok()).unwrap_or(1);
    let cases: usize = std::env::args().nth(2).and_then(|x| x.parse().ok()).unwrap_or(20);
    let outp = std::env::args().nth(3).unwrap_or("/tmp/hs/cases.v".into());
    std::panic::set_hook(Box::new(|i| eprintln!("PANIC {}", i)));
    let rt = tokio::runtime::Builder::new_current_thread().enable_all().start_paused(true).build().unwrap();
    let t0 = std::time::Instant::now();
    let mut out = String::from("From Coq Require Import List NArith.\nFrom HS Require Import Node Corr.\nImport ListNotations.\nOpen Scope N_scope.\n");
    let mut stats = HashMap::new();
    rt.block_on(async { for k in 0..cases { run_case(seed, k, &mut out, &mut stats).await; } });
    let names: Vec<String> = (0..cases).map(|k| format!("Case{}.verdict", k)).collect();
    writeln!(out, "Eval vm_compute in [{}].", names.join("; ")).unwrap();
    std::fs::write(&outp, out).unwrap();
    eprintln!("cases={} elapsed={:?} stats={:?}", cases, t0.elapsed(), stats);
}
