// Prototype: socket-mode check for C15. One fully wired node (Consensus::spawn + Mempool::spawn on one
// store), real loopback TCP, a process-wide panic hook, hostile inputs, then functional probes.
use bytes::Bytes;
use consensus::verif::*;
use consensus::{Committee as CCommittee, Consensus, Parameters as CParams};
use crypto::Hash as _;
use crypto::{generate_keypair, Digest, PublicKey, SecretKey, Signature, SignatureService};
use futures::{SinkExt, StreamExt};
use mempool::{Committee as MCommittee, Mempool, MempoolMessage, Parameters as MParams};
use rand::rngs::StdRng;
use rand::SeedableRng;
use std::sync::{Arc, Mutex};
use store::Store;
use tokio::net::{TcpListener, TcpStream};
use tokio::sync::mpsc::channel;
use tokio::time::{sleep, timeout, Duration};
use tokio_util::codec::{Framed, LengthDelimitedCodec};

async fn send_frames(port: u16, frames: Vec<Vec<u8>>) -> usize {
    let stream = TcpStream::connect(("127.0.0.1", port)).await.unwrap();
    let mut fr = Framed::new(stream, LengthDelimitedCodec::new());
    let mut replies = 0;
    for f in frames {
        if fr.send(Bytes::from(f)).await.is_err() { break; }
        if let Ok(Some(Ok(_))) = timeout(Duration::from_millis(100), fr.next()).await { replies += 1; }
    }
    replies
}

#[tokio::main(flavor = "multi_thread", worker_threads = 4)]
async fn main() {
    let panics: Arc<Mutex<Vec<String>>> = Arc::new(Mutex::new(vec![]));
    let p2 = panics.clone();
    std::panic::set_hook(Box::new(move |i| {
        p2.lock().unwrap().push(format!("{}", i.location().map(|l| format!("{}:{}", l.file(), l.line())).unwrap_or_default()));
    }));
    let base: u16 = 21000;
    let mut rng = StdRng::from_seed([3; 32]);
    let mut keys: Vec<(PublicKey, SecretKey)> = (0..4).map(|_| generate_keypair(&mut rng)).collect();
    keys.sort_by_key(|(pk, _)| *pk);
    let ccom = CCommittee::new(keys.iter().enumerate().map(|(i, (pk, _))| (*pk, 1, format!("127.0.0.1:{}", base + i as u16).parse().unwrap())).collect(), 1);
    let mcom = MCommittee::new(keys.iter().enumerate().map(|(i, (pk, _))| (*pk, 1,
        format!("127.0.0.1:{}", base + 100 + i as u16).parse().unwrap(), format!("127.0.0.1:{}", base + 200 + i as u16).parse().unwrap())).collect(), 1);
    let me = 0usize;
    let path = "/tmp/hs/db_sock"; let _ = std::fs::remove_dir_all(path);
    let store = Store::new(path).unwrap();
    let (tx_commit, mut rx_commit) = channel(1000);
    let (tx_c2m, rx_c2m) = channel(1000);
    let (tx_m2c, rx_m2c) = channel(1000);
    let secret = SecretKey::decode_base64(&keys[me].1.encode_base64()).unwrap();
    Mempool::spawn(keys[me].0, mcom.clone(), MParams { batch_size: 50, max_batch_delay: 20, ..MParams::default() }, store.clone(), rx_c2m, tx_m2c);
    Consensus::spawn(keys[me].0, ccom.clone(), CParams { timeout_delay: 60_000, sync_retry_delay: 60_000 }, SignatureService::new(secret), store.clone(), rx_m2c, tx_c2m, tx_commit);
    tokio::spawn(async move { while rx_commit.recv().await.is_some() {} });
    sleep(Duration::from_millis(200)).await;

    // a listener standing for authority 1 (consensus port and mempool port) to receive sync replies
    let got: Arc<Mutex<Vec<(u16, usize)>>> = Arc::new(Mutex::new(vec![]));
    for port in [base + 1, base + 201] {
        let got = got.clone();
        tokio::spawn(async move {
            let l = TcpListener::bind(("127.0.0.1", port)).await.unwrap();
            loop { let (s, _) = l.accept().await.unwrap(); let got = got.clone();
                tokio::spawn(async move { let mut fr = Framed::new(s, LengthDelimitedCodec::new());
                    while let Some(Ok(f)) = fr.next().await { got.lock().unwrap().push((port, f.len())); } }); }
        });
    }
    sleep(Duration::from_millis(100)).await;
    let count = |p: &Arc<Mutex<Vec<String>>>| p.lock().unwrap().len();

    // ---- probe 0 (sanity before any hostile input): a block sync request for a stored block is answered
    let b = { let blk = Block { qc: QC::genesis(), tc: None, author: keys[1].0, round: 1, payload: vec![], signature: Signature::default() };
              let s = Signature::new(&blk.digest(), &keys[1].1); Block { signature: s, ..blk } };
    send_frames(base, vec![bincode::serialize(&ConsensusMessage::Propose(b.clone())).unwrap()]).await;
    sleep(Duration::from_millis(200)).await;
    send_frames(base, vec![bincode::serialize(&ConsensusMessage::SyncRequest(b.digest(), keys[1].0)).unwrap()]).await;
    sleep(Duration::from_millis(300)).await;
    println!("probe0 block-sync replies seen: {:?} panics={}", got.lock().unwrap().clone(), count(&panics));

    // ---- hostile 1: a vote whose author key is a too-short base64 string
    let mut v = bincode::serialize(&ConsensusMessage::Vote(Vote { hash: Digest::default(), round: 1, author: keys[1].0, signature: Signature::default() })).unwrap();
    // layout: u32 variant, 32 bytes hash, u64 round, then the key as (u64 len = 44, 44 chars)
    let off = 4 + 32 + 8; v[off] = 4; v.truncate(off + 8); v.extend_from_slice(b"AA=="); v.extend_from_slice(&[0u8; 64]);
    send_frames(base, vec![v]).await; sleep(Duration::from_millis(200)).await;
    println!("after short-key vote: panics={:?}", panics.lock().unwrap().clone());

    // ---- hostile 2: make the store hold a batch, then ask the *consensus* helper for that digest
    let batch = bincode::serialize(&MempoolMessage::Batch(vec![vec![1u8; 10], vec![2u8; 20]])).unwrap();
    let digest = { use ed25519_dalek::Digest as _; let h = ed25519_dalek::Sha512::digest(&batch); let mut d = [0u8; 32]; d.copy_from_slice(&h[..32]); Digest(d) };
    let acks = send_frames(base + 200, vec![batch]).await; sleep(Duration::from_millis(200)).await;
    let before = count(&panics);
    send_frames(base, vec![bincode::serialize(&ConsensusMessage::SyncRequest(digest.clone(), keys[1].0)).unwrap()]).await;
    sleep(Duration::from_millis(300)).await;
    println!("batch acked={} ; after cross-store sync request: new panics={:?}", acks, panics.lock().unwrap()[before..].to_vec());

    // ---- probe again: is the block sync service still alive?
    got.lock().unwrap().clear(); let before = count(&panics);
    send_frames(base, vec![bincode::serialize(&ConsensusMessage::SyncRequest(b.digest(), keys[1].0)).unwrap()]).await;
    sleep(Duration::from_millis(300)).await;
    println!("probe1 block-sync replies seen: {:?} new panics={:?}", got.lock().unwrap().clone(), panics.lock().unwrap()[before..].to_vec());

    // ---- probe: batch sync and transaction batching still alive?
    got.lock().unwrap().clear();
    send_frames(base + 200, vec![bincode::serialize(&MempoolMessage::BatchRequest(vec![digest], keys[1].0)).unwrap()]).await;
    send_frames(base + 100, vec![vec![7u8; 60]]).await;
    sleep(Duration::from_millis(400)).await;
    println!("probe2 batch-sync/tx replies seen: {:?} total panics={}", got.lock().unwrap().clone(), count(&panics));
    std::process::exit(0);
}
