use consensus::verif::*;
use crypto::{generate_keypair, Digest, PublicKey, SecretKey, Signature};
use crypto::Hash as _;
use rand::rngs::StdRng;
use rand::{Rng, SeedableRng};
use std::panic::{catch_unwind, AssertUnwindSafe};
use std::sync::atomic::{AtomicUsize, Ordering};
use std::sync::Mutex;
use std::collections::BTreeMap;

static PANICS: AtomicUsize = AtomicUsize::new(0);


fn main() {
    let sites: &'static Mutex<BTreeMap<String, (usize, Vec<u8>)>> = Box::leak(Box::new(Mutex::new(BTreeMap::new())));
    let cur: &'static Mutex<Vec<u8>> = Box::leak(Box::new(Mutex::new(Vec::new())));
    std::panic::set_hook(Box::new(move |i| {
        PANICS.fetch_add(1, Ordering::SeqCst);
        let loc = i.location().map(|l| format!("{}:{}", l.file(), l.line())).unwrap_or_default();
        let mut m = sites.lock().unwrap();
        let e = m.entry(loc).or_insert((0, cur.lock().unwrap().clone()));
        e.0 += 1;
    }));
    let mut rng = StdRng::from_seed([7; 32]);
    let ks: Vec<(PublicKey, SecretKey)> = (0..4).map(|_| generate_keypair(&mut rng)).collect();
    // valid seeds
    let b = Block { qc: QC::genesis(), tc: None, author: ks[0].0, round: 1, payload: vec![Digest([3u8; 32])], signature: Signature::default() };
    let qc = QC { hash: b.digest(), round: 1, votes: ks.iter().map(|(pk, sk)| (*pk, Signature::new(&b.digest(), sk))).collect() };
    let tc = TC { round: 2, votes: ks.iter().map(|(pk, sk)| (*pk, Signature::new(&b.digest(), sk), 1)).collect() };
    let b2 = Block { qc: qc.clone(), tc: Some(tc.clone()), author: ks[1].0, round: 3, payload: vec![], signature: Signature::default() };
    let v = Vote { hash: b.digest(), round: 1, author: ks[2].0, signature: Signature::default() };
    let t = Timeout { high_qc: qc.clone(), round: 2, author: ks[3].0, signature: Signature::default() };
    let seeds: Vec<Vec<u8>> = vec![
        bincode::serialize(&ConsensusMessage::Propose(b)).unwrap(),
        bincode::serialize(&ConsensusMessage::Propose(b2)).unwrap(),
        bincode::serialize(&ConsensusMessage::Vote(v)).unwrap(),
        bincode::serialize(&ConsensusMessage::Timeout(t)).unwrap(),
        bincode::serialize(&ConsensusMessage::TC(tc)).unwrap(),
        bincode::serialize(&ConsensusMessage::SyncRequest(Digest([1; 32]), ks[0].0)).unwrap(),
        bincode::serialize(&mempool::verif_msg_batch(vec![vec![1, 2, 3], vec![]])).unwrap_or_default(),
    ];
    let mut ok = 0usize; let mut err = 0usize;
    let n: usize = std::env::args().nth(1).and_then(|x| x.parse().ok()).unwrap_or(200000);
    for i in 0..n {
        let mut d = seeds[i % seeds.len()].clone();
        if d.is_empty() { continue; }
        match rng.gen_range(0, 6) {
            0 => { let k = rng.gen_range(0, d.len()); d[k] ^= 1 << rng.gen_range(0, 8); }
            1 => { let k = rng.gen_range(0, d.len()); d.truncate(k); }
            2 => { let k = rng.gen_range(0, d.len()); d[k] = rng.gen(); }
            3 => { let k = rng.gen_range(0, d.len()); let x: u8 = rng.gen(); d.insert(k, x); }
            4 => { for _ in 0..rng.gen_range(1, 8) { let k = rng.gen_range(0, d.len()); d[k] = rng.gen(); } }
            _ => { let l = rng.gen_range(0, 300); d = (0..l).map(|_| rng.gen()).collect(); }
        }
        *cur.lock().unwrap() = d.clone();
        let r = catch_unwind(AssertUnwindSafe(|| {
            let a = bincode::deserialize::<ConsensusMessage>(&d).is_ok();
            let b = mempool::verif_decode(&d);
            let c = bincode::deserialize::<Block>(&d).is_ok();
            (a, b, c)
        }));
        match r { Ok((a, _, _)) => if a { ok += 1 } else { err += 1 }, Err(_) => {} }
    }
    println!("cases={} consensus_ok={} consensus_err={} panics={}", n, ok, err, PANICS.load(Ordering::SeqCst));
    for (loc, (cnt, ex)) in sites.lock().unwrap().iter() {
        println!("PANIC SITE {} x{} example_len={} head={:?}", loc, cnt, ex.len(), &ex[..ex.len().min(24)]);
    }
}
